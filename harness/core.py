"""Shared machinery of the checks: seeded generation of exact (dyadic) inputs, Coq literal printing, the
regenerate/build/Print-Assumptions step, in-Coq correspondence evaluation, verdict and evidence.

Every check is   ./check <ID> [--tier quick|thorough] [--replay file]   and goes through `run_property`.
"""
import fcntl
import hashlib
import json
import os
import random
import re
import subprocess
import sys
import time
import traceback
from fractions import Fraction

VERIF = os.path.dirname(os.path.dirname(os.path.abspath(__file__)))
REPO = os.environ.get('VERIF_REPO', '/repo')
COQ = os.path.join(VERIF, 'coq')
CASES = os.path.join(COQ, 'Cases')
GUARD = 'DEVICE_KIT_VERIF'

os.environ[GUARD] = '1'
os.environ.setdefault('PYTHONHASHSEED', '0')
if REPO not in sys.path:
  sys.path.insert(0, REPO)

ALLOWED_AXIOMS = {
  'ClassicalDedekindReals.sig_forall_dec',
  'ClassicalDedekindReals.sig_not_dec',
  'FunctionalExtensionality.functional_extensionality_dep',
  'functional_extensionality_dep',
  'sig_forall_dec', 'sig_not_dec',
  'Classical_Prop.classic', 'classic',
}

TRUSTED_BASE = [
  'Coq 8.16.1 kernel incl. the vm_compute virtual machine (no native_compute)',
  'axioms (stdlib/Coquelicot only, as printed by Print Assumptions): ClassicalDedekindReals.sig_forall_dec, '
  'ClassicalDedekindReals.sig_not_dec, FunctionalExtensionality.functional_extensionality_dep, Classical_Prop.classic',
  'translator/py2coq.py + the fifteen *_tx.py translators (Python-ast -> Gallina; kernels / validators / signatures: when the source is '
  'outside the whitelist or the proofs do not go through on the regenerated text, the committed snapshot translator/snapshots/*.v is used '
  'and tied to the code by the probe correspondences of harness/probes.py - see coverage.translator_fallback; the others degrade per '
  'method to an alias of the hand model, listed under coverage.<file>_fallback_to_hand_model, and a regenerated text that breaks a proof '
  'is compared with its snapshot by exact evaluation inside Coq, harness/genprobe.py) together with the hand-written semantics of the '
  'Python / NumPy idioms they emit (coq/Model/*Ops.v)',
  'harness: case generators, float.as_integer_ratio conversion, Coq literal printer, tolerance 1e-9 (rel+abs)',
  'hand-written Gallina model of the NumPy plumbing (tied to the code only by the correspondence run)',
  'Python 3.12 / NumPy / SciPy semantics as exercised; IEEE rounding is outside the model',
]


# ---------------------------------------------------------------------------------------------------
# exact numbers
# ---------------------------------------------------------------------------------------------------
def dy(rng, lo, hi, m=4):
  """A dyadic rational k/2^m in [lo, hi] (lo, hi numbers). Exactly representable as a double."""
  s = 1 << m
  a, b = int(Fraction(lo) * s), int(Fraction(hi) * s)
  if Fraction(a, s) < Fraction(lo):
    a += 1
  if b < a:
    b = a
  return Fraction(rng.randint(a, b), s)


def fl(x):
  """Fraction/number (or nested list of them) -> float(s), exact for dyadics."""
  if isinstance(x, (list, tuple)):
    return [fl(v) for v in x]
  return float(x)


def fr(x):
  """float (or nested array) -> exact Fraction(s). Non-finite raises ValueError."""
  import numpy as np
  if isinstance(x, (list, tuple)):
    return [fr(v) for v in x]
  if isinstance(x, np.ndarray):
    return [fr(v) for v in x.tolist()] if x.ndim else fr(x.item())
  if isinstance(x, Fraction):
    return x
  if isinstance(x, (bool,)):
    raise ValueError('bool where number expected')
  f = float(x)
  if f != f or f in (float('inf'), float('-inf')):
    raise ValueError('non-finite value %r' % (x,))
  return Fraction(f)


# ---------------------------------------------------------------------------------------------------
# Coq literals
# ---------------------------------------------------------------------------------------------------
class Raw(str):
  """Already-formatted Coq text."""


def cq(x):
  """Python value -> Coq term text. Fraction -> Q, int -> Z, ('nat', k) via N(k), bool, None, list, tuple, str."""
  if isinstance(x, Raw):
    return str(x)
  if isinstance(x, bool):
    return 'true' if x else 'false'
  if isinstance(x, Fraction):
    return '(%d # %d)' % (x.numerator, x.denominator) if x.numerator >= 0 else '(-(%d) # %d)' % (-x.numerator, x.denominator)
  if isinstance(x, int):
    return '%d%%Z' % x if x >= 0 else '(%d)%%Z' % x
  if isinstance(x, float):
    return cq(Fraction(x))
  if x is None:
    return 'None'
  if isinstance(x, str):
    return '"%s"%%string' % x.replace('"', '""')
  if isinstance(x, list):
    return '[' + '; '.join(cq(v) for v in x) + ']'
  if isinstance(x, tuple):
    return '(' + ', '.join(cq(v) for v in x) + ')'
  raise TypeError('no Coq literal for %r' % (type(x),))


def N(k):
  return Raw('%d%%nat' % k)


def Some(x):
  return Raw('(Some %s)' % cq(x))


def C(name, *args):
  return Raw('(%s)' % ' '.join([name] + [cq(a) for a in args]) if args else name)


# ---------------------------------------------------------------------------------------------------
# build
# ---------------------------------------------------------------------------------------------------
class Lock:
  def __init__(self, name='build'):
    self.path = os.path.join(COQ, '.%s.lock' % name)

  def __enter__(self):
    self.f = open(self.path, 'w')
    fcntl.flock(self.f, fcntl.LOCK_EX)

  def __exit__(self, *a):
    fcntl.flock(self.f, fcntl.LOCK_UN)
    self.f.close()


def sh(cmd, timeout, cwd=None, env=None):
  try:
    p = subprocess.run(cmd, shell=isinstance(cmd, str), cwd=cwd, env=env, stdout=subprocess.PIPE, stderr=subprocess.STDOUT,
                       timeout=timeout, text=True)
    return p.returncode, p.stdout
  except subprocess.TimeoutExpired as e:
    out = e.stdout if isinstance(e.stdout, str) else (e.stdout or b'').decode('utf8', 'replace')
    return 124, (out or '') + '\n[timeout after %ss]' % timeout


GEN_TARGETS = {'kernels': 'Gen/Kernels.v', 'validators': 'Gen/Validators.v', 'signatures': 'Gen/Signatures.v', 'classes': 'Gen/Classes.v',
               'projection': 'Gen/Projection.v', 'thermal': 'Gen/Thermal.v', 'deviceset': 'Gen/DeviceSet.v', 'functions': 'Gen/Functions.v', 'mfdeviceset': 'Gen/MFDeviceSet.v', 'storage': 'Gen/Storage.v', 'constraints': 'Gen/Constraints.v', 'solve': 'Gen/Solve.v', 'utils': 'Gen/Utils.v', 'loaders': 'Gen/Loaders.v', 'basedevice': 'Gen/BaseDevice.v'}


SNAPSHOTS = os.path.join(VERIF, 'translator', 'snapshots')


def snapshot_of(w):
  try:
    return open(os.path.join(SNAPSHOTS, os.path.basename(GEN_TARGETS[w]))).read()
  except OSError:
    return None


def install_snapshot(w):
  """Put the committed snapshot of a generated file in place (only rewritten when the text differs)."""
  snap = snapshot_of(w)
  target = os.path.join(COQ, GEN_TARGETS[w])
  try:
    same = open(target).read() == snap
  except OSError:
    same = False
  if not same:
    with open(target, 'w') as f:
      f.write(snap)


def regenerate(which):
  """Run the translator for the generated files this property depends on.
  -> (broken obligations, fallbacks {which: reason}).  A source the translator no longer accepts is not by itself an alarm: the
  committed snapshot of the generated file (translator/snapshots/, the text the proofs were developed against) is installed instead
  and the caller ties it to the code with the probe correspondence of harness/probes.py.  Without a snapshot the translator failure
  is a broken obligation as before."""
  broken, fallbacks = [], {}
  for w in which:
    rc, out = sh([sys.executable, os.path.join(VERIF, 'translator', 'py2coq.py'), w, REPO, os.path.join(COQ, GEN_TARGETS[w])], 60)
    if rc != 0:
      if snapshot_of(w) is not None:
        install_snapshot(w)
        fallbacks[w] = 'source not translatable (%s)' % out.strip()[-300:]
      else:
        broken.append({'kind': 'translator', 'name': w, 'detail': out.strip()[-600:]})
  return broken, fallbacks


def differs_from_snapshot(w):
  snap = snapshot_of(w)
  if snap is None:
    return False
  try:
    return open(os.path.join(COQ, GEN_TARGETS[w])).read() != snap
  except OSError:
    return True


def ensure_makefile():
  mk = os.path.join(COQ, 'Makefile')
  proj = os.path.join(COQ, '_CoqProject')
  files = sorted(os.path.relpath(os.path.join(d, f), COQ) for sub in ('Base', 'Gen', 'Model', 'Proofs', 'Props')
                 for d, _, fs in os.walk(os.path.join(COQ, sub)) for f in fs if f.endswith('.v'))
  head = ['-Q . DK',
          '-arg -w -arg -notation-overridden,-deprecated-hint-without-locality,-ambiguous-paths,-deprecated-instance-without-locality,-deprecated-syntactic-definition,-future-coercion-class-field']
  text = '\n'.join(head + files) + '\n'
  changed = True
  try:
    changed = open(proj).read() != text
  except FileNotFoundError:
    pass
  if changed:
    with open(proj, 'w') as f:
      f.write(text)
  if changed or not os.path.exists(mk):
    rc, out = sh('coq_makefile -f _CoqProject -o Makefile', 120, cwd=COQ)
    if rc != 0:
      raise RuntimeError('coq_makefile failed: ' + out)


def build(targets, timeout=1500):
  """make the given .vo targets (full .vo build). Returns (ok, log)."""
  with Lock():
    ensure_makefile()
    rc, out = sh(['make', '-j16', '--no-print-directory'] + targets, timeout, cwd=COQ)
  return rc == 0, out


def case_file_targets(mod):
  """The compiled files that the generated case files of a check import (their preludes are string literals of the check's module,
  of transeval.py and of probes.py): on a fresh tree they are not necessarily in the dependency cone of the property file."""
  srcs = [getattr(mod, '__file__', None)]
  try:
    txt = open(srcs[0]).read()
  except (OSError, TypeError):
    return []
  for extra in ('transeval', 'probes', 'genprobe'):
    if extra in txt:
      try:
        txt += open(os.path.join(VERIF, 'harness', extra + '.py')).read()
      except OSError:
        pass
  out = []
  for m in re.finditer(r'From\s+DK(?:\.(\w+))?\s+Require\s+(?:Import|Export)\s+([A-Za-z0-9_. ]*)\.', txt):
    sub, names = m.group(1), m.group(2).split()
    for nm in names:
      for d in ([sub] if sub else ['Base', 'Model', 'Gen', 'Proofs', 'Props']):
        if os.path.exists(os.path.join(COQ, d, nm + '.v')):
          t = '%s/%s.vo' % (d, nm)
          if t not in out:
            out.append(t)
          break
  return out


def first_error(log):
  m = re.search(r'File "\./([^"]+)", line (\d+)[^\n]*\n(Error:?[^\n]*(?:\n[^\n]+){0,6})', log)
  if m:
    return '%s:%s: %s' % (m.group(1), m.group(2), ' '.join(m.group(3).split())[:400])
  return ' '.join(log.strip().split())[-400:]


def cone(vfile, seen=None):
  """Transitive closure of the DK.* files a .v file requires (paths relative to coq/)."""
  seen = seen if seen is not None else set()
  if vfile in seen:
    return seen
  seen.add(vfile)
  try:
    txt = open(os.path.join(COQ, vfile)).read()
  except FileNotFoundError:
    return seen
  for m in re.finditer(r'From\s+DK(?:\.(\w+))?\s+Require\s+(?:Import|Export)\s+([^.]*)\.', txt):
    sub, names = m.group(1), m.group(2).split()
    for nm in names:
      parts = nm.split('.')
      cands = []
      if sub:
        cands.append('%s/%s.v' % (sub, parts[-1]))
      else:
        if len(parts) > 1:
          cands.append('/'.join(parts) + '.v')
        cands += ['%s/%s.v' % (d, parts[-1]) for d in ('Base', 'Gen', 'Model', 'Proofs', 'Props')]
      for c in cands:
        if os.path.exists(os.path.join(COQ, c)):
          cone(c, seen)
          break
  return seen


def lint(files):
  """Escape-hatch lint (tools/lint_coq.py logic) on the given coq/ files. Returns list of messages."""
  sys.path.insert(0, os.path.join(VERIF, 'tools'))
  import importlib.util
  spec = importlib.util.spec_from_file_location('lint_coq_mod', os.path.join(VERIF, 'tools', 'lint_coq.py'))
  out = []
  src = open(os.path.join(VERIF, 'tools', 'lint_coq.py')).read()
  ns = {}
  exec(src.split('bad = []')[0], ns)
  for f in sorted(files):
    try:
      code = ns['strip'](open(os.path.join(COQ, f)).read())
    except FileNotFoundError:
      continue
    for m in ns['BAD'].finditer(code):
      out.append('%s: %s' % (f, m.group(0)))
  return out


def theorems_of(props_file):
  txt = open(os.path.join(COQ, props_file)).read()
  return re.findall(r'^\s*(?:Theorem|Lemma|Corollary|Example)\s+(\w+)', txt, re.M)


def print_assumptions(prop_id, module, theorems, timeout=300):
  """Returns (dict theorem -> sorted list of axioms, raw). Runs one coqc over a scratch file."""
  os.makedirs(CASES, exist_ok=True)
  path = os.path.join(CASES, '%s_assum.v' % prop_id)
  with open(path, 'w') as f:
    f.write('From DK Require Import %s.\n' % module)
    for t in theorems:
      f.write('Goal True. idtac "@@THM %s". exact I. Qed.\nPrint Assumptions %s.\n' % (t, t))
  rc, out = sh(['coqc', '-Q', '.', 'DK', '-w', 'none', os.path.relpath(path, COQ)], timeout, cwd=COQ)
  for ext in ('.vo', '.vok', '.vos', '.glob'):
    try:
      os.remove(path[:-2] + ext)
    except OSError:
      pass
  try:
    os.remove(os.path.join(CASES, '.%s_assum.aux' % prop_id))
  except OSError:
    pass
  if rc != 0:
    return None, out
  res = {}
  parts = out.split('@@THM ')
  for part in parts[1:]:
    name, _, rest = part.partition('\n')
    name = name.strip()
    if 'Closed under the global context' in rest:
      res[name] = []
    else:
      res[name] = sorted(set(re.findall(r'^([A-Za-z_][\w\.\']*)\s*:', rest, re.M)) - {'Axioms'})
  return res, out


# ---------------------------------------------------------------------------------------------------
# in-Coq correspondence
# ---------------------------------------------------------------------------------------------------
def coq_failing(prop_id, prelude, case_type, checker, case_literals, shard=250, timeout=900, tag='corr'):
  """Evaluate `checker : case_type -> bool` on every case literal inside Coq (vm_compute) and return
  (sorted list of failing indices, error-or-None). Cases are sharded and run in parallel."""
  os.makedirs(CASES, exist_ok=True)
  shards = [case_literals[i:i + shard] for i in range(0, len(case_literals), shard)]
  paths = []
  for k, sh_cases in enumerate(shards):
    path = os.path.join(CASES, '%s_%s_%d.v' % (prop_id, tag, k))
    with open(path, 'w') as f:
      f.write(prelude + '\n')
      f.write('Definition cases : list (%s) := [\n' % case_type)
      f.write(';\n'.join(sh_cases))
      f.write('\n].\n')
      f.write('Goal True. idtac "@@BEGIN". exact I. Qed.\n')
      f.write('Eval vm_compute in (failing (%s) cases).\n' % checker)
    paths.append(path)
  procs = []
  failing = []
  err = None
  running = []
  t0 = time.time()

  def launch(p):
    return subprocess.Popen(['coqc', '-Q', '.', 'DK', '-w', 'none', os.path.relpath(p, COQ)], cwd=COQ,
                            stdout=subprocess.PIPE, stderr=subprocess.STDOUT, text=True)
  queue = list(enumerate(paths))
  results = {}
  while queue or running:
    while queue and len(running) < 16:
      k, p = queue.pop(0)
      running.append((k, p, launch(p)))
    k, p, pr = running.pop(0)
    try:
      out, _ = pr.communicate(timeout=max(5, timeout - (time.time() - t0)))
    except subprocess.TimeoutExpired:
      pr.kill()
      out = '[timeout]'
      err = 'coqc timeout on %s' % os.path.basename(p)
    results[k] = (pr.returncode, out)
  for k, p in enumerate(paths):
    rc, out = results[k]
    if rc != 0 or '@@BEGIN' not in out:
      err = err or ('coqc failed on %s: %s' % (os.path.basename(p), first_error(out)))
      continue
    body = out.split('@@BEGIN', 1)[1]
    m = re.search(r'=\s*(\[.*?\]|nil)\s*:\s*list nat', body, re.S)
    if not m:
      err = err or ('unparsable coqc output for %s: %s' % (os.path.basename(p), body[-300:]))
      continue
    txt = m.group(1)
    idx = [] if txt == 'nil' else [int(v) for v in re.findall(r'\d+', txt)]
    failing += [k * shard + i for i in idx]
    for ext in ('.v', '.vo', '.vok', '.vos', '.glob'):
      try:
        os.remove(p[:-2] + ext)
      except OSError:
        pass
    try:
      os.remove(os.path.join(CASES, '.' + os.path.basename(p)[:-2] + '.aux'))
    except OSError:
      pass
  return sorted(failing), err


# ---------------------------------------------------------------------------------------------------
# findings
# ---------------------------------------------------------------------------------------------------
def load_findings(prop_id):
  path = os.path.join(VERIF, 'known_findings.json')
  try:
    data = json.load(open(path))
  except FileNotFoundError:
    return []
  return [f for f in data.get('open', []) if f.get('property') == prop_id]


# ---------------------------------------------------------------------------------------------------
# JSON helpers
# ---------------------------------------------------------------------------------------------------
def jsonable(x):
  import numpy as np
  if isinstance(x, Fraction):
    return float(x) if x.denominator != 1 else int(x)
  if isinstance(x, np.ndarray):
    return jsonable(x.tolist())
  if isinstance(x, (np.floating,)):
    return float(x)
  if isinstance(x, (np.integer,)):
    return int(x)
  if isinstance(x, dict):
    return {str(k): jsonable(v) for k, v in x.items()}
  if isinstance(x, (list, tuple)):
    return [jsonable(v) for v in x]
  if isinstance(x, (str, int, float, bool)) or x is None:
    return x
  return repr(x)


def stale_call(f, *args, near=False, zero=False):
  """f(*args), but evaluated the way iterative callers do it: every ndarray argument lives in a buffer that held OTHER values during an
  earlier call of f and was then overwritten in place.  A memo keyed on the caller's array object (or on a stale copy of anything that
  is not the value) returns the earlier answer here; a correct implementation cannot tell the difference.  Exceptions of the decoy
  call are ignored."""
  import numpy as np
  bufs = [np.array(a, dtype=(a.dtype if a.dtype.kind in 'iu' else float)) if isinstance(a, np.ndarray) else a for a in args]
  for b, a in zip(bufs, args):
    if isinstance(b, np.ndarray) and b.dtype.kind in 'iu':
      b[...] = np.roll(a.reshape(-1), 1).reshape(a.shape) + 1        # integer buffers stay integer buffers
    elif isinstance(b, np.ndarray):
      # far decoy: other values altogether; near decoy: within 1e-6 relative (a tolerance-based cache key must not mistake it)
      # zero decoy: the all-zero point iterative callers start from (a kink of the lossy devices)
      b[...] = 0.0 if zero else (a * (1 + 2.0 ** -20) + 2.0 ** -30) if near else (np.roll(a.reshape(-1), 1).reshape(a.shape) * 0.75 + 0.125)
  try:
    f(*bufs)
  except Exception:
    pass
  for b, a in zip(bufs, args):
    if isinstance(b, np.ndarray):
      b[...] = a
  return f(*bufs)


def maybe_stale(case, f, *args):
  """A plain call for a quarter of the cases (decided by the case content), stale_call with a far decoy for a quarter, with a near
  decoy (every entry within 1e-6 relative of the real one) for a quarter, with the all-zero decoy for the rest."""
  h = int(case_hash(case), 16) % 4
  return f(*args) if h == 0 else stale_call(f, *args, near=(h == 2), zero=(h == 3))


def case_hash(case):
  return hashlib.sha1(json.dumps(jsonable(case), sort_keys=True).encode()).hexdigest()[:12]


# ---------------------------------------------------------------------------------------------------
# the generic property run
# ---------------------------------------------------------------------------------------------------
class SkipCase(Exception):
  """observe() may raise this for a case on which the comparison is not meaningful (e.g. the quantity compared is below the float
  resolution of the values it is computed from); the case is counted under `skipped_unresolvable` in the evidence, not compared."""


class Prop:
  """Interface every harness/props/cXX.py module exposes (as module-level names):

    ID                 'C15'
    GEN                ['kernels']            generated files it depends on
    PROPS              'Props/C15.v'          theorem file (statements + exact lemma)
    COQ_PRELUDE        text: imports + `Definition chk (c : case_t) : bool := ...`
    CASE_TYPE          Coq type of a case literal
    CHECKER            'chk'
    RULE               how cases are generated and what makes one non-trivial
    gen_cases(rng, tier)          -> list of case dicts (inputs only; exact Fractions)
    observe(case)                 -> obs dict from the implementation (may raise -> recorded as outcome)
    coq_case(case, obs)           -> Coq literal text of (inputs, impl outputs)
    nontrivial(case, obs)         -> bool
    oracle(case)                  -> None | str    direct test of the property on the implementation alone
    search(rng, budget_s, seeds)  -> failing case dict | None    (default: oracle over seeds then fresh cases)
    finding_matches(finding, case)-> bool    (default False)
    witness_fails(finding)        -> bool    replay the stored witness of an open finding with the oracle
  """


def run_property(mod, tier, seed, replay=None):
  t0 = time.time()
  pid = mod.ID
  rng = random.Random((seed * 1000003) ^ int(hashlib.sha1(pid.encode()).hexdigest()[:8], 16))
  ev_path = os.path.join(VERIF, 'evidence', '%s.json' % pid)
  os.makedirs(os.path.dirname(ev_path), exist_ok=True)
  broken = []        # obligations that no longer check
  obligations = []   # names
  notes = {}

  if replay:
    return do_replay(mod, replay)

  # 1. regenerate
  gen_broken, fallbacks = regenerate(getattr(mod, 'GEN', []))
  broken += gen_broken
  for g in getattr(mod, 'GEN', []):
    obligations.append('translator:%s' % g)

  for g in ('classes', 'projection', 'thermal', 'deviceset', 'functions', 'mfdeviceset', 'storage', 'constraints', 'solve', 'utils'):
    if g in getattr(mod, 'GEN', []):
      try:
        txt = open(os.path.join(COQ, GEN_TARGETS[g])).read()
        notes['%s_regenerated_from_source' % g] = re.findall(r'^\(\* \S+: (\S+) \*\)$', txt, re.M)
        notes['%s_fallback_to_hand_model' % g] = re.findall(r'^\(\* \S+: (\S+) NOT TRANSLATED \((.*?)\):', txt, re.M)
      except Exception:
        pass
  # 2. build + assumptions
  thms = theorems_of(mod.PROPS) if os.path.exists(os.path.join(COQ, mod.PROPS)) else []
  obligations += ['theorem:%s' % t for t in thms]
  axioms = {}
  if not any(b['kind'] == 'translator' for b in broken):
    vo_targets = [mod.PROPS[:-2] + '.vo'] + [m[:-2] + '.vo' for m in getattr(mod, 'EXTRA_VO', [])] + case_file_targets(mod)
    ok, log = build(vo_targets)
    if not ok:
      # the proofs were developed against the committed snapshots of the generated files: if the regenerated text is what stops
      # them, fall back to the snapshot (the theorems then speak about the snapshot, tied to the code by the probes below)
      changed = [w for w in getattr(mod, 'GEN', []) if w not in fallbacks and differs_from_snapshot(w)]
      if changed:
        new_texts = {}
        for w in changed:
          try:
            new_texts[w] = open(os.path.join(COQ, GEN_TARGETS[w])).read()
          except OSError:
            pass
          install_snapshot(w)
        ok2, log2 = build(vo_targets)
        if ok2:
          for w in changed:
            fallbacks[w] = 'proofs do not check on the regenerated text (%s)' % first_error(log)[:300]
          ok, log = ok2, log2
          # harmless rewrite or change of meaning?  both texts are executable: Coq evaluates them on a battery of exact inputs
          import genprobe
          for w in changed:
            if genprobe.supported(w) and w in new_texts:
              obligations.append('gen-vs-model:%s' % w)
              try:
                gb, gstats = genprobe.compare(w, new_texts[w])
              except Exception as e:
                gb, gstats = [{'kind': 'correspondence-run', 'name': 'gen-vs-model:%s' % w, 'detail': '%s: %s' % (type(e).__name__, e)}], {}
              notes.setdefault('gen_vs_model', {})[w] = gstats
              broken += gb
    if not ok:
      broken.append({'kind': 'proof', 'name': first_error(log).split(':')[0], 'detail': first_error(log)})
    else:
      modname = mod.PROPS[:-2].replace('/', '.')
      axioms, raw = print_assumptions(pid, modname, thms)
      if axioms is None:
        broken.append({'kind': 'proof', 'name': 'Print Assumptions', 'detail': first_error(raw)})
        axioms = {}
      else:
        for t, ax in axioms.items():
          bad = [a for a in ax if a not in ALLOWED_AXIOMS and a.split('.')[-1] not in ALLOWED_AXIOMS]
          if bad:
            broken.append({'kind': 'axioms', 'name': t, 'detail': 'unexpected assumptions: %s' % bad})
        missing = [t for t in thms if t not in axioms]
        if missing:
          broken.append({'kind': 'proof', 'name': 'Print Assumptions', 'detail': 'no output for %s' % missing})
  # thorough tier: the independent checker re-checks the compiled property file and everything it depends on, and lists the axioms
  if tier == 'thorough' and not any(b['kind'] in ('proof', 'translator') for b in broken):
    obligations.append('coqchk:%s' % pid)
    t1 = time.time()
    rc, out = sh(['coqchk', '-o', '-silent', '-Q', '.', 'DK', 'DK.' + mod.PROPS[:-2].replace('/', '.')], 3000, cwd=COQ)
    ck_axioms = re.findall(r'^\s{4}(\S+)\s*$', out.split('* Axioms:')[1].split('* Constants')[0], re.M) if '* Axioms:' in out else []
    unsafe = [l.strip() for l in out.split('\n') if ('type-in-type' in l or 'unsafe (co)fixpoints' in l or 'positivity is assumed' in l) and '<none>' not in l]
    notes['coqchk'] = {'exit': rc, 'axioms': ck_axioms, 'seconds': round(time.time() - t1, 1), 'unsafe_flags': unsafe}
    bad = [a for a in ck_axioms if a not in ALLOWED_AXIOMS and a.split('.')[-1] not in ALLOWED_AXIOMS]
    if rc != 0 or bad or unsafe or 'CONTEXT SUMMARY' not in out:
      broken.append({'kind': 'proof', 'name': 'coqchk:%s' % pid, 'detail': 'coqchk exit %s; unexpected axioms %s; %s; %s' % (rc, bad, unsafe, out.strip()[-300:])})
  lint_msgs = lint(cone(mod.PROPS))
  obligations.append('lint:no-escape-hatches')
  if lint_msgs:
    broken.append({'kind': 'lint', 'name': 'lint:no-escape-hatches', 'detail': '; '.join(lint_msgs[:5])})
  # 2b. generated files that fell back to their snapshot: differential probe between the code and the snapshot
  if fallbacks:
    notes['translator_fallback'] = fallbacks
    import probes
    for w in sorted(fallbacks):
      pr = probes.PROBES.get(w)
      if (w, pid) in (('validators', 'C11'), ('signatures', 'C16')):   # the check's own correspondence is that probe
        continue
      if pr is None:      # classes: every property that uses them compares the class-level cost/deriv/hess in its own correspondence
        continue
      obligations.append('probe:%s' % w)
      try:
        pb, stats = pr(getattr(mod, 'KERNELS_USED', None)) if w == 'kernels' else pr()
      except Exception as e:
        pb, stats = [{'kind': 'correspondence-run', 'name': 'probe:%s' % w, 'detail': '%s: %s' % (type(e).__name__, e)}], {}
      notes.setdefault('probe_stats', {})[w] = stats
      broken += pb
  build_s = time.time() - t0

  # 3. correspondence
  findings = load_findings(pid)
  cases = []
  corpus_dir = os.path.join(VERIF, 'corpus', pid)
  if os.path.isdir(corpus_dir):
    for fn in sorted(os.listdir(corpus_dir)):
      if fn.endswith('.json'):
        try:
          cases.append(mod.case_from_json(json.load(open(os.path.join(corpus_dir, fn)))))
        except Exception:
          pass
  n_corpus = len(cases)
  cases += mod.gen_cases(rng, tier)
  lits, kept, obs_list, dist = [], [], [], {}
  seen = set()
  nontrivial = 0
  skipped_known = 0
  impl_errors = []
  for c in cases:
    if any(mod.finding_matches(f, c) for f in findings) if hasattr(mod, 'finding_matches') else False:
      skipped_known += 1
      continue
    try:
      obs = mod.observe(c)
    except SkipCase as e:
      notes.setdefault('skipped_unresolvable', {}).setdefault(str(e), 0)
      notes['skipped_unresolvable'][str(e)] += 1
      continue
    except Exception as e:   # the implementation raised where the harness did not expect it
      impl_errors.append((c, '%s: %s' % (type(e).__name__, str(e)[:200])))
      continue
    try:
      lit = mod.coq_case(c, obs)
    except ValueError as e:  # non-finite output etc.
      impl_errors.append((c, 'unrepresentable output: %s' % e))
      continue
    lits.append(lit)
    kept.append(c)
    obs_list.append(obs)
    for k in mod.classify(c, obs) if hasattr(mod, 'classify') else []:
      dist[k] = dist.get(k, 0) + 1
    h = case_hash(c)
    if h not in seen:
      seen.add(h)
      if mod.nontrivial(c, obs):
        nontrivial += 1
  obligations.append('correspondence:%s' % pid)
  failing_cases = []
  if not any(b['kind'] in ('translator',) for b in broken):
    model_ok, mlog = (True, '')
    extra = [m[:-2] + '.vo' for m in getattr(mod, 'MODEL_VO', [])]
    if extra:
      model_ok, mlog = build(extra)
    if not model_ok:
      broken.append({'kind': 'model-build', 'name': first_error(mlog).split(':')[0], 'detail': first_error(mlog)})
    elif lits:
      idx, err = coq_failing(pid, mod.COQ_PRELUDE, mod.CASE_TYPE, mod.CHECKER, lits, shard=getattr(mod, 'SHARD', 250))
      if err:
        broken.append({'kind': 'correspondence-run', 'name': 'coqc', 'detail': err})
      failing_cases = [kept[i] for i in idx]
      if idx:
        broken.append({'kind': 'correspondence', 'name': 'correspondence:%s' % pid,
                       'detail': '%d of %d cases disagree with the model; first: %s' % (len(idx), len(lits), json.dumps(jsonable(kept[idx[0]]))[:600])})
  for c, why in impl_errors:
    failing_cases.append(c)
  if impl_errors:
    broken.append({'kind': 'correspondence', 'name': 'correspondence:%s' % pid,
                   'detail': '%d cases: implementation raised / non-finite: %s on %s' % (len(impl_errors), impl_errors[0][1], json.dumps(jsonable(impl_errors[0][0]))[:400])})

  # 3b. a property's additional correspondence (its own obligations, same verdict rules)
  if hasattr(mod, 'extra_correspondence') and not any(b['kind'] in ('translator', 'model-build') for b in broken):
    try:
      ok_x, mlog_x = build([m[:-2] + '.vo' for m in getattr(mod, 'EXTRA_MODEL_VO', [])]) if getattr(mod, 'EXTRA_MODEL_VO', []) else (True, '')
      if not ok_x:
        raise RuntimeError('model build: ' + first_error(mlog_x))
      xo, xb, xf, xn = mod.extra_correspondence(rng, tier)
    except Exception as e:
      traceback.print_exc()
      xo, xb, xf, xn = ['correspondence:%s:extra' % pid], [{'kind': 'correspondence-run', 'name': 'correspondence:%s:extra' % pid,
                                                            'detail': '%s: %s' % (type(e).__name__, str(e)[:300])}], [], {}
    obligations += xo
    broken += xb
    failing_cases += xf
    notes.update(xn)

  # 4. verdict
  violations = 0
  lines = []
  if broken:
    budget = 20 if tier == 'quick' else 120
    found = None
    try:
      found = mod.search(rng, budget, failing_cases, findings)
    except Exception as e:
      notes['search_error'] = '%s: %s' % (type(e).__name__, e)
      traceback.print_exc()
    os.makedirs(os.path.join(VERIF, 'replays'), exist_ok=True)
    if found is not None:
      case, why = found
      rp = os.path.join('replays', '%s-%s.json' % (pid, case_hash(case)))
      json.dump({'property': pid, 'kind': 'failing-input', 'case': mod.case_to_json(case), 'why': why, 'broken': broken,
                 'replay_cmd': './check %s --replay %s' % (pid, rp)}, open(os.path.join(VERIF, rp), 'w'), indent=1, default=jsonable)
      lines.append('VIOLATION property=%s replay=%s' % (pid, rp))
    else:
      rp = os.path.join('replays', '%s-obligation-%s.json' % (pid, hashlib.sha1(json.dumps(broken, sort_keys=True, default=str).encode()).hexdigest()[:10]))
      json.dump({'property': pid, 'kind': 'broken-obligation', 'broken': broken,
                 'note': 'no concrete failing input was found by the search; the property is no longer shown to hold'},
                open(os.path.join(VERIF, rp), 'w'), indent=1, default=jsonable)
      lines.append('VIOLATION property=%s replay=%s no-failing-input-found' % (pid, rp))
    violations = 1
  else:
    for f in findings:
      still = True
      if hasattr(mod, 'witness_fails'):
        try:
          still = mod.witness_fails(f)
        except Exception as e:
          still = True
      if still:
        lines.append('KNOWN-FINDING: property=%s %s' % (pid, f['what']))
      else:
        lines.append('KNOWN-FINDING-RESOLVED: property=%s %s (stored witness no longer fails)' % (pid, f['what']))

  discharged = len(obligations) - len({b['name'] for b in broken if b['kind'] in ('proof', 'axioms', 'translator', 'lint', 'gen-vs-model')}) - \
      (1 if any(b['kind'].startswith('correspondence') or b['kind'] == 'model-build' for b in broken) else 0)
  if any(b['kind'] == 'proof' for b in broken):
    discharged = min(discharged, len(obligations) - len(thms) - (1 if any(b['kind'].startswith('corr') for b in broken) else 0))
  samples = []
  for c, o in list(zip(kept, obs_list))[:3]:
    samples.append({'case': mod.case_to_json(c), 'impl': jsonable(o)})
  for t in thms[:40]:
    samples.append({'obligation': 'theorem:%s' % t, 'axioms': axioms.get(t)})
  evidence = {
    'property_id': pid, 'tier': tier, 'seed': seed, 'level': 'proof',
    'coverage': {
      'obligations': len(obligations), 'discharged': max(0, discharged),
      'checker_cmd': 'cd /verif && ./check %s --tier %s  (regenerates coq/Gen from /repo, make %s, Print Assumptions, in-Coq correspondence)' % (pid, tier, mod.PROPS[:-2] + '.vo'),
      'trusted_base': TRUSTED_BASE + getattr(mod, 'TRUSTED_EXTRA', []),
      'theorems': thms, 'axioms_per_theorem': axioms,
      'evaluations': len(lits) + len(impl_errors), 'distinct_nontrivial': nontrivial,
      'rule': mod.RULE, 'samples': samples, 'distribution': dist,
      'corpus_cases': n_corpus, 'skipped_in_known_finding_regions': skipped_known,
      'broken': broken, 'build_s': round(build_s, 1),
      'explanation': getattr(mod, 'EXPLANATION', ''),
      'exhaustive': bool(getattr(mod, 'EXHAUSTIVE', False)),
    },
    'assumptions': getattr(mod, 'ASSUMPTIONS', []),
    'wall_s': round(time.time() - t0, 2),
    'violations': violations,
  }
  evidence['coverage'].update(notes)
  with open(ev_path, 'w') as f:
    json.dump(evidence, f, indent=1, default=jsonable)
  for l in lines:
    print(l)
  print('%s %s: obligations=%d discharged=%d cases=%d nontrivial=%d wall=%.1fs' % (
      pid, 'FAIL' if violations else 'ok', len(obligations), max(0, discharged), len(lits), nontrivial, time.time() - t0))
  return 1 if violations else 0


def do_replay(mod, path):
  data = json.load(open(path if os.path.isabs(path) else os.path.join(VERIF, path)))
  if data.get('kind') != 'failing-input':
    print('replay file names broken obligations, no input to run:')
    print(json.dumps(data.get('broken'), indent=1))
    return 1
  case = mod.case_from_json(data['case'])
  why = mod.oracle(case)
  print('case:', json.dumps(mod.case_to_json(case)))
  print('oracle on implementation:', why if why else 'property holds on this input')
  return 1 if why else 0


def default_search(mod, rng, budget, seeds, findings, tier='quick'):
  """Oracle over the disagreeing cases first, then over freshly generated ones, within the time budget."""
  t0 = time.time()

  def known(c):
    return any(mod.finding_matches(f, c) for f in findings) if hasattr(mod, 'finding_matches') else False
  for c in seeds:
    if known(c):
      continue
    why = mod.oracle(c)
    if why:
      return shrink(mod, c, why)
  while time.time() - t0 < budget:
    for c in mod.gen_cases(rng, 'search'):
      if time.time() - t0 > budget:
        break
      if known(c):
        continue
      try:
        why = mod.oracle(c)
      except Exception as e:
        why = None
      if why:
        return shrink(mod, c, why)
  return None


def shrink(mod, case, why):
  if hasattr(mod, 'shrink'):
    try:
      return mod.shrink(case, why)
    except Exception:
      pass
  return (case, why)
