"""Structured generator of device trees (exact dyadic numbers), their construction on the implementation and their
Coq literals (`dev Q` of Model/Tree.v).

A tree is a JSON-able nested dict
  {'kind': 'leaf',     'id', 'leaf': <leafgen dict>}
  {'kind': 'set',      'id', 'kids': [...], 'sbounds': None | [(lo, hi)] * n, 'sb_kind': 'none|ineq|eq|mixed'}
  {'kind': 'subbal',   ... as 'set' ..., 'labels': [str], 'eq': bool, 'sign': Fraction, 'remaining': bool}
  {'kind': 'mf',       'id' (= wrapped id), 'leaf': <leafgen dict>, 'flows': [str]}
  {'kind': 'tworatio', 'id', 'leaf', 'flows': [f0, f1], 'ratios': (r0, r1), 'eq': bool}
"""
from fractions import Fraction as F
import numpy as np
from core import dy, fl, cq, N, Raw, C, Some, jsonable
import leafgen as lg

SUFFIXES = ['e', 'h', 'g']
ONE_DIR_POS = ['Device', 'CDevice', 'CDevice2', 'IDevice', 'IDevice2', 'TDevice', 'ADevice', 'SDevice']
ONE_DIR_NEG = ['PVDevice', 'GDevice', 'SDevice', 'Device']
TREE_LEAF_CLASSES = ['Device', 'PVDevice', 'CDevice', 'CDevice2', 'IDevice', 'IDevice2', 'GDevice', 'SDevice', 'TDevice', 'ADevice']


def pick(rng, xs):
  return xs[rng.randrange(len(xs))]


# ---- generation ----------------------------------------------------------------------------------------
def _fresh_id(rng, used, prefix):
  while True:
    i = '%s%d%s' % (prefix, rng.randrange(0, 40), pick(rng, SUFFIXES + ['', '']))
    if i not in used:
      used.add(i)
      return i


def gen_tree_leaf(rng, cls, n, **kw):
  """leafgen.gen_leaf restricted to what is usable as a tree leaf (the 'demand' preference function of leafgen is
  excluded: its builder returns a bare poly1d for constant polynomials and its cost is a vector)."""
  while True:
    L = lg.gen_leaf(rng, cls=cls, n=n, **kw)
    if cls != 'ADevice' or 'demand' not in lg.fn_kinds(L['f']):
      return L


def gen_adaptor(rng, n, used, **opt):
  """A multi-flow (or two-ratio) adaptor around a one-directional leaf."""
  if rng.random() < 0.7:
    cls, sign = pick(rng, opt.get('mf_classes', ONE_DIR_POS)), 'pos'
    if cls in ('PVDevice', 'GDevice'):
      sign = 'neg'
  else:
    cls, sign = pick(rng, [c for c in ONE_DIR_NEG if c in opt.get('mf_classes', ONE_DIR_NEG)] or ['Device']), 'neg'
  kw = {'sign': sign}
  if cls == 'TDevice':
    kw['sign'] = 'pos'
  L = gen_tree_leaf(rng, cls, n, **kw)
  L['id'] = _fresh_id(rng, used, 'm')
  two = rng.random() < opt.get('p_tworatio', 0.3)
  if two:
    flows = rng.sample(SUFFIXES, 2)
    return {'kind': 'tworatio', 'id': L['id'], 'leaf': L, 'flows': flows,
            'ratios': (pick(rng, [F(1), F(2), F(-1), F(0), F(1, 2), F(3)]), pick(rng, [F(1), F(1), F(-2), F(0), F(1, 4), F(2)])),
            'eq': rng.random() < 0.6}
  k = pick(rng, opt.get('conduits', [1, 2, 2, 3, 4]))
  flows = (rng.sample(SUFFIXES, k) if k <= len(SUFFIXES) else SUFFIXES + ['x%d' % j for j in range(k - len(SUFFIXES))])
  return {'kind': 'mf', 'id': L['id'], 'leaf': L, 'flows': flows}


def gen_node(rng, depth, n, used, **opt):
  p_ad = opt.get('p_adaptor', 0.3)
  if depth <= 0 or rng.random() < opt.get('p_leaf', 0.35):
    if rng.random() < p_ad:
      return gen_adaptor(rng, n, used, **opt)
    L = gen_tree_leaf(rng, pick(rng, opt.get('classes', TREE_LEAF_CLASSES)), n)
    L['id'] = _fresh_id(rng, used, 'd')
    return {'kind': 'leaf', 'id': L['id'], 'leaf': L}
  return gen_set(rng, depth, n, used, **opt)


def gen_set(rng, depth, n, used, **opt):
  i = _fresh_id(rng, used, 's')
  mine = set()
  kids = [gen_node(rng, depth - 1, n, mine, **opt) for _ in range(rng.randint(1, opt.get('fanout', 4)))]
  T = {'kind': 'set', 'id': i, 'kids': kids}
  T['sbounds'], T['sb_kind'] = gen_sbounds(rng, T, n, opt.get('sbounds'))
  if rng.random() < opt.get('p_subbal', 0.35):
    T['kind'] = 'subbal'
    ids = [q for q, _ in leaf_list(T)]
    pool = SUFFIXES + [pick(rng, ids).split('.')[-1], pick(rng, ids).split('.', 1)[-1], 'zz']
    T['labels'] = [pick(rng, pool) for _ in range(rng.randint(1, 3))]
    T['eq'] = rng.random() < 0.5
    T['sign'] = pick(rng, [F(1), F(1), F(-1), F(2), F(-1, 2)])
    T['remaining'] = rng.random() < 0.4
  return T


def agg_bounds(T, n):
  lo, hi = [F(0)] * n, [F(0)] * n
  for _, L in leaf_list(T):
    for i, (a, b) in enumerate(L['bounds']):
      lo[i] += a
      hi[i] += b
  return lo, hi


def gen_sbounds(rng, T, n, kind=None):
  kind = kind or pick(rng, ['none', 'ineq', 'eq', 'mixed', 'mixed'])
  if kind == 'none':
    return None, kind
  lo, hi = agg_bounds(T, n)
  out = []
  for i in range(n):
    k = kind if kind != 'mixed' else pick(rng, ['ineq', 'eq'])
    mid = lo[i] + (hi[i] - lo[i]) * pick(rng, [F(1, 4), F(1, 2), F(3, 4)])
    mid = F(int(mid * 16), 16)
    if k == 'eq':
      out.append((mid, mid))
    else:
      out.append((mid - pick(rng, [F(1, 4), F(1), F(2)]), mid + pick(rng, [F(1, 4), F(1), F(3)])))
  return out, kind


def thin_large_sbounds(T, seed):
  """In place: move some inequality slots of the aggregate bounds of every set in T to a LARGE magnitude with a band that is thin
  relative to it (e.g. (262144, 262145.5)): open bands that a relative-tolerance comparison (np.isclose) mistakes for equalities.
  The choice is deterministic in `seed`.  Only for checks that compare constraint TYPES AND VALUES (feasibility is not needed)."""
  import random as _r
  r2 = _r.Random(seed)

  def walk(t):
    if t['kind'] in ('set', 'subbal'):
      if t.get('sbounds'):
        sb = list(t['sbounds'])
        for i, (lo, hi) in enumerate(sb):
          if lo != hi and r2.random() < 0.6:
            K = F(r2.choice([262144, -262144, 1048576]))
            sb[i] = (K + lo, K + lo + r2.choice([F(1, 4), F(1), F(3, 2)]))
        t['sbounds'] = sb
      for k in t['kids']:
        walk(k)
  walk(T)
  return T


def gen_tree(rng, depth, n=None, **opt):
  """Random tree of the given maximal depth (0: a bare leaf or adaptor; >=1: the root is a set)."""
  n = n or pick(rng, opt.get('lengths', [1, 2, 3, 3, 4, 5]))
  used = set()
  if depth <= 0:
    return gen_node(rng, 0, n, used, **opt)
  return gen_set(rng, depth, n, used, **opt)


# ---- structure -----------------------------------------------------------------------------------------
def length(T):
  return T['leaf']['n'] if T['kind'] in ('leaf', 'mf', 'tworatio') else length(T['kids'][0])


def rows(T):
  if T['kind'] == 'leaf':
    return 1
  if T['kind'] in ('mf', 'tworatio'):
    return len(T['flows'])
  return sum(rows(k) for k in T['kids'])


def conduit_bounds(b):
  if any(lo < 0 for lo, _ in b):
    return [(lo, F(0)) for lo, _ in b]
  return [(F(0), hi) for _, hi in b]


def conduit_leaf(T, flow):
  L = T['leaf']
  return {'cls': 'Device', 'n': L['n'], 'id': flow, 'bounds': conduit_bounds(L['bounds']), 'cbounds': None, 'cb_kind': 'none'}


def leaf_list(T, path=None):
  """[(qualified id, leaf dict)] in row order (the harness's own enumeration; conduits are plain Devices)."""
  path = T['id'] if path is None else path
  if T['kind'] == 'leaf':
    return [(path, T['leaf'])]
  if T['kind'] in ('mf', 'tworatio'):
    return [(path + '.' + f, conduit_leaf(T, f)) for f in T['flows']]
  out = []
  for k in T['kids']:
    out += leaf_list(k, path + '.' + k['id'])
  return out


def units(T, off=0, path=None):
  """[(offset, row count, node)] of the behavioural units: plain leaves and adaptors, in row order."""
  if T['kind'] in ('leaf', 'mf', 'tworatio'):
    return [(off, rows(T), T)]
  out = []
  for k in T['kids']:
    out += units(k, off, None)
    off += rows(k)
  return out


def nodes(T):
  yield T
  for k in T.get('kids', []):
    for x in nodes(k):
      yield x


def kinds(T):
  return sorted({x['kind'] for x in nodes(T)})


def depth(T):
  return 0 if 'kids' not in T else 1 + max(depth(k) for k in T['kids'])


# ---- implementation side ---------------------------------------------------------------------------------
def py_sbounds(sb):
  return None if sb is None else np.array(fl([list(b) for b in sb]))


def build_tree(T):
  """The device_kit object of the tree description T.  For a deterministic quarter of the trees with aggregate bounds somewhere below
  the root, the inner sets are first built with OTHER aggregate bounds (none, or every slot pinned to its low), the whole tree is used
  once (constraints read and evaluated, cost), and only then the target `sbounds` are assigned through the setter: everything must be as
  for a freshly built twin (an ancestor must not keep what it derived from the earlier bounds)."""
  h = int(__import__('core').case_hash(tree_to_json(T)), 16)
  inner = [t for t in _sets(T) if t is not T and t.get('sbounds')]
  if T['kind'] in ('set', 'subbal') and inner and h % 4 == 0:
    import copy
    T0 = copy.deepcopy(T)
    for t in _sets(T0):
      if t is not T0 and t.get('sbounds'):
        t['sbounds'] = None if (h // 4) % 2 else [(lo, lo) for lo, hi in t['sbounds']]
    d = _build(T0)
    try:
      z = np.zeros(rows(T) * length(T))
      [c['fun'](z) for c in d.constraints]
      d.cost(z.reshape(d.shape), 0)
    except Exception:
      pass

    def assign(dev, t):
      if t['kind'] in ('set', 'subbal'):
        if t is not T and t.get('sbounds'):
          dev.sbounds = py_sbounds(t['sbounds'])
        for sub, k in zip(dev.devices, t['kids']):
          assign(sub, k)
    assign(d, T)
    return d
  return _build(T)


def _sets(T):
  out = []
  if T['kind'] in ('set', 'subbal'):
    out.append(T)
    for k in T['kids']:
      out += _sets(k)
  return out


def predecessor(T):
  """The description of last window's model of the same site: same ids, same shape, but without cumulative and aggregate bounds."""
  import copy
  T0 = copy.deepcopy(T)
  for x in nodes(T0):
    if x.get('sbounds'):
      x['sbounds'], x['sb_kind'] = None, 'none'
    L = x.get('leaf')
    if L and L.get('cbounds') and L['cls'] != 'CDevice2':
      L['cbounds'], L['cb_kind'] = None, 'none'
      L.pop('recb', None)
  return T0


def standalone_use(d, key):
  """For a deterministic half of the sub-devices: the part is used and reported on its own (enumerated, mapped, its bounds and
  constraints read, costed) BEFORE it is wrapped in an adaptor or put into a set - the previous window's stand-alone solve of a
  rolling horizon.  Nothing the part keeps from that may leak into the composite built around it."""
  if int(__import__('core').case_hash(key), 16) % 2:
    return d
  try:
    z = np.zeros(d.shape)
    d.leaf_devices()
    dict(d.map(z))
    list(d.mapDevices(z))
    d.bounds
    [c['fun'](z.reshape(-1)) for c in d.constraints]
    d.cost(z, 0)
  except Exception:
    pass
  return d


def _build(T):
  import device_kit as dk
  k = T['kind']
  if k == 'leaf':
    return lg.build(T['leaf'])
  if k == 'mf':
    return dk.MFDeviceSet(standalone_use(lg.build(T['leaf']), {'mf': T['id'], 'f': list(T['flows']), 'n': T['leaf']['n']}), list(T['flows']))
  if k == 'tworatio':
    # the ratios as a list or as a float ndarray (decided by the content), and for some trees a decoy adaptor built first from the
    # same argument objects: constructors and constraint builders must not modify what the caller passed
    h = int(__import__('core').case_hash({'r': [str(x) for x in T['ratios']], 'f': list(T['flows']), 'n': T['leaf']['n']}), 16)
    ratios = [float(T['ratios'][0]), float(T['ratios'][1])]
    if h % 2:
      ratios = np.array(ratios, dtype=float)
    inner, flows, ct = standalone_use(lg.build(T['leaf']), {'tr': T['id'], 'h': h}), list(T['flows']), 'eq' if T['eq'] else 'ineq'
    if h % 3 == 0:
      decoy = dk.TwoRatioMFDeviceSet(inner, flows, ratios, ct)
      for c in decoy.constraints:
        if 'jac' in c:
          try:
            c['jac'](np.zeros(len(flows) * len(inner)))
          except Exception:
            pass
    return dk.TwoRatioMFDeviceSet(inner, flows, ratios, ct)
  kids = [standalone_use(_build(c), {'kid': c['id'], 'of': T['id'], 'i': i, 'n': len(T['kids'])}) for i, c in enumerate(T['kids'])]
  if k == 'set':
    return dk.DeviceSet(T['id'], kids, py_sbounds(T['sbounds']))
  if k == 'subbal':
    return dk.SubBalancedDeviceSet(T['id'], kids, py_sbounds(T['sbounds']), labels=list(T['labels']),
                                   constraint_type='eq' if T['eq'] else 'ineq', sign=float(T['sign']),
                                   apply_to_remaining=bool(T['remaining']))
  raise AssertionError(k)


# ---- Coq side ----------------------------------------------------------------------------------------------
def coq_sbounds(sb):
  return Raw('None') if sb is None else Some([tuple(b) for b in sb])


def coq_tree(T, leaf=lg.coq_leafdev):
  """Coq literal of type `dev Q` (`gdev Q L` when `leaf` prints another leaf type)."""
  k = T['kind']
  if k == 'leaf':
    return C('Leaf', T['id'], leaf(T['leaf']))
  if k == 'mf':
    return C('MF', T['id'], leaf(T['leaf']), list(T['flows']))
  if k == 'tworatio':
    return C('TwoRatio', T['id'], leaf(T['leaf']), list(T['flows']), tuple(T['ratios']), bool(T['eq']))
  kids = [coq_tree(c, leaf) for c in T['kids']]
  if k == 'set':
    return C('DSet', T['id'], kids, coq_sbounds(T['sbounds']))
  if k == 'subbal':
    return C('SubBal', T['id'], kids, coq_sbounds(T['sbounds']), list(T['labels']), bool(T['eq']), T['sign'], bool(T['remaining']))
  raise AssertionError(k)


# ---- flows and prices --------------------------------------------------------------------------------------
def _split(rng, t, k):
  """Split the vector t into k rows of the same sign summing to t (dyadic weights)."""
  out = [[F(0)] * len(t) for _ in range(k)]
  for i, v in enumerate(t):
    cuts = sorted(rng.randint(0, 4) for _ in range(k - 1))
    pts = [0] + cuts + [4]
    for j in range(k):
      out[j][i] = v * F(pts[j + 1] - pts[j], 4)
  return out


def gen_matrix(rng, T, kind=None, marker=False):
  """Flow matrix (list of rows of Fractions) with every row inside its leaf's bounds. kind as leafgen.gen_flow
  ('interior'|'lower'|'upper'|'mixed'|None=random per unit). Adaptors: the conduit rows either split an in-bounds
  flow of the wrapped device (so the slot totals are in the wrapped bounds and away from its kinks) or, for
  kind='free', are drawn independently inside the conduit bounds. marker=True: row i is i + slot/64 (not in bounds;
  distinct rows, to detect permutations)."""
  R, n = rows(T), length(T)
  if marker:
    return [[F(i) + F(j, 64) for j in range(n)] for i in range(R)]
  out = []
  for off, r, U in units(T):
    if U['kind'] == 'leaf':
      out.append(lg.gen_flow(rng, U['leaf'], None if kind == 'free' else kind))
    else:
      if kind == 'free' or (kind is None and rng.random() < 0.3):
        cb = conduit_leaf(U, 'x')
        rows_ = [lg.gen_flow(rng, cb, None) for _ in range(r)]
        if lg.kink_free(U['leaf']):   # keep the slot totals off the charge/discharge kink
          for i in range(n):
            if sum(x[i] for x in rows_) == 0:
              lo, hi = cb['bounds'][i]
              rows_[0][i] = hi if hi != 0 else lo
        out += rows_
      else:
        out += _split(rng, lg.gen_flow(rng, U['leaf'], kind), r)
  return out


def gen_tree_price(rng, T, kind=None):
  """('scalar', v) | ('vector', [n]) | ('matrix', [[n]*R]) | ('zero', 0)."""
  R, n = rows(T), length(T)
  kind = kind or pick(rng, ['zero', 'scalar', 'vector', 'matrix', 'matrix'])
  if kind == 'zero':
    return ('scalar', F(0))
  if kind == 'scalar':
    return ('scalar', dy(rng, -2, 3, 2))
  if kind == 'vector':
    return ('vector', [dy(rng, -2, 3, 2) for _ in range(n)])
  return ('matrix', [[dy(rng, -2, 3, 2) for _ in range(n)] for _ in range(R)])


def py_price(p, form='nd'):
  """The Python object in which a price is handed over: 'nd' float / float ndarray; 'list' float / (nested) list of floats;
  'int' Python int / integer ndarray and 'intlist' Python int / (nested) list of Python ints (whole-number prices only, else as 'nd')."""
  def whole(v):
    return all(whole(x) for x in v) if isinstance(v, (list, tuple)) else F(v).denominator == 1
  def ints(v):
    return [ints(x) for x in v] if isinstance(v, (list, tuple)) else int(F(v))
  if form in ('int', 'intlist') and whole(p[1]):
    if p[0] == 'scalar':
      return int(F(p[1]))
    return np.array(ints(p[1]), dtype=int) if form == 'int' else ints(p[1])
  if form == 'list' and p[0] != 'scalar':
    return [list(r) for r in fl(p[1])] if p[0] == 'matrix' else list(fl(p[1]))
  return float(p[1]) if p[0] == 'scalar' else np.array(fl(p[1]))


def coq_price(p):
  return C({'scalar': 'PScalar', 'vector': 'PVector', 'matrix': 'PMatrix'}[p[0]], p[1])


def price_matrix(p, R, n):
  """p * np.ones((R, n)) as exact rows."""
  if p[0] == 'scalar':
    return [[p[1]] * n for _ in range(R)]
  if p[0] == 'vector':
    return [list(p[1]) for _ in range(R)]
  return [list(r) for r in p[1]]


def price_to_json(p):
  return [p[0], jsonable(p[1])]


def price_from_json(j):
  def num(v):
    return [num(x) for x in v] if isinstance(v, list) else F(v)
  return (j[0], num(j[1]))


def matrix_to_json(S):
  return jsonable(S)


def matrix_from_json(J):
  return [[F(v) for v in r] for r in J]


# ---- JSON --------------------------------------------------------------------------------------------------
def tree_to_json(T):
  k = T['kind']
  J = {'kind': k, 'id': T['id']}
  if 'leaf' in T:
    J['leaf'] = lg.leaf_to_json(T['leaf'])
  if 'kids' in T:
    J['kids'] = [tree_to_json(c) for c in T['kids']]
    J['sbounds'] = jsonable(T['sbounds'])
    J['sb_kind'] = T.get('sb_kind')
  for f in ('labels', 'eq', 'remaining', 'flows'):
    if f in T:
      J[f] = T[f]
  for f in ('sign', 'ratios'):
    if f in T:
      J[f] = jsonable(T[f])
  return J


def tree_from_json(J):
  T = {'kind': J['kind'], 'id': J['id']}
  if 'leaf' in J:
    T['leaf'] = lg.leaf_from_json(J['leaf'])
  if 'kids' in J:
    T['kids'] = [tree_from_json(c) for c in J['kids']]
    T['sbounds'] = None if J.get('sbounds') is None else [(F(a), F(b)) for a, b in J['sbounds']]
    T['sb_kind'] = J.get('sb_kind')
  for f in ('labels', 'eq', 'remaining', 'flows'):
    if f in J:
      T[f] = J[f]
  if 'sign' in J:
    T['sign'] = F(J['sign'])
  if 'ratios' in J:
    T['ratios'] = (F(J['ratios'][0]), F(J['ratios'][1]))
  return T
