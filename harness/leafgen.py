"""Structured generator of atomic-device configurations (exact dyadic numbers), their construction on the
implementation, and their Coq literals (`leafdev Q` of Model/Dev.v)."""
from fractions import Fraction as F
import numpy as np
from core import dy, fl, cq, N, Raw, C, Some

CLASSES = ['Device', 'PVDevice', 'CDevice', 'CDevice2', 'IDevice', 'IDevice2', 'GDevice', 'SDevice', 'TDevice', 'ADevice']
LENGTHS = [1, 2, 3, 4, 5, 6, 7]


def pick(rng, xs):
  return xs[rng.randrange(len(xs))]


def gen_bounds(rng, n, sign='pos', zero_width=None):
  """sign: 'pos' (0 <= lo <= hi), 'neg' (lo <= hi <= 0), 'two' (lo < 0 < hi). zero_width: None|'some'|'all'."""
  zw = zero_width if zero_width is not None else pick(rng, [None, None, None, 'some', 'all'])
  per_slot = rng.random() < 0.6
  out = []
  base_lo, base_w = dy(rng, 0, 1, 2), dy(rng, F(1, 2), 3, 2)
  for i in range(n):
    lo, w = (dy(rng, 0, 1, 2), dy(rng, F(1, 2), 3, 2)) if per_slot else (base_lo, base_w)
    if zw == 'all' or (zw == 'some' and rng.random() < 0.4):
      w = F(0)
    if sign == 'pos':
      out.append((lo, lo + w))
    elif sign == 'neg':
      out.append((-(lo + w), -lo))
    else:
      out.append((-(lo + w + F(1, 4)), lo + w + F(1, 4)) if w else (lo, lo))
  return out


def gen_cbounds(rng, n, bounds, kind=None, contiguous=False):
  """None | [(lo,hi,0,n)] ('pair' or 'single') | several ranges (contiguous from 0, or overlapping)."""
  kind = kind or pick(rng, ['none', 'none', 'pair', 'single', 'multi', 'multi'] + ([] if contiguous else ['overlap']))
  if kind == 'none':
    return None, 'none'
  def feas(s, e):
    lsum = sum(b[0] for b in bounds[s:e]); hsum = sum(b[1] for b in bounds[s:e])
    # choose lo < hi with lsum <= hi and hsum >= lo
    lo = lsum + (hsum - lsum) * pick(rng, [F(0), F(1, 4), F(1, 2)]) - pick(rng, [F(0), F(0), F(1, 2)])
    hi = lo + pick(rng, [F(1, 4), F(1, 2), F(1), F(2)])
    if hi < lsum:
      hi = lsum + F(1, 4)
    if lo > hsum:
      lo = hsum - F(1, 4)
    if hi <= lo:
      hi = lo + F(1, 4)
    return lo, hi
  if kind in ('pair', 'single') or n == 1:
    lo, hi = feas(0, n)
    return [(lo, hi, 0, n)], kind if n > 1 else 'single'
  if kind == 'multi':
    k = rng.randint(2, min(3, n))
    cuts = sorted(rng.sample(range(1, n), k - 1))
    pts = [0] + cuts + [n]
    return [feas(pts[i], pts[i + 1]) + (pts[i], pts[i + 1]) for i in range(k)], 'multi'
  # overlapping / non-contiguous
  out = []
  for _ in range(rng.randint(2, 3)):
    s = rng.randrange(0, n); e = rng.randint(s + 1, n)
    out.append(feas(s, e) + (s, e))
  return out, 'overlap'


def gen_param(rng, n, lo, hi, m=2, vector=None):
  vector = rng.random() < 0.4 if vector is None else vector
  if vector:
    return [dy(rng, lo, hi, m) for _ in range(n)]
  return dy(rng, lo, hi, m)


def gen_leaf(rng, cls=None, n=None, **opt):
  cls = cls or pick(rng, CLASSES)
  n = n or pick(rng, LENGTHS)
  L = {'cls': cls, 'n': n, 'id': 'd'}
  if cls in ('Device', 'CDevice', 'CDevice2', 'IDevice', 'IDevice2', 'ADevice'):
    L['bounds'] = gen_bounds(rng, n, opt.get('sign', 'pos'), opt.get('zero_width'))
  elif cls in ('PVDevice', 'GDevice'):
    L['bounds'] = gen_bounds(rng, n, 'neg', opt.get('zero_width'))
  elif cls == 'SDevice':
    L['bounds'] = gen_bounds(rng, n, opt.get('sign', pick(rng, ['two', 'two', 'pos', 'neg'])), opt.get('zero_width', None if rng.random() < .8 else 'some'))
  elif cls == 'TDevice':
    sg = opt.get('sign', pick(rng, ['pos', 'pos', 'pos', 'two']))
    if opt.get('variant') is not None and 'sign' not in opt:
      sg = 'two' if (opt['variant'] // 5) % 2 == 0 else 'pos'
    L['bounds'] = gen_bounds(rng, n, sg, opt.get('zero_width'))
  cbk = opt.get('cbounds')
  if cls == 'CDevice2':
    cb, kind = gen_cbounds(rng, n, L['bounds'], cbk or pick(rng, ['pair', 'single', 'multi', 'multi']), contiguous=True)
    L['cbounds'], L['cb_kind'] = cb, kind
  else:
    L['cbounds'], L['cb_kind'] = gen_cbounds(rng, n, L['bounds'], cbk)
  if cls == 'CDevice':
    L['a'] = dy(rng, -3, 0, 2); L['b'] = dy(rng, -2, 2, 2)
  elif cls == 'CDevice2':
    ph = dy(rng, -2, 0, 2); L['p_h'] = ph; L['p_l'] = ph - pick(rng, [F(0), F(1, 4), F(1), F(2)])
  elif cls == 'IDevice':
    L['a'] = gen_param(rng, n, 0, 1, 2)
    L['b'] = gen_param(rng, n, 1, 4, 0)          # integer exponents: the executable fragment
    L['c'] = gen_param(rng, n, 0, 3, 2)
  elif cls == 'IDevice2':
    vec = rng.random() < 0.4
    ph = gen_param(rng, n, -2, 0, 2, vector=vec)
    if vec:
      L['p_h'] = ph; L['p_l'] = [v - pick(rng, [F(0), F(1, 4), F(1), F(2)]) for v in ph]
    else:
      L['p_h'] = ph; L['p_l'] = ph - pick(rng, [F(0), F(1, 4), F(1), F(2)])
  elif cls == 'GDevice':
    deg = rng.randint(0, 3)
    if rng.random() < 0.5:
      L['cost_coeffs'] = [dy(rng, 0, 2, 2) for _ in range(deg + 1)]
    else:
      L['cost_coeffs'] = [[dy(rng, 0, 2, 2) for _ in range(deg + 1)] for _ in range(n)]
  elif cls == 'SDevice':
    c1 = dy(rng, 0, 2, 2)
    c2 = pick(rng, [F(0), F(0), c1, c1 / 2, c1 * F(3, 4)])
    L.update({'c1': c1, 'c2': c2, 'c3': pick(rng, [F(0), F(0), dy(rng, F(1, 4), 2, 2)]),
              'capacity': dy(rng, 4, 12, 1), 'damage_depth': dy(rng, 0, 1, 2), 'start': dy(rng, 0, 1, 2),
              'reserve': dy(rng, 0, 1, 2), 'efficiency': pick(rng, [F(1), F(1), F(1, 2), F(3, 4)]),
              'sustainment': pick(rng, [F(1), F(1), F(1, 2), F(3, 4)]),
              'rate_clip': pick(rng, [None, None, None, (F(1), None), (None, F(2)), (F(3, 2), F(1))])})
    # some parameters assigned through their setters after construction (the class reads them live)
    if rng.random() < 0.35:
      L['post_set'] = sorted(set(['sustainment'] + rng.sample(['efficiency', 'capacity', 'start', 'reserve', 'damage_depth', 'c3'], rng.randint(0, 2))))
  elif cls == 'TDevice':
    L.update({'sustainment': pick(rng, [F(1), F(1, 2), F(3, 4), F(1, 4), F(0)]),
              'efficiency': pick(rng, [F(1), F(2), F(1, 2), F(-2), F(-1, 2)]),
              't_init': dy(rng, -5, 25, 1), 't_optimal': dy(rng, 15, 25, 1),
              't_range': pick(rng, [F(0), F(1), F(2), F(4)]),
              't_external': [dy(rng, -8, 30, 1) for _ in range(n)],
              'c': gen_param(rng, n, 0, 3, 2)})
  elif cls == 'ADevice':
    L['f'] = gen_fn(rng, n, L['bounds'], L['cbounds'], opt.get('fn_depth', 2))
    L['ucons'] = [gen_ucon(rng, n) for _ in range(rng.randint(0, 2))]
  v = opt.get('variant')
  if v is not None:
    # stratification: the features whose combinations matter are cycled deterministically instead of drawn
    if cls == 'TDevice':
      L['efficiency'] = [F(2), F(1, 2), F(-2), F(1), F(-1, 2)][v % 5]
      if L['t_range'] == 0 and v % 3:
        L['t_range'] = F(2)
    elif cls == 'SDevice':
      L['efficiency'] = [F(1, 2), F(1), F(3, 4)][v % 3]
      L['sustainment'] = [F(1), F(1, 2), F(3, 4)][(v // 3) % 3]
      if (v // 2) % 2 == 0 and L['c3'] == 0:
        L['c3'] = F(1, 2)
      if (v // 4) % 2 == 0 and L['c2'] == 0:
        L['c2'] = L['c1'] / 2
    elif cls == 'ADevice' and v % 2 == 0:
      # every combinator (reflection, sum, ranges, nested) over every kind of inner function whose first AND second derivative
      # depend on the point and are not even in it (cubics, power curves, offset quadratics): drawn at random these pairs are rare
      L['f'] = strat_fn(rng, n, L['bounds'], v // 2)
  add_late_settings(L)
  return L


def add_late_settings(L):
  """Settings assigned through the setters AFTER construction (the public setters accept them, so the device must behave like a
  freshly built twin): `post_set` = parameters left at their defaults by the constructor call and assigned afterwards;
  `rebound` = built with a wider bounds box (same signs), optionally used once (`warm`: project/cost/deriv/constraints), then
  re-bounded to the target.  Chosen deterministically from the content of L so that the draws of the main generator are unchanged."""
  import hashlib
  import random as _r
  r2 = _r.Random(int(hashlib.sha256(repr(sorted((k, repr(v)) for k, v in L.items())).encode()).hexdigest()[:12], 16))
  cls = L['cls']
  if 'post_set' not in L and r2.random() < 0.3:
    opts = {'IDevice': [['a'], ['b'], ['c'], ['a', 'c'], ['a', 'b', 'c']], 'IDevice2': [['p_h'], ['p_l', 'p_h']],
            'CDevice2': [['p_h'], ['p_l', 'p_h']], 'CDevice': [['a'], ['b'], ['a', 'b']]}.get(cls)
    if opts:
      L['post_set'] = r2.choice(opts)
  if r2.random() < 0.25 and not (cls == 'CDevice2' and not L.get('cbounds')):
    L['rebound'] = True
    L['warm'] = r2.random() < 0.6
  # slots that are narrow RELATIVE to their magnitude (width 1/16 at 8192: 7.6e-6 relative): positive-width slots all the same; a
  # relative-tolerance comparison (np.isclose) mistakes them for zero-width ones
  if cls in ('Device', 'CDevice', 'IDevice', 'IDevice2', 'PVDevice', 'GDevice') and not L.get('cbounds') and r2.random() < 0.12:
    nb = []
    for lo, hi in L['bounds']:
      if lo != hi and r2.random() < 0.7:
        (lo, hi) = (F(8192) + lo, F(8192) + lo + F(1, 16)) if hi > 0 else (-(F(8192) - hi + F(1, 16)), -(F(8192) - hi))
      nb.append((lo, hi))
    L['bounds'] = nb
  elif r2.random() < 0.15:
    # whole-number bounds handed over as an INTEGER array (rounded outwards, so cumulative bounds stay attainable): nothing may compute
    # in the dtype of the bounds
    import math
    L['bounds'] = [(F(math.floor(lo)), F(math.ceil(hi))) for lo, hi in L['bounds']]
    L['intb'] = True
  if cls == 'TDevice' and r2.random() < 0.1:
    L['t_optimal'], L['t_range'] = F(256), F(1, 512)      # a comfort band that is narrow relative to the temperature scale
  if r2.random() < 0.25:
    L['twice'] = True         # a decoy device is constructed first FROM THE SAME ARGUMENT OBJECTS (constructors must not modify them)
  if r2.random() < 0.5:
    L['nd'] = True            # sequence-valued arguments (external temperatures, coefficients) as float ndarrays instead of lists
  if L.get('cbounds') and r2.random() < 0.2:
    L['recb'] = True          # built without (CDevice2: with the default) cumulative bounds, used once, then `cbounds` assigned
  if L.get('post_set') and r2.random() < 0.5:
    L['pwarm'] = True         # the device is used once (project/cost/deriv/constraints/hess) BEFORE the late parameters are assigned


# ---- preference-function ASTs -----------------------------------------------------------------------
FN_KINDS = ['null', 'sum', 'reflect', 'poly2d', 'poly2doffset', 'x2d', 'ranges', 'innerhl', 'abc', 'hl', 'demand']


def gen_fn(rng, n, bounds, cbounds, depth):
  kinds = [k for k in FN_KINDS if depth > 0 or k not in ('sum', 'reflect', 'ranges')]
  if n < 2:
    kinds = [k for k in kinds if k != 'ranges']
  k = pick(rng, kinds)
  if k == 'null':
    return ('null',)
  if k == 'sum':
    return ('sum', [gen_fn(rng, n, bounds, cbounds, depth - 1) for _ in range(rng.randint(0, 3))])
  if k == 'reflect':
    return ('reflect', gen_fn(rng, n, bounds, cbounds, depth - 1))
  if k == 'poly2d':
    deg = rng.randint(0, 3)
    return ('poly2d', [[dy(rng, -2, 2, 2) for _ in range(deg + 1)] for _ in range(n)])
  if k == 'poly2doffset':
    return ('poly2doffset', [[dy(rng, -2, 2, 2) for _ in range(3)] for _ in range(n)], [dy(rng, -1, 1, 2) for _ in range(n)])
  if k == 'x2d':
    out = []
    for i in range(n):
      ph = dy(rng, -2, 1, 2)
      out.append((ph - pick(rng, [F(0), F(1, 2), F(1)]), ph, bounds[i][0], bounds[i][1]))
    return ('x2d', out)
  if k == 'ranges':
    kk = rng.randint(1, min(3, n))
    cuts = sorted(rng.sample(range(1, n), kk - 1))
    pts = [0] + cuts + [n]
    return ('ranges', [(pts[i], pts[i + 1], gen_fn(rng, pts[i + 1] - pts[i], bounds[pts[i]:pts[i + 1]], None, depth - 1)) for i in range(kk)])
  if k == 'innerhl':
    ph = dy(rng, -2, 1, 2)
    lo = dy(rng, 0, 2, 2)
    return ('innerhl', ph - pick(rng, [F(0), F(1, 2), F(1)]), ph, lo, lo + pick(rng, [F(0), F(1), F(3)]))
  if k == 'abc':
    return ('abc', gen_param(rng, n, 0, 1, 2), gen_param(rng, n, 1, 3, 0), gen_param(rng, n, 0, 2, 2),
            [b[0] for b in bounds], [b[1] for b in bounds])
  if k == 'hl':
    ph = dy(rng, -2, 1, 2)
    return ('hl', ph - pick(rng, [F(0), F(1, 2), F(1)]), ph, [b[0] for b in bounds], [b[1] for b in bounds])
  if k == 'demand':
    return ('demand', [dy(rng, -1, 2, 2) for _ in range(rng.randint(1, 3))])
  raise AssertionError(k)


def strat_fn(rng, n, bounds, v):
  inner_kinds = ['cubic', 'abc3', 'offset', 'hl', 'x2d', 'abc2']
  outer_kinds = ['reflect', 'sum-reflect', 'reflect-sum', 'ranges-reflect', 'reflect-reflect', 'sum']

  def inner(kind, n, bounds):
    if kind == 'cubic':
      return ('poly2d', [[dy(rng, F(1, 4), 2, 2) * pick(rng, [1, -1]), dy(rng, -2, 2, 2), dy(rng, -2, 2, 2), dy(rng, -2, 2, 2)] for _ in range(n)])
    if kind in ('abc3', 'abc2'):
      b = F(3) if kind == 'abc3' else F(2)
      return ('abc', gen_param(rng, n, 0, 1, 2), b, dy(rng, F(1, 2), 2, 2), [x[0] for x in bounds], [x[1] for x in bounds])
    if kind == 'offset':
      return ('poly2doffset', [[dy(rng, F(1, 4), 2, 2), dy(rng, -2, 2, 2), dy(rng, -2, 2, 2)] for _ in range(n)], [dy(rng, F(1, 4), 1, 2) * pick(rng, [1, -1]) for _ in range(n)])
    if kind == 'hl':
      ph = dy(rng, -2, 1, 2)
      return ('hl', ph - pick(rng, [F(1, 2), F(1)]), ph, [x[0] for x in bounds], [x[1] for x in bounds])
    out = []
    for i in range(n):
      ph = dy(rng, -2, 1, 2)
      out.append((ph - pick(rng, [F(1, 2), F(1)]), ph, bounds[i][0], bounds[i][1]))
    return ('x2d', out)
  ik = inner_kinds[v % len(inner_kinds)]
  ok = outer_kinds[(v // len(inner_kinds)) % len(outer_kinds)]
  f = inner(ik, n, bounds)
  if ok == 'reflect':
    return ('reflect', f)
  if ok == 'sum-reflect':
    return ('sum', [('reflect', f), inner(inner_kinds[(v + 1) % len(inner_kinds)], n, bounds)])
  if ok == 'reflect-sum':
    return ('reflect', ('sum', [f, inner(inner_kinds[(v + 2) % len(inner_kinds)], n, bounds)]))
  if ok == 'reflect-reflect':
    return ('reflect', ('reflect', f))
  if ok == 'ranges-reflect' and n >= 2:
    cut = rng.randint(1, n - 1)
    return ('ranges', [(0, cut, ('reflect', inner(ik, cut, bounds[:cut]))), (cut, n, inner(ik, n - cut, bounds[cut:]))])
  return ('sum', [f, ('reflect', inner(ik, n, bounds))])


def gen_ucon(rng, n):
  return {'eq': rng.random() < 0.2, 'w': [dy(rng, -1, 2, 1) for _ in range(n)], 'k': dy(rng, -2, 6, 1), 'jac': rng.random() < 0.7}


def build_fn(f):
  from device_kit import functions as fn
  k = f[0]
  if k == 'null':
    return fn.NullFunction()
  if k == 'sum':
    return fn.SumFunction([build_fn(g) for g in f[1]])
  if k == 'reflect':
    return fn.ReflectedFunction(build_fn(f[1]))
  if k == 'poly2d':
    return fn.Poly2D(fl(f[1]))
  if k == 'poly2doffset':
    return fn.Poly2DOffset([fl(c) + [float(o)] for c, o in zip(f[1], f[2])])
  if k == 'x2d':
    return fn.X2D([fn.HLQuadraticCost(*fl(list(t))) for t in f[1]])
  if k == 'ranges':
    return fn.RangesFunction([((s, e), build_fn(g)) for s, e, g in f[1]])
  if k == 'innerhl':
    return fn.InnerSumFunction(fn.HLQuadraticCost(*fl(list(f[1:]))))
  if k == 'abc':
    return fn.ABCCost(*[np.array(fl(v)) if isinstance(v, list) else float(v) for v in f[1:]])
  if k == 'hl':
    return fn.HLQuadraticCost(*[np.array(fl(v)) if isinstance(v, list) else float(v) for v in f[1:]])
  if k == 'demand':
    return fn.DemandFunction(np.poly1d(fl(f[1])))
  # the three numerically differentiated functions (modelled over the reals only: Model/Trans.v)
  if k == 'entropy':
    return fn.InformationEntropy(float(f[1]))
  if k == 'tvar':
    return fn.TemporalVariance(float(f[1]))
  if k == 'cobb':
    return fn.CobbDouglas(np.array(fl(f[1])), float(f[2]))
  raise AssertionError(k)


def coq_param(v):
  return C('PV', list(v)) if isinstance(v, list) else C('PS', v)


def coq_fn(f):
  k = f[0]
  if k == 'null':
    return Raw('FNull')
  if k == 'sum':
    return C('FSum', [coq_fn(g) for g in f[1]])
  if k == 'reflect':
    return C('FReflect', coq_fn(f[1]))
  if k == 'poly2d':
    return C('FPoly2D', f[1])
  if k == 'poly2doffset':
    return C('FPoly2DOffset', f[1], f[2])
  if k == 'x2d':
    return C('FX2D', [tuple(t) for t in f[1]])
  if k == 'ranges':
    return C('FRanges', [(N(s), N(e), coq_fn(g)) for s, e, g in f[1]])
  if k == 'innerhl':
    return C('FInnerHL', *f[1:])
  if k == 'abc':
    return C('FABC', *[coq_param(v) for v in f[1:]])
  if k == 'hl':
    return C('FHL', *[coq_param(v) for v in f[1:]])
  if k == 'demand':
    return C('FDemand', f[1])
  raise AssertionError(k)


def fn_kinds(f, acc=None):
  acc = acc if acc is not None else set()
  acc.add(f[0])
  if f[0] == 'sum':
    for g in f[1]:
      fn_kinds(g, acc)
  elif f[0] == 'reflect':
    fn_kinds(f[1], acc)
  elif f[0] == 'ranges':
    for _, _, g in f[1]:
      fn_kinds(g, acc)
  return acc


# ---- implementation side -----------------------------------------------------------------------------
def py_param(v):
  return np.array(fl(v)) if isinstance(v, list) else float(v)


def py_cbounds(cb, kind):
  if cb is None:
    return None
  if kind == 'pair':
    return (float(cb[0][0]), float(cb[0][1]))
  return [(float(a), float(b), s, e) for a, b, s, e in cb]


def widen(bounds):
  """A box containing `bounds` with the same signs: low - |low|, high + |high| per slot."""
  return [(a - abs(a), b + abs(b)) for a, b in bounds]


def warm_up(d):
  """Use the device once before it is re-bounded (any caches it keeps must not survive the assignment)."""
  z = np.zeros(len(d))
  for f in (lambda: d.project(z.copy()), lambda: d.cost(z, 0), lambda: d.deriv(z, 0), lambda: [c['fun'](z) for c in d.constraints],
            lambda: d.hess(z, 0) if type(d).__name__ not in ('SDevice', 'TDevice') else None):
    try:
      f()
    except Exception:
      pass


def build(L):
  if L.get('recb'):
    L0 = dict(L)
    L0['recb'] = False
    L0['cbounds'], L0['cb_kind'] = None, None
    try:
      d = build(L0)
    except ValueError:        # e.g. CDevice2 whose default pair is degenerate: build it directly
      L1 = dict(L)
      L1['recb'] = False
      return build(L1)
    warm_up(d)
    d.cbounds = py_cbounds(L['cbounds'], L.get('cb_kind'))
    return d
  if L.get('rebound'):
    L0 = dict(L)
    L0['bounds'] = widen(L['bounds'])
    L0['rebound'] = False
    d = build(L0)
    if L.get('warm'):
      warm_up(d)
    tb = np.array(fl([list(b) for b in L['bounds']]))
    d.bounds = tb.astype(int) if (L.get('intb') and all(F(v).denominator == 1 for b in L['bounds'] for v in b)) else tb
    return d
  if L.get('post_set') and L['cls'] != 'SDevice':
    L0 = dict(L)
    post = [k for k in (('a', 'b', 'c', 'p_h', 'p_l') if L.get('ph_first') else ('a', 'b', 'c', 'p_l', 'p_h')) if k in L['post_set']]
    L0['post_set'] = None
    L0['omit'] = post
    d = build(L0)
    if L.get('pwarm'):
      warm_up(d)
    for k in post:
      setattr(d, k, py_param(L[k]))
    return d
  import device_kit as dk
  cls, n = L['cls'], L['n']
  bounds = np.array(fl([list(b) for b in L['bounds']]))
  if L.get('intb') and all(F(v).denominator == 1 for b in L['bounds'] for v in b):
    bounds = bounds.astype(int)
  cb = py_cbounds(L['cbounds'], L.get('cb_kind'))
  i = L.get('id', 'd')

  def call(ctor, *a, **kw):
    if L.get('twice'):
      ctor(*a, **kw)        # decoy built from the same argument objects
    return ctor(*a, **kw)

  def seq(v):
    v = fl(v)
    return np.array(v, dtype=float) if L.get('nd') else v
  if cls == 'Device':
    return call(dk.Device, i, n, bounds, cb)
  if cls == 'PVDevice':
    return call(dk.PVDevice, i, n, bounds, cb)
  omit = L.get('omit') or []

  def kwargs(**kw):
    kw = {k: v for k, v in kw.items() if k not in omit}
    if L.get('ph_first') and 'p_h' in kw and 'p_l' in kw:      # keyword order is setter order: the high slope assigned before the low one
      kw = {'p_h': kw['p_h'], 'p_l': kw['p_l']}
    return kw
  if cls == 'CDevice':
    return call(dk.CDevice, i, n, bounds, cb, **kwargs(a=float(L['a']), b=float(L['b'])))
  if cls == 'CDevice2':
    return call(dk.CDevice2, i, n, bounds, cb, **kwargs(p_l=float(L['p_l']), p_h=float(L['p_h'])))
  if cls == 'IDevice':
    return call(dk.IDevice, i, n, bounds, cb, **kwargs(a=py_param(L['a']), b=py_param(L['b']), c=py_param(L['c'])))
  if cls == 'IDevice2':
    return call(dk.IDevice2, i, n, bounds, cb, **kwargs(p_l=py_param(L['p_l']), p_h=py_param(L['p_h'])))
  if cls == 'GDevice':
    return call(dk.GDevice, i, n, bounds, cb, cost_coeffs=seq(L['cost_coeffs']))
  if cls == 'SDevice':
    rc = L['rate_clip']
    kw = {k: float(L[k]) for k in ('c1', 'c2', 'c3', 'capacity', 'damage_depth', 'start', 'reserve', 'efficiency', 'sustainment')}
    if rc is not None:
      kw['rate_clip'] = tuple(None if v is None else float(v) for v in rc)
    post = {k: kw.pop(k) for k in (L.get('post_set') or [])}
    for k in L.get('omit', []):      # left at the class default (the spec must hold that default): the keyword is not passed at all
      kw.pop(k, None)
    d = call(dk.SDevice, i, n, bounds, cb, **kw)
    if post and L.get('pwarm'):
      warm_up(d)
    for k, v in post.items():
      setattr(d, k, v)
    return d
  if cls == 'TDevice':
    return call(dk.TDevice, i, n, bounds, float(L['sustainment']), float(L['efficiency']), float(L['t_init']), float(L['t_optimal']),
                float(L['t_range']), seq(L['t_external']), c=py_param(L['c']), cbounds=cb)
  if cls == 'ADevice':
    cons = []
    for u in L['ucons']:
      w, k = np.array(fl(u['w'])), float(u['k'])
      c = {'type': 'eq' if u['eq'] else 'ineq', 'fun': (lambda s, w=w, k=k: float(np.array(s).reshape(-1).dot(w) + k))}
      if u['jac']:
        c['jac'] = lambda s, w=w: w.copy()
      cons.append(c)
    if L.get('ucon_stack') and L['ucons']:
      # the same user constraints handed over as ONE vector-valued constraint per type (what scipy accepts): a rolling-window cap written
      # as caps - W.s >= 0.  The model keeps one scalar constraint per component.
      cons = []
      for eq in (True, False):
        us = [u for u in L['ucons'] if bool(u['eq']) == eq]
        if us:
          W, K = np.array([fl(u['w']) for u in us]), np.array([float(u['k']) for u in us])
          c = {'type': 'eq' if eq else 'ineq', 'fun': (lambda s, W=W, K=K: W.dot(np.array(s).reshape(-1)) + K)}
          if all(u['jac'] for u in us):
            c['jac'] = lambda s, W=W: W.copy()
          cons.append(c)
    return call(dk.ADevice, i, n, bounds, cb, f=build_fn(L['f']), constraints=cons)
  raise AssertionError(cls)


# ---- Coq side ------------------------------------------------------------------------------------------
def coq_kind(L):
  cls = L['cls']
  if cls == 'Device':
    return Raw('KDev')
  if cls == 'PVDevice':
    return Raw('KPV')
  if cls == 'CDevice':
    return C('KC', L['a'], L['b'])
  if cls == 'CDevice2':
    return C('KC2', L['p_l'], L['p_h'])
  if cls == 'IDevice':
    return C('KI', coq_param(L['a']), coq_param(L['b']), coq_param(L['c']))
  if cls == 'IDevice2':
    return C('KI2', coq_param(L['p_l']), coq_param(L['p_h']))
  if cls == 'GDevice':
    cc = L['cost_coeffs']
    return C('KG', C('G2', cc) if isinstance(cc[0], list) else C('G1', cc))
  if cls == 'SDevice':
    rc = L['rate_clip'] or (None, None)
    opt = lambda v: Raw('None') if v is None else Some(v)
    return C('KS', Raw('(Build_sparams %s)' % ' '.join(cq(x) for x in [
        L['c1'], L['c2'], L['c3'], L['capacity'], L['damage_depth'], L['start'], L['reserve'], L['efficiency'], L['sustainment'],
        opt(rc[0]), opt(rc[1])])))
  if cls == 'TDevice':
    return C('KT', Raw('(Build_tparams %s)' % ' '.join(cq(x) for x in [
        L['sustainment'], L['efficiency'], L['t_init'], L['t_optimal'], L['t_range'], L['t_external'], coq_param(L['c'])])))
  if cls == 'ADevice':
    ucs = [Raw('(Build_ucon %s)' % ' '.join(cq(x) for x in [u['eq'], u['w'], u['k'], u['jac']])) for u in L['ucons']]
    return C('KA', coq_fn(L['f']), ucs)
  raise AssertionError(cls)


def coq_cbounds(L):
  return [(a, b, N(s), N(e)) for a, b, s, e in (L['cbounds'] or [])]


def coq_leafdev(L):
  return Raw('(Build_leafdev %s %s %s %s)' % (cq(N(L['n'])), cq([tuple(b) for b in L['bounds']]), cq(coq_cbounds(L)), cq(coq_kind(L))))


# ---- flows and prices ------------------------------------------------------------------------------------
def kink_free(L):
  """Does a flow need to avoid 0 (charge/discharge kink)?"""
  return (L['cls'] == 'SDevice' and L['efficiency'] != 1) or (L['cls'] == 'TDevice' and L['efficiency'] != 1)


def gen_flow(rng, L, kind=None, avoid_kinks=True):
  """kind: 'interior' | 'lower' | 'upper' | 'mixed' (each slot at lo/hi/interior)."""
  kind = kind or pick(rng, ['interior', 'interior', 'interior', 'mixed', 'lower', 'upper'])
  out = []
  for lo, hi in L['bounds']:
    if kind == 'lower':
      v = lo
    elif kind == 'upper':
      v = hi
    else:
      r = rng.random()
      if kind == 'mixed' and r < 0.3:
        v = lo
      elif kind == 'mixed' and r < 0.6:
        v = hi
      else:
        v = dy(rng, lo, hi, 4)
    if avoid_kinks and kink_free(L) and v == 0:
      v = hi if hi != 0 else (lo if lo != 0 else v)
      if lo < 0 < hi:
        v = pick(rng, [lo / 2, hi / 2])
    out.append(v)
  return out


def integral_flow(L, s):
  """s with every slot moved to the nearest whole number inside the slot bounds (kept if there is none; 0 avoided for lossy
  storage / thermal devices); returns (flow, all entries whole)."""
  import math
  out = []
  for v, (lo, hi) in zip(s, L['bounds']):
    cands = list(range(math.ceil(lo), math.floor(hi) + 1))
    if kink_free(L):
      cands = [k for k in cands if k != 0]
    out.append(F(min(cands, key=lambda k: abs(k - v))) if cands else v)
  return out, all(F(v).denominator == 1 for v in out)


def np_flow(c, key='s'):
  """The flow of a case as an ndarray: float64, or int64 when the case is flagged 'int' (whole numbers handed over as integers)."""
  a = np.array(fl(c[key]))
  return a.astype(int) if c.get('int') else a


def gen_price(rng, n, kind=None):
  kind = kind or pick(rng, ['zero', 'scalar', 'vector', 'vector'])
  if kind == 'zero':
    return [F(0)] * n, kind
  if kind == 'scalar':
    v = dy(rng, -2, 3, 2)
    return [v] * n, kind
  return [dy(rng, -2, 3, 2) for _ in range(n)], kind


def leaf_to_json(L):
  from core import jsonable
  return jsonable(L)


def leaf_from_json(J):
  """Inverse of leaf_to_json (floats are dyadic, so Fraction(float) is exact)."""
  def conv(x):
    if isinstance(x, bool) or x is None or isinstance(x, str):
      return x
    if isinstance(x, int):
      return x
    if isinstance(x, float):
      return F(x)
    if isinstance(x, list):
      return [conv(v) for v in x]
    if isinstance(x, dict):
      return {k: conv(v) for k, v in x.items()}
    return x
  L = conv(J)
  n = L['n']
  L['bounds'] = [(F(a), F(b)) for a, b in L['bounds']]
  if L.get('cbounds') is not None:
    L['cbounds'] = [(F(a), F(b), int(s), int(e)) for a, b, s, e in L['cbounds']]
  for k, v in list(L.items()):
    if k in ('n', 'cls', 'id', 'cb_kind', 'bounds', 'cbounds', 'f', 'ucons', 'rate_clip', 'post_set', 'rebound', 'warm', 'omit', 'recb', 'twice', 'nd', 'intb', 'pwarm', 'ph_first', 'ucon_stack'):
      continue
    if isinstance(v, int) and not isinstance(v, bool):
      L[k] = F(v)
    if isinstance(v, list):
      L[k] = [([F(y) for y in w] if isinstance(w, list) else F(w)) for w in v]
  if L.get('rate_clip') is not None:
    L['rate_clip'] = tuple(None if v is None else F(v) for v in L['rate_clip'])
  if 'f' in L:
    L['f'] = fn_from_json(L['f'])
  if 'ucons' in L:
    L['ucons'] = [{'eq': u['eq'], 'w': [F(x) for x in u['w']], 'k': F(u['k']), 'jac': u['jac']} for u in L['ucons']]
  return L


def fn_from_json(f):
  def num(v):
    if isinstance(v, list):
      return [num(x) for x in v]
    return F(v)
  k = f[0]
  if k == 'null':
    return ('null',)
  if k == 'sum':
    return ('sum', [fn_from_json(g) for g in f[1]])
  if k == 'reflect':
    return ('reflect', fn_from_json(f[1]))
  if k == 'ranges':
    return ('ranges', [(int(s), int(e), fn_from_json(g)) for s, e, g in f[1]])
  if k == 'x2d':
    return ('x2d', [tuple(num(list(t))) for t in f[1]])
  return tuple([k] + [num(v) for v in f[1:]])
