"""Probe correspondences used when a generated file (coq/Gen/*.v) falls back to its committed snapshot.

A snapshot (translator/snapshots/*.v) is the generated text the proofs were developed against.  When the source has been
rewritten so that the translator no longer accepts it, or so that the regenerated text no longer lets the proofs through, the
check keeps the snapshot as the model (tie H instead of tie T for that file) and ties it to the code by one of these
differential runs, evaluated inside Coq like every other correspondence:

  kernels     the eight scalar kernels of functions.py (ABCCost.s/q/_cost/_deriv/_hess, HLQuadraticCost._cost/_deriv/_hess) called
              directly on a grid of exact inputs incl. zero-width ranges, equal slopes, exponents 1..4, a in {0..1}
  validators  the bounded-exhaustive constructor / cbounds / parameter-threshold cases of C11
  signatures  the exhaustive constructor-argument cases of C16 (predicted dump keys vs actual)

Each returns (broken obligations, stats).  A mismatch is a broken obligation of the calling check with the first disagreeing
input in its detail; the calling check's own failing-input search then runs as usual.
"""
import itertools
import os
import random
import sys
from fractions import Fraction as F

import core
from core import cq, fl, fr

HERE = os.path.dirname(os.path.abspath(__file__))
sys.path.insert(0, os.path.join(HERE, 'props'))

KPRELUDE = r'''From Coq Require Import ZArith QArith List Bool.
From DK Require Import Num NumQ Vec.
From DK.Gen Require Import Kernels.
Import ListNotations.
Local Open Scope Q_scope.
Definition agree (defined : bool) (model : Q) (impl : option Q) : bool :=
  match impl with
  | Some v => if defined then Qclose Qtol model v else true
  | None => negb defined
  end.
Definition arg (l : list Q) (i : nat) : Q := nth i l 0.
Definition chk (c : nat * list Q * option Q) : bool :=
  let '(f, l, impl) := c in
  let a := arg l in
  match f with
  | 0%nat => agree (abc_s_defined (a 0%nat) (a 1%nat) (a 2%nat)) (abc_s (a 0%nat) (a 1%nat) (a 2%nat)) impl
  | 1%nat => agree (abc_q_defined (a 0%nat) (a 1%nat) (a 2%nat) (a 3%nat)) (abc_q (a 0%nat) (a 1%nat) (a 2%nat) (a 3%nat)) impl
  | 2%nat => agree (abc_cost_defined (a 0%nat) (a 1%nat) (a 2%nat) (a 3%nat) (a 4%nat) (a 5%nat))
                  (abc_cost (a 0%nat) (a 1%nat) (a 2%nat) (a 3%nat) (a 4%nat) (a 5%nat)) impl
  | 3%nat => agree (abc_deriv_defined (a 0%nat) (a 1%nat) (a 2%nat) (a 3%nat) (a 4%nat) (a 5%nat))
                  (abc_deriv (a 0%nat) (a 1%nat) (a 2%nat) (a 3%nat) (a 4%nat) (a 5%nat)) impl
  | 4%nat => agree (abc_hess_defined (a 0%nat) (a 1%nat) (a 2%nat) (a 3%nat) (a 4%nat) (a 5%nat))
                  (abc_hess (a 0%nat) (a 1%nat) (a 2%nat) (a 3%nat) (a 4%nat) (a 5%nat)) impl
  | 5%nat => agree (hl_cost_defined (a 0%nat) (a 1%nat) (a 2%nat) (a 3%nat) (a 4%nat))
                  (hl_cost (a 0%nat) (a 1%nat) (a 2%nat) (a 3%nat) (a 4%nat)) impl
  | 6%nat => agree (hl_deriv_defined (a 0%nat) (a 1%nat) (a 2%nat) (a 3%nat) (a 4%nat))
                  (hl_deriv (a 0%nat) (a 1%nat) (a 2%nat) (a 3%nat) (a 4%nat)) impl
  | _ => agree (hl_hess_defined (a 0%nat) (a 1%nat) (a 2%nat) (a 3%nat) (a 4%nat))
              (hl_hess (a 0%nat) (a 1%nat) (a 2%nat) (a 3%nat) (a 4%nat)) impl
  end.
'''

KNAMES = ['ABCCost.s', 'ABCCost.q', 'ABCCost._cost', 'ABCCost._deriv', 'ABCCost._hess',
          'HLQuadraticCost._cost', 'HLQuadraticCost._deriv', 'HLQuadraticCost._hess']


def kernel_cases():
  rng = random.Random(20260929)
  ranges = [(F(0), F(2)), (F(-3), F(-1)), (F(1), F(1)), (F(0), F(0)), (F(-1), F(3, 2)), (F(1, 4), F(5, 4))]
  out = []
  for xl, xh in ranges:
    xs = sorted({xl, xh, (xl + xh) / 2, xl + (xh - xl) / 4, xl - F(1, 2), xh + F(3, 4), F(0)})
    for x in xs:
      out.append((0, [x, xl, xh]))
      for a in (F(0), F(1, 4), F(1)):
        out.append((1, [x, xl, xh, a]))
      for a, b, c in itertools.product((F(0), F(1, 4), F(1, 2), F(1)), (F(1), F(2), F(3), F(4)), (F(0), F(1, 2), F(2))):
        if rng.random() < 0.45:
          for f in (2, 3, 4):
            out.append((f, [x, a, b, c, xl, xh]))
      for pl, ph in ((F(-1), F(0)), (F(-2), F(-2)), (F(0), F(0)), (F(-3), F(1)), (F(-1, 2), F(-1, 4)), (F(1), F(-1))):
        for f in (5, 6, 7):
          out.append((f, [x, pl, ph, xl, xh]))
  return out


def kernel_impl(f, args):
  import math
  from device_kit.functions import ABCCost, HLQuadraticCost
  x = fl(args)
  fn = [ABCCost.s, ABCCost.q, ABCCost._cost, ABCCost._deriv, ABCCost._hess,
        HLQuadraticCost._cost, HLQuadraticCost._deriv, HLQuadraticCost._hess][f]
  if f == 0:
    v = fn(x[0], x[1], x[2])
  elif f == 1:
    v = fn(x[0], x[1], x[2], x[3])
  else:
    v = fn(*x)
  v = float(v)
  if not math.isfinite(v):
    raise ZeroDivisionError('non-finite')
  return fr(v)


def probe_kernels(used=None):
  """used: the kernel functions the calling property's statement depends on (None = all); a disagreement confined to other kernels is
  recorded in the statistics, not as a broken obligation of that property"""
  import warnings
  import numpy as np
  cases = kernel_cases()
  lits = []
  with warnings.catch_warnings():
    warnings.simplefilter('ignore')
    old = np.seterr(all='ignore')
    for f, args in cases:
      try:
        impl = 'Some (%s)' % cq(kernel_impl(f, args))
      except (ZeroDivisionError, OverflowError, FloatingPointError):
        impl = 'None'
      except Exception as e:
        return [{'kind': 'correspondence', 'name': 'probe:kernels',
                 'detail': '%s(%s) raised %s: %s' % (KNAMES[f], [str(a) for a in args], type(e).__name__, e)}], {'cases': 0}
      lits.append('(%d%%nat, %s, %s)' % (f, cq(args), impl))
    np.seterr(**old)
  idx, err = core.coq_failing('probe_kernels', KPRELUDE, 'nat * list Q * option Q', 'chk', lits, shard=600, tag='probe')
  broken = []
  if err:
    broken.append({'kind': 'correspondence-run', 'name': 'probe:kernels', 'detail': err})
  elsewhere = sorted({KNAMES[cases[i][0]] for i in idx if used is not None and KNAMES[cases[i][0]] not in used})
  idx = [i for i in idx if used is None or KNAMES[cases[i][0]] in used]
  if idx:
    f, args = cases[idx[0]]
    broken.append({'kind': 'correspondence', 'name': 'probe:kernels',
                   'detail': '%d of %d direct kernel calls disagree with the snapshot model; first: %s(%s)' % (
                       len(idx), len(cases), KNAMES[f], ', '.join(str(a) for a in args))})
  return broken, {'cases': len(cases), 'disagree': len(idx), 'disagree_in_kernels_this_property_does_not_use': elsewhere}


def _probe_with(modname, kinds, tag):
  import importlib
  mod = importlib.import_module(modname)
  ok, log = core.build([m[:-2] + '.vo' for m in getattr(mod, 'MODEL_VO', [])])
  if not ok:
    return [{'kind': 'model-build', 'name': 'probe:%s' % tag, 'detail': core.first_error(log)}], {'cases': 0}
  rng = random.Random(7)
  cases = [c for c in mod.gen_cases(rng, 'quick') if c.get('kind') in kinds]
  findings = core.load_findings(mod.ID)
  lits, kept = [], []
  for c in cases:
    if hasattr(mod, 'finding_matches') and any(mod.finding_matches(f, c) for f in findings):
      continue
    try:
      o = mod.observe(c)
      lits.append(mod.coq_case(c, o))
      kept.append(c)
    except Exception as e:
      return [{'kind': 'correspondence', 'name': 'probe:%s' % tag,
               'detail': 'implementation raised %s: %s on %s' % (type(e).__name__, str(e)[:200], str(c)[:300])}], {'cases': len(kept)}
  idx, err = core.coq_failing('probe_%s' % tag, mod.COQ_PRELUDE, mod.CASE_TYPE, mod.CHECKER, lits, shard=getattr(mod, 'SHARD', 250), tag='probe')
  broken = []
  if err:
    broken.append({'kind': 'correspondence-run', 'name': 'probe:%s' % tag, 'detail': err})
  if idx:
    broken.append({'kind': 'correspondence', 'name': 'probe:%s' % tag,
                   'detail': '%d of %d %s cases disagree with the snapshot model; first: %s' % (len(idx), len(lits), mod.ID, str(core.jsonable(kept[idx[0]]))[:500])})
  return broken, {'cases': len(lits), 'disagree': len(idx)}


def probe_validators():
  return _probe_with('c11', ('ct', 'cb', 'par'), 'validators')


def probe_signatures():
  return _probe_with('c16', ('cfg',), 'signatures')


PROBES = {'kernels': probe_kernels, 'validators': probe_validators, 'signatures': probe_signatures}
