"""Regenerated text versus snapshot, decided by evaluation inside Coq.

When the `Gen = Model` proofs do not go through on a regenerated Gen/*.v, the source was either rewritten harmlessly (the generated
text differs, its meaning does not) or changed in meaning.  Both texts are executable Gallina, so the question is put to Coq: the
regenerated text is compiled as a second module (coq/Cases/<Name>New.v), every definition of the file is applied - in both modules -
to a fixed battery of exact rational inputs (operands that are functions come from small menus of concrete functions with
point-dependent, non-even derivatives), the results are encoded as lists of rationals (Model/ProbeEnc.v) and compared with exact
rational equality by vm_compute.

  The battery inputs lie inside the domain of the `Gen = Model` theorems (one entry per row, distinct run keys, an even number of
  interval end points, ...): outside it a definition that fell back to its model alias may legitimately differ from the translated text.

  differ  -> a broken obligation `gen-vs-model:<file>` naming the definition and the battery entry (the check's own failing-input
             search then runs on the implementation as for any other broken obligation)
  agree   -> the rewrite is taken to be harmless: the snapshot stays installed (the theorems speak about it) and the tie for the
             file is the check's correspondence, as for a method outside the whitelist.

This is differential evaluation of two model texts, not a proof; it only classifies a broken proof.
"""
import os
import re
import core

PRELUDE = '''From Coq Require Import ZArith QArith Qminmax List Bool.
From DK Require Import Num NumQ Vec.
From DK.Gen Require Import Kernels.
From DK.Model Require Import Leaf Fn Dev Tree Projection PyOps SetOps FnOps ConOps Solve SolveOps NpOps Loader LoaderOps ProbeEnc.
Require DK.Gen.Classes.
Require DK.Gen.%(name)s.
Require DKC.%(name)sNew.
Import ListNotations.
Local Open Scope Q_scope.
Definition va : list Q := [1#2; -(3#4); 2].
Definition vb : list Q := [0; 5#4; -1].
Definition vc : list Q := [3; -2; 1#3].
Definition vd : list Q := [1#4; 1#2; 3#4].
Definition v2 : list Q := [1; -2].
Definition pts : list (list Q) := [va; vb; vc; vd; v2; []].
Definition cube3 : list (Q * Q) := [(0, 1); (-1, 1#2); (1, 1)].
Definition cube3b : list (Q * Q) := [(-2, 0); (0, 0); (-1, 3)].
Definition m23 : list (list Q) := [va; vb].
Definition m32 : list (list Q) := [[1; -2]; [1#2; 3]; [0; -(1#4)]].
Definition m33 : list (list Q) := [va; vb; vc].
'''

# per generated file: list of (label, Coq expression of type list Q, with @M@ standing for the module)
BATTERIES = {}

BATTERIES['Projection'] = [
  ('constants', 'enc_s (@M@.ConvexRegion_tol (A:=Q)) ++ enc_n @M@.Intersection_maxiter'),
] + [
  ('HyperCube.project', 'concat (map (fun p => enc_pres enc_v (@M@.HyperCube_project %s p)) pts)' % c) for c in ('cube3', 'cube3b')
] + [
  ('ConvexRegion.is_in', 'concat (map (fun p => enc_pres enc_b (@M@.ConvexRegion_is_in (%s) (@M@.HyperCube_project cube3) p)) (pts ++ [[1#2; 0; 1]; [1 + (1#200); 0; 1]]))' % t)
  for t in ('1#100', '0')
] + [
  ('HalfSpace.project', 'concat (map (fun p => enc_pres enc_v (@M@.HalfSpace_project %s (%s) (%s) p)) pts)' % (n, o, s))
  for n in ('[3#5; 4#5; 0]', '[1; 0; -2]') for o in ('1', '-(1#2)', '0') for s in ('1', '-1', '0')
] + [
  ('HalfSpace.__init__', 'concat (map (fun sg => enc_pres enc_half (@M@.HalfSpace_init (fun v => dot v v + 1) [3; 4; 0] 5 sg)) [1; 0; -1])'),
  ('Slice.__init__', 'concat (map (fun lh => enc_pres (fun t => enc_half (fst t) ++ enc_half (snd t)) (@M@.Slice_init (fun v => dot v v + 1) [1; 2; 0] (fst lh) (snd lh))) [(0, 1); (1, 1); (2, 1)])'),
] + [
  ('Slice.project/is_in', 'concat (map (fun p => enc_pres enc_v (@M@.Slice_project (%s) [3#5; 4#5; 0] (%s) 1 [3#5; 4#5; 0] (%s) (-1) p) ++ enc_pres enc_b (@M@.Slice_is_in (%s) [3#5; 4#5; 0] (%s) 1 [3#5; 4#5; 0] (%s) (-1) p)) pts)' % (t, lo, hi, t, lo, hi))
  for t in ('0', '1#10') for (lo, hi) in (('0', '1'), ('1#2', '1#2'), ('-1', '-(1#2)'))
] + [
  ('Intersection', ('let pa := @M@.HyperCube_project cube3 in let pb := @M@.HalfSpace_project [1; 1; 1] (%s) (%s) in '
                    'let ia := @M@.ConvexRegion_is_in (1#1000) pa in let ib := @M@.ConvexRegion_is_in (1#1000) pb in '
                    'concat (map (fun p => enc_pres enc_b (@M@.Intersection_is_in pa pb ia ib %s 60 p) ++ enc_pres enc_v (@M@.Intersection_project pa pb ia ib %s 60 p) '
                    '++ enc_pres enc_v (@M@.Intersection_dykstra_project pa pb ia ib %s 60 p)) pts)') % (o, s, mi, mi, mi))
  for o in ('1', '5#2', '4') for s in ('1', '-1') for mi in ('0%nat', '1%nat', '2%nat', '3%nat', '40%nat')
] + [
  ('List.project rows', 'concat (map (fun m => enc_pres enc_m (@M@.List_project [@M@.HyperCube_project cube3; @M@.HyperCube_project cube3b] 0 (2%nat, 3%nat) m)) [m23; m32; m33; []])'),
  ('List.project columns', 'concat (map (fun m => enc_pres enc_m (@M@.List_project [@M@.HyperCube_project cube3; @M@.HyperCube_project cube3b] 1 (3%nat, 2%nat) m)) [m32; m23; m33; []])'),
  ('Device.project', 'concat (map (fun m => enc_pres enc_m (@M@.Device_project cube3 m) ++ enc_pres enc_m (@M@.Device_project cube3b m)) [[va]; [vb]; [vc]; [v2]; [[1]; [2]; [3]]; []])'),
]

TH = '3%%nat (%s) (%s) 5 20 2 [10; -4; 0] (%s)'
BATTERIES['Thermal'] = [
  (nm, 'concat (map (fun s => %s) [va; vb; vc; vd])' % body)
  for su in ('1#2', '1', '0') for ef in ('3#4', '-2') for c in ('PS 1', 'PV [1; 0; 2]')
  for (nm, body) in (
    ('TDevice._make_t_base/r2t', 'enc_v (@M@.TDevice__make_t_base %s [10; -4; 0] (%s) 5) ++ enc_v (@M@.TDevice_r2t %s s)' % (TH % (su, ef, c), su, TH % (su, ef, c))),
    ('TDevice.costv_t/deriv_t', 'enc_s (@M@.TDevice_costv_t %s s) ++ enc_v (@M@.TDevice_deriv_t %s s)' % (TH % (su, ef, c), TH % (su, ef, c))),
    ('TDevice.costv/cost/deriv', 'enc_v (@M@.TDevice_costv %s s vb) ++ enc_s (@M@.TDevice_cost %s s vb) ++ enc_v (@M@.TDevice_deriv %s s vb)' % ((TH % (su, ef, c),) * 3)),
  )
]

KIDS = '''Definition kidA (r : nat) (w : Q) : kid Q :=
  {| k_rows := r; k_len := 3; k_cost := fun S P => w * vsum (map (fun x => x * x * x) (List.concat S)) + vsum (map2 dot S P);
     k_deriv := fun S P => map2 (fun s p => vadd (map (fun x => 3 * w * x * x) s) p) S P;
     k_hess := fun S P => diag (map (fun x => 6 * w * x) (colsum 3 S));
     k_bounds := repeat (0, w) (r * 3); k_project := fun S => map (map (fun x => Qmax 0 (Qmin w x))) S |}.
Definition kids1 : list (kid Q) := [kidA 1 1; kidA 2 (1#2); kidA 1 (-2)].
Definition kids2 : list (kid Q) := [kidA 2 3].
Definition flat4 : list Q := [1; -2; 3; 1#2; 0; -1; 2; 2; 1#3; -(1#2); 4; 1].
Definition prices : list (price Q) := [PScalar (3#2); PVector [1; -1; 2]; PMatrix [[1; 0; 2]; [-1; 1#2; 0]; [3; 3; -3]; [0; 1; 1]]].
Definition wdevA (w : Q) : wdev Q :=
  {| w_cost := fun x p => w * vsum (map (fun v => v * v * v) x) + dot x p; w_deriv := fun x p => vadd (map (fun v => 3 * w * v * v) x) p;
     w_hess := fun x p => diag (map (fun v => 6 * w * v) x); w_project := fun x => map (fun v => Qmax 0 (Qmin w v)) x |}.
Definition fobjA (w : Q) : fobj Q :=
  {| f_call := fun x => w * vsum (map (fun v => v * v * v) x) + vsum x; f_deriv := fun x => map (fun v => 3 * w * v * v + 1) x;
     f_hess := fun x => diag (map (fun v => 6 * w * v) x) |}.
Definition sfobjA (w : Q) : sfobj Q := {| sf_call := fun v => w * v * v * v + v; sf_deriv := fun v => 3 * w * v * v + 1; sf_hess := fun v => 6 * w * v |}.
'''
BATTERIES['DeviceSet'] = [
  ('shapes/shape/partition/bounds', 'concat (map (fun ks => enc_nps (@M@.DeviceSet_shapes ks 3) ++ enc_np (@M@.DeviceSet_shape ks 3) ++ enc_nps (@M@.DeviceSet_partition ks 3) ++ enc_cube (@M@.DeviceSet_bounds ks 3)) [kids1; kids2; []])'),
  ('costv/cost/deriv/hess', 'concat (map (fun p => enc_v (@M@.DeviceSet_costv kids1 3 flat4 p) ++ enc_s (@M@.DeviceSet_cost kids1 3 flat4 p) ++ enc_m (@M@.DeviceSet_deriv kids1 3 flat4 p) ++ enc_m (@M@.DeviceSet_hess kids1 3 flat4 p)) prices)'),
  ('costv/deriv one child', 'concat (map (fun p => enc_v (@M@.DeviceSet_costv kids2 3 (firstn 6 flat4) p) ++ enc_m (@M@.DeviceSet_deriv kids2 3 (firstn 6 flat4) p)) (firstn 2 prices))'),
  ('project', 'enc_m (@M@.DeviceSet_project kids1 3 flat4) ++ enc_m (@M@.DeviceSet_project kids2 3 (firstn 6 flat4))'),
]
BATTERIES['MFDeviceSet'] = [
  ('cost/deriv/hess/project', 'concat (map (fun k => concat (map (fun p => let cs := repeat (kidA 1 1) k in let s := firstn (k * 3) flat4 in '
                              'enc_s (@M@.MFDeviceSet_cost (wdevA 2) cs 3 s p) ++ enc_m (@M@.MFDeviceSet_deriv (wdevA 2) cs 3 s p) ++ enc_m (@M@.MFDeviceSet_hess (wdevA 2) cs 3 s p) '
                              '++ enc_m (@M@.MFDeviceSet_project (wdevA 2) cs 3 s)) (firstn 2 prices))) [1%nat; 2%nat; 3%nat; 4%nat])'),
  ('__init__', 'concat (map (fun lh => enc_b (@M@.MFDeviceSet_init_rejects 2 (fst lh) (snd lh)) ++ enc_b (@M@.MFDeviceSet_init_rejects 0 (fst lh) (snd lh)) ++ enc_cube (@M@.MFDeviceSet_conduit_bounds (fst lh) (snd lh))) '
               '[([0; 0; 0], [1; 2; 0]); ([-1; 0; -2], [0; 0; 0]); ([-1; 0; 0], [0; 0; 0]); ([-1; 0; 0], [0; 2; 0]); ([0; 0; 0], [0; 0; 0]); ([-1; -1; -1], [0; 0; 0]); ([0;0;0], [1;1;1])])'),
]
BATTERIES['Functions'] = [
  ('Null/Sum', 'concat (map (fun x => enc_s (@M@.NullFunction_call x) ++ enc_v (@M@.NullFunction_deriv x) ++ enc_m (@M@.NullFunction_hess x) ++ '
               'concat (map (fun fs => enc_s (@M@.SumFunction_call fs x) ++ enc_v (@M@.SumFunction_deriv fs x) ++ enc_m (@M@.SumFunction_hess fs x)) [[fobjA 1; fobjA (-(1#2))]; [fobjA 2]; []])) [va; vb; v2])'),
  ('Reflected/InnerSum/X2D', 'concat (map (fun x => enc_s (@M@.ReflectedFunction_call (fobjA 1) x) ++ enc_v (@M@.ReflectedFunction_deriv (fobjA 1) x) ++ enc_m (@M@.ReflectedFunction_hess (fobjA 1) x) ++ '
                             'enc_s (@M@.InnerSumFunction_call (sfobjA 1) x) ++ enc_v (@M@.InnerSumFunction_deriv (sfobjA 1) x) ++ enc_m (@M@.InnerSumFunction_hess (sfobjA 1) x) ++ '
                             'enc_s (@M@.X2D_call [sfobjA 1; sfobjA 2; sfobjA (-1)] x) ++ enc_v (@M@.X2D_deriv [sfobjA 1; sfobjA 2; sfobjA (-1)] x) ++ enc_m (@M@.X2D_hess [sfobjA 1; sfobjA 2; sfobjA (-1)] x)) [va; vb; vc])'),
  ('Poly2D/Poly2DOffset', 'concat (map (fun x => let cs := [[1; -2; 3; 1#2]; [2; 0; -1; 1]; [-(1#2); 1; 1; 0]] in let c3 := [[1; -2; 3]; [2; 0; -1]; [-(1#2); 1; 1]] in let off := [1#2; -1; 2] in '
                          'enc_v (@M@.Poly2D_vector cs x) ++ enc_s (@M@.Poly2D_call cs x) ++ enc_v (@M@.Poly2D_deriv cs x) ++ enc_m (@M@.Poly2D_hess cs x) ++ '
                          'enc_v (@M@.Poly2DOffset_vector c3 off x) ++ enc_s (@M@.Poly2DOffset_call c3 off x) ++ enc_v (@M@.Poly2DOffset_deriv c3 off x) ++ enc_m (@M@.Poly2DOffset_hess c3 off x)) [va; vb; vc])'),
  ('RangesFunction', 'concat (map (fun x => concat (map (fun rg => enc_s (@M@.RangesFunction_call rg [fobjA 1; fobjA 2; fobjA (-1)] x) ++ enc_v (@M@.RangesFunction_deriv rg [fobjA 1; fobjA 2; fobjA (-1)] x)) '
                     '[[(0%nat, 3%nat)]; [(0%nat, 1%nat); (1%nat, 3%nat)]; [(0%nat, 1%nat); (1%nat, 2%nat); (2%nat, 3%nat)]; [(0%nat, 2%nat); (2%nat, 2%nat); (2%nat, 3%nat)]; []])) [va; vb; vc])'),
  ('ADevice', 'concat (map (fun x => concat (map (fun p => enc_s (@M@.ADevice_cost (fobjA 1) x p) ++ enc_v (@M@.ADevice_deriv (fobjA 2) x p) ++ enc_m (@M@.ADevice_hess (fobjA (-1)) x p)) [va; vb; [0; 0; 0]])) [va; vb; vc])'),
  ('CDevice2', 'concat (map (fun cbs => concat (map (fun x => enc_s (@M@.CDevice2_cost 3 (-2) (-(1#2)) cbs x vb) ++ enc_v (@M@.CDevice2_deriv 3 (-2) (-(1#2)) cbs x vb) ++ enc_s (f_call (@M@.CDevice2_cost_fn (-1) 0 cbs) x)) [va; vb; vc])) '
               '[[(1, 4, 0%nat, 3%nat)]; [(0, 2, 0%nat, 1%nat); (-1, 3, 1%nat, 3%nat)]; [(0, 1, 0%nat, 1%nat); (1, 2, 1%nat, 2%nat); (-3, 0, 2%nat, 3%nat)]; [(1, 4, 0%nat, 2%nat); (1, 4, 2%nat, 3%nat)]])'),
  ('DemandFunction', 'concat (map (fun x => concat (map (fun c => enc_s (@M@.DemandFunction_call c x) ++ enc_v (@M@.DemandFunction_deriv c x) ++ enc_m (@M@.DemandFunction_hess c x)) [[1; -2; 3]; [1#2; 0; 0; 1]; [2]; []])) [va; vb; vc; [1; 1; 1]; [5]])'),
]
BND = '[(0, 2); (1, 1); (-1, 3)]'
BATTERIES['Classes'] = [
  ('Device/CDevice/PV', 'concat (map (fun s => enc_s (@M@.Device_cost 3 s vb) ++ enc_v (@M@.Device_deriv 3 s vb) ++ enc_m (@M@.Device_hess (A:=Q) 3 s) ++ enc_s (@M@.CDevice_cost 3 (3#2) (-2) s vb) ++ '
                        'enc_v (@M@.CDevice_deriv 3 (3#2) (-2) s vb) ++ enc_m (@M@.CDevice_hess 3 (3#2) (-2) s) ++ enc_v (@M@.PVDevice_costv 3 s vb)) [va; vc; vd])'),
] + [
  ('IDevice', 'concat (map (fun s => enc_v (@M@.IDevice_costv 3 (%s) (%s) (%s) %s s vb) ++ enc_s (@M@.IDevice_cost 3 (%s) (%s) (%s) %s s vb) ++ enc_v (@M@.IDevice_deriv 3 (%s) (%s) (%s) %s s vb) ++ enc_m (@M@.IDevice_hess 3 (%s) (%s) (%s) %s s)) [vd; [2; 1; 0]])' % ((a, b, c, BND) * 4))
  for a in ('PS (1#4)', 'PV [0; 1#2; 1]') for b in ('PS 2', 'PV [1; 2; 3]') for c in ('PS 1', 'PV [2; 0; 1#2]')
] + [
  ('IDevice2', 'concat (map (fun s => enc_v (@M@.IDevice2_costv 3 (%s) (%s) %s s vb) ++ enc_s (@M@.IDevice2_cost 3 (%s) (%s) %s s vb) ++ enc_v (@M@.IDevice2_deriv 3 (%s) (%s) %s s vb) ++ enc_m (@M@.IDevice2_hess 3 (%s) (%s) %s s)) [vd; [2; 1; 0]])' % ((pl, ph, BND) * 4))
  for (pl, ph) in (('PS (-1)', 'PS 0'), ('PV [-2; -1; -1]', 'PV [-1; -1; 0]'))
] + [
  ('GDevice', 'concat (map (fun s => enc_v (@M@.GDevice_costv 3 (%s) s vb) ++ enc_s (@M@.GDevice_cost 3 (%s) s vb) ++ enc_v (@M@.GDevice_deriv 3 (%s) s vb) ++ enc_m (@M@.GDevice_hess 3 (%s) s)) [va; vc])' % ((g,) * 4))
  for g in ('G1 [1; -2; 3; 1#2]', 'G2 [[1; 0; 1]; [2; 1#2; 0; 1]; [3]]')
] + [
  ('SDevice', ('concat (map (fun s => let q := fun (f : nat -> Q -> Q -> Q -> Q -> Q -> Q -> Q -> Q -> list Q) => f 3%%nat (%s) (%s) (%s) 8 (1#2) (1#4) (%s) (%s) in '
               'enc_s (@M@.SDevice_base 3 (%s) (%s) (%s) 8 (1#2) (1#4) (%s) (%s)) ++ enc_v (@M@.SDevice_charge_at 3 (%s) (%s) (%s) 8 (1#2) (1#4) (%s) (%s) s) ++ '
               'enc_v (@M@.SDevice_flip_cost_at 3 (%s) (%s) (%s) 8 (1#2) (1#4) (%s) (%s) s) ++ enc_v (@M@.SDevice_deep_damage_at 3 (%s) (%s) (%s) 8 (1#2) (1#4) (%s) (%s) s) ++ '
               'enc_v (@M@.SDevice_charge_costs 3 (%s) (%s) (%s) 8 (1#2) (1#4) (%s) (%s) s) ++ enc_v (@M@.SDevice_costv 3 (%s) (%s) (%s) 8 (1#2) (1#4) (%s) (%s) s vb) ++ '
               'enc_s (@M@.SDevice_cost 3 (%s) (%s) (%s) 8 (1#2) (1#4) (%s) (%s) s vb)) [va; vb; vc; [-3; -3; 1]])') % ((c1, c2, c3, e, su) * 8))
  for (c1, c2, c3) in (('1', '1#2', '2'), ('1', '0', '0')) for e in ('1', '3#4') for su in ('1', '1#2')
]
BATTERIES['Storage'] = [
  ('SDevice.deriv', ('concat (map (fun s => enc_v (@M@.SDevice_deep_damage_at_deriv 3 (%s) (%s) (%s) 8 (1#2) (1#4) (%s) (%s) s) ++ '
                     'enc_v (@M@.SDevice_charge_costs_deriv 3 (%s) (%s) (%s) 8 (1#2) (1#4) (%s) (%s) s) ++ enc_v (@M@.SDevice_deriv 3 (%s) (%s) (%s) 8 (1#2) (1#4) (%s) (%s) s vb)) '
                     '[va; vb; vc; [-3; -3; 1]; [-3; 2; -3]])') % ((c1, c2, c3, e, su) * 3))
  for (c1, c2, c3) in (('1', '1#2', '2'), ('1', '0', '0'), ('2', '1', '3')) for e in ('1', '3#4') for su in ('1', '1#2')
]
CONS = '''Definition enc_con (pts : list (list Q)) (c : con Q) : list Q :=
  enc_b (c_eq c) ++ List.concat (map (fun x => enc_s (c_fun c x) ++ match c_jac c with Some j => 1 :: enc_v (j x) | None => [0] end) pts).
Definition enc_cons (pts : list (list Q)) (cs : list (con Q)) : list Q := inject_Z (Z.of_nat (length cs)) :: List.concat (map (enc_con pts) cs).
Definition kc (w : Q) (k : nat) : ckid Q :=
  {| ck_cons := [Build_con false (fun x => w * vsum (map (fun v => v * v) x) - 1) (Some (fun x => map (fun v => 2 * w * v) x));
                 Build_con true (fun x => vsum x - inject_Z (Z.of_nat k)) None] |}.
Definition f6 : list (list Q) := [[1; -2; 3; 1#2; 0; -1]; [0; 0; 0; 0; 0; 0]; [2; 2; 1#3; -(1#2); 4; 1]].
Definition f12 : list (list Q) := [flat4; map (fun v => v * (1#2) - 1) flat4].
'''
BATTERIES['Constraints'] = [
  ('Device.constraints', 'List.concat (map (fun cbs => enc_cons [va; vb; vc] (@M@.Device_constraints 3 cbs)) [[]; [(1, 2, 0%nat, 3%nat)]; [(0, 1, 0%nat, 1%nat); (-1, 3, 1%nat, 3%nat); (2, 5, 0%nat, 2%nat)]])'),
  ('SDevice.constraints', 'List.concat (map (fun q => enc_cons [va; vb; vc; [-3; 2; -3]] (@M@.SDevice_constraints (@M@.Device_constraints 3 [(0, 1, 0%nat, 2%nat)]) q 3 [(-2, 2); (-1, 3); (-4, 1)])) '
                          '[Build_sparams 1 0 0 8 (1#2) (1#4) (1#2) (3#4) (1#2) None None; Build_sparams 1 0 0 6 0 (1#2) 0 1 1 (Some 2) None; Build_sparams 1 0 0 6 0 (1#2) (1#4) (1#2) (3#4) (Some (3#2)) (Some 2)])'),
  ('DeviceSet.constraints', 'List.concat (map (fun sb => enc_cons f12 (@M@.DeviceSet_constraints [kc 1 1; kc 2 2; kc (1#2) 1] [(0%nat, 1%nat); (1%nat, 2%nat); (3%nat, 1%nat)] (4%nat, 3%nat) sb)) '
                            '[None; Some [(0, 1); (2, 2); (-1, 3)]; Some [(1, 1); (1, 1); (1, 1)]; Some [(0, 5); (1, 2); (3, 4)]])'),
  ('SubBalanced/TwoRatio/MF', 'enc_cons f12 (@M@.SubBalancedDeviceSet_constraints [] (4%nat, 3%nat) [[0%nat; 2%nat]; [1%nat]; []] true 1) ++ '
                              'enc_cons f12 (@M@.SubBalancedDeviceSet_constraints (ck_cons (kc 1 1)) (4%nat, 3%nat) [[3%nat; 1%nat]] false (-(1#2))) ++ '
                              'enc_cons f6 (@M@.TwoRatioMFDeviceSet_constraints [] (2%nat, 3%nat) (2, -(1#2)) true) ++ enc_cons f6 (@M@.TwoRatioMFDeviceSet_constraints (ck_cons (kc 1 1)) (2%nat, 3%nat) (0, 3) false) ++ '
                              'enc_cons f6 (@M@.MFDeviceSet_constraints [] (ck_cons (kc 1 1)) (2%nat, 3%nat)) ++ enc_cons f12 (@M@.MFDeviceSet_constraints (ck_cons (kc 2 1)) (ck_cons (kc 1 2)) (4%nat, 3%nat))'),
]
SOLVE = '''Definition enc_ores (o : optresult Q) : list Q := enc_b (o_success o) ++ [inject_Z (o_status o)] ++ enc_v (o_x o).
Definition enc_sres (r : sres Q) : list Q :=
  match r with SAccept x o => 0 :: enc_m x ++ match o with Some o => 1 :: enc_ores o | None => [0] end | SRaiseOptimization => [1] | SRaiseValueError => [2] end.
Definition enc_stres (r : stres Q) : list Q :=
  match r with StAccept x o => 0 :: enc_m x ++ enc_ores o | StRaiseOptimization => [1] | StRaiseValueError => [2] end.
Definition dvA (b : list (Q * Q)) (cs : list (con Q)) : devview Q :=
  {| dv_rows := 2; dv_n := 2; dv_bounds := b; dv_cost := fun s => vsum (map (fun v => v * v * v) s) + vsum s;
     dv_deriv := fun s => reshape 2 2 (map (fun v => 3 * v * v + 1) s); dv_project := fun m => map (map (fun v => Qmax 0 (Qmin 1 v))) m; dv_cons := cs |}.
(* an "optimiser" whose answer depends on everything it is handed *)
Definition minA (succ : bool) (st : Z) (k : nat) (pb : problem Q) : optresult Q :=
  {| o_success := succ; o_status := st;
     o_x := firstn k (vadd (pb_x0 pb) (vadd (pb_jac pb (pb_x0 pb)) (map (fun lh => pb_fun pb (pb_x0 pb) + fst lh - snd lh + inject_Z (Z.of_nat (length (pb_cons pb)))) (pb_bounds pb)))) |}.
Definition upA (succ : bool) (st : Z) (k : nat) (c : projcall Q) : optresult Q :=
  {| o_success := succ; o_status := st; o_x := firstn k (vadd (map (fun v => v * (1#2)) (pc_p c)) (vadd (pc_x0 c) (map (fun lh => fst lh + inject_Z (Z.of_nat (length (pc_cons c)))) (pc_bounds c)))) |}.
Definition lsA (succ : bool) (st : Z) (xs : list Q) (b : Q * Q) (phi : Q -> Q) : optresult Q :=
  {| o_success := succ; o_status := st; o_x := map (fun x => x * (snd b - fst b) + fst b + phi (1#3) - phi (1#3)) xs |}.
Definition conA : list (con Q) := [Build_con true (fun x => vsum x - 1) None; Build_con false (fun x => nth 0 x 0 - (1#2)) None].
Definition bfix : list (Q * Q) := [(1#2, 1#2); (0, 0); (1#4, 1#4); (1#4, 1#4)].
Definition bopen : list (Q * Q) := [(0, 1); (0, 0); (-1, 1); (1#4, 2)].
'''
BATTERIES['Solve'] = [
  ('solver options', 'match so_ftol (@M@.solve_defaults_gen (A:=Q)), so_maxiter (@M@.solve_defaults_gen (A:=Q)), so_disp (@M@.solve_defaults_gen (A:=Q)) with Some f, Some m, Some d => [f; inject_Z m] ++ enc_b d | _, _, _ => [] end ++ '
                     'match so_ftol (@M@.solve_options_gen {| so_ftol := Some (1#10); so_maxiter := None; so_disp := Some true |}), so_maxiter (@M@.solve_options_gen {| so_ftol := Some (1#10); so_maxiter := None; so_disp := Some true |}) with Some f, Some m => [f; inject_Z m] | _, _ => [] end'),
  ('solve', 'List.concat (map (fun cfg => let \'(b, cs, s0, prox, succ, st, k) := cfg in enc_sres (@M@.solve_gen (minA succ st k) (dvA b cs) s0 prox)) '
            '[(bfix, conA, None, None, true, 0%Z, 4%nat); (bfix, [Build_con false (fun x => vsum x - 2) None], None, None, true, 0%Z, 4%nat); (bfix, [Build_con true (fun x => vsum x - 1 - (1#2000000)) None], None, None, true, 0%Z, 4%nat); '
            '(bfix, [Build_con true (fun x => vsum x - 1 - (1#500000)) None], None, None, true, 0%Z, 4%nat); (bfix, [Build_con false (fun x => vsum x - 1 - (1#2000000)) None], None, None, true, 0%Z, 4%nat); '
            '(bopen, conA, None, None, true, 0%Z, 4%nat); (bopen, conA, Some [1; 0; 1#2; 1], None, true, 0%Z, 4%nat); (bopen, conA, None, Some 2, true, 0%Z, 4%nat); (bopen, conA, Some [1; 0; 1#2; 1], Some (1#2), true, 0%Z, 4%nat); '
            '(bopen, conA, None, Some 0, true, 0%Z, 4%nat); (bopen, conA, None, None, false, 8%Z, 4%nat); (bopen, conA, None, None, false, 4%Z, 4%nat); (bopen, conA, None, None, false, 9%Z, 4%nat); (bopen, conA, None, None, true, 0%Z, 3%nat); '
            '(bopen, conA ++ conA ++ [Build_con true (fun x => 0) None; Build_con true (fun x => 0) None; Build_con true (fun x => 0) None], None, None, true, 0%Z, 4%nat); (bopen, [], Some [1; 2; 3], None, true, 0%Z, 4%nat)])'),
  ('step', 'List.concat (map (fun cfg => let \'(succ1, st1, k, succ2, st2, xs, t) := cfg in enc_stres (@M@.step_gen (upA succ1 st1 k) (lsA succ2 st2 xs) (dvA bopen conA) [1; 0; 1#2; 1] t)) '
           '[(true, 0%Z, 4%nat, true, 0%Z, [1#2], 1); (true, 0%Z, 4%nat, true, 0%Z, [1], 2); (false, 8%Z, 4%nat, true, 0%Z, [1#4], 1#2); (false, 4%Z, 4%nat, true, 0%Z, [1#2], 1); (false, 9%Z, 4%nat, true, 0%Z, [1#2], 1); '
           '(true, 0%Z, 3%nat, true, 0%Z, [1#2], 1); (true, 0%Z, 4%nat, false, 8%Z, [3#4], 1); (true, 0%Z, 4%nat, false, 5%Z, [1#2], 1); (true, 0%Z, 4%nat, true, 0%Z, [], 1); (true, 0%Z, 4%nat, true, 0%Z, [1#2; 1], 1); (true, 0%Z, 4%nat, true, 0%Z, [0], 3)])'),
]
BATTERIES['Utils'] = [
  ('power_matrix', 'List.concat (map (fun l => List.concat (map (fun row => map (fun k => inject_Z (Z.of_nat k)) row) (@M@.power_matrix_gen l))) [0%nat; 1%nat; 2%nat; 3%nat; 5%nat])'),
  ('sustainment_matrix', 'List.concat (map (fun s => List.concat (map (fun l => enc_m (@M@.sustainment_matrix_gen s l)) [0%nat; 1%nat; 2%nat; 4%nat])) [1; 1#2; 3#4; 0; 2])'),
  ('base_soc', 'List.concat (map (fun s => enc_v (@M@.base_soc_gen (5#2) s 4) ++ enc_v (@M@.base_soc_gen (-1) s 1) ++ enc_v (@M@.base_soc_gen 3 s 0)) [1; 1#2; 3#4])'),
  ('soc', 'List.concat (map (fun se => List.concat (map (fun r => enc_v (@M@.soc_gen r (fst se) (snd se))) [va; vb; vc; [-3; 2; -3; 0; 1]; [1#2]; []])) [(1, 1); (1#2, 3#4); (3#4, 1#2); (1, 1#2); (1#2, -2)])'),
  ('project', 'let pcs := [Build_projcall va va cube3 []; Build_projcall vb vc cube3b [Build_con true (fun x => vsum x - 1) None]] in '
              'enc_s (match so_ftol (@M@.project_defaults_gen (A:=Q)) with Some v => v | None => -1 end) ++ [inject_Z (match so_maxiter (@M@.project_defaults_gen (A:=Q)) with Some v => v | None => (-1)%Z end)] ++ '
              'enc_b (match so_disp (@M@.project_options_gen (A:=Q) (Build_sopts None (Some 7%Z) (Some true))) with Some b => b | None => false end) ++ '
              '[inject_Z (match so_maxiter (@M@.project_options_gen (A:=Q) (Build_sopts None (Some 7%Z) (Some true))) with Some v => v | None => (-1)%Z end)] ++ '
              'List.concat (map (fun pc => List.concat (map (fun x => enc_s (pb_fun (@M@.project_problem_gen pc) x) ++ enc_v (pb_jac (@M@.project_problem_gen pc) x)) [va; vb; vc; vd]) ++ '
              'enc_v (pb_x0 (@M@.project_problem_gen pc)) ++ enc_cube (pb_bounds (@M@.project_problem_gen pc)) ++ enc_n (List.length (pb_cons (@M@.project_problem_gen pc))) ++ '
              'enc_v (o_x (@M@.project_gen (fun pb => Build_optresult true 0%Z (pb_jac pb (pb_x0 pb))) pc))) pcs)'),
  ('zmm', 'List.concat (map (fun x => List.concat (map (fun ar => enc_m (@M@.zmm_rows_gen x (fst ar) (snd ar) None) ++ enc_m (@M@.zmm_rows_gen x (fst ar) (snd ar) (Some (fun blk => map (fun v => 2 * v + 1) (List.concat blk))))) [(0%nat, 1%nat); (1%nat, 2%nat); (0%nat, 3%nat); (2%nat, 0%nat); (2%nat, 1%nat)]) ++ '
            'List.concat (map (fun k => enc_m (@M@.zmm_col_gen x k None) ++ enc_m (@M@.zmm_col_gen x k (Some (fun c => map (fun v => v - 1) c))) ++ enc_m (@M@.zmm_col_gen x k (Some (fun _ => [7; 8; 9])))) [0%nat; 1%nat; 2%nat])) [m33; m32 ++ [[5; 6]]])'),
]
LOADERS = '''
From Coq Require Import String.
Import List ListNotations.
Local Open Scope Q_scope.
Definition enc_out (r : outcome (list Q)) : list Q := match r with Accept v => 0 :: enc_v v | RaiseValueError => [1] | RaiseOther => [2] end.
Definition enc_cb (c : cbound Q) : list Q := match c with (lo, hi, s, e) => [lo; hi; inject_Z (Z.of_nat s); inject_Z (Z.of_nat e)] end.
Definition runsQ : list (runs Q) := [[(0%nat, 1); (3%nat, 3); (1%nat, 2)]; [(2%nat, 5)]; [(0%nat, 7)]; [(0%nat, 1); (5%nat, 2); (9%nat, 4)];
  [(4%nat, 1); (0%nat, 2); (2%nat, 3); (1%nat, 4)]; []; [(1%nat, 1); (0%nat, 2)]].
Definition runsP : list (runs (Q * Q)) := [[(0%nat, (1, 2)); (3%nat, (3, 4)); (1%nat, (-1, 0))]; [(2%nat, (5, 5))]; [(0%nat, (7, 8))];
  [(4%nat, (1, 1)); (0%nat, (2, 3)); (2%nat, (3, 5)); (9%nat, (0, 1))]; []].
Definition bnds : list (list (param Q)) := [[PS 2; PS 5]; [PS (-1); PV [1; 2; 3; 4; 5; 6]]; [PV [1; 2; 3; 4; 5; 6]; PV [2; 3; 4; 5; 6; 7]];
  [PS 1; PS 2; PS 3; PS 4; PS 5; PS 6]; [PS 4]; []; [PS 1; PS 2; PS 3]].
Definition masks : list (list Q) := [[1; 0; 1; 0; 0; 1]; [0; 0; 0; 0; 0; 0]; [1; 1; 1]; []; [1#2; 2; 0; 1; 1; 1]].
Definition enc_opt (o : option Q) : list Q := match o with Some v => [1; v] | None => [0] end.
Definition enc_str (s : String.string) : list Q := [inject_Z (Z.of_nat (String.length s))].
Definition enc_loaded (x : loaded Q) : list Q :=
  enc_str (l_id x) ++ [match l_class x with LADevice => 0 | LSDevice => 1 end] ++ enc_cube (Loader.l_bounds x) ++
  match l_cb x with Some cb => 1 :: List.concat (map enc_cb cb) | None => [0] end ++
  List.concat (map (fun kv => enc_str (fst kv) ++ [snd kv]) (l_params x)) ++ enc_opt (fst (l_clip x)) ++ enc_opt (snd (l_clip x)).
Definition enc_lout (r : outcome (loaded Q)) : list Q := match r with Accept v => 0 :: enc_loaded v | RaiseValueError => [1] | RaiseOther => [2] end.
Definition enc_louts (r : outcome (list (loaded Q))) : list Q := match r with Accept v => 0 :: List.concat (map enc_loaded v) | RaiseValueError => [1] | RaiseOther => [2] end.
Definition bdevs : list (bdev Q) :=
  List.concat (map (fun k => List.concat (map (fun ti => List.concat (map (fun bn => map (fun cm =>
    {| b_kind := k; b_title := ti; b_bounds := bn; b_cum := cm;
       b_params := [("capacity"%string, 8); ("chargeRateClippingFactor"%string, 3#2); ("efficiencyFactor"%string, 1#2); ("unknown"%string, 7);
                    ("disChargeRateClippingFactor"%string, 2); ("deepDepthRatio"%string, 1#4); ("fastChargeCostFactor"%string, 1)] |})
    [None; Some [(0%nat, (1, 4)); (2%nat, (0, 3))]])
    [[(0%nat, (1, 2)); (2%nat, (-1, 3))]; [(0%nat, (1, 1)); (1%nat, (2, 2))]; [(0%nat, (1, 1)); (1%nat, (2, 3))]; [(1%nat, (0, 1))]; [(0%nat, (2, 1))]]))
    [None; Some "abc"%string])) [BLoad; BFixed; BSupply; BStorage]).
Definition ons : list (list nat) := [[]; [1; 2]; [0; 0; 4; 5]; [3; 9]; [2; 1]; [1; 3; 2; 4]; [5; 5; 0; 1; 3; 3]]%nat.
'''
BATTERIES['Loaders'] = [
  ('run_to_array', 'List.concat (map (fun b => List.concat (map (fun l => enc_out (@M@.run_to_array_gen 0 b l)) runsQ)) [0%nat; 1%nat; 5%nat; 8%nat])'),
  ('run_to_cbounds_array', 'List.concat (map (fun b => List.concat (map (fun l => List.concat (map enc_cb (@M@.run_to_cbounds_array_gen b l))) runsP)) [0%nat; 1%nat; 5%nat; 8%nat])'),
  ('care2bounds', 'List.concat (map (fun m => List.concat (map (fun b => enc_cube (@M@.care2bounds_gen m b)) bnds)) masks)'),
  ('on2bounds', 'List.concat (map (fun l => List.concat (map (fun on => List.concat (map (fun b => enc_cube (@M@.on2bounds_gen l on b)) bnds)) ons)) [6%nat; 3%nat; 0%nat])'),
  ('load_<kind>_device', 'List.concat (map (fun d => enc_lout (@M@.load_device_gen 3 d)) bdevs)'),
  ('load_data', 'enc_louts (@M@.load_data_gen 3 (firstn 3 bdevs)) ++ enc_louts (@M@.load_data_gen 3 (firstn 1 bdevs ++ firstn 1 (skipn 22 bdevs) ++ firstn 2 (skipn 40 bdevs) ++ firstn 1 (skipn 60 bdevs))) ++ enc_louts (@M@.load_data_gen 3 (firstn 2 (skipn 64 bdevs) ++ firstn 1 (skipn 20 bdevs))) ++ enc_louts (@M@.load_data_gen 3 [])'),
]
BASEDEV = '''
From Coq Require Import String.
Import List ListNotations.
From DK.Model Require Import LabelOps.
Local Open Scope Q_scope.
Definition lf (i : String.string) (k : nat) : itree nat := INode i k None.
Definition nd (i : String.string) (ks : list (itree nat)) : itree nat := INode i 0%nat (Some ks).
Definition trees : list (itree nat) :=
  [lf "a" 1; nd "s" []; nd "s" [lf "a" 1; lf "bb" 2]; nd "root" [lf "a" 1; nd "in" [lf "b" 2; nd "m" [lf "e" 3; lf "h" 4]]; lf "c" 5];
   nd "x" [nd "y" [nd "z" [lf "deep" 7]]; lf "a" 8; nd "y" [lf "a" 9]]]%string.
Definition enc_str (s : String.string) : list Q := inject_Z (Z.of_nat (String.length s)) :: map (fun c => inject_Z (Z.of_nat (Ascii.nat_of_ascii c))) (String.list_ascii_of_string s).
Definition leafsQ : list (String.string * nat) := [("r.a", 1); ("r.in.b", 2); ("r.in.m.e", 3); ("r.a", 4); ("r.c", 5); ("q.in.b", 6)]%string%nat.
Definition rm (pat k : String.string) : bool := String.prefix pat k.
'''
BATTERIES['BaseDevice'] = [
  ('leaf_devices', 'List.concat (map (fun fuel => List.concat (map (fun t => List.concat (map (fun kt => enc_str (fst kt) ++ enc_n (it_payload (snd kt))) (@M@.leaf_devices_gen fuel t))) trees)) [5%nat; 4%nat; 2%nat; 1%nat; 0%nat])'),
  ('map', 'List.concat (map (fun sh => List.concat (map (fun kr => enc_str (fst kr) ++ enc_v (snd kr)) (@M@.map_gen leafsQ sh [1; 2; 3; 4; 5; 6; 7; 8; 9; 10; 11; 12] ++ @M@.map_gen (firstn 4 leafsQ) (4%nat, snd sh) [1; 2; 3; 4; 5; 6; 7; 8; 9; 10; 11; 12]))) [(6%nat, 2%nat); (6%nat, 1%nat)])'),
  ('mapDevices', 'List.concat (map (fun sh => List.concat (map (fun kr => enc_str (fst (fst kr)) ++ enc_n (snd (fst kr)) ++ enc_v (snd kr)) (@M@.mapDevices_gen leafsQ sh [1; 2; 3; 4; 5; 6; 7; 8; 9; 10; 11; 12] ++ @M@.mapDevices_gen (firstn 3 leafsQ) (3%nat, 4%nat) [1; 2; 3; 4; 5; 6; 7; 8; 9; 10; 11; 12]))) [(6%nat, 2%nat); (6%nat, 1%nat)])'),
  ('get', 'List.concat (map (fun nm => match @M@.get_gen leafsQ nm with Some k => enc_n k | None => [-1] end) ["a"; "b"; "r.a"; "in.b"; "zz"; ""; "e"; "c"]%string)'),
  ('find', 'List.concat (map (fun nm => 99 :: List.concat (map enc_n (@M@.find_gen rm leafsQ nm))) ["r"; "r.in"; "q"; "zz"; ""; "r.a"]%string)'),
  ('_labelled_sets', 'List.concat (map (fun lb => let r := @M@.labelled_sets_gen (fun pat k => String.eqb pat (String.append ".*" (String.append "a" "$")) && (String.eqb k "r.a" || String.eqb k "r.in.a") || String.eqb pat (String.append ".*" (String.append "b" "$")) && String.eqb k "r.in.b" || String.eqb pat (String.append ".*" (String.append "r.c" "$")) && String.eqb k "r.c")%bool '
                      '[("r.a", 1); ("r.in.b", 2); ("r.in.a", 3); ("r.a", 4); ("r.c", 5)]%string%nat lb in 77 :: List.concat (map (fun set => 88 :: List.concat (map enc_n set)) (fst r)) ++ 99 :: List.concat (map enc_n (snd r))) '
                      '[["a"; "b"]; ["b"; "a"]; ["r.c"]; []; ["zz"; "a"]; ["a"; "b"; "r.c"]]%string)'),
]
EXTRA = {'BaseDevice': BASEDEV, 'Loaders': LOADERS, 'Solve': SOLVE, 'Constraints': KIDS + CONS, 'DeviceSet': KIDS, 'MFDeviceSet': KIDS, 'Functions': KIDS}
NAMES = {'projection': 'Projection', 'thermal': 'Thermal', 'deviceset': 'DeviceSet', 'mfdeviceset': 'MFDeviceSet', 'functions': 'Functions', 'classes': 'Classes', 'storage': 'Storage', 'constraints': 'Constraints', 'solve': 'Solve', 'utils': 'Utils', 'loaders': 'Loaders', 'basedevice': 'BaseDevice'}


def supported(w):
  return w in NAMES


def compare(w, new_text):
  """-> (broken obligations, stats).  The snapshot must be installed as coq/Gen/<Name>.v (and built)."""
  name = NAMES[w]
  cases = os.path.join(core.COQ, 'Cases')
  os.makedirs(cases, exist_ok=True)
  newf = os.path.join(cases, name + 'New.v')
  # the regenerated text refers to its siblings by DK.Gen.<X>: keep that (MFDeviceSet uses DeviceSet of the installed tree)
  with open(newf, 'w') as f:
    f.write(new_text)
  ok, log = core.build(['Gen/%s.vo' % name, 'Model/ProbeEnc.vo', 'Model/PyOps.vo', 'Model/SetOps.vo', 'Model/FnOps.vo'])
  if not ok:
    return [{'kind': 'model-build', 'name': 'gen-vs-model:%s' % w, 'detail': core.first_error(log)}], {}
  rc, out = core.sh(['coqc', '-Q', '.', 'DK', '-Q', 'Cases', 'DKC', 'Cases/%sNew.v' % name], 300, cwd=core.COQ)
  if rc != 0:
    return [{'kind': 'proof', 'name': 'gen-vs-model:%s' % w, 'detail': 'the regenerated text does not compile: ' + core.first_error(out)}], {}
  bat = BATTERIES[name]
  body = [PRELUDE % {'name': name}, EXTRA.get(name, '')]
  for side, mod in (('new', 'DKC.%sNew' % name), ('old', 'DK.Gen.%s' % name)):
    body.append('Definition table_%s : list (list Q) := [\n  %s\n].' % (side, ';\n  '.join('(%s)' % e.replace('@M@', mod) for _, e in bat)))
  body.append('Eval vm_compute in (differ table_new table_old).')
  src = os.path.join(cases, 'GenProbe_%s.v' % name)
  with open(src, 'w') as f:
    f.write('\n'.join(body) + '\n')
  rc, out = core.sh(['coqc', '-Q', '.', 'DK', '-Q', 'Cases', 'DKC', 'Cases/GenProbe_%s.v' % name], 600, cwd=core.COQ)
  if rc != 0:
    return [{'kind': 'correspondence-run', 'name': 'gen-vs-model:%s' % w, 'detail': 'battery does not compile: ' + core.first_error(out)}], {}
  m = re.search(r'=\s*\[(.*?)\]\s*:\s*list nat', out, re.S)
  if not m:
    return [{'kind': 'correspondence-run', 'name': 'gen-vs-model:%s' % w, 'detail': 'no result: ' + out[-300:]}], {}
  idx = [int(x) for x in re.findall(r'\d+', m.group(1))]
  stats = {'battery_entries': len(bat), 'differ': [bat[i][0] for i in idx if i < len(bat)]}
  if idx:
    return [{'kind': 'gen-vs-model', 'name': 'gen-vs-model:%s' % w,
             'detail': 'the regenerated %s computes other values than the text the theorems are about on the battery entries %s '
                       '(exact rational evaluation inside Coq): the source changed in meaning' % (core.GEN_TARGETS[w], stats['differ'][:6])}], stats
  return [], stats
