"""C01 - marginal cost is the exact gradient of cost for every device model."""
import numpy as np
from fractions import Fraction as F
import core
from core import cq, fr, fl
import leafgen as lg

ID = 'C01'
GEN = ['kernels', 'classes', 'thermal', 'functions', 'storage']
# the scalar kernels of functions.py this property's statement depends on (a change confined to the others is not this property's business;
# what its own correspondence compares still is)
KERNELS_USED = ['ABCCost.s', 'ABCCost.q', 'ABCCost._cost', 'HLQuadraticCost._cost', 'ABCCost._deriv', 'HLQuadraticCost._deriv']
PROPS = 'Props/C01.v'
MODEL_VO = ['Model/Dev.v']
EXTRA_MODEL_VO = ['Proofs/TransEval.v']
CASE_TYPE = 'leafdev Q * list Q * list Q * Q * list Q'
CHECKER = 'chk'
COQ_PRELUDE = '''From Coq Require Import ZArith QArith List Bool.
From DK Require Import Num NumQ Vec.
From DK.Model Require Import Leaf Fn Dev.
Import ListNotations.
Local Open Scope Q_scope.
Definition chk (c : leafdev Q * list Q * list Q * Q * list Q) : bool :=
  let '(d, s, p, ic, idv) := c in
  Qclose Qtol (leaf_cost d s p) ic && Qclose_list Qtol (leaf_deriv d s p) idv.
'''
RULE = ('cases = (atomic device config incl. ADevice x preference-function AST of depth <= 2, in-bounds flow away from the charge/'
        'discharge kink, price scalar/vector/zero); observables cost and deriv only, compared with the model inside Coq '
        '(tol 1e-9 rel+abs). Parameter families as in leafgen (scalar/per-slot, zero-width slots, eff/sustainment =1/<1, zero/non-zero '
        'coefficients, heating/cooling, cbounds none/pair/single/multi/overlap), n in 1..7. Non-trivial: the class has a preference '
        'term (not Device/PVDevice/null function) ; distinct by hash of (config, flow, price).')
EXPLANATION = ('Props/C01.v proves, for every n, that the model marginal cost of each class is the coordinate-wise derivative of the model '
               'cost (Coquelicot is_derive) and its total derivative (every direction, hence the line-integral form), kernels regenerated '
               'from functions.py; the correspondence ties model cost/deriv to the code. InformationEntropy, TemporalVariance and '
               'CobbDouglas (numerically differentiated in the source) are modelled over the reals (Model/Trans.v): their closed-form '
               'gradients are proved to be the total derivatives, and the implementation is compared with them by interval arithmetic '
               'inside Coq (second correspondence). Non-integer exponents of IDevice: theorem over the reals, no executable instance.')
TRUSTED_EXTRA = ['second correspondence (InformationEntropy/TemporalVariance/CobbDouglas): the Interval library\'s `interval` tactic '
                 '(reflexive interval arithmetic over Flocq big-integer floats at 90 bits, checked by the kernel through vm_compute); the '
                 'generated case files are evaluated by coqc and discarded; tolerances 1e-9 (cost) and 1e-6 (numdifftools derivatives)']
CLASSES = lg.CLASSES


def gen_cases(rng, tier):
  n = {'quick': 400, 'thorough': 12000, 'search': 150}[tier]
  out = []
  for i in range(n):
    L = lg.gen_leaf(rng, cls=CLASSES[i % len(CLASSES)], variant=i // len(CLASSES))
    if L['cls'] == 'ADevice':
      L['ucons'] = []
    s = lg.gen_flow(rng, L, kind=lg.pick(rng, ['interior', 'interior', 'mixed']))
    p, pk = lg.gen_price(rng, L['n'])
    c = {'leaf': L, 's': s, 'p': p, 'pk': pk}
    if i % 9 == 7:      # whole-number flows handed over as an integer array
      si, ok = lg.integral_flow(L, s)
      if ok:
        c['s'], c['int'] = si, True
    out.append(c)
  return out


def demand_tie(f, x):
  """True if some DemandFunction in the AST sees a non-unique maximum (non-differentiable point)."""
  k = f[0]
  if k == 'demand':
    m = max(x)
    return sum(1 for v in x if v == m) > 1
  if k == 'sum':
    return any(demand_tie(g, x) for g in f[1])
  if k == 'reflect':
    return demand_tie(f[1], [-v for v in x])
  if k == 'ranges':
    return any(demand_tie(g, x[s:e]) for s, e, g in f[1])
  return False


def observe(c):
  d = lg.build(c['leaf'])
  s = lg.np_flow(c)
  p = float(c['p'][0]) if c.get('pk') == 'scalar' else np.array(fl(c['p']))
  dv = np.array(core.maybe_stale(c, d.deriv, s, p)).reshape(-1)
  if dv.shape != (c['leaf']['n'],):
    dv = dv * np.ones(c['leaf']['n'])
  return {'cost': fr(core.maybe_stale(c, d.cost, s, p)), 'deriv': fr(dv)}


def coq_case(c, o):
  return cq((lg.coq_leafdev(c['leaf']), c['s'], c['p'], o['cost'], o['deriv']))


def nontrivial(c, o):
  L = c['leaf']
  return L['cls'] not in ('Device', 'PVDevice') and not (L['cls'] == 'ADevice' and L['f'] == ('null',))


def classify(c, o):
  L = c['leaf']
  ks = ['class:' + L['cls'], 'n:%d' % L['n'], 'price:' + str(c.get('pk'))]
  if L['cls'] == 'ADevice':
    ks += ['fn:' + k for k in sorted(lg.fn_kinds(L['f']))]
  if L['cls'] in ('SDevice', 'TDevice'):
    ks.append('eff=1' if L['efficiency'] == 1 else 'eff!=1')
    ks.append('sus=1' if L['sustainment'] == 1 else 'sus<1')
  if any(a == b for a, b in L['bounds']):
    ks.append('zero-width-slot')
  return ks


def case_to_json(c):
  return {'leaf': lg.leaf_to_json(c['leaf']), 's': core.jsonable(c['s']), 'p': core.jsonable(c['p']), 'pk': c.get('pk'), 'int': bool(c.get('int'))}


def case_from_json(j):
  return {'leaf': lg.leaf_from_json(j['leaf']), 's': [F(v) for v in j['s']], 'p': [F(v) for v in j['p']], 'pk': j.get('pk'), 'int': j.get('int', False)}


# ---- direct oracle: central differences of the implementation's cost against its deriv -----------------------
def kinks_near(L, s, h):
  """Coordinates whose +-h neighbourhood crosses a kink of the cost (charge/discharge sign change, deep-discharge
  threshold is C1 so fine, demand argmax change, hl/abc are smooth)."""
  bad = set()
  if L['cls'] in ('SDevice', 'TDevice') and L['efficiency'] != 1:
    bad |= {k for k, v in enumerate(s) if abs(float(v)) <= 2 * h}
  return bad


def oracle(c, h=2.0 ** -12):
  L = c['leaf']
  try:
    d = lg.build(L)
    s = lg.np_flow(c)
    p = np.array(fl(c['p']))
    g = np.array(core.maybe_stale(c, d.deriv, s, p)).reshape(-1) * np.ones(L['n'])   # same calling mode as observe()
    d = lg.build(L)          # differences of the cost on a fresh twin, fresh arrays
  except Exception as e:
    return 'implementation raised %s: %s' % (type(e).__name__, e)
  if L['cls'] == 'ADevice' and 'demand' in lg.fn_kinds(L['f']):
    return None   # argmax kinks: compared through the model only
  bad = kinks_near(L, c['s'], h)
  for k in range(L['n']):
    if k in bad:
      continue
    e = np.zeros(L['n']); e[k] = h
    f1, f0 = d.cost(s + e, p), d.cost(s - e, p)
    num = (f1 - f0) / (2 * h)
    # curvature-scaled tolerance: |f''| h^2/6 truncation + rounding
    f2 = abs(f1 - 2 * d.cost(s, p) + f0) / (h * h)
    tol = 1e-5 * (1 + abs(num)) + 4 * f2 * h
    # the difference quotient cannot resolve less than a few units in the last place of the cost itself
    tol += 8 * np.finfo(float).eps * max(abs(f1), abs(f0), 1.0) / h
    # the truncation error of the quotient (third derivatives: large on narrow ranges, where a curve normalised to the range is
    # steep) is measured by halving the step: an alarm needs a quotient that is resolved
    e2 = np.zeros(L['n']); e2[k] = h / 2
    g1, g0 = d.cost(s + e2, p), d.cost(s - e2, p)
    num2 = (g1 - g0) / h
    tol += 2 * abs(num - num2) + 8 * np.finfo(float).eps * max(abs(g1), abs(g0), 1.0) / (h / 2)
    if abs(num - g[k]) > tol:
      return 'slot %d: reported marginal cost %.9g but central difference of cost is %.9g (h=2^-12, tol %.2g)' % (k, g[k], num, tol)
  return None


# ---- the three numerically differentiated preference functions: reals-only model, interval-arithmetic correspondence -------------
TVAR_FINDING = 'tvar-deriv-probe-hits-zero-total'


def witness_fails(f):
  if f.get('id') != TVAR_FINDING:
    return True
  w = f['witness']
  L = {'cls': 'ADevice', 'n': len(w['s']), 'id': 'a', 'bounds': [(F(-4), F(4))] * len(w['s']), 'cbounds': None, 'cb_kind': 'none',
       'f': ('tvar', F(w['c'])), 'ucons': []}
  try:
    lg.build(L).deriv(np.array(fl([F(v) for v in w['s']])), 0)
  except ZeroDivisionError:
    return True
  return False


def extra_correspondence(rng, tier):
  import transeval as te
  n = {'quick': 45, 'thorough': 600}.get(tier, 45)
  name = 'correspondence:C01:transcendental-functions'
  known = any(f.get('id') == TVAR_FINDING for f in core.load_findings(ID))
  cases, props, owner = [], [], []
  dist = {}
  skipped_known = 0
  for i in range(n):
    c = te.gen_leaf(rng, i)
    L = c['leaf']
    d = lg.build(L)
    s, p = np.array(fl(c['s'])), np.array(fl(c['p']))
    cost = float(d.cost(s.copy(), p.copy()))
    try:
      dv = np.array(d.deriv(s.copy(), p.copy()), dtype=float).reshape(-1)
    except ZeroDivisionError:
      if known and c['trans'] == 'tvar':
        skipped_known += 1        # open finding: a numdifftools probe point of TemporalVariance.deriv has zero total
        continue
      dv = np.array([float('nan')] * L['n'])
    if not (np.isfinite(cost) and np.all(np.isfinite(dv)) and dv.shape == (L['n'],)):
      cases.append(c)
      props.append('(0 = 1)')      # non-finite value at a differentiable point: reported as a disagreement
      owner.append(len(cases) - 1)
      continue
    Fm, Gm = te.model_terms(L['f'], c['s'])
    cases.append(c)
    k = len(cases) - 1
    props.append(te.close_prop('adev_cost %s %s %s' % (Fm, te.rlist(c['s']), te.rlist(c['p'])), fr(cost), F(1, 10**9)))
    owner.append(k)
    if c['zero_at'] is None:
      for j in range(L['n']):     # numdifftools: tolerance 1e-6 relative
        props.append(te.close_prop('nth %d (adev_deriv %s %s) 0' % (j, Gm, te.rlist(c['p'])), fr(dv[j]), F(1, 10**6)))
        owner.append(k)
    for key in ('fn:' + c['trans'], 'n:%d' % L['n'], 'zero-entry' if c['zero_at'] is not None else 'no-zero-entry',
                'price:zero' if not any(c['p']) else 'price:vector'):
      dist[key] = dist.get(key, 0) + 1
  idx, err, secs = te.run_checks(ID, props)
  broken, failing = [], []
  if err:
    broken.append({'kind': 'correspondence-run', 'name': name, 'detail': err})
  bad_cases = sorted({owner[i] for i in idx})
  if bad_cases:
    failing = [cases[k] for k in bad_cases]
    broken.append({'kind': 'correspondence', 'name': name,
                   'detail': '%d of %d cases disagree with the model of Model/Trans.v (interval evaluation); first: %s' % (
                       len(bad_cases), len(cases), __import__('json').dumps(case_to_json(cases[bad_cases[0]]))[:500])})
  notes = {'transcendental': {'cases': len(cases), 'skipped_in_known_finding_region': skipped_known, 'propositions': len(props), 'disagreeing': len(bad_cases), 'seconds': round(secs, 1),
                              'distribution': dist,
                              'rule': 'ADevice over InformationEntropy / TemporalVariance / CobbDouglas, n in 1..6, dyadic flows of magnitude '
                                      '1/4..4 (entropy: mixed signs, exact zero entries for the cost only), price zero or vector; cost within '
                                      '1e-9 and every entry of the numerical marginal cost within 1e-6 (relative+absolute) of the model, each '
                                      'proved in Coq by interval arithmetic'}}
  return [name], broken, failing, notes


def search(rng, budget, seeds, findings):
  return core.default_search(__import__('c01'), rng, budget, seeds, findings)
