"""C15 - cost models have the documented closed forms and end-point behaviour."""
import numpy as np
from fractions import Fraction as F
import core
from core import cq, fr, fl, Raw
import leafgen as lg

ID = 'C15'
GEN = ['kernels', 'classes', 'thermal', 'functions']
# the scalar kernels of functions.py this property's statement depends on (a change confined to the others is not this property's business;
# what its own correspondence compares still is)
KERNELS_USED = ['ABCCost.s', 'ABCCost.q', 'ABCCost._cost', 'HLQuadraticCost._cost']
PROPS = 'Props/C15.v'
MODEL_VO = ['Model/Dev.v']
CASE_TYPE = 'leafdev Q * list Q * list Q * Q * list Q'
CHECKER = 'chk'
COQ_PRELUDE = '''From Coq Require Import ZArith QArith List Bool.
From DK Require Import Num NumQ Vec.
From DK.Model Require Import Leaf Fn Dev.
Import ListNotations.
Local Open Scope Q_scope.
Definition chk (c : leafdev Q * list Q * list Q * Q * list Q) : bool :=
  let '(d, s, p, ic, idv) := c in
  Qclose Qtol (leaf_cost d s p) ic && match idv with [] => true | _ => Qclose_list Qtol (leaf_deriv d s p) idv end.
'''
RULE = ('cases = (atomic device config, in-bounds flow, price); classes x parameter families (scalar/per-slot params, zero-width '
        'slots none/some/all, eff/sustainment =1 and <1, zero and non-zero coefficients, heating/cooling, cbounds none/pair/4-tuple/'
        'multi-range) x n in 1..7 x flow kind (interior/lower/upper/mixed; deriv is observed at the bounds in the lower/upper/mixed '
        'kinds) x price kind. Compared in Coq: impl cost (for the high/low quadratic devices also deriv) vs the model (tol 1e-9 rel+abs). Non-trivial: a preference term '
        'is present (class is not Device/PVDevice) or the price is non-zero; distinct by hash of (config, flow, price).')
EXPLANATION = ('Theorems (Props/C15.v) identify the model cost/marginal cost with the documented closed forms for every length and '
               'parameter value; the correspondence ties the model to the implementation.')
CLASSES = ['Device', 'PVDevice', 'CDevice', 'CDevice2', 'IDevice', 'IDevice2', 'GDevice', 'SDevice']


def gen_cases(rng, tier):
  n = {'quick': 400, 'thorough': 8000, 'search': 200}[tier]
  out = []
  for i in range(n):
    L = lg.gen_leaf(rng, cls=CLASSES[i % len(CLASSES)], variant=i // len(CLASSES))
    s = lg.gen_flow(rng, L)
    p, pk = lg.gen_price(rng, L['n'])
    c = {'leaf': L, 's': s, 'p': p}
    if i % 9 == 7:      # whole-number flows handed over as an integer array
      si, ok = lg.integral_flow(L, s)
      if ok:
        c['s'], c['int'] = si, True
    out.append(c)
  return out


def observe(c):
  d = lg.build(c['leaf'])
  s, p = lg.np_flow(c), np.array(fl(c['p']))
  return {'cost': fr(core.maybe_stale(c, d.cost, s, p)), 'deriv': fr(np.array(core.maybe_stale(c, d.deriv, s, p)).reshape(-1))}


def coq_case(c, o):
  # the statement speaks of MARGINAL cost for the high / low quadratic devices only (p_l at the lower end, p_h at the upper, linear between);
  # for the other classes the closed form is a cost, and their marginal cost is C01's business
  deriv = o['deriv'] if c['leaf']['cls'] in ('IDevice2', 'CDevice2') else []
  return cq((lg.coq_leafdev(c['leaf']), c['s'], c['p'], o['cost'], deriv))


def nontrivial(c, o):
  return c['leaf']['cls'] not in ('Device', 'PVDevice') or any(v != 0 for v in c['p'])


def classify(c, o):
  L = c['leaf']
  ks = ['class:' + L['cls'], 'n:%d' % L['n'], 'cbounds:' + str(L.get('cb_kind'))]
  if any(a == b for a, b in L['bounds']):
    ks.append('zero-width-slot')
  if any(x in (a, b) for x, (a, b) in zip(c['s'], L['bounds'])):
    ks.append('flow-on-bound')
  return ks


def case_to_json(c):
  return {'leaf': lg.leaf_to_json(c['leaf']), 's': core.jsonable(c['s']), 'p': core.jsonable(c['p']), 'int': bool(c.get('int'))}


def case_from_json(j):
  return {'leaf': lg.leaf_from_json(j['leaf']), 's': [F(v) for v in j['s']], 'p': [F(v) for v in j['p']], 'int': j.get('int', False)}


# ---- direct oracle on the implementation: the documented formulas, evaluated in Python -----------------
def doc_cost(L, s, p):
  cls, n = L['cls'], L['n']
  lin = sum(a * b for a, b in zip(s, p))
  B = L['bounds']
  par = lambda v, i: v[i] if isinstance(v, list) else v
  if cls in ('Device', 'PVDevice'):
    return lin
  if cls == 'CDevice':
    return L['a'] * sum(s) + L['b'] + lin
  if cls == 'GDevice':
    cc = L['cost_coeffs']
    tot = F(0)
    for i, x in enumerate(s):
      c = cc[i] if isinstance(cc[0], list) else cc
      tot += sum(ck * (-x) ** (len(c) - 1 - k) for k, ck in enumerate(c))
    return tot + lin
  if cls == 'IDevice':
    tot = F(0)
    for i, x in enumerate(s):
      lo, hi = B[i]
      if lo == hi:
        continue
      q = 1 + (par(L['a'], i) - 1) * (x - lo) / (hi - lo)
      tot += par(L['c'], i) * q ** int(par(L['b'], i))
    return tot + lin
  if cls == 'SDevice':
    e, su = L['efficiency'], L['sustainment']
    soc = L['start'] * L['capacity']
    tot = F(0)
    for i, r in enumerate(s):
      soc = su * soc + (r * e if r > 0 else (r / e if r < 0 else 0))
      tot += L['c1'] * r * r + L['c3'] * min(soc - L['damage_depth'] * L['capacity'], 0) ** 2
      if i + 1 < n:
        tot -= L['c2'] * r * s[i + 1]
    return tot + lin
  return None


def doc_marginal(L, s, p):
  """Documented marginal cost for the high/low quadratic models (None elsewhere)."""
  cls = L['cls']
  par = lambda v, i: v[i] if isinstance(v, list) else v
  if cls == 'IDevice2':
    out = []
    for i, x in enumerate(s):
      lo, hi = L['bounds'][i]
      out.append(p[i] if lo == hi else par(L['p_l'], i) + (par(L['p_h'], i) - par(L['p_l'], i)) * (x - lo) / (hi - lo) + p[i])
    return out
  if cls == 'CDevice2':
    out = [None] * L['n']
    for lo, hi, st, en in L['cbounds']:
      t = sum(s[st:en])
      for i in range(st, en):
        out[i] = p[i] if lo == hi else L['p_l'] + (L['p_h'] - L['p_l']) * (t - lo) / (hi - lo) + p[i]
    return out if all(v is not None for v in out) else None
  return None


def oracle(c):
  L = c['leaf']
  try:
    o = observe(c)
  except Exception as e:
    return 'implementation raised %s: %s' % (type(e).__name__, e)
  want = doc_cost(L, c['s'], c['p'])
  if want is not None and abs(float(o['cost']) - float(want)) > 1e-7 * (1 + abs(float(want))):
    return 'cost %r differs from the documented closed form %r' % (float(o['cost']), float(want))
  # high/low quadratic devices: the cost difference between two flows is the integral of the documented linear marginal cost
  if L['cls'] in ('IDevice2', 'CDevice2'):
    par = lambda v, i: v[i] if isinstance(v, list) else v
    ref = [b[0] for b in L['bounds']]
    def prim(pl, ph, lo, hi, t):
      return F(0) if lo == hi else pl * (t - lo) + (ph - pl) * (t - lo) ** 2 / (2 * (hi - lo))
    if L['cls'] == 'IDevice2':
      wd = sum(prim(par(L['p_l'], i), par(L['p_h'], i), lo, hi, x) - prim(par(L['p_l'], i), par(L['p_h'], i), lo, hi, r)
               for i, ((lo, hi), x, r) in enumerate(zip(L['bounds'], c['s'], ref)))
    else:
      wd = sum(prim(L['p_l'], L['p_h'], lo, hi, sum(c['s'][st:en])) - prim(L['p_l'], L['p_h'], lo, hi, sum(ref[st:en]))
               for lo, hi, st, en in L['cbounds'])
    try:
      d = lg.build(L)
      z = np.zeros(L['n'])
      got = float(d.cost(np.array(fl(c['s'])), z)) - float(d.cost(np.array(fl(ref)), z))
    except Exception as e:
      return 'implementation raised %s: %s' % (type(e).__name__, e)
    if abs(got - float(wd)) > 1e-7 * (1 + abs(float(wd))):
      return 'cost(s) - cost(lower bounds) = %r but the integral of the documented marginal cost (p_l at the lower bound, p_h at the upper) is %r' % (got, float(wd))
  wm = doc_marginal(L, c['s'], c['p'])
  if wm is not None:
    for k, (a, b) in enumerate(zip(o['deriv'], wm)):
      if abs(float(a) - float(b)) > 1e-7 * (1 + abs(float(b))):
        return 'marginal cost of slot %d is %r, documented %r (p_l at the lower bound, p_h at the upper, linear between)' % (k, float(a), float(b))
  return None


def search(rng, budget, seeds, findings):
  return core.default_search(__import__('c15'), rng, budget, seeds, findings)
