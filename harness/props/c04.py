"""C04 - set-level coupling constraints encode the documented aggregate limits.

Tie H: the standard tree model (Model/Tree.v, `dev Q`) produces the exported constraint list; for every COUPLING
constraint (a set's aggregate bounds, label balancing, ratio constraints, and an adaptor's bounds / wrapped constraints
on the slot totals) Coq compares type, value at the flow, and the set of flat (row, slot) entries the constraint reads
(value changes when that entry is moved by +1) with what the implementation's closure does. Plain leaves' own
constraints are only aligned, not compared (C02 / C03)."""
import copy
from fractions import Fraction as F
import numpy as np
import core
from core import cq, fr, fl, Raw, N, C, Some
import leafgen as lg
import treegen as tg

ID = 'C04'
GEN = ['kernels', 'constraints', 'basedevice']
# the scalar kernels of functions.py this property's statement depends on (a change confined to the others is not this property's business;
# what its own correspondence compares still is)
KERNELS_USED = []
PROPS = 'Props/C04.v'
MODEL_VO = ['Model/Tree.v']
SHARD = 25
CASE_TYPE = 'dev Q * list Q * list (bool * Q * list nat)'
CHECKER = 'chk'
COQ_PRELUDE = '''From Coq Require Import ZArith QArith List Bool String.
From DK Require Import Num NumQ Vec.
From DK.Model Require Import Leaf Fn Dev Tree.
Import ListNotations.
Local Open Scope Q_scope.
(* true: a coupling constraint (compared); false: a plain leaf's own constraint (aligned only) *)
Fixpoint coupling_mask (d : dev Q) : list bool :=
  match d with
  | Leaf _ l => repeat false (List.length (leaf_cons l))
  | DSet _ ks _ | SubBal _ ks _ _ _ _ _ =>
      (fix go (ks : list (dev Q)) : list bool := match ks with [] => [] | k :: ks' => coupling_mask k ++ go ks' end) ks
      ++ repeat true (List.length (tree_own_cons d))
  | _ => repeat true (List.length (tree_own_cons d))
  end.
Fixpoint eqnats (a b : list nat) : bool :=
  match a, b with [], [] => true | x :: a', y :: b' => Nat.eqb x y && eqnats a' b' | _, _ => false end.
Definition support (c : con Q) (x : list Q) : list nat :=
  let v := c_fun c x in
  filter (fun k => negb (Qeq_bool (c_fun c (upd x k (Qred (nth k x 0 + 1)))) v)) (seq 0 (List.length x)).
Fixpoint cons_ok (x : list Q) (cs : list (con Q)) (mask : list bool) (ic : list (bool * Q * list nat)) : bool :=
  match cs, mask, ic with
  | [], [], [] => true
  | c :: cs', m :: mask', (e, v, sup) :: ic' =>
      (if m then Bool.eqb (c_eq c) e && Qclose Qtol (c_fun c x) v && eqnats (support c x) sup else true) && cons_ok x cs' mask' ic'
  | _, _, _ => false
  end.
Definition chk (c : dev Q * list Q * list (bool * Q * list nat)) : bool :=
  let '(d, x, ic) := c in cons_ok x (tree_cons d) (coupling_mask d) ic.
'''
RULE = ('cases = (tree, in-bounds flow); trees of depth 0..3 (thorough 0..4) with aggregate bounds none / inequality / equality / '
        'per-slot mixed on every set, sub-balanced sets with 1..3 labels (suffix letters, full ids, cross-dot suffixes, an absent '
        'label, repeated labels), both constraint types, signs 1, -1, 2, -1/2, with and without the remaining set, two-ratio '
        'adaptors with ratios incl. negative and zero, multi-flow adaptors with 1..4 conduits around every one-directional class '
        '(cumulative bounds, storage constraints, user constraints). Compared in Coq for every coupling constraint: type, value '
        '(tol 1e-9) and the exact set of flat entries it reads. Non-trivial: at least one coupling constraint and two rows.')
EXPLANATION = ('Theorems (Props/C04.v) say that the model coupling constraints hold iff the documented aggregate conditions hold, '
               'per kind and for whole trees at all depths; the correspondence ties the model lists to the closures in /repo.')


def gen_cases(rng, tier):
  n = {'quick': 240, 'thorough': 4000, 'search': 120}[tier]
  out = []
  for i in range(n):
    depth = rng.choice([0, 1, 1, 2, 2, 3] if tier != 'thorough' else [0, 1, 2, 2, 3, 4])
    T = tg.gen_tree(rng, depth, fanout=3 if depth >= 2 else 4, p_subbal=0.5, p_adaptor=0.4, lengths=[1, 2, 3, 3, 4])
    S = tg.gen_matrix(rng, T)
    if i % 6 == 5:
      tg.thin_large_sbounds(T, i)      # open bands that are thin relative to their magnitude must stay inequalities
    out.append({'tree': T, 'S': S})
  return out


def _val(c, x):
  return float(np.array(c['fun'](x), dtype=float).reshape(-1)[0])


def _support(c, x):
  v = _val(c, x)
  out = []
  for k in range(len(x)):
    y = x.copy()
    y[k] += 1.0
    if _val(c, y) != v:
      out.append(k)
  return out


def coupling_positions(T):
  """For the exported list of build_tree(T): [True for a coupling constraint, False for a plain leaf's own], counts
  read off the implementation's standalone sub-objects."""
  if T['kind'] == 'leaf':
    return [False] * len(tg.build_tree(T).constraints)
  if T['kind'] in ('mf', 'tworatio'):
    return [True] * len(tg.build_tree(T).constraints)
  out = []
  for k in T['kids']:
    out += coupling_positions(k)
  own = len(tg.build_tree(T).constraints) - len(out)
  return out + [True] * max(0, own)


def observe(c):
  T, S = c['tree'], c['S']
  d = tg.build_tree(T)
  x = np.array(fl(S)).reshape(-1)
  mask = coupling_positions(T)
  cons = d.constraints
  out = []
  for k, cn in enumerate(cons):
    if k < len(mask) and not mask[k]:
      out.append((cn['type'] == 'eq', F(0), []))
    else:
      out.append((cn['type'] == 'eq', fr(_val(cn, x)), _support(cn, x)))
  return {'cons': out, 'mask': mask}


def coq_case(c, o):
  x = [v for r in c['S'] for v in r]
  return cq((tg.coq_tree(c['tree']), x, [(e, v, [N(k) for k in sup]) for e, v, sup in o['cons']]))


def nontrivial(c, o):
  return tg.rows(c['tree']) >= 2 and any(o['mask'])


def classify(c, o):
  T = c['tree']
  ks = ['depth:%d' % tg.depth(T), 'n:%d' % tg.length(T)] + ['has:' + k for k in tg.kinds(T)]
  for x in tg.nodes(T):
    if 'kids' in x:
      ks.append('sbounds:' + str(x.get('sb_kind')))
    if x['kind'] == 'subbal':
      ks += ['subbal:' + ('eq' if x['eq'] else 'ineq'), 'subbal-sign:%s' % x['sign'], 'subbal-remaining' if x['remaining'] else 'subbal-labelled-only',
             'labels:%d' % len(x['labels'])]
    if x['kind'] == 'tworatio':
      ks += ['ratio:' + ('eq' if x['eq'] else 'ineq')] + (['ratio-zero'] if 0 in x['ratios'] else []) + (['ratio-negative'] if min(x['ratios']) < 0 else [])
    if x['kind'] in ('mf', 'tworatio'):
      ks += ['wrapped:' + x['leaf']['cls'], 'conduits:%d' % len(x['flows'])]
  ks.append('coupling:%s' % (sum(o['mask']) if sum(o['mask']) < 20 else '20+'))
  return sorted(set(ks))


def case_to_json(c):
  return {'tree': tg.tree_to_json(c['tree']), 'S': tg.matrix_to_json(c['S'])}


def case_from_json(j):
  return {'tree': tg.tree_from_json(j['tree']), 'S': tg.matrix_from_json(j['S'])}


# ---- direct oracle: the documented conditions written out in Python ------------------------------------------------------
def _doc_own(T, block, off, n, Rtot):
  """[(is_eq, value, support)] the documentation asks of node T's own constraints on its block of rows (exact Fractions)."""
  R = len(block)
  idx = lambda r, i: (off + r) * n + i
  out = []
  sb = T.get('sbounds') if 'kids' in T else T['leaf']['bounds']
  if sb is not None:
    for i in range(n):
      tot = sum(row[i] for row in block)
      sup = [idx(r, i) for r in range(R)]
      lo, hi = sb[i]
      if lo == hi:
        out.append((True, tot - lo, sup))
      else:
        out += [(False, tot - lo, sup), (False, hi - tot, sup)]
  if T['kind'] == 'subbal':
    labs = [q for q, _ in tg.leaf_list(T)]
    seen, sets, used = [], [], set()
    for lab in T['labels']:
      if lab in seen:
        continue
      seen.append(lab)
      rows_ = [k for k, q in enumerate(labs) if q.endswith(lab)]
      sets.append(rows_)
      used |= set(rows_)
    if T['remaining']:
      sets.append([k for k in range(R) if k not in used])
    for rows_ in sets:
      for i in range(n):
        out.append((bool(T['eq']), T['sign'] * sum(block[r][i] for r in rows_), [idx(r, i) for r in rows_]))
  return out


def _expected(T, S, off, n, Rtot):
  """Documented (type, value, support) for every coupling constraint in export order; None for entries not checked here
  (plain leaf constraints; an adaptor's wrapped-device constraints, whose values are taken from the standalone device)."""
  R = tg.rows(T)
  block = S[off:off + R]
  if T['kind'] == 'leaf':
    return [None] * len(tg.build_tree(T).constraints)
  if T['kind'] in ('mf', 'tworatio'):
    out = _doc_own(T, block, off, n, Rtot)
    w = lg.build(T['leaf'])
    tot = np.array(fl([sum(row[i] for row in block) for i in range(n)]))
    for cn in w.constraints:
      sup_w = _support(cn, tot)
      out.append((cn['type'] == 'eq', F(_val(cn, tot)), sorted((off + r) * n + i for r in range(R) for i in sup_w)))
    if T['kind'] == 'tworatio':
      r0, r1 = T['ratios']
      for i in range(n):
        sup = ([off * n + i] if r0 != 0 else []) + ([(off + 1) * n + i] if r1 != 0 else [])
        out.append((bool(T['eq']), block[0][i] * r0 - block[1][i] * r1, sup))
    return out
  out = []
  o = off
  for k in T['kids']:
    out += _expected(k, S, o, n, Rtot)
    o += tg.rows(k)
  return out + _doc_own(T, block, off, n, Rtot)


def oracle(c):
  T, S = c['tree'], c['S']
  try:
    o = observe(c)
  except Exception as e:
    return 'implementation raised %s: %s' % (type(e).__name__, str(e)[:200])
  exp = _expected(T, S, 0, tg.length(T), tg.rows(T))
  if len(exp) != len(o['cons']):
    return 'tree exports %d constraints; the documented limits of its nodes make %d' % (len(o['cons']), len(exp))
  for k, (e, got) in enumerate(zip(exp, o['cons'])):
    if e is None:
      continue
    if bool(e[0]) != bool(got[0]):
      return 'coupling constraint %d is of type %s, documented %s' % (k, 'eq' if got[0] else 'ineq', 'eq' if e[0] else 'ineq')
    if abs(float(e[1]) - float(got[1])) > 1e-7 * (1 + abs(float(e[1]))):
      return 'coupling constraint %d evaluates to %r, the documented limit gives %r' % (k, float(got[1]), float(e[1]))
    if sorted(e[2]) != sorted(got[2]):
      return 'coupling constraint %d reads flat entries %s, the documented limit reads %s' % (k, sorted(got[2]), sorted(e[2]))
  return None


def shrink(case, why):
  best, bw = case, why
  improved = True
  while improved:
    improved = False
    T = best['tree']
    if 'kids' not in T:
      break
    cands = []
    off = 0
    for i, k in enumerate(T['kids']):
      r = tg.rows(k)
      if len(T['kids']) > 1:
        T2 = copy.deepcopy(T)
        del T2['kids'][i]
        cands.append({'tree': T2, 'S': best['S'][:off] + best['S'][off + r:]})
      if 'kids' in k:
        cands.append({'tree': copy.deepcopy(k), 'S': best['S'][off:off + r]})
      off += r
    for c2 in cands:
      try:
        w = oracle(c2)
      except Exception:
        w = None
      if w:
        best, bw, improved = c2, w, True
        break
  return best, bw


def search(rng, budget, seeds, findings):
  return core.default_search(__import__('c04'), rng, budget, seeds, findings)
