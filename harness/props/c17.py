"""C17 - the multi-flow adaptor is a pure re-expression of the wrapped device.

Tie O + H. The adaptor model (Model/Tree.v: mf_cost, mf_deriv, conduit_bounds, mf_cons, mf_project) is instantiated with
a wrapped-device record holding what the implementation's own standalone wrapped device returns at the slot totals
(cost and deriv at price 0, every constraint's value and Jacobian, its bounds); a query at anything but the slot totals
/ zero price answers with a poison value. Coq compares the implementation's adaptor (cost, deriv, bounds, every
constraint with its tiled Jacobian, projection) with that composition."""
import copy
from fractions import Fraction as F
import numpy as np
import core
from core import cq, fr, fl, Raw, N, C, Some
import leafgen as lg
import treegen as tg

ID = 'C17'
GEN = ['kernels', 'deviceset', 'mfdeviceset']
# the scalar kernels of functions.py this property's statement depends on (a change confined to the others is not this property's business;
# what its own correspondence compares still is)
KERNELS_USED = []
PROPS = 'Props/C17.v'
MODEL_VO = ['Model/Tree.v']
SHARD = 40
CASE_TYPE = ('gdev Q wobs * list (list Q) * price Q * (Q * list Q * list (Q * Q) * list (bool * Q * option (list Q)) * list Q)')
CHECKER = 'chk'
COQ_PRELUDE = '''From Coq Require Import ZArith QArith List Bool String.
From DK Require Import Num NumQ Vec.
From DK.Model Require Import Leaf Fn Dev Tree.
Import ListNotations.
Local Open Scope Q_scope.
(* the standalone wrapped device, observed at the slot totals w_t and price 0 *)
Record wobs := { w_n : nat; w_bounds : list (Q * Q); w_t : list Q; w_cost : Q; w_deriv : list Q;
                 w_cons : list (bool * Q * option (list Q)) }.
Definition poison : Q := 1000000000000 # 1.
Fixpoint eqlist (a b : list Q) : bool :=
  match a, b with [], [] => true | x :: a', y :: b' => Qeq_bool x y && eqlist a' b' | _, _ => false end.
Definition allzero (p : list Q) : bool := forallb (fun v => Qeq_bool v 0) p.
Definition wobs_con (l : wobs) (c : bool * Q * option (list Q)) : con Q :=
  let '(e, v, j) := c in
  {| c_eq := e; c_fun := fun s => if eqlist s (w_t l) then v else poison;
     c_jac := match j with Some jv => Some (fun s => if eqlist s (w_t l) then jv else []) | None => None end |}.
Definition wobs_ops : leafops Q wobs :=
  {| l_rows := fun _ => 1%nat; l_n := w_n; l_bounds := w_bounds;
     l_cost := fun l s p => if eqlist s (w_t l) && allzero p then w_cost l else poison;
     l_deriv := fun l s p => if eqlist s (w_t l) && allzero p then w_deriv l else [];
     l_hess := fun _ _ => [];
     l_cons := fun l => map (wobs_con l) (w_cons l);
     l_conduit := fun n b => Build_wobs n b [] 0 [] [] |}.
Definition optclose (a b : option (list Q)) : bool :=
  match a, b with Some x, Some y => Qclose_list Qtol x y | None, None => true | _, _ => false end.
Fixpoint cons_ok (x : list Q) (cs : list (con Q)) (ic : list (bool * Q * option (list Q))) : bool :=
  match cs, ic with
  | [], [] => true
  | c :: cs', (e, v, j) :: ic' =>
      Bool.eqb (c_eq c) e && Qclose Qtol (c_fun c x) v
      && optclose (match c_jac c with Some f => Some (f x) | None => None end) j && cons_ok x cs' ic'
  | _, _ => false
  end.
Definition chk (c : gdev Q wobs * list (list Q) * price Q * (Q * list Q * list (Q * Q) * list (bool * Q * option (list Q)) * list Q)) : bool :=
  let '(d, S0, p, (ic, idv, ib, icons, iproj)) := c in
  let P := prices wobs_ops d p in
  Qclose Qtol (gcost wobs_ops d S0 P) ic
  && Qclose_list Qtol (List.concat (gderiv wobs_ops d S0 P)) idv
  && Qclose_list Qtol (map fst (gbounds wobs_ops d)) (map fst ib) && Qclose_list Qtol (map snd (gbounds wobs_ops d)) (map snd ib)
  && cons_ok (List.concat S0) (gcons wobs_ops d) icons
  && Qclose_list Qtol (List.concat (gproject wobs_ops d S0)) iproj.
'''
RULE = ('cases = (adaptor, conduit flow matrix, price); wrapped device of every atomic class that can be one-directional '
        '(consumers and producers; cumulative bounds pair / 4-tuple / multi-range; storage with its state-of-charge constraints; '
        'ADevice with user constraints), 1..4 conduits (two-ratio adaptors included), horizon 1..5, flows: a feasible total split '
        'across conduits / independent in-bounds conduit flows / wrong-direction entries with in-bounds totals / totals beyond the '
        'bounds, prices zero / scalar / vector / matrix, flat or shaped input. Observed: adaptor cost, deriv, bounds, every '
        'constraint (type, value, Jacobian), project; standalone wrapped device at the slot totals and price 0. Compared in Coq '
        '(tol 1e-9). Non-trivial: at least 2 conduits or a wrapped device with constraints; distinct by hash.')
EXPLANATION = ('Theorems (Props/C17.v; abstract wrapped device, any k >= 1, any horizon) state cost / marginal cost / feasibility '
               'equivalence / identical attainable costs / projection totals; the correspondence ties the adaptor model to mfdeviceset.py.')
TRUSTED_EXTRA = ['tie O: the wrapped device\'s behaviour is the implementation\'s own standalone device (lookup at the slot totals)']

FLOW_KINDS = ['split', 'split', 'free', 'wrongdir', 'beyond']


def gen_flow(rng, T, kind):
  L = T['leaf']
  k, n = len(T['flows']), L['n']
  if kind == 'split':
    return tg.gen_matrix(rng, T, rng.choice([None, 'interior', 'mixed', 'lower', 'upper']))
  if kind == 'free':
    return tg.gen_matrix(rng, T, 'free')
  S = tg.gen_matrix(rng, T, 'interior')
  prod = any(lo < 0 for lo, _ in L['bounds'])
  if kind == 'wrongdir' and k >= 2:
    # move 1/4 from one conduit to another across zero: totals unchanged, one entry gets the wrong sign
    for i in range(n):
      if rng.random() < 0.6:
        a, b = rng.sample(range(k), 2)
        d = S[a][i] + F(1, 4) if not prod else S[a][i] - F(1, 4)
        S[b][i] += d
        S[a][i] -= d
    return S
  # totals beyond the wrapped bounds in some slots (every conduit at its own bound)
  cb = tg.conduit_bounds(L['bounds'])
  for i in range(n):
    if rng.random() < 0.5:
      for r in range(k):
        S[r][i] = cb[i][0] if prod else cb[i][1]
  if lg.kink_free(L):
    for i in range(n):
      if sum(S[r][i] for r in range(k)) == 0:
        S[0][i] = cb[i][1] if cb[i][1] != 0 else cb[i][0]
  return S


def gen_cases(rng, tier):
  n = {'quick': 300, 'thorough': 4000, 'search': 150}[tier]
  out = []
  for i in range(n):
    T = tg.gen_adaptor(rng, rng.choice([1, 2, 3, 3, 4, 5]), set(), p_tworatio=0.2)
    S = gen_flow(rng, T, FLOW_KINDS[i % len(FLOW_KINDS)])
    p = tg.gen_tree_price(rng, T, ['zero', 'scalar', 'vector', 'matrix'][(i // 2) % 4])
    out.append({'tree': T, 'S': S, 'p': p, 'flat': bool(i % 2), 'kind': FLOW_KINDS[i % len(FLOW_KINDS)]})
  return out


def _con_obs(cons, x):
  out = []
  for c in cons:
    v = fr(float(np.array(c['fun'](x), dtype=float).reshape(-1)[0]))
    j = fr(np.array(c['jac'](x), dtype=float).reshape(-1)) if 'jac' in c else None
    out.append((c['type'] == 'eq', v, j))
  return out


def totals(S):
  return [sum(r[i] for r in S) for i in range(len(S[0]))]


def observe(c):
  T, S, p = c['tree'], c['S'], c['p']
  k, n = tg.rows(T), tg.length(T)
  d = tg.build_tree(T)
  w = lg.build(T['leaf'])
  s = np.array(fl(S)).reshape(k, n)
  arg = s.reshape(-1) if c.get('flat') else s
  pp = tg.py_price(p)
  t = totals(S)
  tf = np.array(fl(t))
  ad = {'cost': fr(float(d.cost(arg, pp))), 'deriv': fr(np.array(d.deriv(arg, pp), dtype=float).reshape(-1)),
        'bounds': fr(np.array(d.bounds, dtype=float)), 'cons': _con_obs(d.constraints, s.reshape(-1)),
        'project': fr(np.array(d.project(arg), dtype=float).reshape(-1))}
  wr = {'n': n, 'bounds': fr(np.array(w.bounds, dtype=float)), 't': t, 'cost': fr(float(w.cost(tf, 0))),
        'deriv': fr(np.array(w.deriv(tf, 0), dtype=float).reshape(-1)), 'cons': _con_obs(w.constraints, tf)}
  return {'adaptor': ad, 'wrapped': wr}


def coq_wobs(o):
  cons = [(e, v, Raw('None') if j is None else Some(j)) for e, v, j in o['cons']]
  return Raw('(Build_wobs %s)' % ' '.join(cq(x) for x in [N(o['n']), [tuple(b) for b in o['bounds']], o['t'], o['cost'], o['deriv'], cons]))


def coq_case(c, o):
  T = c['tree']
  a = o['adaptor']
  cons = [(e, v, Raw('None') if j is None else Some(j)) for e, v, j in a['cons']]
  lit = tg.coq_tree(T, leaf=lambda L: coq_wobs(o['wrapped']))
  return cq((lit, c['S'], tg.coq_price(c['p']), (a['cost'], a['deriv'], [tuple(b) for b in a['bounds']], cons, a['project'])))


def nontrivial(c, o):
  return tg.rows(c['tree']) >= 2 or len(o['wrapped']['cons']) > 0


def classify(c, o):
  T = c['tree']
  L = T['leaf']
  ks = ['kind:' + T['kind'], 'wrapped:' + L['cls'], 'conduits:%d' % len(T['flows']), 'n:%d' % L['n'], 'flow:' + str(c.get('kind')),
        'price:' + c['p'][0], 'producer' if any(lo < 0 for lo, _ in L['bounds']) else 'consumer',
        'wrapped-constraints:%s' % min(len(o['wrapped']['cons']), 9), 'cbounds:' + str(L.get('cb_kind'))]
  return ks


def case_to_json(c):
  return {'tree': tg.tree_to_json(c['tree']), 'S': tg.matrix_to_json(c['S']), 'p': tg.price_to_json(c['p']), 'flat': bool(c.get('flat')),
          'kind': c.get('kind')}


def case_from_json(j):
  return {'tree': tg.tree_from_json(j['tree']), 'S': tg.matrix_from_json(j['S']), 'p': tg.price_from_json(j['p']), 'flat': j.get('flat', False),
          'kind': j.get('kind')}


# ---- direct oracle on the implementation ---------------------------------------------------------------------------------
TOL = 1e-9


def _close(a, b, tol=1e-7):
  return abs(float(a) - float(b)) <= tol * (1 + abs(float(b)))


def _sat(cons):
  return all((abs(float(v)) <= TOL) if e else (float(v) >= -TOL) for e, v, _ in cons)


def oracle(c):
  T, S, p = c['tree'], c['S'], c['p']
  k, n = tg.rows(T), tg.length(T)
  L = T['leaf']
  try:
    o = observe(c)
    c0 = dict(c, p=('scalar', F(0)))
    o0 = observe(c0)
  except Exception as e:
    return 'implementation raised %s: %s' % (type(e).__name__, str(e)[:200])
  a, a0, w = o['adaptor'], o0['adaptor'], o['wrapped']
  if not _close(a0['cost'], w['cost']):
    return 'adaptor cost at zero price %r differs from the wrapped device cost of the slot totals %r' % (float(a0['cost']), float(w['cost']))
  Pm = tg.price_matrix(p, k, n)
  lin = sum(S[r][i] * Pm[r][i] for r in range(k) for i in range(n))
  if not _close(a['cost'], float(w['cost']) + float(lin)):
    return 'adaptor cost %r differs from wrapped cost of the totals plus <S,P> = %r' % (float(a['cost']), float(w['cost']) + float(lin))
  for r in range(k):
    for i in range(n):
      if not _close(a['deriv'][r * n + i], float(w['deriv'][i]) + float(Pm[r][i])):
        return 'adaptor marginal cost of conduit %d slot %d is %r, wrapped marginal cost of the totals plus price is %r' % (
            r, i, float(a['deriv'][r * n + i]), float(w['deriv'][i]) + float(Pm[r][i]))
  # feasibility: (conduit bounds + exported constraints) <-> (direction + totals feasible for the wrapped device [+ ratio])
  cb = a['bounds']
  in_cb = all(float(cb[r * n + i][0]) - TOL <= float(S[r][i]) <= float(cb[r * n + i][1]) + TOL for r in range(k) for i in range(n))
  lhs = in_cb and _sat(a['cons'])
  prod = any(lo < 0 for lo, _ in L['bounds'])
  direction = all((float(S[r][i]) <= TOL) if prod else (float(S[r][i]) >= -TOL) for r in range(k) for i in range(n))
  t = w['t']
  tot_ok = all(float(lo) - TOL <= float(t[i]) <= float(hi) + TOL for i, (lo, hi) in enumerate(L['bounds'])) and _sat(w['cons'])
  rhs = direction and tot_ok
  if T['kind'] == 'tworatio':
    r0, r1 = T['ratios']
    vals = [float(S[0][i] * r0 - S[1][i] * r1) for i in range(n)]
    rhs = rhs and all((abs(v) <= TOL) if T['eq'] else (v >= -TOL) for v in vals)
  if lhs != rhs:
    return ('the conduit matrix is %sfeasible for the adaptor (bounds + constraints) but its slot totals are %sfeasible for the wrapped '
            'device with all conduit flows %sin the device direction' % ('' if lhs else 'in', '' if tot_ok else 'in', '' if direction else 'not '))
  # projection keeps / projects the slot totals
  pr = a['project']
  wt = [min(max(float(t[i]), float(L['bounds'][i][0])), float(L['bounds'][i][1])) for i in range(n)]
  for i in range(n):
    if not _close(sum(float(pr[r * n + i]) for r in range(k)), wt[i]):
      return 'slot %d total of the projected conduit matrix is %r, the wrapped device projects the total to %r' % (
          i, sum(float(pr[r * n + i]) for r in range(k)), wt[i])
  # all of a feasible device flow in the first conduit is feasible for the adaptor and costs the same
  if tot_ok and T['kind'] == 'mf':
    S1 = [list(t)] + [[F(0)] * n for _ in range(k - 1)]
    try:
      o1 = observe(dict(c, S=S1, p=('scalar', F(0))))
    except Exception as e:
      return 'implementation raised %s on the first-conduit embedding: %s' % (type(e).__name__, str(e)[:200])
    a1 = o1['adaptor']
    ok1 = all(float(a1['bounds'][r * n + i][0]) - TOL <= float(S1[r][i]) <= float(a1['bounds'][r * n + i][1]) + TOL for r in range(k) for i in range(n)) and _sat(a1['cons'])
    if not ok1 or not _close(a1['cost'], w['cost']):
      return 'a device-feasible flow placed in the first conduit is %s for the adaptor and costs %r (device: %r)' % (
          'feasible' if ok1 else 'infeasible', float(a1['cost']), float(w['cost']))
  return None


def search(rng, budget, seeds, findings):
  return core.default_search(__import__('c17'), rng, budget, seeds, findings)
