"""Helpers shared by the C18 / C05 / C19 checks: extraction of the linear description (bounds + linear constraints) of a device's feasible set, an
independent active-set QP (nearest point of a polytope) written here, and the LP-based Frank-Wolfe gap certificate.
Nothing here calls SLSQP."""
from fractions import Fraction as F
import numpy as np
import core
from core import dy, fl, fr, cq, N, Raw, C
import leafgen as lg
import treegen as tg


def pick(rng, xs):
  return xs[rng.randrange(len(xs))]


# ---------------------------------------------------------------------------------------------------
# trees come from harness/treegen.py; helpers on top of it
# ---------------------------------------------------------------------------------------------------
def row_bounds(T):
  """per-row bounds tables, in row order (conduits of an adaptor get the conduit bounds)"""
  return [list(L['bounds']) for _, L in tg.leaf_list(T)]


def unit_kinds(T):
  return sorted(set(('%s:%s' % (U['kind'], U['leaf']['cls'])) for _, _, U in tg.units(T)))


# ---------------------------------------------------------------------------------------------------
# linear description of a device's feasible set (what SciPy is given), by probing the callables
# ---------------------------------------------------------------------------------------------------
def linear_description(dev, probes=3, seed=0):
  """Returns (lo, hi, Aeq, beq, G, h, all_linear): bounds, Aeq x = beq, G x >= h over the flattened flow.
  A constraint is taken as affine when fun(x) = fun(0) + J x on random probes (J from 'jac' or unit-vector differences)."""
  b = np.array(dev.bounds, dtype=float)
  m = b.shape[0]
  rs = np.random.RandomState(seed)
  Aeq, beq, G, h = [], [], [], []
  all_linear = True
  z = np.zeros(m)

  def val(c, x):
    # a constraint value is a number or a vector of components (scipy accepts both): one row per component
    return np.asarray(c['fun'](x.copy()), dtype=float).reshape(-1)
  for c in dev.constraints:
    f0 = val(c, z)
    J = np.array([val(c, np.eye(m)[i]) - f0 for i in range(m)]).T.reshape(len(f0), m)
    ok = True
    for _ in range(probes):
      x = b[:, 0] + rs.rand(m) * (b[:, 1] - b[:, 0])
      if np.abs(val(c, x) - (f0 + J.dot(x))).max() > 1e-8 * (1 + np.abs(f0).max() + np.abs(J).sum()):
        ok = False
    if not ok:
      all_linear = False
      continue
    for k in range(len(f0)):
      if c['type'] == 'eq':
        Aeq.append(J[k]); beq.append(-f0[k])
      else:
        G.append(J[k]); h.append(-f0[k])
  return b[:, 0], b[:, 1], np.array(Aeq).reshape(-1, m), np.array(beq), np.array(G).reshape(-1, m), np.array(h), all_linear


def degenerate(desc):
  """the equality constraints restricted to the free (non-fixed) variables are linearly dependent (or vanish): SLSQP's
  least-squares sub-problem is rank deficient there and its success flag is not reliable (reported finding)"""
  lo, hi, Aeq, beq, G, h, _ = desc
  free = hi > lo
  if not len(beq):
    return False
  if not free.any():
    return True
  A = Aeq[:, free]
  return np.linalg.matrix_rank(A, tol=1e-9) < A.shape[0]


def licq_fails(x, desc, tol=1e-8):
  """the constraints active at x (bounds, equalities, active inequalities) have linearly dependent gradients"""
  lo, hi, Aeq, beq, G, h, _ = desc
  x = np.asarray(x, dtype=float).reshape(-1)
  m = len(lo)
  rows = []
  for i in range(m):
    if abs(x[i] - lo[i]) <= tol or abs(x[i] - hi[i]) <= tol:
      rows.append(np.eye(m)[i])
  rows += [r for r in Aeq]
  if len(h):
    sl = G.dot(x) - h
    rows += [G[i] for i in range(len(h)) if abs(sl[i]) <= tol]
  if not rows:
    return False
  R = np.array(rows)
  return np.linalg.matrix_rank(R, tol=1e-9) < R.shape[0]


def residual(x, desc):
  """largest violation of bounds / equalities / inequalities (0 when feasible)"""
  lo, hi, Aeq, beq, G, h, _ = desc
  x = np.asarray(x, dtype=float).reshape(-1)
  r = max(0.0, float((lo - x).max()), float((x - hi).max()))
  if len(beq):
    r = max(r, float(np.abs(Aeq.dot(x) - beq).max()))
  if len(h):
    r = max(r, float((h - G.dot(x)).max()))
  return r


def nonlinear_residual(x, dev):
  """violation measured with the device's own callables (covers non-affine constraints too)"""
  x = np.asarray(x, dtype=float).reshape(-1)
  b = np.array(dev.bounds, dtype=float)
  r = max(0.0, float((b[:, 0] - x).max()), float((x - b[:, 1]).max()))
  for c in dev.constraints:
    v = np.asarray(c['fun'](x.copy()), dtype=float).reshape(-1)      # every component of a vector-valued constraint counts
    r = max(r, float(np.abs(v).max()) if c['type'] == 'eq' else float((-v).max()))
  return r


def lp_min(g, desc):
  """min <g,y> over the polytope with HiGHS. Returns (value, y) or None when infeasible/unbounded."""
  from scipy.optimize import linprog
  lo, hi, Aeq, beq, G, h, _ = desc
  kw = {}
  if len(beq):
    kw['A_eq'] = Aeq; kw['b_eq'] = beq
  if len(h):
    kw['A_ub'] = -G; kw['b_ub'] = -h
  r = linprog(np.asarray(g, dtype=float), bounds=list(zip(lo, hi)), method='highs', **kw)
  if r.status != 0:
    return None
  return float(r.fun), np.array(r.x)


def fw_gap(x, g, desc):
  """Frank-Wolfe gap  max_{y feasible} <g, x - y>  (>= 0 at feasible x). None when the LP fails."""
  r = lp_min(g, desc)
  if r is None:
    return None
  return float(np.dot(g, np.asarray(x, dtype=float).reshape(-1))) - r[0]


def feasible_point(desc):
  r = lp_min(np.zeros(len(desc[0])), desc)
  return None if r is None else r[1]


# ---------------------------------------------------------------------------------------------------
# independent reference: nearest point of {x : G x >= h} by a primal active-set method (dense, small)
# ---------------------------------------------------------------------------------------------------
def rows_of(desc):
  """all constraints as rows  G x >= h  (bounds and equalities included, equalities as two rows)"""
  lo, hi, Aeq, beq, G, h, _ = desc
  m = len(lo)
  R = [np.eye(m), -np.eye(m)]
  r = [lo, -hi]
  if len(beq):
    R += [Aeq, -Aeq]; r += [beq, -beq]
  if len(h):
    R += [G]; r += [h]
  return np.vstack(R), np.concatenate(r)


def qp_nearest(p, G, h, x0, tol=1e-12, maxit=500):
  """argmin |x-p|^2 s.t. G x >= h, started at a feasible x0. Returns x or None (no convergence)."""
  p = np.asarray(p, dtype=float)
  x = np.asarray(x0, dtype=float).copy()
  W = []
  for _ in range(maxit):
    r = p - x
    if W:
      Gw = G[W]
      lam = np.linalg.lstsq(Gw.dot(Gw.T), Gw.dot(r), rcond=None)[0]
      d = r - Gw.T.dot(lam)
    else:
      lam = np.zeros(0)
      d = r
    if np.abs(d).max() <= tol * (1 + np.abs(p).max()):
      if not W:
        return x
      j = int(np.argmax(lam))          # x - p = -Gw' lam : need -lam >= 0
      if lam[j] <= 1e-10:
        return x
      W.pop(j)
      continue
    alpha, block = 1.0, None
    gd = G.dot(d)
    sl = G.dot(x) - h
    for i in range(len(h)):
      if i in W or gd[i] >= -1e-14:
        continue
      a = max(0.0, sl[i]) / (-gd[i])
      if a < alpha:
        alpha, block = a, i
    x = x + alpha * d
    if block is not None:
      W.append(block)
  return None


def ldp_nearest(p, G, h):
  """Lawson-Hanson least-distance programming through scipy.optimize.nnls (second, unrelated reference)."""
  from scipy.optimize import nnls
  p = np.asarray(p, dtype=float)
  hh = h - G.dot(p)
  E = np.vstack([G.T, hh.reshape(1, -1)])
  f = np.zeros(E.shape[0]); f[-1] = 1
  u, _ = nnls(E, f, maxiter=10 * E.shape[1] + 100)
  r = E.dot(u) - f
  if abs(r[-1]) < 1e-13:
    return None
  return p - r[:-1] / r[-1]


def nearest(p, desc):
  """nearest feasible point by the active-set method, cross-checked with LDP. None when the set is empty."""
  G, h = rows_of(desc)
  x0 = feasible_point(desc)
  if x0 is None:
    return None
  x = qp_nearest(p, G, h, x0)
  y = ldp_nearest(p, G, h)
  if x is None:
    return y
  if y is not None and np.sum((y - p) ** 2) < np.sum((x - p) ** 2) - 1e-9 and (h - G.dot(y)).max() <= 1e-9:
    return y
  return x


def structurally_dependent(desc):
  """the exported constraint rows (equalities, inequalities, unit rows of the variables fixed by their bounds) are linearly
  dependent: wherever such rows become active together LICQ fails and SLSQP's success flag is not reliable (reported
  finding); the checks do not judge optimality there. The lower/upper pair of one range (opposite rows, lower < upper) counts
  once: its two sides cannot be active together."""
  lo, hi, Aeq, beq, G, h, _ = desc
  m = len(lo)
  rows = [(np.eye(m)[i], None) for i in range(m) if hi[i] <= lo[i]] + [(r, None) for r in Aeq] + [(G[i], h[i]) for i in range(len(h))]
  uniq = []
  for r, rhs in rows:
    nr = np.linalg.norm(r)
    if nr < 1e-12:
      return True
    u, b = r / nr, (None if rhs is None else rhs / nr)
    twin = False
    for v, bv in uniq:
      c = u.dot(v)
      if abs(abs(c) - 1) < 1e-9:
        # parallel rows: harmless only as the two sides  b <= <u,x> <= -bv  of one range with room in between
        if b is not None and bv is not None and c < 0 and b < -bv - 1e-9:
          twin = True
          break
        return True
    if not twin:
      uniq.append((u, b))
  if not uniq:
    return False
  U = np.array([u for u, _ in uniq])
  return np.linalg.matrix_rank(U, tol=1e-9) < U.shape[0]
