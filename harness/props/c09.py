"""C09 - storage and thermal state follow the documented first-order recurrences."""
import numpy as np
from fractions import Fraction as F
import core
import leafgen as lg
from core import cq, fr, fl, Raw, N, Some, dy

ID = 'C09'
GEN = ['kernels', 'thermal', 'utils']
# the scalar kernels of functions.py this property's statement depends on (a change confined to the others is not this property's business;
# what its own correspondence compares still is)
KERNELS_USED = []
PROPS = 'Props/C09.v'
MODEL_VO = ['Model/Dev.v']
CASE_TYPE = 'c09case'
CHECKER = 'chk'
COQ_PRELUDE = '''From Coq Require Import ZArith QArith List Bool.
From DK Require Import Num NumQ Vec.
From DK.Model Require Import Leaf Fn Dev.
Import ListNotations.
Local Open Scope Q_scope.
Inductive c09case :=
| CS (q : sparams Q) (n : nat) (bnd : list (Q * Q)) (r : list Q)
     (i_soc i_base : list Q) (i_mat : list (list Q)) (i_charge i_c0 i_c1 : list Q) (i_last : Q)
| CT (q : tparams Q) (r : list Q) (i_tbase i_r2t i_soc : list Q).
Definition chk (c : c09case) : bool :=
  match c with
  | CS q n bnd r i_soc i_base i_mat i_charge i_c0 i_c1 i_last =>
      let vals := map (fun k => c_fun k r) (sdev_cons q n bnd) in
      Qclose_list Qtol (soc r (sp_sus q) (sp_eff q)) i_soc
      && Qclose_list Qtol (base_soc (sdev_base q) (sp_sus q) n) i_base
      && Qclose_mat Qtol (sust_matrix (sp_sus q) n) i_mat
      && Qclose_list Qtol (sdev_charge q r) i_charge
      && Qclose_list Qtol (map (fun i => nth (2 * i) vals 0) (seq 0 n)) i_c0
      && Qclose_list Qtol (map (fun i => Qred (sp_capacity q - nth (2 * i + 1) vals 0)) (seq 0 n)) i_c1
      && Qclose Qtol (Qred (last vals 0 + sp_capacity q * sp_reserve q)) i_last
  | CT q r i_tbase i_r2t i_soc =>
      Qclose_list Qtol (tdev_tbase q (length r)) i_tbase
      && Qclose_list Qtol (tdev_r2t q r) i_r2t
      && Qclose_list Qtol (soc r (tp_sus q) (tp_eff q)) i_soc
  end.
'''
RULE = ('cases = storage (SDevice config, flow) or thermal (TDevice config, flow); n in 1..7 and 24; sustainment and storage efficiency '
        'in {1/4,1/2,3/4,1} (thermal sustainment also 0), thermal efficiency in {1,2,1/2,3/4,-2,-1/2,-1}; start/capacity/reserve dyadic; '
        'flows of mixed sign with exact zeros (kinds: mixed, charge-only, discharge-only, idle, single pulse); external and initial '
        'temperatures negative, zero and positive; rate clip none/one/both; cbounds none or a wide pair (shifts the constraint offset). '
        'Compared in Coq (tol 1e-9 rel+abs): utils.soc, utils.base_soc, utils.sustainment_matrix, SDevice.charge_at, the state read back '
        'from the 2n SoC constraints and from the final reserve constraint of SDevice.constraints, TDevice.t_base, TDevice.r2t. '
        'Two thirds of the devices are evaluated (cost, marginal cost at three flows) before their state is read. '
        'Non-trivial: the flow has a non-zero slot; distinct by hash of (config, flow).')
EXPLANATION = ('Theorems (Props/C09.v) show for every length that the model state (closed form through the sustainment matrix, as the code '
               'computes it) obeys the documented recurrences, that the constraints bound that same state, and the thermal recurrence for '
               'all real external temperatures; the correspondence ties the model functions to the implementation.')
ASSUMPTIONS = ['thermal slots with a negative flow (not a consumption) use flow/efficiency, the same e**sign(r) convention as storage; '
               'the property text only speaks of consumption (flow >= 0), where the term is efficiency*flow']

LENGTHS = [1, 2, 3, 4, 5, 6, 7, 24]
SUS = [F(1, 4), F(1, 2), F(3, 4), F(1)]


def pick(rng, xs):
  return xs[rng.randrange(len(xs))]


def gen_flow(rng, n):
  kind = pick(rng, ['mixed', 'mixed', 'mixed', 'charge', 'discharge', 'idle', 'pulse'])
  if kind == 'idle':
    return [F(0)] * n
  if kind == 'pulse':
    r = [F(0)] * n
    r[rng.randrange(n)] = pick(rng, [F(1), F(-1), F(3, 2), F(-5, 4)])
    return r
  out = []
  for _ in range(n):
    u = rng.random()
    if u < 0.2:
      out.append(F(0))
    else:
      v = dy(rng, F(1, 16), 3, 4)
      if kind == 'discharge' or (kind == 'mixed' and rng.random() < 0.5):
        v = -v
      out.append(v)
  return out


def gen_case(rng, i):
  n = LENGTHS[i % len(LENGTHS)] if rng.random() < 0.7 else pick(rng, LENGTHS)
  if i % 2 == 0:
    bounds = [(-dy(rng, 0, 3, 2), dy(rng, 0, 3, 2)) for _ in range(n)]
    return {'kind': 'S', 'n': n, 'bounds': bounds, 'cb_pair': rng.random() < 0.25,
            'capacity': dy(rng, 1, 12, 1) if rng.random() < .9 else F(1, 2), 'start': dy(rng, 0, 1, 3), 'reserve': dy(rng, 0, 1, 2),
            'efficiency': pick(rng, SUS), 'sustainment': pick(rng, SUS),
            'rate_clip': pick(rng, [None, None, None, (F(1), None), (None, F(2)), (F(3, 2), F(1))]),
            'post_set': rng.random() < 0.3,     # sustainment/efficiency/start assigned through setters after construction
            'r': gen_flow(rng, n)}
  ext_kind = pick(rng, ['any', 'any', 'neg', 'zero', 'pos'])
  ext = {'any': lambda: dy(rng, -12, 30, 1), 'neg': lambda: dy(rng, -12, F(-1, 2), 1), 'zero': lambda: F(0),
         'pos': lambda: dy(rng, 1, 30, 1)}[ext_kind]
  return {'kind': 'T', 'n': n, 'sustainment': pick(rng, SUS + [F(1, 2), F(0)]),
          'efficiency': pick(rng, [F(1), F(2), F(1, 2), F(3, 4), F(-2), F(-1, 2), F(-1)]),
          't_init': pick(rng, [F(0), dy(rng, -10, 25, 1), dy(rng, -10, 25, 1)]), 't_optimal': dy(rng, 15, 25, 1),
          't_range': pick(rng, [F(0), F(1), F(2), F(4)]), 't_external': [ext() for _ in range(n)], 'ext_kind': ext_kind,
          'r': gen_flow(rng, n)}


def gen_cases(rng, tier):
  n = {'quick': 400, 'thorough': 8000, 'search': 200}[tier]
  out = []
  for i in range(n):
    c = gen_case(rng, i)
    # the FORM in which the flow is handed over: float ndarray, Python list of floats, whole-number flows as an integer ndarray or as
    # a list of Python ints (iterative callers pass float arrays; scenario files and users pass anything numpy accepts)
    c['rform'] = ['nd', 'nd', 'list', 'int', 'nd', 'intlist', 'nd', 'int'][(i // 2) % 8]
    # two thirds of the devices are USED before their state is read: cost and marginal cost at the flow itself, at its reversed
    # negation and at a flow without idle slots (what a solve does first).  Evaluating a device must not disturb the state it reports
    # afterwards (seeded C09_11: the marginal cost scaled the memoised sustainment matrix in place - invisible at zero flow and at efficiency 1)
    c['used'] = (i // 2) % 3 != 0
    if c['rform'] in ('int', 'intlist'):
      c['r'] = [F(0) if v == 0 else F(int(v) if int(v) != 0 else (1 if v > 0 else -1)) for v in c['r']]
    out.append(c)
  return out


def flow_obj(c):
  r = fl(c['r'])
  f = c.get('rform', 'nd')
  if f == 'int':
    return np.array([int(v) for v in c['r']], dtype=int)
  if f == 'intlist':
    return [int(v) for v in c['r']]
  if f == 'list':
    return list(r)
  return np.array(r)


def build(c):
  import device_kit as dk
  n = c['n']
  if c['kind'] == 'S':
    kw = {k: float(c[k]) for k in ('capacity', 'start', 'reserve', 'efficiency', 'sustainment')}
    if c['rate_clip'] is not None:
      kw['rate_clip'] = tuple(None if v is None else float(v) for v in c['rate_clip'])
    cb = (-1000.0, 1000.0) if c['cb_pair'] else None
    post = {k: kw.pop(k) for k in ('sustainment', 'efficiency', 'start')} if c.get('post_set') else {}
    d = dk.SDevice('s', n, np.array(fl([list(b) for b in c['bounds']])), cb, **kw)
    if post and int(core.case_hash({'r': [str(v) for v in c['r']]}), 16) % 2 == 0:
      lg.warm_up(d)      # used once (project/cost/deriv/constraints) BEFORE the late parameters are assigned: nothing may be memoised
      try:
        d.charge_at(np.zeros(n))
      except Exception:
        pass
    for k, v in post.items():
      setattr(d, k, v)
    return d
  # the external temperatures as a list or (decided by the content) as a float ndarray, and for some cases a decoy device built first
  # from the SAME argument objects: a constructor must not modify what the caller passed
  h = int(core.case_hash({'e': [str(v) for v in c['t_external']], 's': str(c['sustainment'])}), 16)
  ext = fl(c['t_external'])
  if h % 2:
    ext = np.array(ext, dtype=float)
  args = ('t', n, (-4.0, 4.0), float(c['sustainment']), float(c['efficiency']), float(c['t_init']), float(c['t_optimal']), float(c['t_range']), ext)
  if h % 3 == 0:
    dk.TDevice(*args)
  return dk.TDevice(*args)


def use(d, r):
  for x in (r, -r[::-1], np.where(r == 0, 0.5, r)):
    for f in (lambda: d.cost(x.copy(), 0), lambda: d.deriv(x.copy(), 0)):
      try:
        f()
      except Exception:
        pass


def observe(c):
  from device_kit import utils
  d = build(c)
  r = np.array(fl(c['r']))
  if c.get('used'):
    use(d, r)
  rf = flow_obj(c)                 # what charge_at / r2t / soc receive; the constraint functions get what a solver passes (float ndarray)
  if c['kind'] == 'T' and not isinstance(rf, np.ndarray):
    rf = np.array(rf)              # TDevice.r2t calls r.reshape: ndarray only (integer dtype kept)
  n = c['n']
  if c['kind'] == 'S':
    s, e = float(c['sustainment']), float(c['efficiency'])
    cons = d.constraints
    k = 2 if c['cb_pair'] else 0
    cap, res = float(c['capacity']), float(c['reserve'])
    c0 = [cons[k + 2 * i]['fun'](r) for i in range(n)]
    c1 = [cap - cons[k + 2 * i + 1]['fun'](r) for i in range(n)]
    last = cons[-1]['fun'](r) + cap * res
    kinds = [cons[k + j]['type'] for j in range(2 * n)] + [cons[-1]['type']]
    if any(t != 'ineq' for t in kinds):
      raise AssertionError('state-of-charge constraint is not an inequality: %s' % kinds)
    return {'soc': fr(utils.soc(rf, s, e)), 'base': fr(utils.base_soc(float(c['start']) * cap, s, n)),
            'mat': fr(np.array(utils.sustainment_matrix(s, n))), 'charge': fr(np.array(d.charge_at(rf))),
            'c0': fr(c0), 'c1': fr(c1), 'last': fr(last)}
  s, e = float(c['sustainment']), float(c['efficiency'])
  return {'tbase': fr(np.array(d.t_base)), 'r2t': fr(np.array(d.r2t(rf))), 'soc': fr(utils.soc(flow_obj(c), s, e))}


def coq_case(c, o):
  if c['kind'] == 'S':
    rc = c['rate_clip'] or (None, None)
    opt = lambda v: Raw('None') if v is None else Some(v)
    q = Raw('(Build_sparams %s)' % ' '.join(cq(x) for x in [
        F(1), F(0), F(0), c['capacity'], F(0), c['start'], c['reserve'], c['efficiency'], c['sustainment'], opt(rc[0]), opt(rc[1])]))
    return 'CS %s %s %s %s %s %s %s %s %s %s %s' % tuple(cq(x) for x in [
        q, N(c['n']), [tuple(b) for b in c['bounds']], c['r'], o['soc'], o['base'], o['mat'], o['charge'], o['c0'], o['c1'], o['last']])
  q = Raw('(Build_tparams %s)' % ' '.join(cq(x) for x in [
      c['sustainment'], c['efficiency'], c['t_init'], c['t_optimal'], c['t_range'], c['t_external'], Raw('(PS 1)')]))
  return 'CT %s %s %s %s %s' % tuple(cq(x) for x in [q, c['r'], o['tbase'], o['r2t'], o['soc']])


def nontrivial(c, o):
  return any(v != 0 for v in c['r'])


def classify(c, o):
  r = c['r']
  ks = ['kind:' + c['kind'], 'history:' + ('used-before-read' if c.get('used') else 'fresh'), 'flowform:' + c.get('rform', 'nd'), 'n:%d' % c['n'], 'sustainment:%s' % c['sustainment'], 'efficiency:%s' % c['efficiency']]
  if any(v > 0 for v in r) and any(v < 0 for v in r):
    ks.append('flow:mixed-sign')
  if any(v == 0 for v in r):
    ks.append('flow:has-zero')
  if c['kind'] == 'T':
    if any(t < 0 for t in c['t_external']):
      ks.append('ext:negative')
    if any(t == 0 for t in c['t_external']):
      ks.append('ext:zero')
  else:
    ks.append('rate_clip:%s' % ('none' if c['rate_clip'] is None else 'set'))
    if c['cb_pair']:
      ks.append('cbounds:pair')
  return ks


def case_to_json(c):
  return core.jsonable(c)


def case_from_json(j):
  c = dict(j)
  for k in ('capacity', 'start', 'reserve', 'efficiency', 'sustainment', 't_init', 't_optimal', 't_range'):
    if k in c:
      c[k] = F(c[k])
  c['r'] = [F(v) for v in c['r']]
  if c['kind'] == 'S':
    c['bounds'] = [(F(a), F(b)) for a, b in c['bounds']]
    c['rate_clip'] = None if c.get('rate_clip') is None else tuple(None if v is None else F(v) for v in c['rate_clip'])
  else:
    c['t_external'] = [F(v) for v in c['t_external']]
  return c


# ---- direct oracle: the documented recurrence, hand-rolled with exact fractions, against the implementation ---------
def gain(e, r):
  return r * e if r > 0 else (r / e if r < 0 else F(0))


def rec(s, prev, inflow):
  out = []
  for u in inflow:
    prev = s * prev + u
    out.append(prev)
  return out


def differs(got, want, what, first=0):
  if len(got) != len(want):
    return '%s has %d entries, expected %d' % (what, len(got), len(want))
  for i, (a, b) in enumerate(zip(got, want)):
    if abs(float(a) - float(b)) > 1e-7 * (1 + abs(float(b))):
      return '%s after slot %d is %r, the documented recurrence gives %r' % (what, first + i, float(a), float(b))
  return None


def oracle(c):
  try:
    o = observe(c)
  except Exception as e:
    return 'implementation raised %s: %s' % (type(e).__name__, e)
  s, e, r, n = c['sustainment'], c['efficiency'], c['r'], c['n']
  if c['kind'] == 'S':
    want = rec(s, c['start'] * c['capacity'], [gain(e, x) for x in r])
    msg = (differs(o['charge'], want, 'SDevice.charge_at')
           or differs(o['c0'], want, 'state bounded below by the SoC>=0 constraints')
           or differs(o['c1'], want, 'state bounded above by the SoC<=capacity constraints')
           or differs([o['last']], want[-1:], 'state in the end-of-window reserve constraint', n - 1)
           or differs(o['soc'], rec(s, F(0), [gain(e, x) for x in r]), 'utils.soc')
           or differs(o['base'], rec(s, c['start'] * c['capacity'], [F(0)] * n), 'utils.base_soc'))
    if msg:
      return msg
    for i in range(n):
      for j in range(n):
        w = s ** (i - j) if j <= i else F(0)
        if abs(float(o['mat'][i][j]) - float(w)) > 1e-9:
          return 'sustainment_matrix[%d][%d] is %r, expected %r' % (i, j, float(o['mat'][i][j]), float(w))
    return None
  ext = c['t_external']
  return (differs(o['r2t'], rec(s, c['t_init'], [(1 - s) * t + gain(e, x) for t, x in zip(ext, r)]), 'TDevice.r2t temperature')
          or differs(o['tbase'], rec(s, c['t_init'], [(1 - s) * t for t in ext]), 'TDevice.t_base temperature'))


def search(rng, budget, seeds, findings):
  return core.default_search(__import__('c09'), rng, budget, seeds, findings)
