"""C18 - projection returns the nearest point of the region (or raises), idempotently.

Correspondence (tie H): region classes of projection/projection.py, Device/DeviceSet/MFDeviceSet.project against
Model/Projection.v, compared inside Coq.  utils.project (SLSQP) is an oracle: each returned point is checked (in Coq) for
feasibility and against an independent active-set reference written in c18_common.py.  Dykstra's early-stopped iterate is
compared with the fuelled model and (oracle) with the same reference: its nearestness is explored, not proved."""
import numpy as np
from fractions import Fraction as F
import core
from core import cq, fr, fl, Raw, N, C, dy
import leafgen as lg
import treegen as tg
import c18_common as cc
from c18_common import pick

ID = 'C18'
GEN = ['projection', 'utils']
PROPS = 'Props/C18.v'
MODEL_VO = ['Model/Projection.v', 'Model/ProjectionTree.v']
CASE_TYPE = 'kase'
CHECKER = 'chk'
SHARD = 60
TOL = F(1, 10 ** 10)
COQ_PRELUDE = '''From Coq Require Import ZArith QArith Qabs List Bool String.
From DK Require Import Num NumQ Vec.
From DK.Model Require Import Leaf Fn Dev Tree Projection ProjectionTree.
Import ListNotations.
Local Open Scope Q_scope.
Definition tolQ : Q := 1 # 10000000000.
Definition eqtag {T} (cmp : T -> T -> bool) (m i : pres T) : bool :=
  match m, i with
  | POk a, POk b => cmp a b | PValueError, PValueError => true | PMaxIter, PMaxIter => true | _, _ => false end.
Inductive kase :=
| KRegion (r : region Q) (maxiter : nat) (ctor_ok : bool) (p : list Q) (proj : pres (list Q)) (isin : pres bool)
| KDyk (a b : region Q) (maxiter : nat) (p : list Q) (res : pres (list Q))
| KList (rs : list (region Q)) (axis1 : bool) (m : list (list Q)) (res : pres (list (list Q))) (isin : pres bool)
| KTree (t : dev Q) (s : list Q) (res : pres (list (list Q)))
| KProj (bnd : list (Q * Q)) (eqs ineqs : list (list Q * Q)) (p x ref : list Q).
Definition ftol : Q := 1 # 1000000.
Definition feas (bnd : list (Q * Q)) (eqs ineqs : list (list Q * Q)) (x : list Q) : bool :=
  Nat.eqb (List.length x) (List.length bnd) &&
  forallb (fun '(lh, v) => Qle_bool (fst lh - ftol) v && Qle_bool v (snd lh + ftol)) (combine bnd x) &&
  forallb (fun '(w, k) => Qle_bool (Qabs (dot w x - k)) (ftol * (1 + Qabs k))) eqs &&
  forallb (fun '(w, k) => Qle_bool (- (ftol * (1 + Qabs k))) (dot w x - k)) ineqs.
Definition d2 (p x : list Q) : Q := dot (vsub p x) (vsub p x).
Definition chk (c : kase) : bool :=
  match c with
  | KRegion r mi ok p proj isin =>
      if ok then
        if rctor_ok r then eqtag (Qclose_list Qtol) (rproject tolQ mi r p) proj && eqtag Bool.eqb (ris_in tolQ mi r p) isin else false
      else negb (rctor_ok r)
  | KDyk a b mi p res => eqtag (Qclose_list Qtol) (rdykstra tolQ mi a b p) res
  | KList rs ax m res isin =>
      eqtag (Qclose_mat Qtol) (list_project (rproject tolQ 1000) rs ax m) res &&
      eqtag Bool.eqb (list_is_in tolQ (rproject tolQ 1000) rs ax m) isin
  | KTree t s res => eqtag (Qclose_mat Qtol) (dev_project_flat t s) res
  | KProj bnd eqs ineqs p x ref =>
      feas bnd eqs ineqs x && feas bnd eqs ineqs ref &&
      Qle_bool (d2 p x) (d2 p ref + (1 # 100000) * (1 + d2 p ref))
  end.
'''
RULE = ('cases: (1) region x point: HyperCube / HalfSpace / Slice / Intersection (both shortcut branches and Dykstra), dimension 1..6, '
        'zero-width sides none/some/all, point inside / on the boundary / outside / within and just beyond the 1e-10 membership '
        'tolerance / of the wrong length, constructor guards (sign 0, low>high, empty cube, mismatched lengths); project and is_in '
        'observed; (2) dykstra_project called directly with the default and lowered maxiter (convergent, finite, empty '
        'intersections); (3) List of regions over rows and over columns incl. wrong shapes; (4) Device / DeviceSet (nested) / '
        'MFDeviceSet.project on flat, shaped, wrongly sized, in-bounds and out-of-bounds flows; (5) utils.project (SLSQP, an '
        'oracle) on leaves and trees with cumulative / aggregate constraints: the returned point and an independent active-set '
        'reference are checked feasible and equally near inside Coq. Compared in Coq: outcome tags exactly, values to 1e-9. '
        'Non-trivial: the point is moved by the projection, or an exception/False membership is the expected outcome.')
EXPLANATION = ('Theorems (Props/C18.v) prove, for lists of every length over R, membership / nearestness / idempotence / is_in for '
               'box, half-space, slab, lists of regions, both Intersection shortcuts, the Dykstra loop post-condition, and the device '
               'level projections; the correspondence ties Model/Projection.v to projection.py, device.py, deviceset.py, '
               'mfdeviceset.py. PARTIAL: nearestness of the point returned by an early-stopped Dykstra loop and everything about '
               'utils.project (SLSQP convergence and failure reporting) are runtime behaviour the model cannot exhibit; they are '
               'explored against an independent active-set QP.')
ASSUMPTIONS = ['HalfSpace normals are non-zero (a zero normal yields NaN silently; outside the generators)',
               'utils.project / Dykstra nearestness: explored with an independent reference, not proved']
TRUSTED_EXTRA = ['c18_common.py: active-set QP reference, cross-checked with scipy.optimize.nnls (LDP); scipy.optimize.linprog (HiGHS) for a feasible start']
INT_DTYPE_CASES = True      # List.project on integer arrays (truncation fixed in /repo 28399a2)


# ---------------------------------------------------------------------------------------------------
# region specs
# ---------------------------------------------------------------------------------------------------
def mk_region(r, maxiter=None, shared=None):
  """Build the region.  The FORM of the normal vectors is decided by the content of the whole region: Python lists, or float
  ndarrays with ONE array object per distinct normal (a Slice, and two half spaces of an Intersection with the same normal, receive
  the same object - a constructor must not modify what the caller passed)."""
  from device_kit import projection as pj
  k = r[0]
  if shared is None:
    shared = {} if int(core.case_hash({'r': repr(r)}), 16) % 2 else False

  def normal(v):
    if shared is False:
      return fl(v)
    return shared.setdefault(tuple(v), np.array(fl(v), dtype=float))
  if k == 'box':
    return pj.HyperCube(np.array(fl([list(b) for b in r[1]])).reshape(-1, 2) if r[1] else [])
  if k == 'half':
    return pj.HalfSpace(normal(r[1]), float(r[2]), float(r[3]))
  if k == 'slice':
    return pj.Slice(normal(r[1]), float(r[2]), float(r[3]))
  if k == 'inter':
    i = pj.Intersection(mk_region(r[1], maxiter, shared), mk_region(r[2], maxiter, shared))
    if maxiter is not None:
      i._maxiter = maxiter
    return i
  raise AssertionError(k)


def coq_region(r):
  k = r[0]
  if k == 'box':
    return C('RBox', [tuple(b) for b in r[1]])
  if k == 'half':
    return C('RHalf', list(r[1]), r[2], r[3])
  if k == 'slice':
    return C('RSlice', list(r[1]), r[2], r[3])
  return C('RInter', coq_region(r[1]), coq_region(r[2]))


def rdim(r):
  return len(r[1]) if r[0] != 'inter' else rdim(r[1])


def rkind(r):
  return r[0] if r[0] != 'inter' else 'inter(%s,%s)' % (rkind(r[1]), rkind(r[2]))


def region_rows(r):
  """G x >= h description of the region (floats)."""
  k = r[0]
  n = rdim(r)
  if k == 'box':
    return np.vstack([np.eye(n), -np.eye(n)]), np.array([float(b[0]) for b in r[1]] + [-float(b[1]) for b in r[1]])
  if k == 'half':
    sg = 1.0 if r[3] > 0 else -1.0
    return sg * np.array(fl(r[1])).reshape(1, n), np.array([sg * float(r[2])])
  if k == 'slice':
    w = np.array(fl(r[1])).reshape(1, n)
    return np.vstack([w, -w]), np.array([float(r[2]), -float(r[3])])
  a, b = region_rows(r[1]), region_rows(r[2])
  return np.vstack([a[0], b[0]]), np.concatenate([a[1], b[1]])


def region_nearest(r, p):
  """independent reference: nearest point of the region, None when it is empty"""
  G, h = region_rows(r)
  n = G.shape[1]
  big = 1e6
  desc = (-big * np.ones(n), big * np.ones(n), np.zeros((0, n)), np.zeros(0), G, h, True)
  x0 = cc.feasible_point(desc)
  if x0 is None:
    return None
  x = cc.qp_nearest(np.array(fl(p)), G, h, x0)
  if x is None:
    x = cc.ldp_nearest(np.array(fl(p)), G, h)
  return x


def gen_box(rng, n, zw=None):
  zw = zw if zw is not None else pick(rng, [None, None, 'some', 'all'])
  out = []
  for _ in range(n):
    lo = dy(rng, -3, 3, 2)
    w = F(0) if zw == 'all' or (zw == 'some' and rng.random() < .4) else dy(rng, F(1, 4), 3, 2)
    out.append((lo, lo + w))
  return ['box', out]


def gen_normal(rng, n, friendly=False):
  while True:
    if friendly:
      v = [F(pick(rng, [0, 0, 1, -1])) for _ in range(n)]
      if sum(abs(x) for x in v) not in (1, 2, 4):
        continue
    else:
      v = [dy(rng, -3, 3, 1) for _ in range(n)]
    if any(v):
      return v


def gen_vec_region(rng, n, kinds=('box', 'half', 'slice'), friendly=False):
  k = pick(rng, list(kinds))
  if k == 'box':
    return gen_box(rng, n)
  nv = gen_normal(rng, n, friendly)
  if k == 'half':
    return ['half', nv, dy(rng, -4, 4, 2), F(pick(rng, [1, -1, 2, F(-1, 2)]))]
  lo = dy(rng, -4, 3, 2)
  return ['slice', nv, lo, lo + pick(rng, [F(0), F(1, 2), F(1), F(3)])]


def dotF(a, b):
  return sum(x * y for x, y in zip(a, b))


def gen_point(rng, r, kind):
  """a point of the requested kind relative to a non-intersection region (best effort for intersections)"""
  n = rdim(r)
  p = [dy(rng, -5, 5, 3) for _ in range(n)]
  if kind == 'random' or r[0] == 'inter':
    return p
  if r[0] == 'box':
    out = []
    for (lo, hi) in r[1]:
      if kind == 'inside':
        out.append(dy(rng, lo, hi, 4))
      elif kind == 'on':
        out.append(pick(rng, [lo, hi, dy(rng, lo, hi, 4)]))
      elif kind == 'near-in':
        out.append(pick(rng, [lo - F(1, 2 ** 35), hi + F(1, 2 ** 35), lo, hi]))
      elif kind == 'near-out':
        out.append(pick(rng, [lo - F(1, 2 ** 31), hi + F(1, 2 ** 31)]))
      else:
        out.append(pick(rng, [lo - dy(rng, F(1, 8), 3, 3), hi + dy(rng, F(1, 8), 3, 3), dy(rng, lo, hi, 3)]))
    if kind == 'on':
      j = rng.randrange(n)
      out[j] = pick(rng, list(r[1][j]))
    return out
  nv = r[1]
  nn = dotF(nv, nv)
  mx = max(abs(x) for x in nv)
  if r[0] == 'half':
    edges = [(r[2], 1 if r[3] > 0 else -1)]
  else:
    edges = [(r[2], 1), (r[3], -1)]
  off, sg = pick(rng, edges)
  # move p along a coordinate with a non-zero normal entry so that <n,p> = target exactly (dyadic arithmetic)
  js = [i for i, x in enumerate(nv) if abs(x) in (F(1, 2), F(1), F(2))]
  if not js:       # dividing by the normal entry would leave the dyadics: fall back to a random point
    return p
  j = js[0]

  def hit(target):
    q = list(p)
    rest = dotF(nv, q) - nv[j] * q[j]
    q[j] = (target - rest) / nv[j]
    return q
  if kind == 'on':
    return hit(off)
  if kind == 'inside':
    if r[0] == 'slice':
      return hit(r[2] + (r[3] - r[2]) * pick(rng, [F(1, 4), F(1, 2), F(3, 4)]))
    return hit(off + sg * dy(rng, F(1, 8), 3, 3))
  if kind in ('near-in', 'near-out'):
    lo_, hi_ = (F(2, 10 ** 11), F(5, 10 ** 11)) if kind == 'near-in' else (F(2, 10 ** 10), F(8, 10 ** 10))
    for k in range(20, 45):
      d = F(1, 2 ** k)
      if lo_ <= d * mx / nn <= hi_:
        return hit(off - sg * d)
    return p
  return hit(off - sg * dy(rng, F(1, 8), 4, 3))


def leaf_regions(reg):
  from device_kit import projection as pj
  if isinstance(reg, pj.Intersection):
    return leaf_regions(reg._a) + leaf_regions(reg._b)
  if isinstance(reg, pj.Slice):
    return [reg._low, reg._high]
  return [reg]


def impl_cost(r, p, maxiter, direct):
  """number of elementary projections the implementation performs on this input with this maxiter: a proxy for the cost of
  evaluating the exact-rational model (whose numbers grow with every projection)"""
  reg = mk_region(r, maxiter)
  cnt = [0]
  for leaf in leaf_regions(reg):
    def counting(x, orig=leaf.project):
      cnt[0] += 1
      return orig(x)
    leaf.project = counting
  try:
    (reg.dykstra_project if direct else reg.project)(np.array(fl(p)))
  except Exception:
    pass
  return cnt[0]


def choose_maxiter(rng, a, b, p, friendly, direct):
  """The default 1000 is used only on dyadic-friendly data (normals with entries in {0,+-1} and |n|^2 a power of two, boxes):
  there the exact rationals of the model stay small however long the loop runs. Otherwise maxiter is small, so that the
  cost of evaluating the model is bounded whatever the implementation does (the raise path is part of the comparison).
  The count of elementary projections the implementation makes only ever lowers the choice."""
  nested = a[0] == 'inter'
  if friendly:
    cands, budget = ([30, 12, 5, 2, 1] if nested else [pick(rng, [1000, 1000, 1000, 30, 12]), 60, 12, 5, 2, 1]), 500
  else:
    cands, budget = [pick(rng, [6, 4, 3]), 2, 1], 60
  r = ['inter', a, b]
  for mi in cands:
    if impl_cost(r, p, mi, direct) <= budget:
      return mi
  return 1


# ---------------------------------------------------------------------------------------------------
# generation
# ---------------------------------------------------------------------------------------------------
POINT_KINDS = ['inside', 'on', 'outside', 'outside', 'near-in', 'near-out', 'random']
UPROJ_CLASSES = ['Device', 'PVDevice', 'CDevice', 'CDevice2', 'IDevice', 'IDevice2', 'GDevice']


def gen_tree_case(rng, i):
  depth = pick(rng, [0, 0, 1, 1, 2, 2, 3])
  T = tg.gen_tree(rng, depth, lengths=[1, 2, 3, 4, 5, 6])
  n = tg.length(T)
  kind = pick(rng, ['in', 'in', 'out', 'out', 'mixed', 'on'])
  s = []
  for row in cc.row_bounds(T):
    for lo, hi in row:
      if kind == 'in':
        s.append(dy(rng, lo, hi, 4))
      elif kind == 'on':
        s.append(pick(rng, [lo, hi]))
      elif kind == 'out':
        s.append(pick(rng, [lo - dy(rng, F(1, 8), 2, 3), hi + dy(rng, F(1, 8), 2, 3)]))
      else:
        s.append(pick(rng, [lo - F(1, 2), hi + F(1, 4), dy(rng, lo, hi, 4), lo, hi]))
  rows = tg.rows(T)
  shape = pick(rng, ['flat', 'shaped', 'shaped', 'transposed' if rows > 1 and n > 1 else 'flat'])
  if rng.random() < 0.08:
    shape = 'flat'
    s = s + [F(0)] if rng.random() < .5 or len(s) == 1 else s[:-1]
  return {'kind': 'tree', 't': T, 's': s, 'shape': shape, 'fill': kind}


def gen_uproj_case(rng, i):
  """a case the SLSQP helper can be judged on (non-empty feasible set, affine and independent active constraints); for the
  equality-surplus third also one whose pushed point exists - retried instead of left to the draw"""
  c = None
  for _ in range(16):
    c = gen_uproj_case_once(rng, i)
    try:
      dev = tg.build_tree(c['t'])
      desc = cc.linear_description(dev)
      p = uproj_point(c, desc)
      ref = cc.nearest(p, desc)
      if ref is None or not desc[6] or cc.degenerate(desc) or cc.licq_fails(ref, desc):
        continue
      if c.get('eqpush') and [float(v) for v in p] == [float(v) for v in c['p']]:
        continue
      return c
    except Exception:
      continue
  return c


def gen_uproj_case_once(rng, i):
  depth = pick(rng, [0, 0, 1, 1, 2])
  T = tg.gen_tree(rng, depth, lengths=[1, 2, 3, 4], classes=UPROJ_CLASSES, mf_classes=UPROJ_CLASSES, fanout=3)
  if i % 3 == 1:   # a set whose aggregate is pinned in some or all slots (equality constraints), few adaptors, no label balancing
    T = tg.gen_tree(rng, pick(rng, [1, 1, 2]), lengths=[1, 2, 3, 4], classes=UPROJ_CLASSES, mf_classes=UPROJ_CLASSES, fanout=3,
                    sbounds=pick(rng, ['eq', 'mixed']), p_subbal=0.0, p_adaptor=0.1)
  flat = [v for row in tg.gen_matrix(rng, T) for v in row]
  p = [v + pick(rng, [F(0), dy(rng, -3, 3, 3), dy(rng, -1, 1, 3)]) for v in flat]
  # a third of the cases: the point is derived (in observe) from a feasible flow pushed INSIDE the box along the equality rows, so that
  # every inequality holds and every equality has a surplus >= 0 (one-sided violation: a feasibility test that reads '== 0' as '>= 0'
  # takes such a point for feasible)
  return {'kind': 'uproj', 't': T, 'p': p, 'eqpush': i % 3 == 1}


def gen_cases(rng, tier):
  k = {'quick': 1, 'thorough': 16, 'search': 1}[tier]
  out = []
  # (1) plain regions
  for i in range(150 * k):
    n = 1 + i % 6
    r = gen_vec_region(rng, n)
    kind = POINT_KINDS[i % len(POINT_KINDS)]
    p = gen_point(rng, r, kind)
    if rng.random() < 0.04:
      p = p + [F(1)]
      kind = 'wrong-length'
    out.append({'kind': 'region', 'r': r, 'maxiter': 1000, 'p': p, 'pk': kind})
  # constructor guards
  for i in range(8 * k):
    n = 1 + rng.randrange(4)
    bad = pick(rng, [['half', gen_normal(rng, n), F(1), F(0)], ['slice', gen_normal(rng, n), F(2), F(1)], ['box', []],
                     ['inter', gen_box(rng, n), ['half', gen_normal(rng, n + 1), F(0), F(1)]],
                     ['inter', gen_box(rng, n), ['slice', gen_normal(rng, n), F(1), F(1, 2)]]])
    out.append({'kind': 'region', 'r': bad, 'maxiter': 1000, 'p': [F(0)] * n, 'pk': 'ctor'})
  # (2) intersections through project() and dykstra_project() directly
  for i in range(90 * k):
    n = 1 + rng.randrange(6)
    friendly = rng.random() < 0.5
    a = gen_vec_region(rng, n, friendly=friendly)
    b = gen_vec_region(rng, n, friendly=friendly)
    if friendly and rng.random() < 0.3:   # nested intersections: dyadic data only (exact rationals of the model stay small)
      a = ['inter', a, gen_vec_region(rng, n, friendly=True)]
    if rng.random() < 0.2:   # far apart boxes / slabs: empty intersections, Dykstra cannot converge
      a, b = gen_box(rng, n), gen_box(rng, n)
    p = [dy(rng, -6, 6, 2) for _ in range(n)]
    direct = i % 3 == 0
    mi = choose_maxiter(rng, a, b, p, friendly, direct)
    if direct:
      out.append({'kind': 'dyk', 'a': a, 'b': b, 'maxiter': mi, 'p': p})
    else:
      out.append({'kind': 'region', 'r': ['inter', a, b], 'maxiter': mi, 'p': p, 'pk': 'random'})
  # (2b) stratified: intersections on which the FIRST shortcut fails and the SECOND applies (P_a(p) outside b, P_b(p) inside a),
  # and such that projecting P_a(p) onto b would also land in a (so that a wrong argument in the second branch is visible)
  def ref_proj(r, x):
    if r[0] == 'box':
      return [min(max(v, lo), hi) for v, (lo, hi) in zip(x, r[1])]
    nv = r[1]
    nn = dotF(nv, nv)
    if r[0] == 'half':
      d = dotF(nv, x)
      if (r[3] > 0 and d < r[2]) or (r[3] < 0 and d > r[2]):
        return [v + a * (r[2] - d) / nn for v, a in zip(x, nv)]
      return list(x)
    d = dotF(nv, x)
    t = r[2] if d < r[2] else (r[3] if d > r[3] else d)
    return [v + a * (t - d) / nn for v, a in zip(x, nv)]

  def ref_in(r, x):
    return ref_proj(r, x) == list(x)
  got, tries = 0, 0
  while got < 12 * k and tries < 4000:
    tries += 1
    n = 2 + rng.randrange(2)
    a = gen_box(rng, n, zw=None) if rng.random() < 0.6 else gen_vec_region(rng, n, kinds=('slice', 'half'), friendly=True)
    b = gen_vec_region(rng, n, kinds=('half', 'slice'), friendly=True)
    p = [dy(rng, -6, 6, 2) for _ in range(n)]
    pa = ref_proj(a, p)
    if ref_in(b, pa):
      continue
    pb = ref_proj(b, p)
    if not ref_in(a, pb):
      continue
    pba = ref_proj(b, pa)
    if not ref_in(a, pba) or pba == pb:
      continue
    out.append({'kind': 'region', 'r': ['inter', a, b], 'maxiter': 50, 'p': p, 'pk': 'second-shortcut'})
    got += 1
  # (3) lists of regions
  for i in range(40 * k):
    l = 1 + rng.randrange(5)
    r = 1 + rng.randrange(4)
    if i % 8 in (1, 6):
      l = r = 2 + (i // 8) % 3      # SQUARE point matrices (as many sub regions as dimensions) for both axes: the layout is the axis', not the shape's
    rs = [gen_vec_region(rng, l) for _ in range(r)]
    axis = i % 2
    shape = (r, l) if axis == 0 else (l, r)
    if rng.random() < 0.1:
      shape = (shape[0] + 1, shape[1]) if rng.random() < .5 else (shape[1] + 1, shape[0] + 2)
    if rng.random() < 0.06 and r > 1:
      rs[-1] = gen_vec_region(rng, l + 1)
    m = [[dy(rng, -5, 5, 2) for _ in range(shape[1])] for _ in range(shape[0])]
    dtype = 'float'
    if INT_DTYPE_CASES and i % 4 == 3:   # integer-typed input (list of ints / int array)
      m, dtype = [[F(rng.randint(-5, 5)) for _ in r] for r in m], 'int'
    out.append({'kind': 'list', 'rs': rs, 'axis': axis, 'm': m, 'dtype': dtype})
  # (4) device level
  for i in range(90 * k):
    out.append(gen_tree_case(rng, i))
  # (5) SLSQP helper
  for i in range(40 * k):
    out.append(gen_uproj_case(rng, i))
  return out


# ---------------------------------------------------------------------------------------------------
# observation of the implementation
# ---------------------------------------------------------------------------------------------------
def outcome(f, conv):
  try:
    v = f()
  except ValueError:
    return 'ValueError'
  except Exception as e:
    if type(e) is Exception and 'maxiter' in str(e):
      return 'MaxIter'
    raise
  return ('ok', conv(v))


def vec(v):
  a = np.asarray(v)
  if a.ndim != 1:
    raise AssertionError('expected a vector, got shape %s' % (a.shape,))
  return fr(np.asarray(a, dtype=float))


def mat(v):
  a = np.asarray(v)
  if a.ndim != 2:
    raise AssertionError('expected a matrix, got shape %s' % (a.shape,))
  return [fr(np.asarray(r, dtype=float)) for r in a]


def shaped_input(c, dev):
  s = np.array(fl(c['s']))
  rows, n = dev.shape
  if c['shape'] == 'shaped' and s.size == rows * n:
    return s.reshape(rows, n)
  if c['shape'] == 'transposed' and s.size == rows * n:
    return s.reshape(n, rows)      # same elements in the same order, other shape: reshape must restore the device shape
  return s


def observe(c):
  k = c['kind']
  if k == 'region':
    try:
      reg = mk_region(c['r'], c['maxiter'])
    except ValueError:
      return {'ctor': False}
    p = np.array(fl(c['p']))
    return {'ctor': True, 'proj': outcome(lambda: reg.project(p.copy()), vec),
            'isin': outcome(lambda: reg.is_in(p.copy()), lambda b: bool(b))}
  if k == 'dyk':
    reg = mk_region(['inter', c['a'], c['b']], c['maxiter'])
    p = np.array(fl(c['p']))
    return {'res': outcome(lambda: reg.dykstra_project(p.copy()), vec)}
  if k == 'list':
    from device_kit import projection as pj
    reg = pj.List([mk_region(r) for r in c['rs']], c['axis'])
    m = np.array(fl(c['m']), dtype=(int if c.get('dtype') == 'int' else float))
    keep = m.copy()
    o = {'res': outcome(lambda: reg.project(m), mat), 'isin': outcome(lambda: reg.is_in(m), lambda b: bool(b))}
    if not np.array_equal(m, keep):
      raise AssertionError('List.project modified its argument')
    return o
  if k == 'tree':
    dev = tg.build_tree(c['t'])
    s = shaped_input(c, dev)

    def run():
      r = dev.project(s.copy())
      if tuple(r.shape) != tuple(int(v) for v in dev.shape):
        raise AssertionError('result shape %s is not the device shape %s' % (r.shape, dev.shape))
      return r
    return {'res': outcome(run, mat)}
  if k == 'uproj':
    from device_kit.utils import project
    dev = tg.build_tree(c['t'])
    desc = cc.linear_description(dev)
    p = uproj_point(c, desc)
    ref = cc.nearest(p, desc)
    if ref is None or not desc[6] or cc.degenerate(desc) or cc.licq_fails(ref, desc):
      return {'skip': 'empty feasible set' if ref is None else 'non-affine constraint' if not desc[6] else 'dependent active constraints', 'status': -1}
    x0 = cc.feasible_point(desc)       # step() starts utils.project at a feasible flow
    x, o = project(p.reshape(dev.shape), x0.copy(), dev.bounds, dev.constraints)
    if tuple(x.shape) != tuple(x0.shape):
      raise AssertionError('utils.project result shape %s, start shape %s' % (x.shape, x0.shape))
    return {'success': bool(o.success), 'status': int(getattr(o, 'status', -2)), 'x': fr(x.reshape(-1)), 'ref': fr(ref), 'desc': desc, 'p': fr(p)}
  raise AssertionError(k)


def uproj_point(c, desc):
  """The point handed to utils.project: the generated one, or (eqpush) a feasible flow pushed inside the box along the equality rows
  until every equality has a surplus >= 0 and at least one a surplus > 0, all inequalities still holding."""
  p = np.array(fl(c['p']))
  if c.get('eqpush') and len(desc[3]):
    lo_, hi_, Aeq_, beq_, G_, h_, _ = desc
    x0_ = cc.feasible_point(desc)
    if x0_ is not None:
      d_ = Aeq_.sum(axis=0)
      for t_ in (0.5, 0.25, 0.125, 0.03125):
        q_ = np.clip(np.round(np.clip(x0_ + t_ * d_, lo_, hi_) * 4096) / 4096, lo_, hi_)   # dyadic where the bounds are
        r_ = Aeq_.dot(q_) - beq_
        if (len(h_) == 0 or (G_.dot(q_) - h_ >= 1e-9).all()) and (r_ >= -1e-12).all() and (r_ > 1e-6).any():
          return q_
  return p


def coq_pres(o, conv=lambda v: cq(v)):
  if o == 'ValueError':
    return Raw('PValueError')
  if o == 'MaxIter':
    return Raw('PMaxIter')
  return Raw('(POk %s)' % conv(o[1]))


def coq_case(c, o):
  k = c['kind']
  if k == 'region':
    if not o['ctor']:
      return '(KRegion %s %s false %s PValueError PValueError)' % (cq(coq_region(c['r'])), cq(N(c['maxiter'])), cq(c['p']))
    return '(KRegion %s %s true %s %s %s)' % (cq(coq_region(c['r'])), cq(N(c['maxiter'])), cq(c['p']), coq_pres(o['proj']), coq_pres(o['isin']))
  if k == 'dyk':
    return '(KDyk %s %s %s %s %s)' % (cq(coq_region(c['a'])), cq(coq_region(c['b'])), cq(N(c['maxiter'])), cq(c['p']), coq_pres(o['res']))
  if k == 'list':
    return '(KList %s %s %s %s %s)' % (cq([coq_region(r) for r in c['rs']]), cq(bool(c['axis'])), cq(c['m']), coq_pres(o['res']), coq_pres(o['isin']))
  if k == 'tree':
    return '(KTree %s %s %s)' % (cq(tg.coq_tree(c['t'])), cq(c['s']), coq_pres(o['res']))
  if k == 'uproj':
    if 'skip' in o or not o['success']:
      # nothing to compare inside Coq (generators only build affine constraints; a failed solve is reported by the oracle)
      return '(KProj [] [] [] [] [] [])'
    lo, hi, Aeq, beq, G, h, lin = o['desc']
    bnd = [(fr(float(a)), fr(float(b))) for a, b in zip(lo, hi)]
    eqs = [(fr(np.array(w)), fr(float(v))) for w, v in zip(Aeq, beq)]
    ins = [(fr(np.array(w)), fr(float(v))) for w, v in zip(G, h)]
    return '(KProj %s %s %s %s %s %s)' % (cq(bnd), cq(eqs), cq(ins), cq(o.get('p', c['p'])), cq(o['x']), cq(o['ref']))
  raise AssertionError(k)


def nontrivial(c, o):
  k = c['kind']
  if k == 'region':
    if not o['ctor'] or o['proj'] != ('ok', list(c['p'])):
      return True
    return o['isin'] != ('ok', True)
  if k == 'dyk':
    return True
  if k == 'list':
    return o['res'] != ('ok', [list(r) for r in c['m']])
  if k == 'tree':
    return o['res'] == 'ValueError' or [v for r in o['res'][1] for v in r] != list(c['s'])
  if k == 'uproj':
    return 'skip' not in o and o['success'] and o['x'] != list(o.get('p', c['p']))
  return False


def tagof(o):
  return o if isinstance(o, str) else 'ok'


def classify(c, o):
  k = c['kind']
  ks = ['kind:' + k]
  if k == 'region':
    ks += ['region:' + rkind(c['r']), 'dim:%d' % rdim(c['r']), 'point:' + c.get('pk', '?')]
    if o['ctor']:
      ks += ['project:' + tagof(o['proj']), 'is_in:' + (tagof(o['isin']) if isinstance(o['isin'], str) else str(o['isin'][1]))]
      if c['r'][0] == 'box' and any(a == b for a, b in c['r'][1]):
        ks.append('zero-width-side')
      if c['r'][0] == 'inter':
        ks.append('maxiter:%s' % ('default' if c['maxiter'] == 1000 else 'lowered'))
    else:
      ks.append('ctor:ValueError')
  elif k == 'dyk':
    ks += ['dykstra:' + tagof(o['res']), 'maxiter:%s' % ('default' if c['maxiter'] == 1000 else 'lowered'), 'dim:%d' % rdim(c['a'])]
    if o['res'] != 'MaxIter' and not isinstance(o['res'], str):
      ref = region_nearest(['inter', c['a'], c['b']], c['p'])
      if ref is not None:
        dev = float(np.abs(np.array(fl(o['res'][1])) - ref).max())
        ks.append('dykstra-vs-QP:' + ('<=1e-9' if dev <= 1e-9 else '<=1e-7' if dev <= 1e-7 else '<=1e-5' if dev <= 1e-5 else '>1e-5'))
  elif k == 'list':
    ks += ['axis:%d' % c['axis'], 'list:' + tagof(o['res']), 'list-dtype:' + c.get('dtype', 'float')]
  elif k == 'tree':
    ks += ['tree-depth:%d' % tg.depth(c['t']), 'input:' + c['shape'], 'fill:' + c['fill'], 'tree:' + tagof(o['res'])]
    ks += ['has:' + x for x in tg.kinds(c['t'])]
  elif k == 'uproj':
    ks += ['slsqp-status:%d' % o['status'], 'tree-depth:%d' % tg.depth(c['t'])] + (['uproj-point:equality-surplus'] if c.get('eqpush') and 'p' in o and o['p'] != list(c['p']) else []) + (['uproj-skipped:' + o['skip']] if 'skip' in o else [])
  return ks


# ---------------------------------------------------------------------------------------------------
# json
# ---------------------------------------------------------------------------------------------------
def region_to_json(r):
  if r[0] == 'inter':
    return ['inter', region_to_json(r[1]), region_to_json(r[2])]
  return core.jsonable(list(r))


def region_from_json(j):
  if j[0] == 'inter':
    return ['inter', region_from_json(j[1]), region_from_json(j[2])]
  if j[0] == 'box':
    return ['box', [(F(a), F(b)) for a, b in j[1]]]
  return [j[0], [F(v) for v in j[1]], F(j[2]), F(j[3])]


def case_to_json(c):
  k = c['kind']
  d = {'kind': k}
  if k == 'region':
    d.update({'r': region_to_json(c['r']), 'maxiter': c['maxiter'], 'p': core.jsonable(c['p']), 'pk': c.get('pk')})
  elif k == 'dyk':
    d.update({'a': region_to_json(c['a']), 'b': region_to_json(c['b']), 'maxiter': c['maxiter'], 'p': core.jsonable(c['p'])})
  elif k == 'list':
    d.update({'rs': [region_to_json(r) for r in c['rs']], 'axis': c['axis'], 'm': core.jsonable(c['m']), 'dtype': c.get('dtype', 'float')})
  elif k == 'tree':
    d.update({'t': tg.tree_to_json(c['t']), 's': core.jsonable(c['s']), 'shape': c['shape'], 'fill': c['fill']})
  elif k == 'uproj':
    d.update({'t': tg.tree_to_json(c['t']), 'p': core.jsonable(c['p']), 'eqpush': bool(c.get('eqpush'))})
  return d


def case_from_json(j):
  k = j['kind']
  fv = lambda l: [F(v) for v in l]
  if k == 'region':
    return {'kind': k, 'r': region_from_json(j['r']), 'maxiter': int(j['maxiter']), 'p': fv(j['p']), 'pk': j.get('pk')}
  if k == 'dyk':
    return {'kind': k, 'a': region_from_json(j['a']), 'b': region_from_json(j['b']), 'maxiter': int(j['maxiter']), 'p': fv(j['p'])}
  if k == 'list':
    return {'kind': k, 'rs': [region_from_json(r) for r in j['rs']], 'axis': int(j['axis']), 'm': [fv(r) for r in j['m']], 'dtype': j.get('dtype', 'float')}
  if k == 'tree':
    return {'kind': k, 't': tg.tree_from_json(j['t']), 's': fv(j['s']), 'shape': j['shape'], 'fill': j.get('fill', '?')}
  if k == 'uproj':
    return {'kind': k, 't': tg.tree_from_json(j['t']), 'p': fv(j['p']), 'eqpush': bool(j.get('eqpush'))}
  raise AssertionError(k)


# ---------------------------------------------------------------------------------------------------
# direct oracle on the implementation (no Coq model involved)
# ---------------------------------------------------------------------------------------------------
def ctor_should_fail(r):
  k = r[0]
  if k == 'box':
    return len(r[1]) == 0
  if k == 'half':
    return r[3] == 0
  if k == 'slice':
    return r[2] > r[3]
  return ctor_should_fail(r[1]) or ctor_should_fail(r[2]) or rdim(r[1]) != rdim(r[2])


def check_point(r, p, x, what, near_tol=1e-6):
  """x must be the nearest point of region r to p"""
  G, h = region_rows(r)
  x = np.array(fl(x))
  viol = float((h - G.dot(x)).max())
  if viol > 1e-8:
    return '%s returned %s which violates the region by %.3g' % (what, x.tolist(), viol)
  ref = region_nearest(r, p)
  if ref is None:
    return '%s returned a point although the region is empty' % what
  if np.abs(ref - x).max() > near_tol * (1 + np.abs(ref).max()):
    pp = np.array(fl(p))
    return '%s returned %s (distance %.9g); the nearest point is %s (distance %.9g)' % (
        what, x.tolist(), np.linalg.norm(pp - x), ref.tolist(), np.linalg.norm(pp - ref))
  return None


def oracle_region(c):
  r, p = c['r'], c['p']
  bad = ctor_should_fail(r)
  try:
    reg = mk_region(r, c['maxiter'])
  except ValueError:
    return None if bad else 'constructor raised ValueError on a well-formed region'
  if bad:
    return 'constructor accepted an ill-formed region (%s)' % rkind(r)
  pp = np.array(fl(p))
  if len(p) != rdim(r):
    for f in (reg.project, reg.is_in):
      try:
        f(pp.copy())
        return 'a point of the wrong length was accepted'
      except ValueError:
        pass
    return None
  G, h = region_rows(r)
  ref = region_nearest(r, p)
  try:
    x = reg.project(pp.copy())
  except Exception as e:
    if type(e) is Exception and r[0] == 'inter':
      return None      # raising is the allowed alternative for the iterative intersection
    return 'project raised %s: %s' % (type(e).__name__, e)
  x = np.asarray(x, dtype=float)
  if x.shape != pp.shape:
    return 'project returned shape %s for a point of shape %s' % (x.shape, pp.shape)
  msg = check_point(r, p, fr(x), 'project')
  if msg:
    return msg
  x2 = np.asarray(reg.project(x.copy()), dtype=float)
  if np.abs(x2 - x).max() > 1e-9:
    return 'not idempotent: project(project(p)) moved by %.3g' % np.abs(x2 - x).max()
  if not reg.is_in(x.copy()):
    return 'is_in(project(p)) is False'
  inside = float((h - G.dot(pp)).max()) <= 0
  far = ref is not None and np.abs(ref - pp).max() > 1e-9
  isin = bool(reg.is_in(pp.copy()))
  if inside and not isin:
    return 'is_in is False for a member'
  if far and isin:
    return 'is_in is True for a point at distance %.3g of the region' % np.abs(ref - pp).max()
  if inside and np.abs(x - pp).max() > 1e-12:
    return 'a member was moved by %.3g' % np.abs(x - pp).max()
  return None


def oracle_dyk(c):
  r = ['inter', c['a'], c['b']]
  reg = mk_region(r, c['maxiter'])
  pp = np.array(fl(c['p']))
  try:
    x = reg.dykstra_project(pp.copy())
  except Exception as e:
    if type(e) is Exception:
      return None
    return 'dykstra_project raised %s: %s' % (type(e).__name__, e)
  return check_point(r, c['p'], fr(np.asarray(x, dtype=float)), 'dykstra_project')


def oracle_list(c):
  from device_kit import projection as pj
  rs = c['rs']
  reg = pj.List([mk_region(r) for r in rs], c['axis'])
  m = np.array(fl(c['m']), dtype=(int if c.get('dtype') == 'int' else float))
  l = rdim(rs[0])
  want_shape = (len(rs), l) if c['axis'] == 0 else (l, len(rs))
  okshape = m.shape == want_shape and all(rdim(r) == l for r in rs)
  try:
    x = reg.project(m.copy())
  except ValueError:
    return None if not okshape else 'project raised ValueError on a matrix of the right shape'
  if not okshape:
    return 'a matrix of the wrong shape was accepted'
  x = np.asarray(x, dtype=float)
  for i, r in enumerate(rs):
    row = x[i, :] if c['axis'] == 0 else x[:, i]
    src = m[i, :] if c['axis'] == 0 else m[:, i]
    msg = check_point(r, fr(np.asarray(src, dtype=float)), fr(row), 'List.project (region %d)' % i)
    if msg:
      return msg
  return None


def oracle_tree(c):
  dev = tg.build_tree(c['t'])
  rows, n = (int(v) for v in dev.shape)
  s = shaped_input(c, dev)
  try:
    r = dev.project(s.copy())
  except ValueError:
    return None if s.size != rows * n else 'project raised ValueError on an input with the right number of elements'
  except Exception as e:
    return 'project raised %s: %s' % (type(e).__name__, e)
  if s.size != rows * n:
    return 'an input with %d elements was accepted by a device of shape %s' % (s.size, dev.shape)
  if tuple(r.shape) != (rows, n):
    return 'result shape %s, device shape %s' % (r.shape, dev.shape)
  b = np.array(fl([[list(x) for x in row] for row in cc.row_bounds(c['t'])]))     # the harness's own reading of the bounds
  if (r < b[:, :, 0] - 1e-12).any() or (r > b[:, :, 1] + 1e-12).any():
    return 'projected flow leaves the per-slot bounds by %.3g' % max((b[:, :, 0] - r).max(), (r - b[:, :, 1]).max())
  S = s.reshape(rows, n)
  # per unit: a plain leaf is clipped exactly; a multi-flow adaptor keeps the slot totals of in-bounds input
  for off, k, U in tg.units(c['t']):
    blk, src = r[off:off + k], S[off:off + k]
    lb = np.array(fl([list(x) for x in U['leaf']['bounds']]))
    if U['kind'] == 'leaf':
      if np.abs(blk - np.clip(src, lb[:, 0], lb[:, 1])).max() > 1e-12:
        return 'leaf %s: projection is not the clip to the bounds' % U['id']
      continue
    tot, st = blk.sum(axis=0), src.sum(axis=0)
    if (tot < lb[:, 0] - 1e-9).any() or (tot > lb[:, 1] + 1e-9).any():
      return 'multi-flow adaptor %s: slot totals leave the wrapped bounds' % U['id']
    if (st >= lb[:, 0]).all() and (st <= lb[:, 1]).all() and np.abs(tot - st).max() > 1e-9:
      return 'multi-flow adaptor %s: slot totals of an in-bounds flow changed by %.3g' % (U['id'], np.abs(tot - st).max())
    if np.abs(tot - np.clip(st, lb[:, 0], lb[:, 1])).max() > 1e-9:
      return 'multi-flow adaptor %s: slot totals are not the clipped totals' % U['id']
  return None


def oracle_uproj(c, skip_degenerate=True):
  from device_kit.utils import project
  dev = tg.build_tree(c['t'])
  desc = cc.linear_description(dev)
  p = uproj_point(c, desc)
  ref = cc.nearest(p, desc)
  if ref is None or not desc[6] or (skip_degenerate and (cc.degenerate(desc) or cc.licq_fails(ref, desc))):
    return None      # linearly dependent active constraints: SLSQP's success flag is unreliable there (reported finding)
  x0 = cc.feasible_point(desc)
  x, o = project(p.reshape(dev.shape), x0.copy(), dev.bounds, dev.constraints)
  if tuple(x.shape) != tuple(x0.shape):
    return 'utils.project result shape %s' % (x.shape,)
  if not o.success:
    return None      # the helper reports failure through o; callers decide (see C19)
  res = cc.nonlinear_residual(x, dev)
  if res > 1e-6:
    return 'utils.project reports success but violates the constraints by %.3g' % res
  d, dr = float(((x.reshape(-1) - p) ** 2).sum()), float(((ref - p) ** 2).sum())
  if d > dr + 1e-5 * (1 + dr):
    return 'utils.project returned a point at squared distance %.9g; the nearest feasible point is at %.9g' % (d, dr)
  return None


def oracle(c):
  try:
    return {'region': oracle_region, 'dyk': oracle_dyk, 'list': oracle_list, 'tree': oracle_tree, 'uproj': oracle_uproj}[c['kind']](c)
  except Exception as e:
    return 'implementation raised %s: %s' % (type(e).__name__, str(e)[:200])


SLSQP_FINDING = 'slsqp-false-success-dependent-constraints'


def finding_matches(f, c):
  """the open SLSQP finding: utils.project problems whose active constraints are linearly dependent at the optimum"""
  if f.get('id') != SLSQP_FINDING or c['kind'] != 'uproj':
    return False
  dev = tg.build_tree(c['t'])
  desc = cc.linear_description(dev)
  ref = cc.nearest(np.array(fl(c['p'])), desc)
  return ref is not None and desc[6] and (cc.degenerate(desc) or cc.licq_fails(ref, desc))


def witness_fails(f):
  """replay the stored witness with the un-filtered oracle (the filter is what keeps the finding's region out of the run)"""
  w = f.get('witness')
  if not w:
    return True
  w = w.get('C18', w) if isinstance(w, dict) and 'kind' not in w else w
  c = case_from_json(w)
  if c['kind'] == 'uproj':
    return oracle_uproj(c, skip_degenerate=False) is not None
  return oracle(c) is not None


def search(rng, budget, seeds, findings):
  return core.default_search(__import__('c18'), rng, budget, seeds, findings)
