"""C14 - reported Hessian is the second derivative of cost for atomic devices."""
import numpy as np
from fractions import Fraction as F
import core
from core import cq, fr, fl
import leafgen as lg
import c01

ID = 'C14'
GEN = ['kernels', 'classes', 'functions']
PROPS = 'Props/C14.v'
MODEL_VO = ['Model/Dev.v']
EXTRA_MODEL_VO = ['Proofs/TransEval.v']
CASE_TYPE = 'leafdev Q * list Q * list Q * Q * list (list Q) * bool'
CHECKER = 'chk'
COQ_PRELUDE = '''From Coq Require Import ZArith QArith List Bool.
From DK Require Import Num NumQ Vec.
From DK.Model Require Import Leaf Fn Dev.
Import ListNotations.
Local Open Scope Q_scope.
Definition Qloose : Q := 1 # 20000.   (* 5e-5: Hessians the code obtains by numerical differentiation *)
(* diagonal-only comparison for the thermal device (documented diagonal approximation) *)
Fixpoint diag_of (k : nat) (m : list (list Q)) : list Q :=
  match m with nil => nil | r :: m' => nth k r 0 :: diag_of (S k) m' end.
Definition chk (c : leafdev Q * list Q * list Q * Q * list (list Q) * bool) : bool :=
  let '(d, s, p, ic, ih, numeric) := c in
  Qclose Qtol (leaf_cost d s p) ic &&
  match ld_kind d with
  | KT _ => Qclose_list Qloose (diag_of 0 (leaf_hess d s)) (diag_of 0 ih) && Nat.eqb (length ih) (ld_n d)
            && forallb (fun r => Nat.eqb (length r) (ld_n d)) ih
  | _ => Qclose_mat (if numeric then Qloose else Qtol) (leaf_hess d s) ih
  end.
'''
RULE = ('cases = (atomic device config incl. ADevice x function AST, in-bounds flow kept >= 2^-4 away from every kink of the second '
        'derivative (zero flow of lossy storage/thermal, state of charge at the damage depth, demand argmax ties), price); observables '
        'cost and hess only; full matrix compared in Coq (tol 1e-9; 5e-5 for SDevice/TDevice whose Hessian the code differentiates '
        'numerically; TDevice diagonal only). Non-trivial: Hessian is not identically zero; distinct by hash.')
EXPLANATION = ('Props/C14.v: for every n the model Hessian is the Jacobian of the model marginal cost (itself the gradient by C01) for all '
               'closed-form classes, the thermal diagonal, storage with all three cost terms, and every composition of the function AST; '
               'symmetry/PSD lemmas. InformationEntropy, TemporalVariance and CobbDouglas (numerical Hessians in the source): closed-form '
               'Hessians over the reals (Model/Trans.v) proved to be the Jacobians of the closed-form gradients and symmetric; the '
               'implementation is compared with them by interval arithmetic inside Coq (second correspondence).')
TRUSTED_EXTRA = ['second correspondence (InformationEntropy/TemporalVariance/CobbDouglas): the Interval library\'s `interval` tactic '
                 '(reflexive interval arithmetic over Flocq big-integer floats at 90 bits, checked by the kernel through vm_compute); the '
                 'generated case files are evaluated by coqc and discarded; tolerances 1e-9 (cost) and 1e-6 (numdifftools derivatives)']
CLASSES = lg.CLASSES


def hess_kink(L, s):
  """True if the flow is too close to a point where the Hessian jumps."""
  m = F(1, 16)
  if L['cls'] in ('SDevice', 'TDevice'):
    if L['efficiency'] != 1 and any(abs(v) < m for v in s):
      return True
  if L['cls'] == 'SDevice' and L['c3'] != 0:
    e, su = L['efficiency'], L['sustainment']
    soc = L['start'] * L['capacity']
    for r in s:
      soc = su * soc + (r * e if r > 0 else (r / e if r < 0 else 0))
      if abs(soc - L['damage_depth'] * L['capacity']) < F(1, 8):
        return True
  if L['cls'] == 'TDevice':
    return False
  return False


def gen_cases(rng, tier):
  n = {'quick': 300, 'thorough': 6000, 'search': 100}[tier]
  out = []
  i = 0
  while len(out) < n:
    i += 1
    L = lg.gen_leaf(rng, cls=CLASSES[i % len(CLASSES)], n=lg.pick(rng, [1, 2, 3, 4, 5]), variant=i // len(CLASSES))
    if L['cls'] == 'ADevice':
      L['ucons'] = []
      if 'demand' in lg.fn_kinds(L['f']):
        continue
    if L['cls'] == 'IDevice':
      # exponent 1 has an infinite/undefined second derivative where q = 0 (a = 0 at the upper bound): C10's business
      b = L['b']
      L['b'] = [max(v, F(2)) for v in b] if isinstance(b, list) else max(b, F(2))
    s = lg.gen_flow(rng, L, kind='interior')
    if hess_kink(L, s):
      continue
    p, pk = lg.gen_price(rng, L['n'])
    out.append({'leaf': L, 's': s, 'p': p})
  return out


def observe(c):
  d = lg.build(c['leaf'])
  s, p = np.array(fl(c['s'])), np.array(fl(c['p']))
  H = np.array(core.maybe_stale(c, d.hess, s, p), dtype=float)
  n = c['leaf']['n']
  if H.shape != (n, n):
    raise ValueError('hess shape %s' % (H.shape,))
  return {'cost': fr(core.maybe_stale(c, d.cost, s, p)), 'hess': [fr(list(r)) for r in H]}


def coq_case(c, o):
  numeric = c['leaf']['cls'] in ('SDevice', 'TDevice')
  return cq((lg.coq_leafdev(c['leaf']), c['s'], c['p'], o['cost'], o['hess'], numeric))


def nontrivial(c, o):
  return any(v != 0 for r in o['hess'] for v in r)


def classify(c, o):
  return c01.classify(c, o)


case_to_json = c01.case_to_json
case_from_json = c01.case_from_json


def oracle(c, h=2.0 ** -7):
  """Second central differences of the implementation's cost against its hess (symmetry and shape too)."""
  L = c['leaf']
  n = L['n']
  try:
    d = lg.build(L)
    s, p = np.array(fl(c['s'])), np.array(fl(c['p']))
    H = np.array(core.maybe_stale(c, d.hess, s, p), dtype=float)
  except Exception as e:
    return 'implementation raised %s: %s' % (type(e).__name__, e)
  if H.shape != (n, n):
    return 'hess has shape %s, expected (%d,%d)' % (H.shape, n, n)
  if hess_kink(L, c['s']):
    return None
  if not np.allclose(H, H.T, atol=1e-5):
    return 'hess is not symmetric'
  f = lambda x: d.cost(x, p)
  for j in range(n):
    for k in range(n):
      if L['cls'] == 'TDevice' and j != k:
        continue
      ej = np.zeros(n); ej[j] = h
      ek = np.zeros(n); ek[k] = h
      def sd(h):
        ej = np.zeros(n); ej[j] = h
        ek = np.zeros(n); ek[k] = h
        vs = [f(s + ej + ek), f(s + ej - ek), f(s - ej + ek), f(s - ej - ek)]
        return (vs[0] - vs[1] - vs[2] + vs[3]) / (4 * h * h), 8 * np.finfo(float).eps * max(abs(v) for v in vs) / (4 * h * h)
      num, noise = sd(h)
      num2, noise2 = sd(h / 2)
      # the truncation error of the difference quotient (fourth derivatives: large on narrow ranges) is measured by halving the step,
      # the rounding error by the magnitude of the costs: an alarm needs a quotient that is resolved
      tol = 2e-3 * (1 + abs(num)) + 50 * h * h * (1 + abs(num)) + 2 * abs(num - num2) + noise + noise2
      if abs(num - H[j, k]) > tol:
        return 'hess[%d][%d] = %.6g but the second difference of cost is %.6g' % (j, k, H[j, k], num)
  if L['cls'] != 'TDevice':
    ev = np.linalg.eigvalsh((H + H.T) / 2)
    convex = L['cls'] in ('Device', 'PVDevice', 'CDevice', 'CDevice2', 'IDevice2') or \
        (L['cls'] == 'SDevice' and L['c2'] <= L['c1'] and L['efficiency'] == 1)
    if convex and ev.min() < -1e-6 * (1 + abs(ev).max()):
      return 'hess of a convex model is not positive semidefinite (min eigenvalue %.3g)' % ev.min()
  return None


# ---- the three numerically differentiated preference functions: reals-only model, interval-arithmetic correspondence -------------
TVAR_FINDING = 'tvar-hess-probe-hits-zero-total'


def _tvar_probe_raises(L, s):
  d = lg.build(L)
  try:
    d.hess(np.array(fl(s)), 0)
  except ZeroDivisionError:
    return True
  return False


def witness_fails(f):
  if f.get('id') != TVAR_FINDING:
    return True
  w = f['witness']
  L = {'cls': 'ADevice', 'n': len(w['s']), 'id': 'a', 'bounds': [(F(0), F(4))] * len(w['s']), 'cbounds': None, 'cb_kind': 'none',
       'f': ('tvar', F(w['c'])), 'ucons': []}
  return _tvar_probe_raises(L, [F(v) for v in w['s']])


def finding_matches(f, c):
  return False      # the main correspondence never meets the recorded finding; extra_correspondence() handles it case by case


def extra_correspondence(rng, tier):
  import json
  import transeval as te
  n = {'quick': 36, 'thorough': 360}.get(tier, 36)
  name = 'correspondence:C14:transcendental-functions'
  known = any(f.get('id') == TVAR_FINDING for f in core.load_findings(ID))
  cases, props, owner = [], [], []
  dist, skipped_known = {}, 0
  for i in range(n):
    c = te.gen_leaf(rng, i)
    if c['zero_at'] is not None:
      continue          # no second derivative at a zero entry of the entropy
    L = c['leaf']
    d = lg.build(L)
    s, p = np.array(fl(c['s'])), np.array(fl(c['p']))
    try:
      H = np.array(d.hess(s.copy(), p.copy()), dtype=float)
    except ZeroDivisionError:
      if known and c['trans'] == 'tvar':
        skipped_known += 1
        continue
      H = None
    cases.append(c)
    k = len(cases) - 1
    if H is None or H.shape != (L['n'], L['n']) or not np.all(np.isfinite(H)):
      props.append('(0 = 1)')      # raised / wrong shape / non-finite at a twice differentiable point
      owner.append(k)
      continue
    Hm = {'tvar': lambda: '(tvar_hess %s %s)' % (te.rq(L['f'][1]), te.rlist(c['s'])),
          'entropy': lambda: '(entropy_hess %s %s)' % (te.rq(L['f'][1]), te.rlist(c['s'])),
          'cobb': lambda: '(cobb_hess %s %s %s)' % (te.rq(L['f'][2]), te.rlist(L['f'][1]), te.rlist(c['s']))}[c['trans']]()
    for j in range(L['n']):
      for q in range(L['n']):       # numdifftools: 1e-6 relative+absolute
        props.append(te.close_prop('nth %d (nth %d %s []) 0' % (q, j, Hm), fr(H[j, q]), F(1, 10**6)))
        owner.append(k)
    for key in ('fn:' + c['trans'], 'n:%d' % L['n']):
      dist[key] = dist.get(key, 0) + 1
  idx, err, secs = te.run_checks(ID, props, shard=80)
  broken, failing = [], []
  if err:
    broken.append({'kind': 'correspondence-run', 'name': name, 'detail': err})
  bad_cases = sorted({owner[i] for i in idx})
  if bad_cases:
    failing = [cases[k] for k in bad_cases]
    broken.append({'kind': 'correspondence', 'name': name,
                   'detail': '%d of %d cases disagree with the Hessians of Model/Trans.v (interval evaluation); first: %s' % (
                       len(bad_cases), len(cases), json.dumps(case_to_json(cases[bad_cases[0]]))[:500])})
  notes = {'transcendental': {'cases': len(cases), 'propositions': len(props), 'disagreeing': len(bad_cases), 'seconds': round(secs, 1),
                              'skipped_in_known_finding_region': skipped_known, 'distribution': dist,
                              'rule': 'ADevice over InformationEntropy / TemporalVariance / CobbDouglas, n in 1..6, dyadic flows of magnitude '
                                      '1/4..4 without zero entries; every entry of the numerical Hessian within 1e-6 (relative+absolute) of '
                                      'the closed form of Model/Trans.v, each proved in Coq by interval arithmetic'}}
  return [name], broken, failing, notes


def search(rng, budget, seeds, findings):
  return core.default_search(__import__('c14'), rng, budget, seeds, findings)
