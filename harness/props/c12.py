"""C12 - devices are stateless: reads and solves never change behaviour or caller data.

Three ties, all re-run on every check:
  * state inventory (syntactic): the AST of every file of /repo/device_kit is re-scanned for in-place write sites and compared
    with corpus/C12/write_sites.json, the inventory the cell list of coq/Model/State.v was derived from; a new site is a broken
    obligation;
  * histories (model): random histories of read-only API calls, interleaved across a tree, its inner nodes, leaves, multi-flow
    adaptors, their wrapped devices and conduits. Around every call the harness snapshots the mutable cells of the implementation
    (Poly2D/Poly2DOffset `_deriv`/`_hess`, the ADevices' constraint lists and the caller's dict objects, lru_cache miss counters);
    Coq replays the history on the state machine and compares call by call which cells were written, and the final cells;
  * histories (oracle): every call's result equals the same call on a freshly constructed twin, the final behavioural fingerprint
    (cost/deriv/hess/bounds/constraint values and Jacobians at fixed probes, to_dict, project, map) equals a fresh twin's, the
    caller's arrays/lists/dicts are bit-identical to deep snapshots and keep their identity, cached matrices equal a recomputation.
"""
import copy
import os
import numpy as np
from fractions import Fraction as F
import core
from core import cq, fr, fl, Raw, dy, N, C, Some
import leafgen as lg
import treegen as tg
import c12_scan

ID = 'C12'
GEN = []
PROPS = 'Props/C12.v'
MODEL_VO = ['Model/StateChk.v']
CASE_TYPE = 'c12_case'
CHECKER = 'c12_chk'
SHARD = 40
COQ_PRELUDE = '''From Coq Require Import ZArith QArith List Bool.
From DK Require Import Num NumQ Vec.
From DK.Model Require Import Leaf State StateChk.
Import ListNotations.
Local Open Scope Q_scope.
'''
RULE = ('cases = one state-inventory case (AST re-scan of /repo/device_kit vs corpus/C12/write_sites.json) + histories: a scenario '
        '(bare atomic device of every class, or a tree of depth 0..3 with plain / sub-balanced sets, multi-flow and two-ratio adaptors '
        'wrapping ADevices / storage / other leaves; ADevices carry Poly2D / Poly2DOffset compositions and user constraint lists, '
        'some list objects shared between a leaf ADevice and a wrapped one) and a history of length <= 12 (quick) / <= 40 (thorough) '
        'over cost/deriv/hess/bounds/read-constraints/call-constraint-fun/call-constraint-jac/project/map/to_dict/solve/lru-eviction '
        'addressed at the root, inner nodes, leaves, adaptors, wrapped devices and conduits. Compared in Coq: cells written per call '
        'and final cells (model vs implementation), plus the harness flags (per-call and final twin equality, caller data bit-identical, '
        'identity preserved). Non-trivial: >= 3 calls and a scenario with at least one mutable cell; distinct by hash.')
EXPLANATION = ('Theorem (Props/C12.v): for every scenario and every finite list of calls, the fingerprint and the caller data of the '
               'state machine are unchanged (invariant: configuration cells never written, caches empty or equal to what a fresh object '
               'computes; preserved by every call, lifted through fold_left). The correspondence ties the machine\'s write sets to the code.')
ASSUMPTIONS = ['the per-call footprint table of Model/State.v (which cells each API call may write) is hand-derived from the code; it is '
               'tied to /repo by the per-call write-set comparison and by the syntactic write-site inventory, not by translation',
               'lru_cache tables are observed through cache_info() miss counters (number of new entries per call, not their keys)']
TRUSTED_EXTRA = ['harness/props/c12_scan.py (syntactic write-site sweep; a write through an aliasing call it does not recognise is '
                 'caught only by the history correspondence)']

INVENTORY = os.path.join(core.VERIF, 'corpus', 'C12', 'write_sites.json')
OPKINDS = ['cost', 'deriv', 'hess', 'bounds', 'readcons', 'callfun', 'calljac', 'project', 'map', 'todict', 'solve', 'evict']
COQ_OP = {'cost': 'KCost', 'deriv': 'KDeriv', 'hess': 'KHess', 'bounds': 'KBounds', 'readcons': 'KReadCons', 'project': 'KProject',
          'map': 'KMap', 'todict': 'KToDict', 'solve': 'KSolve', 'evict': 'KEvict'}


# =====================================================================================================================
# state inventory
# =====================================================================================================================
SOFT_KINDS = ('mutating-call', 'item-assign', 'aug-item', 'del')


def inventory_diff():
  """-> (new state-introducing sites: an obligation, new tooling sites, vanished sites, new container-mutation sites).
  Sites the scanner classifies by itself (written object created in the same call, `self` under construction, function not reachable
  from the read-only API) are never new.  Of the rest, an attribute assignment / cache decorator / global / mutable default reachable
  from the read-only API introduces a cell the state machine of Model/State.v does not have: a broken obligation.  A container
  mutation (`x.append(..)`, `x[i] = ..`) on an object of unknown origin is not by itself a cell; it triples the number of histories
  of this run instead (and is listed in the evidence)."""
  inv = [s for s in __import__('json').load(open(INVENTORY))['sites']]
  found = c12_scan.scan(core.REPO)
  new, gone = c12_scan.compare(found, inv)
  new_api = [s for s in new if not c12_scan.is_tooling(s)]
  hard = [s for s in new_api if s['kind'] not in SOFT_KINDS]
  soft = [s for s in new_api if s['kind'] in SOFT_KINDS]
  return hard, [s for s in new if c12_scan.is_tooling(s)], gone, soft


# =====================================================================================================================
# scenario construction on the implementation, with a registry of every mutable object
# =====================================================================================================================
class Reg:
  def __init__(self):
    self.objs = []       # (name, obj, snapshot)   caller-owned data
    self.arrays = []     # (name, obj)             numeric caller data (goes to Coq)
    self.dicts = []      # heap of caller constraint dict objects
    self.base = []       # original closures (fun / jac) of the caller
    self.lists = []      # caller's constraint list objects
    self.adevs = []      # ADevice objects in build order
    self.ad_list = []    # ADevice k -> index of the caller list it was given
    self.polys = []      # Poly2D / Poly2DOffset objects in build order
    self.keys = []       # distinct (sustainment, length)
    self.holders = []    # (key id, object, attribute name) holding the cached matrix
    self.nodes = []

  def data(self, name, obj, numeric=True):
    self.objs.append((name, obj, snap(obj)))
    if numeric:
      self.arrays.append((name, obj))
    return obj

  def key(self, s, n):
    k = (float(s), int(n))
    if k not in self.keys:
      self.keys.append(k)
    return self.keys.index(k)


def snap(x):
  """Deep, bit-exact, identity-aware snapshot of caller data."""
  if isinstance(x, np.ndarray):
    if x.dtype == object:
      return ('ndo', x.shape, tuple(snap(v) for v in x.reshape(-1).tolist()))
    return ('nd', x.shape, x.dtype.str, x.tobytes())
  if isinstance(x, (list, tuple)):
    return (type(x).__name__, tuple(id(v) if isinstance(v, (dict, list)) or callable(v) or hasattr(v, 'cost') else None for v in x),
            tuple(snap(v) for v in x))
  if isinstance(x, dict):
    return ('dict', tuple((k, snap(v)) for k, v in x.items()))
  if callable(x) or hasattr(x, 'cost'):
    return ('obj', id(x))
  if isinstance(x, float):
    return ('f', x.hex())
  return ('v', repr(x))


def flat(x):
  """numeric caller data -> flat list of Fractions (None entries skipped)."""
  if isinstance(x, np.ndarray):
    return [F(float(v)) for v in x.reshape(-1).tolist() if v is not None]
  if isinstance(x, (list, tuple)):
    out = []
    for v in x:
      out += flat(v)
    return out
  if x is None or isinstance(x, str):
    return []
  return [F(float(x))]


def walk_polys(f, ast, reg, acc):
  """pair the implementation's function objects with the generator AST; collect Poly2D / Poly2DOffset objects."""
  k = ast[0]
  if k in ('poly2d', 'poly2doffset'):
    reg.polys.append((f, ast))
    acc.append(len(reg.polys) - 1)
  elif k == 'sum':
    for g, a in zip(f.functions, ast[1]):
      walk_polys(g, a, reg, acc)
  elif k == 'reflect':
    walk_polys(f.function, ast[1], reg, acc)
  elif k == 'ranges':
    for g, a in zip(f.functions, ast[1]):
      walk_polys(g, a[2], reg, acc)


def build_leaf(L, reg, path, lists_by_ad):
  """as leafgen.build, but every object handed to the constructor is created here and registered as caller data."""
  import device_kit as dk
  cls, n = L['cls'], L['n']
  i = L.get('id', 'd')
  bounds = reg.data(path + '.bounds', np.array(fl([list(b) for b in L['bounds']])))
  cb = lg.py_cbounds(L['cbounds'], L.get('cb_kind'))
  if isinstance(cb, list):
    reg.data(path + '.cbounds', cb)
  def par(name):
    v = L[name]
    return reg.data('%s.%s' % (path, name), np.array(fl(v))) if isinstance(v, list) else float(v)
  info = {'polys': [], 'keys': []}
  if cls == 'Device':
    d = dk.Device(i, n, bounds, cb)
  elif cls == 'PVDevice':
    d = dk.PVDevice(i, n, bounds, cb)
  elif cls == 'CDevice':
    d = dk.CDevice(i, n, bounds, cb, a=float(L['a']), b=float(L['b']))
  elif cls == 'CDevice2':
    d = dk.CDevice2(i, n, bounds, cb, p_l=float(L['p_l']), p_h=float(L['p_h']))
  elif cls == 'IDevice':
    d = dk.IDevice(i, n, bounds, cb, a=par('a'), b=par('b'), c=par('c'))
  elif cls == 'IDevice2':
    d = dk.IDevice2(i, n, bounds, cb, p_l=par('p_l'), p_h=par('p_h'))
  elif cls == 'GDevice':
    d = dk.GDevice(i, n, bounds, cb, cost_coeffs=reg.data(path + '.cost_coeffs', fl(L['cost_coeffs'])))
  elif cls == 'SDevice':
    rc = L['rate_clip']
    kw = {k: float(L[k]) for k in ('c1', 'c2', 'c3', 'capacity', 'damage_depth', 'start', 'reserve', 'efficiency', 'sustainment')}
    if rc is not None:
      kw['rate_clip'] = tuple(None if v is None else float(v) for v in rc)
    d = dk.SDevice(i, n, bounds, cb, **kw)
    k = reg.key(L['sustainment'], n)
    info['keys'].append(k)
    reg.holders.append((k, d, '_sustainment_matrix'))
  elif cls == 'TDevice':
    d = dk.TDevice(i, n, bounds, float(L['sustainment']), float(L['efficiency']), float(L['t_init']), float(L['t_optimal']),
                   float(L['t_range']), reg.data(path + '.t_external', fl(L['t_external'])), c=par('c'), cbounds=cb)
    k = reg.key(L['sustainment'], n)
    info['keys'].append(k)
    reg.holders.append((k, d, 'sustainment_matrix'))
  elif cls == 'ADevice':
    f = lg.build_fn(L['f'])
    walk_polys(f, L['f'], reg, info['polys'])
    ad = len(reg.adevs)
    share = L.get('share')
    if share is not None and int(share) in lists_by_ad:
      li = lists_by_ad[int(share)]
    else:
      cons = []
      for u in L['ucons']:
        w, k = np.array(fl(u['w'])), float(u['k'])
        reg.data('%s.ucon%d.w' % (path, len(reg.dicts)), w)
        fun = (lambda s, w=w, k=k: float(np.array(s).reshape(-1).dot(w) + k))
        cd = {'type': 'eq' if u['eq'] else 'ineq', 'fun': fun}
        reg.base.append(fun)
        if u['jac']:
          cd['jac'] = (lambda s, w=w: w.copy())
          reg.base.append(cd['jac'])
        reg.dicts.append(cd)
        reg.data('%s.ucon%d' % (path, len(reg.dicts) - 1), cd, numeric=False)
        cons.append(cd)
      reg.lists.append(cons)
      reg.data('%s.constraints' % path, cons, numeric=False)
      li = len(reg.lists) - 1
    lists_by_ad[ad] = li
    d = dk.ADevice(i, n, bounds, cb, f=f, constraints=reg.lists[li])
    reg.adevs.append(d)
    reg.ad_list.append(li)
    info['ad'] = ad
  else:
    raise AssertionError(cls)
  return d, info


def all_fixed(bounds):
  return all(a == b for a, b in bounds)


def build_scn(T, probes):
  """Build the scenario on the implementation. Returns the registry (nodes in DFS order)."""
  import device_kit as dk
  reg = Reg()
  lists_by_ad = {}

  def rec(T, off, path):
    k = T['kind']
    R, n = tg.rows(T), tg.length(T)
    node = {'kind': k, 'off': off, 'R': R, 'n': n, 'path': path, 'polys': [], 'keys': [], 'wrap': None}
    reg.nodes.append(node)
    if k == 'leaf':
      d, info = build_leaf(T['leaf'], reg, path, lists_by_ad)
      node.update(obj=d, polys=info['polys'], keys=info['keys'], fixed=all_fixed(T['leaf']['bounds']), cls=T['leaf']['cls'])
      return node
    if k in ('mf', 'tworatio'):
      w, info = build_leaf(T['leaf'], reg, path + '~w', lists_by_ad)
      flows = reg.data(path + '.flows', list(T['flows']), numeric=False)
      if k == 'mf':
        d = dk.MFDeviceSet(w, flows)
      else:
        ratios = reg.data(path + '.ratios', [float(T['ratios'][0]), float(T['ratios'][1])])
        d = dk.TwoRatioMFDeviceSet(w, flows, ratios, 'eq' if T['eq'] else 'ineq')
      cbnd = tg.conduit_bounds(T['leaf']['bounds'])
      node.update(obj=d, polys=info['polys'], keys=info['keys'], fixed=all_fixed(cbnd), cls=T['leaf']['cls'],
                  wrap=(info['ad'], R, n) if 'ad' in info else None)
      reg.nodes.append({'kind': 'wrapped', 'off': off, 'R': 1, 'n': n, 'path': path + '~w', 'obj': w, 'polys': info['polys'],
                        'keys': info['keys'], 'fixed': all_fixed(T['leaf']['bounds']), 'wrap': None, 'span': R, 'cls': T['leaf']['cls']})
      for j, cdev in enumerate(d.devices):
        reg.nodes.append({'kind': 'conduit', 'off': off + j, 'R': 1, 'n': n, 'path': '%s.%s' % (path, T['flows'][j]), 'obj': cdev,
                          'polys': [], 'keys': [], 'fixed': all_fixed(cbnd), 'wrap': None, 'cls': 'Device'})
      return node
    kids, kid_nodes, o = [], [], off
    first = len(reg.nodes)
    for c in T['kids']:
      kn = rec(c, o, path + '.' + c['id'])
      kids.append(kn['obj'])
      kid_nodes.append(kn)
      o += kn['R']
    kids = reg.data(path + '.devices', kids, numeric=False)
    sb = tg.py_sbounds(T['sbounds'])
    if sb is not None:
      reg.data(path + '.sbounds', sb)
    if k == 'set':
      d = dk.DeviceSet(T['id'], kids, sb)
    else:
      labels = reg.data(path + '.labels', list(T['labels']), numeric=False)
      d = dk.SubBalancedDeviceSet(T['id'], kids, sb, labels=labels, constraint_type='eq' if T['eq'] else 'ineq',
                                  sign=float(T['sign']), apply_to_remaining=bool(T['remaining']))
    for kn in kid_nodes:
      node['polys'] += kn['polys']
      node['keys'] += kn['keys']
    node.update(obj=d, fixed=all(kn['fixed'] for kn in kid_nodes), cls=k)
    return node

  rec(T, 0, T['id'])
  # probe flows / prices, one ndarray object per node and probe (so that in-place writes to an argument are visible)
  for nd in reg.nodes:
    nd['S'], nd['P'] = [], []
    for q, S in enumerate(probes['S']):
      rows_ = S[nd['off']:nd['off'] + nd.get('span', nd['R'])]
      if nd['kind'] == 'wrapped':
        rows_ = [[sum(r[i] for r in rows_) for i in range(nd['n'])]]
      a = np.array(fl(rows_))
      if nd['kind'] in ('leaf', 'wrapped', 'conduit'):
        a = a.reshape(-1)
      nd['S'].append(reg.data('%s.S%d' % (nd['path'], q), a))
    nd['P'].append(float(probes['p']))
    Pm = probes['P'][nd['off']:nd['off'] + nd['R']]
    a = np.array(fl(Pm))
    if nd['kind'] in ('leaf', 'wrapped', 'conduit'):
      a = a.reshape(-1)
    nd['P'].append(reg.data('%s.P1' % nd['path'], a))
    # the caller's own working buffer (not caller DATA the library must leave alone: the caller itself overwrites it between calls)
    nd['buf'] = np.zeros_like(nd['S'][0])
  return reg


# =====================================================================================================================
# calls and results
# =====================================================================================================================
def norm(x):
  """result -> hashable structure compared bit for bit between the device and its fresh twin."""
  from scipy.optimize import OptimizeResult
  if isinstance(x, np.ndarray):
    if x.dtype == object:
      return ('ndo', x.shape, tuple(norm(v) for v in x.reshape(-1).tolist()))
    return ('nd', x.shape, np.ascontiguousarray(x, dtype=float).tobytes() if x.dtype.kind in 'fiub' else repr(x.tolist()))
  if isinstance(x, OptimizeResult):
    return ('opt', norm(np.array(x.x)), int(x.status), norm(float(x.fun)))
  if isinstance(x, (list, tuple)):
    return ('seq', tuple(norm(v) for v in x))
  if isinstance(x, dict):
    return ('dict', tuple((str(k), norm(v)) for k, v in x.items()))
  if isinstance(x, (float, np.floating)):
    return ('f', float(x).hex())
  if isinstance(x, (int, np.integer, str, bool)) or x is None:
    return ('v', repr(x))
  if hasattr(x, 'cost') and hasattr(x, 'id'):
    return ('dev', type(x).__name__, str(x.id))
  if callable(x):
    return ('callable', type(x).__name__)
  return ('other', type(x).__name__)


def solve_unsafe(d):
  """SciPy 1.18's SLSQP corrupts the heap (process abort: 'double free or corruption') when there are more equality constraints
  than variables together with inequality constraints, e.g. a sub-balanced set over one storage row with eq label constraints.
  Such a solve is replaced by the read of the constraints it starts with (reported to the lead; C05's business)."""
  cs = d.constraints
  return sum(1 for c in cs if c['type'] == 'eq') > int(d.shape[0]) * int(d.shape[1])


def call(nd, op):
  """Run one API call on a node. Returns the normalised result (exceptions are results)."""
  from device_kit import solve, utils
  d, k = nd['obj'], op['k']
  try:
    if k == 'evict':
      utils.sustainment_matrix.cache_clear()
      utils.power_matrix.cache_clear()
      return ('v', 'evicted')
    S, P = nd['S'][op.get('si', 0)], nd['P'][op.get('pi', 0)]
    if op.get('buf'):
      # the flow is handed over in ONE array object that the caller updates in place between calls (s[:] = ..., s -= lr*grad):
      # the call is still "at S"; a device that kept a reference to (a view of) an earlier argument now sees it change
      nd['buf'][...] = S
      S = nd['buf']
    if k == 'cost':
      return norm(d.cost(S, P))
    if k == 'deriv':
      return norm(np.array(d.deriv(S, P)))
    if k == 'hess':
      return norm(np.array(d.hess(S, P)))
    if k == 'bounds':
      return norm([d.bounds, d.lbounds, d.hbounds, getattr(d, 'cbounds', None) if nd['kind'] in ('leaf', 'wrapped', 'conduit') else None,
                   getattr(d, 'sbounds', None) if nd['kind'] not in ('leaf', 'wrapped', 'conduit') else None])
    if k == 'readcons':
      return norm([(c['type'], 'jac' in c, sorted(c.keys())) for c in d.constraints])
    if k in ('callfun', 'calljac'):
      cs = d.constraints
      if not cs:
        return ('v', 'no-constraints')
      c = cs[op.get('ci', 0) % len(cs)]
      x = np.array(S, dtype=float).reshape(-1)
      if k == 'callfun':
        return norm(c['fun'](x))
      return norm(np.array(c['jac'](x))) if 'jac' in c else ('v', 'no-jac')
    if k == 'project':
      return norm(np.array(d.project(S)))
    if k == 'map':
      return norm([(a, np.array(b)) for a, b in d.map(S)])
    if k == 'todict':
      return norm(d.to_dict())
    if k == 'solve':
      if solve_unsafe(d):
        return ('skip', 'more equality constraints than variables')
      x, o = solve(d, p=P)
      return norm([np.array(x), o])
  except Exception as e:
    return ('raise', type(e).__name__)
  raise AssertionError(k)


def fingerprint(reg, hess=True):
  """Behaviour of every node at its fixed probes."""
  out = []
  for nd in reg.nodes:
    for k in ('cost', 'deriv', 'bounds', 'readcons', 'project', 'map', 'todict') + (('hess',) if hess else ()):
      for si in (0, 1):
        for pi in ((0, 1) if k in ('cost', 'deriv') and si == 0 else (1,)):
          if k in ('bounds', 'readcons', 'todict') and si == 1:
            continue
          out.append((nd['path'], k, si, pi, call(nd, {'k': k, 'si': si, 'pi': pi})))
    try:
      ncons = len(nd['obj'].constraints)
    except Exception:
      ncons = 0
    for ci in range(min(ncons, 12)):
      out.append((nd['path'], 'fun', ci, call(nd, {'k': 'callfun', 'ci': ci, 'si': 0})))
      out.append((nd['path'], 'jac', ci, call(nd, {'k': 'calljac', 'ci': ci, 'si': 1})))
  return out


# =====================================================================================================================
# cells of the implementation
# =====================================================================================================================
def tok(reg, f):
  for i, b in enumerate(reg.base):
    if f is b:
      return ('base', i)
  return ('unknown',)


def cells(reg):
  from device_kit import utils
  heap = {id(d): i for i, d in enumerate(reg.dicts)}
  return {
    'poly': [(p._deriv is not None, p._hess is not None,
              None if p._deriv is None else p._deriv.coeffs.tobytes(), None if p._hess is None else p._hess.coeffs.tobytes()) for p, _ in reg.polys],
    'polyvals': [(None if p._deriv is None else np.array(p._deriv.coeffs, dtype=float), None if p._hess is None else np.array(p._hess.coeffs, dtype=float))
                 for p, _ in reg.polys],
    'dict': [(d.get('type'), tok(reg, d.get('fun')), tok(reg, d['jac']) if 'jac' in d else None, tuple(sorted(d.keys()))) for d in reg.dicts],
    'adcons': [[heap.get(id(x), 999) for x in a._constraints] for a in reg.adevs],
    'lists': [[heap.get(id(x), 999) for x in l] for l in reg.lists],
    'sus': utils.sustainment_matrix.cache_info().misses,
    'pow': utils.power_matrix.cache_info().misses,
  }


def diff_events(a, b):
  ev = []
  for i, (x, y) in enumerate(zip(a['poly'], b['poly'])):
    if (x[0], x[2]) != (y[0], y[2]):
      ev.append(('EFillD', i))
    if (x[1], x[3]) != (y[1], y[3]):
      ev.append(('EFillH', i))
  for i, (x, y) in enumerate(zip(a['dict'], b['dict'])):
    if x != y:
      ev.append(('EDict', i))
  return ev, b['sus'] - a['sus'], b['pow'] - a['pow']


def lists_changed(a, b):
  return a['adcons'] != b['adcons'] or a['lists'] != b['lists']


# =====================================================================================================================
# one history
# =====================================================================================================================
def run_history(c, per_call_twin=True, stop_at_first=False):
  """Run the history on a fresh scenario. Returns a dict with the per-call observations, final cells and the list of
  problems found by the direct (model-free) checks."""
  from device_kit import utils
  T, probes, ops = c['tree'], c['probes'], c['ops']
  problems = []
  reg = build_scn(T, probes)
  arrays0 = [flat(o) for _, o in reg.arrays]
  twins = []
  if per_call_twin:
    for j, op in enumerate(ops):   # every call of the first 12, every third one after that (long thorough histories)
      twins.append(build_scn(T, probes) if op['k'] != 'evict' and (j < 12 or j % 3 == 0) else None)
  # normalise the lru tables: exactly the scenario's keys are present
  utils.sustainment_matrix.cache_clear()
  utils.power_matrix.cache_clear()
  for s, n in reg.keys:
    utils.sustainment_matrix(s, n)
  steps, eff_ops = [], []
  before = cells(reg)
  model_upto, model_cells = None, None
  for j, op in enumerate(ops):
    nd = reg.nodes[op['node'] % len(reg.nodes)]
    res = call(nd, op)
    eff_ops.append(dict(op, k='readcons') if res[0] == 'skip' else op)
    after = cells(reg)
    ev, nsus, npow = diff_events(before, after)
    if op['k'] == 'evict':
      ev, nsus, npow = ev + [('EEvict',)], 0, 0     # cache_clear() also resets the miss counters
    if model_upto is None and res[0] == 'raise' and (op['k'] in ('cost', 'deriv', 'hess') or (op['k'] == 'solve' and res[1] != 'OptimizationException')):
      # the evaluation itself aborted (e.g. 0.0 ** negative in an IDevice Hessian: C10's business): which part of the call's footprint
      # was executed is not determined by the model, so the model comparison covers the history up to this call only
      model_upto, model_cells = j, before
    if lists_changed(before, after):
      problems.append('call %d (%s on %s) changed a constraint list of the caller / of an ADevice' % (j, op['k'], nd['path']))
    steps.append({'events': ev, 'nsus': nsus, 'npow': npow})
    before = after
    if per_call_twin and twins[j] is not None:
      tres = call(twins[j].nodes[op['node'] % len(reg.nodes)], op)
      if tres != res:
        problems.append('call %d (%s on %s) returns a different result than the same call on a freshly constructed twin (after %d earlier calls)'
                        % (j, op['k'], nd['path'], j))
      before = cells(reg)   # the twin's call may touch the shared lru tables (it only ever hits entries the device just used)
    # caller data after every call
    for name, obj, s0 in reg.objs:
      if snap(obj) != s0:
        problems.append('call %d (%s on %s) modified caller data %s' % (j, op['k'], nd['path'], name))
    if problems and stop_at_first:
      break
  # final cells (before any further construction)
  fin = cells(reg) if model_upto is None else model_cells
  if model_upto is None:
    model_upto = len(ops)
  final = {
    'polys': [(None if a is None else fr(a), None if b is None else fr(b)) for a, b in fin['polyvals']],
    'dicts': fin['dict'], 'adcons': fin['adcons'], 'lists': fin['lists'],
    'arrays': [flat(o) for _, o in reg.arrays],
    'sus': [], 'pow': [],
  }
  for k, (s, n) in enumerate(reg.keys):
    m = utils.sustainment_matrix(s, n)
    final['sus'].append((k, fr(np.array(m))))
    if not np.array_equal(m, utils.sustainment_matrix.__wrapped__(s, n)):
      problems.append('the cached sustainment matrix for (%r, %d) differs from a fresh computation' % (s, n))
    if s != 1:
      pm = utils.power_matrix(n)
      final['pow'].append((n, fr(np.array(pm))))
      if not np.array_equal(pm, utils.power_matrix.__wrapped__(n)):
        problems.append('the cached power matrix for %d differs from a fresh computation' % n)
  for k, obj, attr in reg.holders:
    m = getattr(obj, attr)
    final['sus'].append((k, fr(np.array(m))))
    s, n = reg.keys[k]
    if not np.array_equal(m, utils.sustainment_matrix.__wrapped__(s, n)):
      problems.append('%s.%s differs from a fresh sustainment matrix' % (obj.id, attr))
  # final behavioural fingerprint vs a fresh twin
  twin = build_scn(T, probes)
  hess = c.get('fp_hess', True)
  fa, fb = fingerprint(reg, hess), fingerprint(twin, hess)
  if fa != fb:
    bad = [x[:3] for x, y in zip(fa, fb) if x != y][:3]
    problems.append('after the history the behaviour differs from a freshly constructed twin at %s' % (bad,))
  for name, obj, s0 in reg.objs:
    if snap(obj) != s0:
      problems.append('caller data %s is not bit-identical to its deep copy (or lost identity) after the closing round of reads '
                      '(cost/deriv/hess/bounds/constraints and their functions/to_dict/project/map on every node)' % name)
      break
  return {'reg': reg, 'steps': steps[:model_upto], 'final': final, 'problems': problems, 'arrays0': arrays0, 'model_upto': model_upto,
          'eff_ops': eff_ops}


# =====================================================================================================================
# generation
# =====================================================================================================================
def gen_poly(rng, n, offset):
  if offset:
    return ('poly2doffset', [[dy(rng, -2, 2, 2) for _ in range(3)] for _ in range(n)], [dy(rng, -1, 1, 2) for _ in range(n)])
  deg = rng.randint(0, 3)
  return ('poly2d', [[dy(rng, -2, 2, 2) for _ in range(deg + 1)] for _ in range(n)])


def enrich(rng, T):
  """More of what C12 is about: Poly2D compositions and user constraints on ADevices; shared constraint list objects."""
  ads = []
  for x in tg.nodes(T):
    L = x.get('leaf')
    if L and L['cls'] == 'ADevice':
      n = L['n']
      r = rng.random()
      if r < 0.35:
        L['f'] = ('sum', [gen_poly(rng, n, rng.random() < 0.5), L['f']])
      elif r < 0.55:
        L['f'] = ('reflect', ('sum', [gen_poly(rng, n, False), gen_poly(rng, n, True)]))
      elif r < 0.65:
        L['f'] = gen_poly(rng, n, rng.random() < 0.5)
      if rng.random() < 0.6:
        L['ucons'] = L['ucons'] + [lg.gen_ucon(rng, n)]
      if ads and rng.random() < 0.4:
        L['share'] = rng.randrange(len(ads))
      ads.append(L)
  return T


def gen_ops(rng, T, max_len):
  nn = sum(1 + (len(x['flows']) + 1 if x['kind'] in ('mf', 'tworatio') else 0) for x in tg.nodes(T))
  ln = rng.randint(1, max_len)
  ops, nsolve = [], 0
  weights = [('cost', 3), ('deriv', 4), ('hess', 2), ('bounds', 1), ('readcons', 4), ('callfun', 3), ('calljac', 2), ('project', 1),
             ('map', 1), ('todict', 1), ('solve', 2), ('evict', 1)]
  bag = [k for k, w in weights for _ in range(w)]
  for _ in range(ln):
    k = lg.pick(rng, bag)
    if k == 'solve':
      nsolve += 1
      if nsolve > 2:
        k = 'deriv'
    ops.append({'node': rng.randrange(nn), 'k': k, 'si': rng.randrange(2), 'pi': rng.randrange(2), 'ci': rng.randrange(8)})
    if rng.random() < 0.4:
      ops[-1]['buf'] = True
  if rng.random() < 0.5:
    # deterministic core of the working-buffer stratum: the same node is read at S0, at S1 and at S0 again through ONE array object
    nd = rng.randrange(nn)
    ops = [{'node': nd, 'k': k, 'si': si, 'pi': 1, 'ci': 0, 'buf': True} for k, si in (('cost', 0), ('cost', 1), ('deriv', 0), ('deriv', 1))] + ops
  return ops


def gen_history(rng, tier, i):
  max_len = 40 if tier == 'thorough' else 12
  r = i % 10
  if r < 3:
    cls = lg.CLASSES[(i // 10) % len(lg.CLASSES)] if r < 2 else 'ADevice'
    L = tg.gen_tree_leaf(rng, cls, lg.pick(rng, [1, 2, 3, 4, 5]))
    L['id'] = 'd'
    T = {'kind': 'leaf', 'id': 'd', 'leaf': L}
  elif r < 5:
    # an ADevice leaf and an adaptor around a second ADevice that was given the SAME constraint list object (plus extras)
    n = lg.pick(rng, [1, 3, 4, 5])
    A1 = tg.gen_tree_leaf(rng, 'ADevice', n, sign='pos')
    A2 = tg.gen_tree_leaf(rng, 'ADevice', n, sign='pos')
    A1['id'], A2['id'] = 'a1', 'a2'
    if not A1['ucons']:
      A1['ucons'] = [lg.gen_ucon(rng, n)]
    kids = [{'kind': 'leaf', 'id': 'a1', 'leaf': A1},
            {'kind': 'mf', 'id': 'a2', 'leaf': A2, 'flows': rng.sample(tg.SUFFIXES, rng.randint(1, 3))}]
    if rng.random() < 0.5:
      X = tg.gen_tree_leaf(rng, lg.pick(rng, ['SDevice', 'TDevice', 'IDevice2', 'GDevice']), n)
      X['id'] = 'x3'
      kids.insert(rng.randrange(3), {'kind': 'leaf', 'id': 'x3', 'leaf': X})
    T = {'kind': 'set', 'id': 's0', 'kids': kids, 'sbounds': None, 'sb_kind': 'none'}
    if rng.random() < 0.3:
      T = {'kind': 'set', 'id': 'top', 'kids': [T], 'sbounds': None, 'sb_kind': 'none'}
  elif r < 6:
    T = tg.gen_tree(rng, rng.randint(0, 2), p_adaptor=0.7, p_leaf=0.5, mf_classes=['ADevice', 'ADevice', 'ADevice', 'SDevice', 'IDevice2', 'CDevice2', 'TDevice', 'Device'],
                    classes=['ADevice', 'ADevice', 'SDevice', 'TDevice', 'IDevice', 'GDevice', 'CDevice2', 'Device'], fanout=3)
  else:
    T = tg.gen_tree(rng, rng.randint(1, 3), fanout=3)
  enrich(rng, T)
  if 3 <= r < 5:
    A2['share'] = 0 if rng.random() < 0.8 else None
  R, n = tg.rows(T), tg.length(T)
  probes = {'S': [tg.gen_matrix(rng, T), tg.gen_matrix(rng, T)], 'p': dy(rng, -2, 3, 2),
            'P': [[dy(rng, -2, 3, 2) for _ in range(n)] for _ in range(R)]}
  return {'kind': 'history', 'tree': T, 'probes': probes, 'ops': gen_ops(rng, T, max_len), 'fp_hess': rng.random() < 0.5}


def gen_cases(rng, tier):
  n = {'quick': 200, 'thorough': 3000, 'search': 60}[tier]
  if tier == 'quick':
    try:
      if inventory_diff()[3]:
        n *= 3        # unclassified container mutations: look harder (see inventory_diff)
    except Exception:
      pass
  out = [{'kind': 'inventory'}] if tier != 'search' else []
  for i in range(n):
    out.append(gen_history(rng, tier, i))
  return out


# =====================================================================================================================
# property-module interface
# =====================================================================================================================
def observe(c):
  if c['kind'] == 'inventory':
    new_api, new_tool, gone, soft = inventory_diff()
    if new_api:
      raise RuntimeError('state-inventory: %d state-introducing write site(s) reachable from the read-only API and not in corpus/C12/write_sites.json, e.g. %s' % (len(new_api), new_api[:3]))
    return {'inventory': True, 'new_tooling': new_tool, 'gone': gone, 'unclassified_container_mutations': soft}
  h = run_history(c, per_call_twin=c.get('twin', True))
  return {'steps': h['steps'], 'final': h['final'], 'problems': h['problems'], 'reg': h['reg'], 'arrays0': h['arrays0'], 'model_upto': h['model_upto'],
          'eff_ops': h['eff_ops']}


def coq_event(e):
  return Raw('EEvict') if e[0] == 'EEvict' else C(e[0], N(e[1]))


def coq_tok(t):
  if t is None:
    return Raw('None')
  return Raw('(CBase %d%%nat)' % t[1]) if t[0] == 'base' else Raw('(CSumWrap 0%nat 0%nat (CBase 0%nat))')


def coq_dict_init(cd, reg):
  return Raw('(Build_cdict %s %s %s)' % (cq(cd['type'] == 'eq'), coq_tok(tok(reg, cd['fun'])),
                                         '(Some %s)' % coq_tok(tok(reg, cd['jac'])) if 'jac' in cd else 'None'))


def coq_dict_obs(o):
  typ, f, j, keys = o
  return Raw('(Build_cdict %s %s %s)' % (cq(typ == 'eq'), coq_tok(f), '(Some %s)' % coq_tok(j) if j is not None else 'None'))


def coq_op(op, nn):
  k = op['k']
  kk = COQ_OP.get(k) or ('(KCallFun %d%%nat)' % op.get('ci', 0) if k == 'callfun' else '(KCallJac %d%%nat)' % op.get('ci', 0))
  return Raw('(Build_op %d%%nat %s)' % (op['node'] % nn, kk))


def coq_case(c, o):
  if c['kind'] == 'inventory':
    return ('(Build_scenario [] [], Build_st [] [] [] [] [] [] [], [], ([], [], [], [], [], [], []), true)')
  reg = o['reg']
  nn = len(reg.nodes)
  nodes = [Raw('(Build_nodeinfo %s %s %s %s)' % (cq([N(p) for p in nd['polys']]), cq([N(k) for k in nd['keys']]), cq(bool(nd['fixed'])),
                                                 'None' if nd['wrap'] is None else '(Some (%d%%nat, %d%%nat, %d%%nat))' % nd['wrap'])) for nd in reg.nodes]
  keys = [(F(s), N(n)) for s, n in reg.keys]
  polys = []
  for p, ast in reg.polys:
    coeffs = ast[1]
    offs = Some(ast[2]) if ast[0] == 'poly2doffset' else Raw('None')
    polys.append(Raw('(Build_polyobj %s %s None None)' % (cq(coeffs), cq(offs))))
  heap = {id(d): i for i, d in enumerate(reg.dicts)}
  dicts0 = [coq_dict_init(d, reg) for d in reg.dicts]       # tokens of the caller's dicts as built (checked unchanged by the flags)
  adcons0 = [[N(heap[id(x)]) for x in reg.lists[li]] for li in reg.ad_list]
  lists0 = [[N(heap[id(x)]) for x in l] for l in reg.lists]
  pow_ls = sorted({n for s, n in reg.keys if s != 1})
  init = ('(Build_st %s %s %s %s (map (fun k => (k, sus_value sc k)) (seq 0 %d%%nat)) %s %s)'
          % (cq(dicts0), cq(adcons0), cq(lists0), cq(polys), len(reg.keys),
             cq([Raw('(%d%%nat, pow_matrix %d%%nat)' % (l, l)) for l in pow_ls]), cq(o['arrays0'])))
  steps = [(coq_op(op, nn), ([coq_event(e) for e in st['events']], N(st['nsus']), N(st['npow']))) for op, st in zip(o['eff_ops'][:o['model_upto']], o['steps'])]
  f = o['final']
  opt = lambda m: Raw('None') if m is None else Some(m)
  fin = ([(opt(a), opt(b)) for a, b in f['polys']], [coq_dict_obs(x) for x in f['dicts']], [[N(i) for i in l] for l in f['adcons']],
         [[N(i) for i in l] for l in f['lists']], f['arrays'], [(N(k), m) for k, m in f['sus']], [(N(l), m) for l, m in f['pow']])
  flags = not o['problems']
  return '(let sc := Build_scenario %s %s in (sc, %s, %s, %s, %s))' % (cq(nodes), cq(keys), init, cq(steps), cq(fin), cq(flags))


def nontrivial(c, o):
  if c['kind'] == 'inventory':
    return True
  reg = o['reg']
  return len(c['ops']) >= 3 and (len(reg.polys) + len(reg.dicts) + len(reg.keys)) > 0


def classify(c, o):
  if c['kind'] == 'inventory':
    return ['state-inventory']
  reg = o['reg']
  ks = {'len:%s' % ('1-4' if len(c['ops']) < 5 else '5-12' if len(c['ops']) <= 12 else '13-40')}
  ks |= {'op:' + op['k'] for op in c['ops']}
  ks |= {'at:' + reg.nodes[op['node'] % len(reg.nodes)]['kind'] for op in c['ops']}
  ks |= {'node:' + nd['kind'] for nd in reg.nodes}
  ks |= {'cls:' + nd['cls'] for nd in reg.nodes if nd['kind'] in ('leaf', 'wrapped')}
  if reg.polys:
    ks.add('has-poly-cache')
  if reg.dicts:
    ks.add('has-user-constraints')
  if len(set(reg.ad_list)) < len(reg.ad_list):
    ks.add('shared-constraint-list')
  if any(nd['wrap'] is not None and reg.lists[reg.ad_list[nd['wrap'][0]]] for nd in reg.nodes):
    ks.add('adaptor-wraps-ADevice-with-constraints')
  if reg.keys:
    ks.add('has-lru-key')
  if any(e[0] in ('EFillD', 'EFillH') for st in o['steps'] for e in st['events']):
    ks.add('cache-filled')
  if any(st['nsus'] for st in o['steps']):
    ks.add('lru-refilled')
  return sorted(ks)


def case_to_json(c):
  if c['kind'] == 'inventory':
    return {'kind': 'inventory'}
  return {'kind': 'history', 'tree': tg.tree_to_json(c['tree']),
          'probes': {'S': [tg.matrix_to_json(S) for S in c['probes']['S']], 'p': core.jsonable(c['probes']['p']), 'P': tg.matrix_to_json(c['probes']['P'])},
          'ops': c['ops'], 'fp_hess': c.get('fp_hess', True)}


def _fix_share(T):
  for x in tg.nodes(T):
    L = x.get('leaf')
    if L and L.get('share') is not None:
      L['share'] = int(L['share'])
  return T


def case_from_json(j):
  if j.get('kind') == 'inventory':
    return {'kind': 'inventory'}
  if 'sites' in j:
    raise ValueError('the write-site inventory is not a case')
  return {'kind': 'history', 'tree': _fix_share(tg.tree_from_json(j['tree'])),
          'probes': {'S': [tg.matrix_from_json(S) for S in j['probes']['S']], 'p': F(j['probes']['p']), 'P': tg.matrix_from_json(j['probes']['P'])},
          'ops': [dict(o) for o in j['ops']], 'fp_hess': bool(j.get('fp_hess', True))}


def oracle(c):
  """Direct test on the implementation: fresh-twin comparison per call and at the end, caller data, cached matrices."""
  if c['kind'] == 'inventory':
    return None
  try:
    h = run_history(c, per_call_twin=True)
  except Exception as e:
    return 'harness could not run the history: %s: %s' % (type(e).__name__, str(e)[:200])
  return '; '.join(h['problems'][:3]) if h['problems'] else None


def shrink(c, why):
  """Delta debugging on the list of calls (the scenario is kept)."""
  ops = list(c['ops'])
  def fails(sub):
    cc = dict(c, ops=sub)
    return oracle(cc)
  n = 2
  while len(ops) >= 2:
    chunk = max(1, len(ops) // n)
    reduced = False
    for i in range(0, len(ops), chunk):
      sub = ops[:i] + ops[i + chunk:]
      if sub:
        w = fails(sub)
        if w:
          ops, why, n, reduced = sub, w, max(n - 1, 2), True
          break
    if not reduced:
      if chunk == 1:
        break
      n = min(len(ops), n * 2)
  return (dict(c, ops=ops), why)


def search(rng, budget, seeds, findings):
  return core.default_search(__import__('c12'), rng, budget, seeds, findings)
