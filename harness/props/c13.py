"""C13 - row labelling: leaf_devices / map / mapDevices / get / find.

Tie H: the standard tree model (Model/Tree.v, `dev Q`) computes the label list, map(s) for shaped and flat flows and
the lookups; everything is compared exactly (strings, positions, rational rows) inside Coq. Objects returned by the
implementation's get/find/mapDevices are identified by their position in leaf_devices() (identity, `is`)."""
import copy
import re
from fractions import Fraction as F
import numpy as np
import core
from core import cq, fr, fl, Raw, N, C, Some
import leafgen as lg
import treegen as tg

ID = 'C13'
GEN = ['kernels', 'basedevice']
# the scalar kernels of functions.py this property's statement depends on (a change confined to the others is not this property's business;
# what its own correspondence compares still is)
KERNELS_USED = []
PROPS = 'Props/C13.v'
MODEL_VO = ['Model/Tree.v']
SHARD = 40
CASE_TYPE = ('dev Q * list (list Q) * (list string * list (string * list Q) * list (string * list Q) * list nat) * '
             'list (string * option nat) * list (string * list nat) * list (string * list nat)')
CHECKER = 'chk'
COQ_PRELUDE = '''From Coq Require Import ZArith QArith List Bool String.
From DK Require Import Num NumQ Vec.
From DK.Model Require Import Leaf Fn Dev Tree.
Import ListNotations.
Local Open Scope Q_scope.
Fixpoint eqlist (a b : list Q) : bool :=
  match a, b with [], [] => true | x :: a', y :: b' => Qeq_bool x y && eqlist a' b' | _, _ => false end.
Fixpoint eqstrs (a b : list string) : bool :=
  match a, b with [], [] => true | x :: a', y :: b' => String.eqb x y && eqstrs a' b' | _, _ => false end.
Fixpoint eqnats (a b : list nat) : bool :=
  match a, b with [], [] => true | x :: a', y :: b' => Nat.eqb x y && eqnats a' b' | _, _ => false end.
Fixpoint eqmap (a b : list (string * list Q)) : bool :=
  match a, b with [], [] => true | (k, r) :: a', (k', r') :: b' => String.eqb k k' && eqlist r r' && eqmap a' b' | _, _ => false end.
Definition eqopt (a b : option nat) : bool :=
  match a, b with Some x, Some y => Nat.eqb x y | None, None => true | _, _ => false end.
Definition chk (c : dev Q * list (list Q) * (list string * list (string * list Q) * list (string * list Q) * list nat) *
                    list (string * option nat) * list (string * list nat) * list (string * list nat)) : bool :=
  let '(d, S0, (ilab, imap, imapflat, imapdev), gets, fsuf, fpre) := c in
  let labs := tree_labels d in
  let pos := combine labs (seq 0 (List.length labs)) in
  eqstrs labs ilab && Nat.eqb (List.length labs) (tree_rows d)
  && eqmap (tree_map d S0) imap
  && eqmap (map_rows_flat std_ops d (List.concat S0)) imapflat
  && eqnats (map snd (map fst (combine pos S0))) imapdev
  && forallb (fun '(name, r) => eqopt (get_in pos name) r) gets
  && forallb (fun '(suf, r) => eqnats (find_suffix_in pos suf) r) fsuf
  && forallb (fun '(pre, r) => eqnats (find_prefix_in pos pre) r) fpre.
'''
RULE = ('cases = (tree, marker flow matrix with row i = i + slot/64 so that any permutation of rows is visible); asymmetric trees '
        'of depth 0..3 (thorough 0..4), fan-out 1..4, children with different row counts, adaptors with 1..4 conduits, ~15% of the '
        'trees with a duplicated sibling id or conduit name (labels and map still compared; lookups only for unique labels). Observed: leaf_devices() labels, map(s) '
        'for the shaped and the flat flow, mapDevices(s) object positions, get(name) for every full label, last segments, '
        'cross-dot suffixes, the empty and an absent name, find() for escaped literal prefixes and ".*suffix$". Compared exactly '
        'in Coq with Model/Tree.v. Non-trivial: at least 3 rows and not all units at depth 1 with one row; distinct by hash.')
EXPLANATION = ('Theorems (Props/C13.v, structural induction, axiom-free) say that entry o of the leaf list is the leaf owning row o '
               'of C02\'s partition, labelled with the dot-joined path, that map pairs it with row o, and that lookups over unique '
               'labels return exactly the matching leaves; the correspondence ties the model to basedevice.py.')


def dupify(rng, T):
  """Give one node the id of a sibling (or one conduit the name of another): ambiguous labels, dict semantics."""
  sets = [x for x in tg.nodes(T) if 'kids' in x and len(x['kids']) > 1]
  mfs = [x for x in tg.nodes(T) if x['kind'] == 'mf' and len(x['flows']) > 1]
  if mfs and (not sets or rng.random() < 0.4):
    m = rng.choice(mfs)
    m['flows'][-1] = m['flows'][0]
  elif sets:
    s = rng.choice(sets)
    a, b = rng.sample(range(len(s['kids'])), 2)
    s['kids'][b]['id'] = s['kids'][a]['id']
    if 'leaf' in s['kids'][b]:
      s['kids'][b]['leaf']['id'] = s['kids'][a]['id']
  return T


EXOTIC = ['(1)', '[2]', '+b', '_x', '-y', '(a)[b]']


def exotify(rng, T):
  """Leaf ids with every character Device allows (parentheses, brackets, plus: regular-expression metacharacters), and a leaf
  whose id is another leaf's dotted path with '-' in place of the dot (so that a pattern in which '.' is a wildcard confuses them)."""
  for x in tg.nodes(T):
    if x['kind'] == 'leaf' and rng.random() < 0.3:
      nid = x['id'] + rng.choice(EXOTIC)
      x['id'] = nid
      x['leaf']['id'] = nid
  sets = [x for x in tg.nodes(T) if 'kids' in x]
  cands = [(P, k) for P in sets for k, S in enumerate(P['kids']) if 'kids' in S and any(c['kind'] == 'leaf' for c in S['kids'])]
  if cands and rng.random() < 0.5:
    P, k = rng.choice(cands)
    S = P['kids'][k]
    leafkid = rng.choice([c for c in S['kids'] if c['kind'] == 'leaf'])
    import copy
    twin = copy.deepcopy(leafkid)
    nid = S['id'] + '-' + leafkid['id']
    if all(c['id'] != nid for c in P['kids']):
      twin['id'] = nid
      twin['leaf']['id'] = nid
      P['kids'].insert(k, twin)
  return T


def queries(rng, T):
  labs = [q for q, _ in tg.leaf_list(T)]
  names = set(labs[:6])
  for q in labs[:8]:
    parts = q.split('.')
    names.add(parts[-1])
    if len(parts) > 2:
      names.add('.'.join(parts[-2:]))
    names.add(q[-1:])
  names |= {'', 'zz', 'e', 'h'}
  pres = {T['id'], 'zz', labs[0], labs[-1][:-1]}
  for q in labs[:5]:
    parts = q.split('.')
    pres.add('.'.join(parts[:2]))
    pres.add('.'.join(parts[:-1]))
    pres.add(parts[-1])
  return sorted(names), sorted(pres)


def gen_cases(rng, tier):
  n = {'quick': 300, 'thorough': 4000, 'search': 150}[tier]
  out = []
  for i in range(n):
    depth = rng.choice([0, 1, 2, 2, 3, 3] if tier != 'thorough' else [0, 1, 2, 3, 3, 4])
    T = tg.gen_tree(rng, depth, fanout=4 if depth < 3 else 3, classes=['Device', 'CDevice', 'PVDevice', 'IDevice2', 'SDevice', 'GDevice'],
                    p_adaptor=0.4)
    if rng.random() < 0.15:
      T = dupify(rng, T)
    elif rng.random() < 0.5:
      T = exotify(rng, T)
    names, pres = queries(rng, T)
    out.append({'tree': T, 'names': names, 'pres': pres})
  return out


def _pos(objs, o):
  for i, x in enumerate(objs):
    if x is o:
      return i
  raise AssertionError('returned object is not one of leaf_devices()')


def observe(c):
  T = c['tree']
  S = tg.gen_matrix(None, T, marker=True)
  d = tg.build_tree(T)
  R, n = tg.rows(T), tg.length(T)
  items = d.leaf_devices()
  objs = [v for _, v in items]
  s = np.array(fl(S)).reshape(R, n)
  m1 = [(k, fr(np.array(r, dtype=float).reshape(-1))) for k, r in d.map(s)]
  m2 = [(k, fr(np.array(r, dtype=float).reshape(-1))) for k, r in d.map(s.reshape(-1))]
  md = [_pos(objs, dev) for _, dev, _ in d.mapDevices(s)]
  gets = []
  for name in c['names']:
    try:
      gets.append((name, _pos(objs, d.get(name))))
    except IndexError:
      gets.append((name, None))
  fsuf = [(name, [_pos(objs, o) for o in d.find('.*' + re.escape(name) + '$')]) for name in c['names']]
  fpre = [(p, [_pos(objs, o) for o in d.find(re.escape(p))]) for p in c['pres']]
  return {'S': S, 'labels': [k for k, _ in items], 'map': m1, 'mapflat': m2, 'mapdev': md, 'gets': gets, 'fsuf': fsuf, 'fpre': fpre}


def coq_case(c, o):
  opt = lambda v: Raw('None') if v is None else Some(N(v))
  if len(set(o['labels'])) < len(o['labels']):
    # two siblings share an id: lookup is ambiguous by construction and the property says nothing about it
    # (labels, map and mapDevices are still compared)
    o = dict(o, gets=[], fsuf=[], fpre=[])
  return cq((tg.coq_tree(c['tree']), o['S'],
             (o['labels'], [(k, r) for k, r in o['map']], [(k, r) for k, r in o['mapflat']], [N(i) for i in o['mapdev']]),
             [(k, opt(v)) for k, v in o['gets']], [(k, [N(i) for i in v]) for k, v in o['fsuf']], [(k, [N(i) for i in v]) for k, v in o['fpre']]))


def nontrivial(c, o):
  us = tg.units(c['tree'])
  return tg.rows(c['tree']) >= 3 and (tg.depth(c['tree']) >= 2 or any(r > 1 for _, r, _ in us))


def classify(c, o):
  T = c['tree']
  ks = ['depth:%d' % tg.depth(T), 'rows:%s' % (tg.rows(T) if tg.rows(T) < 10 else '10+')] + ['has:' + k for k in tg.kinds(T)]
  if len(set(o['labels'])) < len(o['labels']):
    ks.append('duplicate-labels')
  if len({r for _, r, _ in tg.units(T)}) > 1:
    ks.append('mixed-row-counts')
  if any(v is None for _, v in o['gets']):
    ks.append('get-miss')
  return ks


def case_to_json(c):
  return {'tree': tg.tree_to_json(c['tree']), 'names': c['names'], 'pres': c['pres']}


def case_from_json(j):
  return {'tree': tg.tree_from_json(j['tree']), 'names': j['names'], 'pres': j['pres']}


# ---- direct oracle on the implementation ---------------------------------------------------------------------------
def oracle(c):
  T = c['tree']
  R, n = tg.rows(T), tg.length(T)
  try:
    o = observe(c)
    d = tg.build_tree(T)
    items = d.leaf_devices()
  except Exception as e:
    return 'implementation raised %s: %s' % (type(e).__name__, str(e)[:200])
  want = tg.leaf_list(T)
  labs = o['labels']
  if len(labs) != d.shape[0]:
    return 'leaf_devices() has %d entries for %d flow rows' % (len(labs), d.shape[0])
  if labs != [q for q, _ in want]:
    return 'labels %s are not the dot-joined paths in row order %s' % (labs, [q for q, _ in want])
  S = o['S']
  for nm in ('map', 'mapflat'):
    got = o[nm]
    if [k for k, _ in got] != labs or [list(r) for _, r in got] != [list(r) for r in S]:
      bad = [i for i, ((k, r), lab, row) in enumerate(zip(got, labs, S)) if k != lab or list(r) != list(row)]
      return '%s(s) does not pair label i with row i (first differing rows: %s)' % (nm, bad[:3])
  if o['mapdev'] != list(range(R)):
    return 'mapDevices(s) returns devices out of row order: %s' % o['mapdev']
  # the object listed at position i owns row i: its bounds are rows i of the tree bounds, and (plain leaves) the tree
  # cost moves exactly as the leaf's own cost when only row i changes
  tb = np.array(d.bounds, dtype=float)
  import random
  rng = random.Random(len(labs) * 7919 + R)
  Sin = tg.gen_matrix(rng, T, 'interior')
  base = np.array(fl(Sin)).reshape(R, n)
  for i, (q, L) in enumerate(want):
    obj = items[i][1]
    if not np.array_equal(np.array(obj.bounds, dtype=float), tb[i * n:(i + 1) * n]):
      return 'the device labelled %s (position %d) does not have the bounds of flow row %d' % (q, i, i)
    if 'cls' in L and not any(u['kind'] != 'leaf' and off <= i < off + r for off, r, u in tg.units(T)):
      alt = base.copy()
      alt[i] = np.array(fl(lg.gen_flow(rng, L, 'interior')))
      t1, t0 = float(d.cost(alt, 0)), float(d.cost(base, 0))
      dt = t1 - t0
      dl = float(obj.cost(alt[i], 0)) - float(obj.cost(base[i], 0))
      # the tree costs are sums over all rows: their difference is only resolved to a few units in the last place of the totals
      if abs(dt - dl) > 1e-7 * (1 + abs(dl)) + 64 * np.finfo(float).eps * (abs(t1) + abs(t0)) * max(1, R):
        return 'changing flow row %d changes the tree cost by %r but the cost of the device labelled %s by %r' % (i, dt, q, dl)
  if len(set(labs)) == len(labs):
    for name, got in o['gets']:
      m = [i for i, k in enumerate(labs) if k.endswith(name)]
      if got != (m[0] if m else None):
        return 'get(%r) returned the leaf at position %s, the first label ending with it is at %s' % (name, got, m[:1])
    for name, got in o['fsuf']:
      m = [i for i, k in enumerate(labs) if k.endswith(name)]
      if got != m:
        return 'find(".*%s$") returned positions %s, labels ending with it are at %s' % (name, got, m)
    for p, got in o['fpre']:
      m = [i for i, k in enumerate(labs) if k.startswith(p)]
      if got != m:
        return 'find(%r) returned positions %s, labels starting with it are at %s' % (p, got, m)
  return None


def shrink(case, why):
  best, bw = case, why
  improved = True
  while improved:
    improved = False
    T = best['tree']
    if 'kids' not in T:
      break
    cands = []
    for i, k in enumerate(T['kids']):
      if len(T['kids']) > 1:
        T2 = copy.deepcopy(T)
        del T2['kids'][i]
        cands.append(T2)
      if 'kids' in k:
        cands.append(copy.deepcopy(k))
    for T2 in cands:
      names, pres = queries(None, T2)
      c2 = {'tree': T2, 'names': names, 'pres': pres}
      try:
        w = oracle(c2)
      except Exception:
        w = None
      if w:
        best, bw, improved = c2, w, True
        break
  return best, bw


def search(rng, budget, seeds, findings):
  return core.default_search(__import__('c13'), rng, budget, seeds, findings)
