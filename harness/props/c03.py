"""C03 - leaf bounds + constraints describe exactly the documented feasible flows."""
import numpy as np
from fractions import Fraction as F
import core
from core import cq, fr, fl, Raw, N
import leafgen as lg

ID = 'C03'
GEN = ['kernels', 'constraints']
# the scalar kernels of functions.py this property's statement depends on (a change confined to the others is not this property's business;
# what its own correspondence compares still is)
KERNELS_USED = []
PROPS = 'Props/C03.v'
MODEL_VO = ['Model/Dev.v']
SHARD = 12
CASE_TYPE = 'leafdev Q * list (Q * Q) * list (cbound Q) * list bool * list (list Q * list Q)'
CHECKER = 'chk'
COQ_PRELUDE = '''From Coq Require Import ZArith QArith List Bool Arith.
From DK Require Import Num NumQ Vec.
From DK.Model Require Import Leaf Fn Dev.
Import ListNotations.
Local Open Scope Q_scope.
Fixpoint all2 {B C} (f : B -> C -> bool) (l : list B) (m : list C) : bool :=
  match l, m with
  | [], [] => true
  | x :: l', y :: m' => f x y && all2 f l' m'
  | _, _ => false
  end.
Definition pair_eqb (a b : Q * Q) : bool := Qeq_bool (fst a) (fst b) && Qeq_bool (snd a) (snd b).
Definition cb_eqb (a b : cbound Q) : bool :=
  Qeq_bool (cb_lo a) (cb_lo b) && Qeq_bool (cb_hi a) (cb_hi b) && Nat.eqb (cb_s a) (cb_s b) && Nat.eqb (cb_e a) (cb_e b).
Definition chk (c : leafdev Q * list (Q * Q) * list (cbound Q) * list bool * list (list Q * list Q)) : bool :=
  let '(d, ib, icb, ity, pts) := c in
  let cs := leaf_cons d in
  all2 pair_eqb (ld_bounds d) ib && all2 cb_eqb (ld_cb d) icb && all2 Bool.eqb (map c_eq cs) ity
  && forallb (fun '(x, vals) => Qclose_list Qtol (map (fun k => c_fun k x) cs) vals) pts.
'''
RULE = ('cases = (atomic device config, list of flows); all ten classes via leafgen x cbounds none/pair/single/multi/overlap (CDevice2: '
        'pair/single/multi) x n in 1..7 (a few 24); storage with rate clip none/discharge/charge/both, efficiency and sustainment =1 and <1; '
        'ADevice with 0-2 user constraints (eq and ineq). Flows per config: box vertices, random box points, the most feasible of 30 random '
        'points, and for every documented constraint a point on its hyperplane (exact solve, rounded to 2^-20) and the two points 2^-10 '
        'either side along the solving coordinate. Compared in Coq: exported bounds table and stored cbounds (exactly), the type of every '
        'constraint and its count (exactly), the value of every constraint function at every flow (tol 1e-9 rel+abs). Non-trivial: the '
        'device exports at least one constraint; distinct by hash of (config, flows).')
EXPLANATION = ('Theorem C03_feasible_set_is_the_documented_one: for every length and configuration the exported bounds+constraints are '
               'satisfied exactly when the documented hard constraints are (state of charge = the recurrence of C09). The correspondence '
               'ties leaf_cons / bounds to the implementation value by value.')
CLASSES = ['Device', 'SDevice', 'ADevice', 'CDevice2', 'SDevice', 'PVDevice', 'CDevice', 'SDevice', 'IDevice', 'IDevice2', 'GDevice',
           'TDevice', 'SDevice', 'ADevice']
CBK = ['none', 'pair', 'single', 'multi', 'overlap']
GRID = 1 << 20
EPS = F(1, 1 << 10)


def pick(rng, xs):
  return xs[rng.randrange(len(xs))]


# ---- the documented hard constraints, evaluated exactly (used to place the points and as the oracle's reference) ----
def spec_terms(L, x):
  """list of (kind, value): kind 'ineq' means value >= 0 is required, 'eq' means value == 0. Box constraints first."""
  n = L['n']
  out = []
  for i, (lo, hi) in enumerate(L['bounds']):
    out.append(('ineq', x[i] - lo))
    out.append(('ineq', hi - x[i]))
  for lo, hi, s, e in (L['cbounds'] or []):
    t = sum(x[s:e], F(0))
    out.append(('ineq', t - lo))
    out.append(('ineq', hi - t))
  if L['cls'] == 'SDevice':
    e, su, cap = L['efficiency'], L['sustainment'], L['capacity']
    soc = L['start'] * cap
    socs = []
    for r in x:
      soc = su * soc + (r * e if r > 0 else (r / e if r < 0 else F(0)))
      socs.append(soc)
    for v in socs:
      out.append(('ineq', v))
      out.append(('ineq', cap - v))
    rc = L['rate_clip'] or (None, None)
    if rc[0] is not None:
      for i in range(n):
        out.append(('ineq', x[i] - rc[0] * L['bounds'][i][0] * socs[i] / cap))
    if rc[1] is not None:
      for i in range(n):
        out.append(('ineq', rc[1] * L['bounds'][i][1] * (cap - socs[i]) / cap - x[i]))
    out.append(('ineq', socs[-1] - L['reserve'] * cap))
  if L['cls'] == 'ADevice':
    for u in L['ucons']:
      out.append(('eq' if u['eq'] else 'ineq', sum((a * b for a, b in zip(u['w'], x)), F(0)) + u['k']))
  return out


def margin(L, x):
  """(smallest inequality slack, largest |equality residual|) of the documented constraints."""
  ts = spec_terms(L, x)
  return (min([v for k, v in ts if k == 'ineq'] or [F(1)]), max([abs(v) for k, v in ts if k == 'eq'] or [F(0)]))


def grid(v):
  return F(round(v * GRID), GRID)


def gen_points(rng, L, budget):
  n = L['n']
  B = L['bounds']
  rand = lambda: [core.dy(rng, lo, hi, 5) for lo, hi in B]
  pts = [[lo for lo, hi in B], [hi for lo, hi in B]]
  for _ in range(3):
    pts.append([pick(rng, [lo, hi]) for lo, hi in B])
  for _ in range(4):
    pts.append(rand())
  cands = [rand() for _ in range(30)]
  def score(x):
    m, e = margin(L, x)
    return m - e
  x0 = max(cands, key=score)
  pts.append(x0)
  nterms = len(spec_terms(L, x0))
  hyper = []
  for j in range(nterms):
    g0 = spec_terms(L, x0)[j][1]
    ks = list(range(n))
    rng.shuffle(ks)
    done = 0
    for k in ks:
      xp = list(x0); xp[k] += 1
      slope = spec_terms(L, xp)[j][1] - g0
      if slope == 0:
        continue
      xo = list(x0); xo[k] = grid(x0[k] - g0 / slope)
      xa = list(xo); xa[k] += EPS
      xb = list(xo); xb[k] -= EPS
      hyper.append([xo, xa, xb])
      done += 1
      if done >= (2 if j >= 2 * n else 1):
        break
  rng.shuffle(hyper)
  # box hyperplanes are the least interesting: keep the others first
  for trio in hyper:
    if len(pts) + 3 > budget:
      break
    pts += trio
  return pts[:budget]


def gen_cases(rng, tier):
  ncfg, budget = {'quick': (224, 34), 'thorough': (2240, 70), 'search': (70, 50)}[tier]
  out = []
  for i in range(ncfg):
    cls = CLASSES[i % len(CLASSES)]
    cbk = CBK[(i // len(CLASSES)) % len(CBK)]
    if cls == 'CDevice2' and cbk in ('none', 'overlap'):
      cbk = pick(rng, ['pair', 'single', 'multi'])
    n = 24 if (i % 53 == 52) else None
    if cls == 'SDevice':
      # rate clipping x the sign of the bounds is cycled, not drawn: the clip limits are products of the clip factor, the slot's OWN
      # bound (of either sign) and the state of charge
      k = i // len(CLASSES)
      L = lg.gen_leaf(rng, cls=cls, n=n, cbounds=cbk, sign=['two', 'pos', 'neg'][k % 3])
      L['rate_clip'] = [(F(3, 2), F(2)), None, (F(2), None), (None, F(3, 2)), (F(1), F(1))][k % 5]
      if k % 2 == 0:
        # the rolling-horizon pattern: the constraints are read once, then the start (and other settings) are assigned through the
        # setters, then the constraints are read again - they must be the constraints of the settings the device reports now
        L['post_set'] = sorted(set(['start', 'sustainment'] + (L.get('post_set') or [])))
        L['pwarm'] = True
    else:
      L = lg.gen_leaf(rng, cls=cls, n=n, cbounds=cbk)
    out.append({'leaf': L, 'points': gen_points(rng, L, budget)})
  return out


def impl_eval(d, pts):
  cons = d.constraints
  vals = []
  for x in pts:
    a = np.array(fl(x))
    vals.append([float(c['fun'](a)) for c in cons])
  return cons, vals


def observe(c):
  d = lg.build(c['leaf'])
  cons, vals = impl_eval(d, c['points'])
  types = []
  for k in cons:
    if k['type'] not in ('eq', 'ineq'):
      raise AssertionError('constraint type %r' % (k['type'],))
    types.append(k['type'] == 'eq')
  cb = [] if d.cbounds is None else [(fr(a), fr(b), int(s), int(e)) for a, b, s, e in d.cbounds]
  return {'bounds': [tuple(fr(list(row))) for row in np.array(d.bounds).tolist()], 'cbounds': cb, 'types': types, 'vals': fr(vals)}


def coq_case(c, o):
  pts = [(x, v) for x, v in zip(c['points'], o['vals'])]
  return cq((lg.coq_leafdev(c['leaf']), o['bounds'], [(a, b, N(s), N(e)) for a, b, s, e in o['cbounds']], o['types'], pts))


def nontrivial(c, o):
  return len(o['types']) > 0


def classify(c, o):
  L = c['leaf']
  ks = ['class:' + L['cls'], 'n:%d' % L['n'], 'cbounds:' + str(L.get('cb_kind')), 'constraints:%d' % len(o['types'])]
  if L['cls'] == 'SDevice':
    rc = L['rate_clip'] or (None, None)
    ks.append('rate_clip:%s%s' % ('d' if rc[0] is not None else '-', 'c' if rc[1] is not None else '-'))
    ks.append('lossy' if L['efficiency'] != 1 else 'lossless')
  if L['cls'] == 'ADevice':
    ks.append('user-constraints:%d' % len(L['ucons']))
  nf = sum(1 for x in c['points'] if margin(L, x)[0] >= 0 and margin(L, x)[1] == 0)
  ks.append('has-feasible-point' if nf else 'no-feasible-point')
  if nf < len(c['points']):
    ks.append('has-infeasible-point')
  return ks


def case_to_json(c):
  return {'leaf': lg.leaf_to_json(c['leaf']), 'points': core.jsonable(c['points'])}


def case_from_json(j):
  return {'leaf': lg.leaf_from_json(j['leaf']), 'points': [[F(v) for v in x] for x in j['points']]}


# ---- direct oracle: the implementation's feasibility verdict against the documented set (exact fractions) ------------
TOL = 1e-9
CLEAR = F(1, 10 ** 6)


def impl_verdict(d, cons, x, vals):
  a = np.array(fl(x))
  b = np.array(d.bounds)
  if not (np.all(a >= b[:, 0] - TOL) and np.all(a <= b[:, 1] + TOL)):
    return False
  for k, v in zip(cons, vals):
    if k['type'] == 'eq':
      if abs(v) > TOL:
        return False
    elif v < -TOL:
      return False
  return True


def oracle(c):
  L = c['leaf']
  try:
    d = lg.build(L)
    cons, vals = impl_eval(d, c['points'])
  except Exception as e:
    return 'implementation raised %s: %s' % (type(e).__name__, e)
  for x, v in zip(c['points'], vals):
    got = impl_verdict(d, cons, x, v)
    m, e = margin(L, x)
    if m >= CLEAR and e == 0 and not got:
      return 'flow %s satisfies every documented constraint (smallest slack %.6g) but the exported bounds/constraints reject it' % (fl(x), float(m))
    if (m <= -CLEAR or e >= CLEAR) and got:
      return ('flow %s violates a documented constraint (slack %.6g, equality residual %.6g) but the exported bounds/constraints accept it'
              % (fl(x), float(m), float(e)))
  return None


def shrink(case, why):
  """keep only the first flow on which the verdicts differ"""
  for x in case['points']:
    c1 = {'leaf': case['leaf'], 'points': [x]}
    w = oracle(c1)
    if w:
      return (c1, w)
  return (case, why)


def search(rng, budget, seeds, findings):
  return core.default_search(__import__('c03'), rng, budget, seeds, findings)
