"""C08 - cost is quasi-linear in price, and price broadcasting is consistent (tie O).

The price-free part of every cost is left abstract. What is compared (inside Coq) is
  impl.cost(s,p) - impl.cost(s,0)    with   price_term (tree_shaped d s) (tree_prices d p)      (= sum(S * p*ones(shape)))
  impl.deriv(s,p) - impl.deriv(s,0)  with   tree_prices d p
  impl.hess(s,p)                     with   impl.hess(s,0)
for the logical price in every shape numpy accepts for it (scalar -> scalar, constant vector, constant matrix;
vector -> vector, matrix of equal rows; matrix), on bare atomic devices of every class and on trees.
A change inside a preference cost therefore does not alarm here; a change in how the price enters does."""
import numpy as np
from fractions import Fraction as F
import core
from core import cq, fr, fl, Raw, dy
import leafgen as lg
import treegen as tg

ID = 'C08'
GEN = ['kernels']
# the scalar kernels of functions.py this property's statement depends on (a change confined to the others is not this property's business;
# what its own correspondence compares still is)
KERNELS_USED = []
PROPS = 'Props/C08.v'
MODEL_VO = ['Model/Price.v']
CASE_TYPE = 'c08_case'
CHECKER = 'c08_chk'
SHARD = 60
COQ_PRELUDE = '''From Coq Require Import ZArith QArith List Bool String.
From DK Require Import Num NumQ Vec.
From DK.Model Require Import Leaf Fn Dev Tree Price.
Import ListNotations.
Local Open Scope Q_scope.
'''
RULE = ('cases = (device or tree, in-bounds flow, logical price); bare atomic devices of all 10 classes (leafgen families: scalar/'
        'per-slot parameters, zero-width slots, cbounds forms, storage/thermal parameters, ADevice function compositions) and trees '
        'of depth 1..3 (quick) / 1..4 (thorough) with plain / sub-balanced sets and multi-flow / two-ratio adaptors, n in 1..7; '
        'price kind scalar / vector / matrix x sign positive / negative / mixed; the flow is handed over flat or shaped. Each logical '
        'price is observed in every equivalent shape. Compared in Coq (tol 1e-9 rel+abs): cost difference vs sum(S*P), deriv '
        'difference vs P, hess(s,p) vs hess(s,0), P = p*ones(shape) from Model/Tree.v. Non-trivial: non-zero price and non-zero flow; '
        'distinct by hash of (tree, flow, price).')
EXPLANATION = ('Theorems (Props/C08.v): for every atomic class and every tree (induction on the device tree, any depth/fan-out, '
               'multi-flow adaptors included) cost = cost at zero price + <s,p>, deriv = deriv at zero price + p, Hessians take no '
               'price; scalar/vector/matrix prices broadcast to the same matrix. The correspondence ties "how the price enters" to '
               'the implementation by differences, so leaf preference costs are not re-checked here (C01/C15 do that).')
ASSUMPTIONS = ['numdifftools Hessians (SDevice, TDevice) are compared hess(s,p) vs hess(s,0) only on a subset of cases (cost of the call)']

LEAF_CLASSES = lg.CLASSES
PRICE_KINDS = ['scalar', 'vector', 'matrix']
SIGNS = ['pos', 'neg', 'mixed', 'zerosum']


def gen_price(rng, R, n, kind, sign):
  def one():
    if sign == 'pos':
      return dy(rng, F(1, 4), 3, 2)
    if sign == 'neg':
      return dy(rng, -3, F(-1, 4), 2)
    return dy(rng, -2, 3, 2)
  if sign == 'zerosum':
    # mixed-sign prices whose entries cancel EXACTLY (per row): a price that sums to zero is not a zero price
    def row():
      v = [dy(rng, F(1, 4), 3, 2) * (1 if j % 2 == 0 else -1) for j in range(n)]
      if n >= 2:
        v[-1] = -sum(v[:-1])
        if v[-1] == 0:
          v[0] += F(1, 2); v[-1] -= F(1, 2)
      return v
    if kind == 'scalar' or n < 2:
      kind = 'vector' if n >= 2 else kind
    if kind == 'vector':
      return ('vector', row())
    if kind == 'matrix':
      return ('matrix', [row() for _ in range(R)])
    sign = 'mixed'
  if kind == 'scalar':
    return ('scalar', one())
  if kind == 'vector':
    return ('vector', [one() for _ in range(n)])
  return ('matrix', [[one() for _ in range(n)] for _ in range(R)])


def variants(p, R, n):
  """The same logical price in every shape numpy broadcasts to the same matrix."""
  if p[0] == 'scalar':
    return [p, ('vector', [p[1]] * n), ('matrix', [[p[1]] * n for _ in range(R)])]
  if p[0] == 'vector':
    return [p, ('matrix', [list(p[1]) for _ in range(R)])]
  return [p]


def slow_hess(T):
  return any(L['cls'] in ('SDevice', 'TDevice') for _, _, U in tg.units(T) for L in [U['leaf']])


def gen_cases(rng, tier):
  n_cases = {'quick': 330, 'thorough': 5000, 'search': 120}[tier]
  max_depth = 4 if tier == 'thorough' else 3
  out = []
  for i in range(n_cases):
    kind = PRICE_KINDS[i % 3]
    sign = SIGNS[(i // 3) % 4]
    if i % 5 < 3:
      cls = LEAF_CLASSES[(i // 5) % len(LEAF_CLASSES)]
      # the features whose combinations matter (thermal / storage: flow direction x efficiency) are cycled, not drawn
      L = tg.gen_tree_leaf(rng, cls, lg.pick(rng, lg.LENGTHS), variant=(i % 5) + 3 * ((i // 5) // len(LEAF_CLASSES)))
      L['id'] = 'd'
      T = {'kind': 'leaf', 'id': 'd', 'leaf': L}
    elif i % 5 == 3:
      T = tg.gen_tree(rng, rng.randint(1, max_depth))
    else:
      T = tg.gen_tree(rng, rng.randint(0, 2), p_adaptor=0.8, p_leaf=0.5, lengths=[1, 3, 3, 4, 5])
    if i % 20 == 19:
      # a multi-flow adaptor at top level whose flow matrix is SQUARE (as many conduits as slots), per-slot price vector with distinct
      # entries: a price of length n is one price per SLOT whatever the number of rows
      nn = lg.pick(rng, [2, 2, 3, 4])
      for _ in range(40):
        T = tg.gen_adaptor(rng, nn, set(), conduits=[nn], p_tworatio=(0.3 if nn == 2 else 0.0))
        if tg.rows(T) == nn:
          break
      kind = 'vector'
    R, n = tg.rows(T), tg.length(T)
    S = tg.gen_matrix(rng, T)
    if T['kind'] == 'leaf' and T['leaf']['cls'] in ('TDevice', 'SDevice') and i % 2 == 0:
      # a two-way device is observed at a flow with entries of BOTH signs (the price must reach every slot whatever its direction)
      two = [j for j, (lo, hi) in enumerate(T['leaf']['bounds']) if lo < 0 < hi]
      for k, j in enumerate(two):
        lo, hi = T['leaf']['bounds'][j]
        S[0][j] = lo / 2 if k % 2 == 0 else hi / 2
    hess = (not slow_hess(T)) or rng.random() < (0.15 if tier != 'thorough' else 0.05)
    price = gen_price(rng, R, n, kind, sign)
    if i % 20 == 19 and price[0] == 'vector' and len(set(price[1])) < len(price[1]):
      price = ('vector', [v + F(j, 8) for j, v in enumerate(price[1])])
    # the FORM in which the caller hands the price over: float ndarray, (nested) Python list, whole numbers as an integer ndarray
    # or as (nested lists of) Python ints
    pform = 'nd'
    if i % 8 == 2:
      pform = 'list'
    elif i % 8 in (5, 6):
      pform = 'int' if i % 8 == 5 else 'intlist'
      w = lambda v: [w(x) for x in v] if isinstance(v, list) else (F(int(v)) if int(v) != 0 else F(1 if v >= 0 else -1))
      price = (price[0], w(price[1]))
    out.append({'tree': T, 'S': S, 'flat': rng.random() < 0.5, 'price': price, 'hess': hess, 'pform': pform})
  return out


def _flow(c):
  S = np.array(fl(c['S']))
  if c['tree']['kind'] == 'leaf':
    return S.reshape(-1) if c['flat'] else S
  return S.reshape(-1) if c['flat'] else S


def _hess(d, s, p):
  """('ok', matrix) or ('raise', exception class name): where the Hessian itself is undefined (e.g. IDevice with a=0, b<2 on
  the upper bound: 0.0**(b-2)) that is C10/C14's business; C08 only asks that the outcome does not depend on the price."""
  try:
    return ('ok', np.array(d.hess(s, p), dtype=float))
  except Exception as e:
    return ('raise', type(e).__name__)


def observe(c):
  T = c['tree']
  R, n = tg.rows(T), tg.length(T)
  d = tg.build_tree(T)
  s = _flow(c)
  c0 = fr(d.cost(s, 0))
  g0 = fr(np.array(d.deriv(s, 0)).reshape(R, n))
  H0 = _hess(d, s, 0) if c['hess'] else None
  h0 = fr(H0[1]) if H0 and H0[0] == 'ok' else None
  obs = []
  for v in variants(c['price'], R, n):
    p = tg.py_price(v, c.get('pform', 'nd'))
    cp = fr(core.maybe_stale(c, d.cost, s, p))
    # cost(s,p) - cost(s,0) is computed from two floats: it cannot resolve less than a few units in the last place of those
    if 32 * np.finfo(float).eps * max(abs(float(cp)), abs(float(c0))) > 1e-9 * (1 + abs(float(cp - c0))):
      raise core.SkipCase('price part below the float resolution of the cost')
    gp = fr(np.array(core.maybe_stale(c, d.deriv, s, p)).reshape(R, n))
    hp = None
    if c['hess']:
      Hp = _hess(d, s, p)
      if Hp[0] != H0[0] or (Hp[0] == 'raise' and Hp[1] != H0[1]):
        raise RuntimeError('hess(s,p) outcome %r differs from hess(s,0) outcome %r' % (Hp[:2] if Hp[0] == 'raise' else 'ok', H0[:2] if H0[0] == 'raise' else 'ok'))
      hp = fr(Hp[1]) if Hp[0] == 'ok' else None
    obs.append({'p': v, 'dcost': cp - c0, 'dderiv': [[a - b for a, b in zip(ra, rb)] for ra, rb in zip(gp, g0)], 'hess': hp})
  return {'obs': obs, 'h0': h0}


def coq_case(c, o):
  T = c['tree']
  flat = [v for r in c['S'] for v in r]
  h0 = o['h0'] if o['h0'] is not None else []
  obs = [(tg.coq_price(x['p']), x['dcost'], x['dderiv'], x['hess'] if x['hess'] is not None else []) for x in o['obs']]
  return cq((tg.coq_tree(T), flat, obs, h0))


def nontrivial(c, o):
  P = tg.price_matrix(c['price'], tg.rows(c['tree']), tg.length(c['tree']))
  return any(v != 0 for r in P for v in r) and any(v != 0 for r in c['S'] for v in r)


def classify(c, o):
  T = c['tree']
  ks = ['price:' + c['price'][0], 'priceform:' + c.get('pform', 'nd'), 'n:%d' % tg.length(T), 'rows:%d' % min(tg.rows(T), 9), 'flow:' + ('flat' if c['flat'] else 'shaped')]
  P = [v for r in tg.price_matrix(c['price'], tg.rows(T), tg.length(T)) for v in r]
  ks.append('sign:' + ('pos' if all(v > 0 for v in P) else 'neg' if all(v < 0 for v in P) else 'mixed'))
  if T['kind'] == 'leaf':
    ks.append('leaf:' + T['leaf']['cls'])
  else:
    ks.append('tree-depth:%d' % tg.depth(T))
    ks += ['node:' + k for k in tg.kinds(T)]
    ks += ['tree-leaf:' + U['leaf']['cls'] for _, _, U in tg.units(T)]
  if c['hess']:
    ks.append('hess-compared')
  return sorted(set(ks))


def case_to_json(c):
  return {'tree': tg.tree_to_json(c['tree']), 'S': tg.matrix_to_json(c['S']), 'flat': c['flat'],
          'price': tg.price_to_json(c['price']), 'hess': c['hess'], 'pform': c.get('pform', 'nd')}


def case_from_json(j):
  return {'tree': tg.tree_from_json(j['tree']), 'S': tg.matrix_from_json(j['S']), 'flat': bool(j['flat']),
          'price': tg.price_from_json(j['price']), 'hess': bool(j.get('hess', True)), 'pform': j.get('pform', 'nd')}


# ---- direct oracle on the implementation (floats only, no Coq model) -------------------------------------------------
def oracle(c):
  T = c['tree']
  R, n = tg.rows(T), tg.length(T)
  try:
    d = tg.build_tree(T)
    s = _flow(c)
    S = np.array(fl(c['S'])).reshape(R, n)
    P = np.array(fl(tg.price_matrix(c['price'], R, n)))
    c0 = float(d.cost(s, 0))
    g0 = np.array(d.deriv(s, 0), dtype=float).reshape(R, n)
    H0 = _hess(d, s, 0) if c['hess'] else None
    h0 = H0[1] if H0 and H0[0] == 'ok' else None
    want = float((S * P).sum())
    for v in variants(c['price'], R, n):
      p = tg.py_price(v, c.get('pform', 'nd'))
      dc = float(core.maybe_stale(c, d.cost, s, p)) - c0
      if abs(dc - want) > 1e-7 * (1 + abs(want) + abs(c0)):
        return 'cost(s,p) - cost(s,0) = %r but sum(s*p) = %r for the %s price %s' % (dc, want, v[0], core.jsonable(v[1]))
      dg = np.array(core.maybe_stale(c, d.deriv, s, p), dtype=float).reshape(R, n) - g0
      if not np.all(np.abs(dg - P) <= 1e-7 * (1 + np.abs(P) + np.abs(g0))):
        k = np.unravel_index(np.argmax(np.abs(dg - P)), P.shape)
        return 'deriv(s,p) - deriv(s,0) is %r at %s where the price is %r (%s price)' % (float(dg[k]), tuple(int(x) for x in k), float(P[k]), v[0])
      if c['hess']:
        Hp = _hess(d, s, p)
        if Hp[0] != H0[0] or (Hp[0] == 'raise' and Hp[1] != H0[1]):
          return 'hess(s,p) %s but hess(s,0) %s (%s price)' % (Hp[0] if Hp[0] == 'ok' else 'raises ' + Hp[1], H0[0] if H0[0] == 'ok' else 'raises ' + H0[1], v[0])
        if Hp[0] == 'ok' and (Hp[1].shape != h0.shape or not np.all(np.abs(Hp[1] - h0) <= 1e-9 * (1 + np.abs(h0)))):
          return 'hess(s,p) differs from hess(s,0) for the %s price %s' % (v[0], core.jsonable(v[1]))
  except Exception as e:
    return 'implementation raised %s: %s' % (type(e).__name__, str(e)[:200])
  return None


def shrink(c, why):
  """Try the behavioural units (leaves / adaptors) of the tree on their own rows, then smaller prices."""
  T = c['tree']
  if T['kind'] not in ('leaf', 'mf', 'tworatio'):
    R, n = tg.rows(T), tg.length(T)
    P = tg.price_matrix(c['price'], R, n)
    for off, r, U in tg.units(T):
      sub = {'tree': U, 'S': c['S'][off:off + r], 'flat': c['flat'], 'price': ('matrix', P[off:off + r]), 'hess': c['hess'], 'pform': c.get('pform', 'nd')}
      w = oracle(sub)
      if w:
        return shrink(sub, w)
    for k in T['kids']:
      pass
  return (c, why)


def search(rng, budget, seeds, findings):
  return core.default_search(__import__('c08'), rng, budget, seeds, findings)
