"""C06 - every supplied constraint Jacobian is the gradient of its constraint function."""
import numpy as np
from fractions import Fraction as F
import core
from core import cq, fr, fl, Raw, Some
import leafgen as lg
import treegen as tg

ID = 'C06'
GEN = ['kernels', 'constraints', 'utils']
# the scalar kernels of functions.py this property's statement depends on (a change confined to the others is not this property's business;
# what its own correspondence compares still is)
KERNELS_USED = []
PROPS = 'Props/C06.v'
MODEL_VO = ['Model/Tree.v']
SHARD = 60
CASE_TYPE = 'dev Q * list Q * list (bool * Q * option (list Q))'
CHECKER = 'chk'
COQ_PRELUDE = '''From Coq Require Import ZArith QArith List Bool String.
From DK Require Import Num NumQ Vec.
From DK.Model Require Import Leaf Fn Dev Tree.
Import ListNotations.
Local Open Scope Q_scope.
Definition optclose (a b : option (list Q)) : bool :=
  match a, b with Some x, Some y => Qclose_list Qtol x y | None, None => true | _, _ => false end.
Fixpoint cons_ok (x : list Q) (cs : list (con Q)) (ic : list (bool * Q * option (list Q))) : bool :=
  match cs, ic with
  | [], [] => true
  | c :: cs', (e, v, j) :: ic' =>
      Bool.eqb (c_eq c) e && Qclose Qtol (c_fun c x) v
      && optclose (match c_jac c with Some f => Some (f x) | None => None end) j && cons_ok x cs' ic'
  | _, _ => false
  end.
Definition chk (c : dev Q * list Q * list (bool * Q * option (list Q))) : bool :=
  let '(d, x, ic) := c in cons_ok x (tree_cons d) ic.
'''
RULE = ('cases = (leaf, adaptor or tree of depth <= 2 (thorough <= 3) incl. sub-balanced sets, multi-flow and two-ratio adaptors, '
        'aggregate bounds none/ineq/eq/mixed, cumulative bounds single/multi/overlapping, storage with eff/sustainment < 1, ADevice user '
        'constraints with and without jac; flat in-bounds flow away from the charge/discharge kink). Observed: the exported constraint '
        'list: (type, fun(x), jac(x) or absent), compared entry by entry with the model tree_cons inside Coq (tol 1e-9). '
        'Non-trivial: at least one constraint supplies a Jacobian; distinct by hash of (tree, flow).')
EXPLANATION = ('Props/C06.v: Jacobian = gradient for every leaf constraint, for re-wrapping with zero padding, aggregate-bound, ratio and '
               'multi-flow constraints, and by induction for every constraint of every tree (Coquelicot is_derive, all sizes). '
               'Model/Tree.v and Model/Dev.v are tied to the code by this correspondence.')


def gen_cases(rng, tier):
  n = {'quick': 220, 'thorough': 4000, 'search': 60}[tier]
  maxd = 3 if tier == 'thorough' else 2
  out = []
  for i in range(n):
    T = tg.gen_tree(rng, rng.randint(0, maxd))
    S = tg.gen_matrix(rng, T, 'interior')
    out.append({'tree': T, 'x': [v for row in S for v in row]})
  return out


def observe(c):
  d = tg.build_tree(c['tree'])
  x = np.array(fl(c['x']))
  out = []
  # one exported list is evaluated at many flows by a solver: for two thirds of the cases every function and Jacobian has been called
  # before with OTHER values in the same caller buffer (core.maybe_stale), so nothing may be remembered from an earlier evaluation
  for con in d.constraints:
    v = fr(np.array(core.maybe_stale(c, con['fun'], x)).reshape(-1)[0])
    j = None
    if 'jac' in con:
      j = fr(np.array(core.maybe_stale(c, con['jac'], x), dtype=float).reshape(-1))
    out.append((con['type'] == 'eq', v, j))
  return {'cons': out}


def coq_case(c, o):
  cons = [(e, v, Raw('None') if j is None else Some(j)) for e, v, j in o['cons']]
  return cq((tg.coq_tree(c['tree']), c['x'], cons))


def nontrivial(c, o):
  return any(j is not None for _, _, j in o['cons'])


def classify(c, o):
  T = c['tree']
  ks = ['depth:%d' % tg.depth(T), 'rows:%d' % min(tg.rows(T), 9), 'n:%d' % tg.length(T), 'ncons:%d' % min(len(o['cons']) // 5 * 5, 40)]
  ks += ['kind:' + k for k in sorted(tg.kinds(T))]
  return ks


def case_to_json(c):
  return {'tree': tg.tree_to_json(c['tree']), 'x': core.jsonable(c['x'])}


def case_from_json(j):
  return {'tree': tg.tree_from_json(j['tree']), 'x': [F(v) for v in j['x']]}


def near_kink(T, x):
  """Is some storage/thermal unit's (total) flow within 2^-6 of zero while lossy?"""
  n = tg.length(T)
  R = tg.rows(T)
  S = [x[i * n:(i + 1) * n] for i in range(R)]
  for off, r, U in tg.units(T):
    L = U['leaf']
    if lg.kink_free(L):
      tot = [sum(S[off + a][i] for a in range(r)) for i in range(n)]
      if any(abs(v) < F(1, 64) for v in tot):
        return True
  return False


def oracle(c, h=2.0 ** -10):
  """Central differences of every constraint function against its Jacobian, on the implementation alone."""
  try:
    d = tg.build_tree(c['tree'])
    x = np.array(fl(c['x']))
    N = len(x)
    if near_kink(c['tree'], c['x']):
      return None
    for ci, con in enumerate(d.constraints):
      if 'jac' not in con:
        continue
      # the same calling mode as observe(): a solver evaluates one exported list at many flows
      J = np.array(core.maybe_stale(c, con['jac'], x), dtype=float).reshape(-1)
      if J.shape != (N,):
        return 'constraint %d: Jacobian has %d entries for %d flow variables' % (ci, J.size, N)
      f = lambda y: float(np.array(con['fun'](y)).reshape(-1)[0])
      for k in range(N):
        e = np.zeros(N); e[k] = h
        num = (f(x + e) - f(x - e)) / (2 * h)
        if abs(num - J[k]) > 1e-6 * (1 + abs(num)):
          return 'constraint %d, variable %d: Jacobian entry %.9g but the central difference of the constraint function is %.9g' % (ci, k, J[k], num)
  except Exception as e:
    return 'implementation raised %s: %s' % (type(e).__name__, e)
  return None


def search(rng, budget, seeds, findings):
  return core.default_search(__import__('c06'), rng, budget, seeds, findings)
