"""C16 - serialisation round-trip: cls.from_dict(d.to_dict()) succeeds and preserves fields and behaviour.

Tie T: Gen/Signatures.v is regenerated from every __init__ / _keys / to_dict of /repo; Props/C16.v proves the round-trip
lemma for every class of that table.  Tie H (this file): for every class x every constructor argument set to a non-default
value (one at a time and all together; exhaustive over the argument lists read from the generated table), the
implementation's dump is compared inside Coq with the key set the model predicts (Model/Serial.v: dumped), and the
rebuilt object's fields and cost / marginal cost / constraint fingerprints are compared inside Coq with the original's.
Sets are rebuilt both directly (the dump holds the child objects) and recursively (children rebuilt from their own dumps);
random trees from treegen are added on top.
"""
import json
import random
import warnings
from fractions import Fraction as F

import numpy as np

import core
from core import cq, fr, Raw

ID = 'C16'
GEN = ['signatures']
PROPS = 'Props/C16.v'
MODEL_VO = ['Model/Serial.v']
CASE_TYPE = 'classsig * list string * list string * bool * list (option Q) * list (option Q)'
CHECKER = 'chk'
EXHAUSTIVE = True
COQ_PRELUDE = r'''From Coq Require Import String ZArith QArith List Bool.
From DK Require Import Num NumQ.
From DK.Gen Require Import Signatures.
From DK.Model Require Import Serial.
Import ListNotations.
Local Open Scope string_scope.
Definition subset (l m : list string) : bool := forallb (mem m) l.
Definition oq_eqb (a b : option Q) : bool :=
  match a, b with Some u, Some v => Qeq_bool u v | None, None => true | _, _ => false end.
Fixpoint fp_eqb (l m : list (option Q)) : bool :=
  match l, m with [], [] => true | a :: l', b :: m' => oq_eqb a b && fp_eqb l' m' | _, _ => false end.
(* (signature, keywords passed, keys the implementation dumped, rebuilt-and-fields-equal, fingerprint before, fingerprint after) *)
Definition chk (c : classsig * list string * list string * bool * list (option Q) * list (option Q)) : bool :=
  let '(s, passed, keys, same, fp1, fp2) := c in
  subset (dumped s passed) keys && subset keys (dumped s passed) && same && fp_eqb fp1 fp2
  && match fp1 with [] => false | _ => true end.
'''
RULE = ''
EXPLANATION = ('Theorems (Props/C16.v): the generic round-trip lemma over constructor signatures and dump keys, and - by computation over the '
               'finite table regenerated from the source - its hypotheses for every shipped class, hence field preservation for every class and every '
               'accepted keyword set. The correspondence ties the table to the implementation (predicted dump keys = actual dump keys) and measures '
               'what the lemma assumes per attribute (reading an attribute of the rebuilt object gives the dumped value) and what it implies '
               '(equal cost / marginal cost / constraint values).')
ASSUMPTIONS = ['an attribute read is an idempotent normalisation of the supplied value (measured per attribute by the correspondence)',
               'parameters are given to the constructor; attributes assigned through setters after construction are not serialised (documented design of Device.__init__)']
warnings.simplefilter('ignore')

PENDING = []     # findings reported by this check that are not yet in known_findings.json (none at the moment)


def open_ids():
  return {f.get('id') for f in core.load_findings(ID)} | {p['id'] for p in PENDING}


# ---------------------------------------------------------------------------------------------------
# configurations: class -> (required kwargs, [(optional name, [non-default values])])
# values are thunks (fresh objects per build)
# ---------------------------------------------------------------------------------------------------
def _c1():
  return {'type': 'ineq', 'fun': lambda s: float(np.array(s).reshape(-1).sum() - 1), 'jac': lambda s: np.ones(np.array(s).size)}


def _fn():
  from device_kit.functions import Poly2D
  return Poly2D([[1., 0., 0.], [.5, 1., 0.], [0., 2., 1.]])


def leaf_specs():
  T = lambda: np.array([[0., 1.], [0., 2.], [1., 3.]])
  NEG = lambda: np.array([[-1., 0.], [-2., 0.], [-3., -1.]])
  base = lambda b: {'id': lambda: 'dev1', 'length': lambda: 3, 'bounds': b}
  cb = ('cbounds', [lambda: (1., 4.), lambda: [(0., 2., 0, 2), (1., 3., 2, 3)]])
  meta = ('note', [lambda: 5])
  thermal = {'sustainment': lambda: .5, 'efficiency': lambda: 2., 't_init': lambda: 10., 't_optimal': lambda: 20., 't_range': lambda: 4.,
             't_external': lambda: [10., 12., 8.]}
  return {
    'Device': (base(T), [cb, meta, ('bounds', [lambda: (0., 2.), lambda: [[0., 1., 2.], [1., 2., 3.]]]), ('id', [lambda: 'x-2']), ('length', [lambda: 2])]),
    'CDevice': (base(T), [cb, meta, ('a', [lambda: -.5]), ('b', [lambda: 2.])]),
    'CDevice2': (dict(base(T), cbounds=lambda: None), [('cbounds', [lambda: (1., 4.), lambda: [(.5, 2., 0, 2), (1., 3., 2, 3)]]), meta,
                                                       ('p_l', [lambda: -2.]), ('p_h', [lambda: -.5])]),
    'IDevice': (base(T), [cb, meta, ('a', [lambda: .25, lambda: [.25, 0., .5]]), ('b', [lambda: 3., lambda: [1., 2., 3.]]), ('c', [lambda: 2., lambda: [0., 1., 2.]])]),
    'IDevice2': (base(T), [cb, meta, ('p_l', [lambda: -2., lambda: np.array([-2., -1., -3.])]), ('p_h', [lambda: -.5, lambda: [-.5, -.25, 0.]])]),
    'GDevice': (base(NEG), [('cbounds', [lambda: (-4., -2.)]), meta, ('cost_coeffs', [lambda: [1., 1., 0.], lambda: [[1., 1., 0.], [2., 0., 1.], [0., 1., 0.]]])]),
    'PVDevice': (base(NEG), [('cbounds', [lambda: (-4., -2.)]), meta]),
    'SDevice': (base(lambda: (-2., 2.)), [('cbounds', [lambda: (-1., 4.)]), meta, ('c1', [lambda: 2.]), ('c2', [lambda: .5]), ('c3', [lambda: 1.5]),
                                         ('capacity', [lambda: 8.]), ('damage_depth', [lambda: .25]), ('start', [lambda: .5]), ('reserve', [lambda: .25]),
                                         ('efficiency', [lambda: .75]), ('sustainment', [lambda: .5]),
                                         ('rate_clip', [lambda: (1., None), lambda: (1.5, 2.), lambda: 2.])]),
    'TDevice': (dict(base(lambda: (0., 2.)), **thermal), [cb, meta, ('c', [lambda: 2., lambda: [1., 0., 2.]]), ('efficiency', [lambda: -2.]),
                                                          ('sustainment', [lambda: 1.]), ('t_range', [lambda: 0.])]),
    'ADevice': (base(T), [cb, meta, ('f', [_fn]), ('constraints', [lambda: [_c1()]])]),
    'WindowDevice': (dict(base(lambda: (.5, 2.)), w=lambda: 2.), [cb, ('c', [lambda: 3.]), ('w', [lambda: 1.])]),
  }


def kids():
  import device_kit as dk
  return [dk.Device('a', 3, (0., 1.)), dk.CDevice('b-e', 3, (0., 2.), None, a=-1.), dk.SDevice('c', 3, (-1., 1.), None, c1=.5, capacity=4., start=.5)]


def set_specs():
  import device_kit as dk
  wrapped = lambda: dk.IDevice('w', 3, (0., 2.), (1., 5.), a=.5, b=2., c=1.)
  return {
    'DeviceSet': ({'id': lambda: 'set1', 'devices': kids}, [('sbounds', [lambda: (-1., 3.), lambda: np.array([[0., 1.], [0., 0.], [-1., 2.]])]), ('id', [lambda: 'other'])]),
    'SubBalancedDeviceSet': ({'id': lambda: 'set1', 'devices': kids},
                             [('sbounds', [lambda: (-1., 3.)]), ('labels', [lambda: ['e'], lambda: ['a', 'e']]), ('constraint_type', [lambda: 'ineq']),
                              ('sign', [lambda: -1]), ('apply_to_remaining', [lambda: True])]),
    'MFDeviceSet': ({'device': wrapped, 'flows': lambda: ['e', 'h']}, [('flows', [lambda: ['e'], lambda: ['e', 'h', 'g']]),
                                                                       ('device', [lambda: dk.PVDevice('pv', 3, (-2., 0.))])]),
    'TwoRatioMFDeviceSet': ({'device': wrapped, 'flows': lambda: ['e', 'h'], 'ratios': lambda: [1., 2.]},
                            [('ratios', [lambda: [.5, -1.]]), ('constraint_type', [lambda: 'ineq'])]),
  }


def all_configs():
  """(class, [(keyword, value index or None for the base value)]) ... : base, each optional singly (each value), all optionals together"""
  out = []
  specs = dict(leaf_specs())
  specs.update(set_specs())
  for cls, (base, opts) in specs.items():
    out.append((cls, []))
    for name, vals in opts:
      for k in range(len(vals)):
        out.append((cls, [(name, k)]))
    out.append((cls, [(name, 0) for name, vals in opts]))
    if len(opts) > 1:
      out.append((cls, [(name, len(vals) - 1) for name, vals in opts]))
  return out


def build_kwargs(cls, choice):
  specs = dict(leaf_specs())
  specs.update(set_specs())
  base, opts = specs[cls]
  kw = {k: v() for k, v in base.items()}
  od = dict(opts)
  for name, k in choice:
    kw[name] = od[name][k]()
  if 'length' in kw and cls == 'Device' and kw['length'] == 2:
    b = np.array(kw['bounds'])
    kw['bounds'] = b[:2] if b.shape == (3, 2) else (b[:, :2] if b.shape == (2, 3) else kw['bounds'])
    if 'cbounds' in kw and isinstance(kw['cbounds'], list):
      kw['cbounds'] = [(0., 2., 0, 1), (1., 3., 1, 2)]
  return kw


# ---------------------------------------------------------------------------------------------------
# comparison of attribute values, fingerprints
# ---------------------------------------------------------------------------------------------------
def same_value(a, b, probes):
  import device_kit as dk
  if a is b:
    return True
  if isinstance(a, dk.BaseDevice) or isinstance(b, dk.BaseDevice):
    return False                    # dumped child objects must be handed over as they are
  if isinstance(a, dict) and isinstance(b, dict):
    if set(a.keys()) != set(b.keys()):
      return False
    for k in a:
      if callable(a[k]):
        if not all(np.allclose(np.array(a[k](s), dtype=float), np.array(b[k](s), dtype=float)) for s in probes):
          return False
      elif a[k] != b[k]:
        return False
    return True
  if callable(a) and not isinstance(a, np.ndarray):
    return type(a) is type(b) and all(np.allclose(float(a(s)), float(b(s))) for s in probes)
  if isinstance(a, (list, tuple)) and isinstance(b, (list, tuple)) and any(isinstance(e, (dict, dk.BaseDevice)) or callable(e) for e in list(a) + list(b)):
    return len(a) == len(b) and all(same_value(x, y, probes) for x, y in zip(a, b))
  try:
    x, y = np.array(a, dtype=object), np.array(b, dtype=object)
  except ValueError:
    return len(a) == len(b) and all(same_value(u, v, probes) for u, v in zip(a, b))
  if x.shape != y.shape:
    return False
  return all((u is None and v is None) or (u is not None and v is not None and (u == v or float(u) == float(v))) for u, v in zip(x.reshape(-1), y.reshape(-1)))


def probe_flows(d):
  lo, hi = np.array(d.lbounds, dtype=float), np.array(d.hbounds, dtype=float)
  w = hi - lo
  return [(lo + w * .5).reshape(d.shape), (lo + w * .25 + 1. / 16).reshape(d.shape)]


def fingerprint(d):
  out = []
  n = len(d)

  def put(v):
    for e in np.array(v, dtype=float).reshape(-1):
      out.append(F(float(e)) if np.isfinite(e) else None)
  flows = probe_flows(d)
  prices = [np.zeros(n), np.array([(.5 - .25 * k) for k in range(n)])]
  for s in flows:
    for p in prices:
      put(d.cost(s, p))
      put(d.deriv(s, p))
  cons = d.constraints
  out.append(F(len(cons)))
  for c in cons:
    out.append(F(1 if c['type'] == 'eq' else 0))
    for s in flows:
      put(c['fun'](s.reshape(-1) if d.shape[0] > 1 else s.reshape(n)))
  put(d.bounds)
  out.append(F(len(d)))
  return out


def roundtrip(cls_name, d, deep=False):
  """-> (rebuilt object, dumped dict)"""
  import device_kit as dk
  dd = d.to_dict()
  if deep:
    if 'devices' in dd:
      dd = dict(dd, devices=[roundtrip(type(c).__name__, c, True)[0] for c in dd['devices']])
    if 'device' in dd:
      dd = dict(dd, device=roundtrip(type(dd['device']).__name__, dd['device'], True)[0])
  return getattr(dk, cls_name).from_dict(dd), dd


def observe_obj(cls_name, d, passed, deep):
  import device_kit as dk
  fp1 = fingerprint(d)
  d2, dd = roundtrip(cls_name, d, deep)
  probes = [s.reshape(-1) if d.shape[0] > 1 else s.reshape(len(d)) for s in probe_flows(d)]
  diffs = []
  dd2 = d2.to_dict()
  if set(dd2.keys()) != set(dd.keys()):
    diffs.append('dump keys %s -> %s' % (sorted(dd.keys()), sorted(dd2.keys())))
  for k in dd:
    if k in dd2:
      a, b = dd[k], dd2[k]
      if deep and k in ('devices', 'device'):
        continue
      if not same_value(a, b, probes):
        diffs.append(k)
  for k in sorted(set(passed) | set(dd.keys())):       # the attributes themselves, not only what to_dict says about them
    if deep and k in ('devices', 'device'):
      continue
    try:
      a = getattr(d, k)
    except AttributeError:
      continue
    try:
      b = getattr(d2, k)
    except AttributeError:
      diffs.append('attribute ' + k)
      continue
    if not same_value(a, b, probes) and ('attribute ' + k) not in diffs:
      diffs.append('attribute ' + k)
  if d2.id != d.id or len(d2) != len(d) or d2.shape != d.shape:
    diffs.append('id/length/shape')
  if not same_value(d.bounds, d2.bounds, probes):
    diffs.append('bounds')
  if hasattr(d, 'cbounds') and not same_value(getattr(d, 'cbounds', None), getattr(d2, 'cbounds', None), probes):
    diffs.append('cbounds')
  return {'keys': sorted(dd.keys()), 'passed': passed, 'same': not diffs, 'diffs': diffs, 'fp1': fp1, 'fp2': fingerprint(d2)}


# ---------------------------------------------------------------------------------------------------
# harness interface
# ---------------------------------------------------------------------------------------------------
def in_pending(c):
  if 'adevice-constraints-accumulate' not in open_ids():
    return False
  if c['kind'] == 'cfg':
    return c.get('cls') == 'ADevice' and {'cbounds', 'constraints'} <= {k for k, _ in c.get('choice', [])}
  if not c.get('deep'):
    return False                    # the children of a directly rebuilt set are the same objects
  import treegen as tg
  return any(L['cls'] == 'ADevice' and L.get('cbounds') for _, L in leaves_of(tree_of(c)))   # leafgen always passes constraints=[...]


def leaves_of(T):
  if 'leaf' in T:
    return [(T['id'], T['leaf'])]
  return [x for k in T.get('kids', []) for x in leaves_of(k)]


def gen_cases(rng, tier):
  global RULE
  out = []
  for cls, choice in all_configs():
    out.append({'kind': 'cfg', 'cls': cls, 'choice': choice, 'deep': False})
    if cls in set_specs():
      out.append({'kind': 'cfg', 'cls': cls, 'choice': choice, 'deep': True})
  out = [c for c in out if not in_pending(c)]
  ncfg = len(out)
  ntree = {'quick': 40, 'thorough': 600, 'search': 30}[tier]
  try:
    import treegen as tg
    for k in range(ntree):
      seed = rng.randrange(1 << 30)
      c = {'kind': 'tree', 'seed': seed, 'depth': 1 + k % 3, 'deep': bool(k % 2)}
      if not in_pending(c):
        out.append(c)
  except ImportError:
    ntree = 0
  RULE = ('exhaustive over the constructor arguments: for each of the 15 classes the required arguments alone, every further argument (and one extra '
          'keyword where the class takes **kwargs) set to each of 1-3 non-default values one at a time, and all of them together (%d configurations; sets '
          'both with the dumped child objects and with recursively rebuilt children); plus %d random trees from treegen (depth 1-3) round-tripped at the '
          'root. Compared in Coq: dump keys vs Model/Serial.v:dumped on the generated signature, the rebuild succeeded with equal id / length / shape / '
          'bounds / cbounds / every dumped attribute, and exact equality of the fingerprints (cost and marginal cost at 2 flows x 2 prices, number and '
          'values of the constraints, bounds table). Non-trivial: at least one non-required argument was passed or the object is a set.' % (ncfg, ntree))
  return out


def tree_of(c):
  import treegen as tg
  rng = random.Random(c['seed'])
  T = tg.gen_tree(rng, c['depth'])
  for _, L in leaves_of(T):
    L.pop('post_set', None)      # every parameter through the constructor: attributes assigned after construction are not dumped, by design (Device.__init__ docstring)
  return T


def observe(c):
  if c['kind'] == 'cfg':
    import device_kit as dk
    kw = build_kwargs(c['cls'], c['choice'])
    d = getattr(dk, c['cls'])(**kw)
    o = observe_obj(c['cls'], d, sorted(kw.keys()), c['deep'])
    o['sig'] = c['cls']
    return o
  import treegen as tg
  T = tree_of(c)
  d = tg.build_tree(T)
  cls = type(d).__name__
  passed = {'DeviceSet': ['id', 'devices', 'sbounds'], 'SubBalancedDeviceSet': ['id', 'devices', 'sbounds', 'labels', 'constraint_type', 'sign', 'apply_to_remaining'],
            'MFDeviceSet': ['device', 'flows'], 'TwoRatioMFDeviceSet': ['device', 'flows', 'ratios', 'constraint_type']}.get(cls)
  if passed is None:
    passed = sorted(d.to_dict().keys())
  o = observe_obj(cls, d, passed, c['deep'])
  o['sig'] = cls
  return o


def coq_case(c, o):
  fp = lambda l: '[' + '; '.join('None' if v is None else '(Some %s)' % cq(v) for v in l) + ']'
  return '(sig_%s, %s, %s, %s, %s, %s)' % (o['sig'], cq(o['passed']), cq(o['keys']), cq(bool(o['same'])), fp(o['fp1']), fp(o['fp2']))


def nontrivial(c, o):
  return c['kind'] == 'tree' or bool(c['choice']) or c['cls'] in set_specs()


def classify(c, o):
  ks = ['class:' + o['sig'], 'kind:' + c['kind'], 'deep' if c.get('deep') else 'direct']
  if c['kind'] == 'cfg':
    ks += ['arg:%s.%s' % (c['cls'], k) for k, _ in c['choice']]
  return ks


def case_to_json(c):
  return json.loads(json.dumps(c))


def case_from_json(j):
  c = dict(j)
  if 'choice' in c:
    c['choice'] = [tuple(x) for x in c['choice']]
  return c


def finding_matches(f, c):
  return f.get('id') == 'adevice-constraints-accumulate' and in_pending(c)


def oracle(c):
  """the property on the implementation alone: rebuild succeeds, fields and fingerprints are equal"""
  if in_pending(c):
    return None
  try:
    o = observe(c)
  except Exception as e:
    return 'round trip of %s raised %s: %s' % (json.dumps(case_to_json(c)), type(e).__name__, str(e)[:200])
  what = '%s%s' % (o['sig'], (' ' + json.dumps(c.get('choice'))) if c['kind'] == 'cfg' else ' (tree seed %d)' % c['seed'])
  if not o['same']:
    return '%s: from_dict(to_dict()) differs in %s' % (what, ', '.join(o['diffs']))
  if len(o['fp1']) != len(o['fp2']):
    return '%s: the rebuilt object has a different number of constraints / fingerprint entries (%d vs %d)' % (what, len(o['fp1']), len(o['fp2']))
  for k, (a, b) in enumerate(zip(o['fp1'], o['fp2'])):
    if a != b:
      return '%s: fingerprint entry %d differs after the round trip (%r vs %r)' % (what, k, core.jsonable(a), core.jsonable(b))
  return None


def search(rng, budget, seeds, findings):
  return core.default_search(__import__('c16'), rng, budget, seeds, findings + PENDING)
