"""C20 - scenario helpers decode run-length / care / on-off specs to the table denoted."""
import copy
import numpy as np
from fractions import Fraction as F
import core
from core import cq, fr, fl, Raw, N, Some, C, dy

ID = 'C20'
GEN = ['kernels', 'loaders']
# the scalar kernels of functions.py this property's statement depends on (a change confined to the others is not this property's business;
# what its own correspondence compares still is)
KERNELS_USED = []
PROPS = 'Props/C20.v'
MODEL_VO = ['Model/Loader.v']
SHARD = 60
CASE_TYPE = 'c20case'
CHECKER = 'chk'
COQ_PRELUDE = '''From Coq Require Import ZArith QArith List Bool Arith String.
From DK Require Import Num NumQ Vec.
From DK.Model Require Import Leaf Loader.
Import ListNotations.
Local Open Scope Q_scope.
Fixpoint all2 {B C} (f : B -> C -> bool) (l : list B) (m : list C) : bool :=
  match l, m with
  | [], [] => true
  | x :: l', y :: m' => f x y && all2 f l' m'
  | _, _ => false
  end.
Definition opt_eqb {B C} (f : B -> C -> bool) (a : option B) (b : option C) : bool :=
  match a, b with Some x, Some y => f x y | None, None => true | _, _ => false end.
Definition pair_eqb (a b : Q * Q) : bool := Qeq_bool (fst a) (fst b) && Qeq_bool (snd a) (snd b).
Definition cb_eqb (a b : cbound Q) : bool :=
  Qeq_bool (cb_lo a) (cb_lo b) && Qeq_bool (cb_hi a) (cb_hi b) && Nat.eqb (cb_s a) (cb_s b) && Nat.eqb (cb_e a) (cb_e b).
Definition out_eqb {B C} (f : B -> C -> bool) (a : outcome B) (b : outcome C) : bool :=
  match a, b with
  | Accept x, Accept y => f x y
  | RaiseValueError, RaiseValueError => true
  | RaiseOther, RaiseOther => true
  | _, _ => false
  end.
(* what the harness reads back from one loaded leaf: id, is-SDevice, bounds, cbounds, the eight storage parameters, rate_clip *)
Definition iload := (string * bool * list (Q * Q) * option (list (cbound Q)) * list Q * (option Q * option Q))%type.
Definition names8 : list string := ["capacity"; "efficiency"; "reserve"; "start"; "c1"; "c2"; "c3"; "damage_depth"]%string.
Definition defaults8 : list Q := [10; 1; 0; 0; 1; 0; 0; 0].   (* SDevice class defaults *)
Definition params8 (ps : list (string * Q)) : list Q :=
  map2 (fun k dflt => match assoc k ps with Some v => v | None => dflt end) names8 defaults8.
Definition load_eqb (m : loaded Q) (i : iload) : bool :=
  let '(id, iss, bnds, cb, ps, clip) := i in
  String.eqb (l_id m) id
  && Bool.eqb (match l_class m with LSDevice => true | LADevice => false end) iss
  && all2 pair_eqb (l_bounds m) bnds
  && opt_eqb (all2 cb_eqb) (l_cb m) cb
  && (if iss then all2 Qeq_bool (params8 (l_params m)) ps
                  && opt_eqb Qeq_bool (fst (l_clip m)) (fst clip) && opt_eqb Qeq_bool (snd (l_clip m)) (snd clip)
      else true).
Inductive c20case :=
| CScen (basis : nat) (ds : list (bdev Q)) (o : outcome (list iload))
| CRunS (basis : nat) (l : runs Q) (o : outcome (list Q))
| CRunP (basis : nat) (l : runs (Q * Q)) (o : outcome (list (Q * Q))) (cb : list (cbound Q))
| CCare (care : list Q) (b : list (param Q)) (o : list (Q * Q))
| COn (l : nat) (on : list nat) (b : list (param Q)) (o : list (Q * Q)).
Definition chk (c : c20case) : bool :=
  match c with
  | CScen basis ds o => out_eqb (all2 load_eqb) (load_data basis ds) o
  | CRunS basis l o => out_eqb (all2 Qeq_bool) (run_to_array 0 basis l) o
  | CRunP basis l o cb => out_eqb (all2 pair_eqb) (run_to_array (0, 0) basis l) o && all2 cb_eqb (run_to_cbounds basis l) cb
  | CCare care b o => all2 pair_eqb (care2bounds care b) o
  | COn l on b o => all2 pair_eqb (on2bounds l on b) o
  end.
'''
RULE = ('cases of five kinds. scenario: builder export {basis, devices} with 1-3 devices of kinds load / fixed_load / supply / storage '
        '(thermal_load only inside the open finding, not enforced), basis in 1..8 and 24, 1-4 runs per table, dictionary order sorted or '
        'shuffled, run starts beyond the basis, titles present/absent, cumulative runs none/1-3, fixed loads fully/partly/not fixed, '
        'storage parameter subsets in random order with unknown keys and either/both clipping factors; malformed stream: no run at 0, '
        'low > high. runs: run_to_array on scalar and pair runs and run_to_cbounds_array directly, incl. unsorted and out-of-range keys. '
        'care: masks of 0/1 (some fractional weights) x bounds as 2-tuple of scalars / 2-tuple of vectors / vector. on: even-length '
        'interval lists (inclusive, possibly empty or beyond the horizon) x the same bounds forms. Compared in Coq, exactly (inputs and '
        'outputs are dyadic): outcome tag, ids, classes, bounds tables, cumulative bounds, storage parameters and rate clip. The harness '
        'also checks on every call that the input object is unchanged (deep copy) and that care/on keys are removed, others kept. '
        'Non-trivial: at least two runs or a non-constant mask; distinct by hash of the case.')
EXPLANATION = ('Theorems (Props/C20.v): for every basis and run dictionary in any order, slot t gets the last run starting <= t; cumulative run '
               'i becomes (l,h,start_i,next start or basis); supply bounds are (-high,-low); storage parameters are the documented map; '
               'one leaf per device; care/on give the limits inside and zero outside. The correspondence ties Model/Loader.v to the code.')
ASSUMPTIONS = ['every run dictionary of a device carries the scenario basis; keys are decimal integers; cost curves, thermal loads (open finding) '
               'and the constructors\' validation of cumulative bounds / storage parameters are outside the model']
BASES = [1, 2, 3, 4, 5, 6, 7, 8, 24]
STORAGE_KEYS = ['capacity', 'efficiencyFactor', 'reserveRatio', 'startingRatio', 'fastChargeCostFactor', 'flipFlopCostFactor',
                'deepDischargeCostFactor', 'deepDepthRatio']
PARAM_MAP = {'capacity': 'capacity', 'efficiencyFactor': 'efficiency', 'reserveRatio': 'reserve', 'startingRatio': 'start',
             'fastChargeCostFactor': 'c1', 'flipFlopCostFactor': 'c2', 'deepDischargeCostFactor': 'c3', 'deepDepthRatio': 'damage_depth'}
NAMES8 = ['capacity', 'efficiency', 'reserve', 'start', 'c1', 'c2', 'c3', 'damage_depth']


def pick(rng, xs):
  return xs[rng.randrange(len(xs))]


# ---- generators ------------------------------------------------------------------------------------------------------
def gen_starts(rng, basis, allow_out=True, zero=True):
  k = rng.randint(1, 4)
  pool = list(range(1, basis + (2 if allow_out else 0)))
  rng.shuffle(pool)
  st = ([0] if zero else []) + pool[:k - 1 if zero else k]
  if rng.random() < 0.5:
    rng.shuffle(st)
  else:
    st.sort()
  return st


def expand(basis, runs, zero):
  """documented meaning: slot t takes the value of the last run starting at or before t"""
  out = []
  for t in range(basis):
    best = None
    for st, v in runs:
      if st <= t and (best is None or st > best[0]):
        best = (st, v)
    out.append(best[1] if best else zero)
  return out


def gen_device(rng, basis, kind):
  d = {'kind': kind, 'title': pick(rng, [None, None, 'dev%d' % rng.randrange(100)]), 'cum': None, 'params': []}
  starts = gen_starts(rng, basis)
  if kind == 'storage':
    d['bounds'] = [(s, (-dy(rng, 0, 3, 2), dy(rng, 0, 3, 2))) for s in starts]
    keys = [k for k in STORAGE_KEYS if rng.random() < 0.7]
    c1 = dy(rng, F(1, 2), 2, 2)
    vals = {'capacity': dy(rng, 4, 12, 1), 'efficiencyFactor': pick(rng, [F(1), F(3, 4), F(1, 2)]), 'reserveRatio': dy(rng, 0, 1, 2),
            'startingRatio': dy(rng, 0, 1, 2), 'fastChargeCostFactor': c1, 'flipFlopCostFactor': min(c1, F(1)) / 2,
            'deepDischargeCostFactor': dy(rng, 0, 2, 2), 'deepDepthRatio': dy(rng, 0, 1, 2)}
    ps = [(k, vals[k]) for k in keys]
    if rng.random() < 0.3:
      ps.append(('somethingElse', dy(rng, 0, 5, 1)))
    if rng.random() < 0.4:
      ps.append(('chargeRateClippingFactor', pick(rng, [F(1), F(3, 2), F(2)])))
    if rng.random() < 0.4:
      ps.append(('disChargeRateClippingFactor', pick(rng, [F(1), F(5, 4), F(3)])))
    rng.shuffle(ps)
    d['params'] = ps
    return d
  if kind == 'fixed_load':
    mode = pick(rng, ['all', 'all', 'some', 'none'])
    runs = []
    for j, s in enumerate(starts):
      lo = dy(rng, 0, 3, 2)
      fixed = mode == 'all' or (mode == 'some' and (s == 0 or rng.random() < 0.5))
      runs.append((s, (lo, lo if fixed else lo + dy(rng, F(1, 4), 2, 2))))
    d['bounds'] = runs
    return d
  runs = []
  for s in starts:
    lo = dy(rng, 0, 2, 2)
    runs.append((s, (lo, lo + pick(rng, [F(0), dy(rng, F(1, 4), 3, 2), dy(rng, F(1, 4), 3, 2)]))))
  d['bounds'] = runs
  if kind == 'thermal_load':
    return d
  if rng.random() < 0.55:
    tbl = expand(basis, runs, (F(0), F(0)))
    if kind == 'supply':
      tbl = [(-h, -l) for l, h in tbl]
    cst = sorted(set([0] + [s for s in gen_starts(rng, basis, allow_out=False)]))
    cum = []
    for i, s in enumerate(cst):
      e = cst[i + 1] if i + 1 < len(cst) else basis
      lsum, hsum = sum(b[0] for b in tbl[s:e]), sum(b[1] for b in tbl[s:e])
      lo = lsum + (hsum - lsum) * pick(rng, [F(0), F(1, 4), F(1, 2)]) - pick(rng, [F(0), F(1, 2)])
      hi = max(lo + pick(rng, [F(1, 4), F(1), F(2)]) + (hsum - lsum) / 4, lsum + F(1, 4))
      cum.append((s, (lo, hi)))
    if rng.random() < 0.5:
      rng.shuffle(cum)
    d['cum'] = cum
  return d


def gen_scenario(rng, i):
  basis = BASES[i % len(BASES)] if rng.random() < 0.8 else pick(rng, BASES)
  kinds = ['load', 'fixed_load', 'supply', 'storage']
  r = rng.random()
  if r < 0.06:
    ds = [gen_device(rng, basis, 'thermal_load')]
  else:
    ds = [gen_device(rng, basis, kinds[(i + j) % 4] if j == 0 else pick(rng, kinds)) for j in range(rng.randint(1, 3))]
  if 0.06 <= r < 0.14:      # malformed: no run at 0
    d = ds[-1]
    d['bounds'] = [(s if s else basis + 3, v) for s, v in d['bounds']]
  elif 0.14 <= r < 0.20:    # malformed: low > high in one run
    d = ds[0]
    s, (lo, hi) = d['bounds'][-1]
    d['bounds'][-1] = (s, (hi + 1, lo))
  return {'kind': 'scenario', 'basis': basis, 'devices': ds}


def gen_bform(rng, n):
  form = pick(rng, ['pair', 'pair', 'pairvec', 'vector'])
  if form == 'pair':
    lo = dy(rng, -2, 2, 2)
    return [lo, lo + dy(rng, 0, 3, 2)]
  if form == 'pairvec':
    los = [dy(rng, -2, 2, 2) for _ in range(n)]
    return [los, [l + dy(rng, 0, 3, 2) for l in los]]
  return ('vec', [dy(rng, -2, 3, 2) for _ in range(n)])


def gen_case(rng, i):
  k = i % 10
  if k < 5:
    return gen_scenario(rng, i)
  basis = pick(rng, BASES)
  if k == 5:
    st = gen_starts(rng, basis, zero=rng.random() < 0.85)
    return {'kind': 'runs_scalar', 'basis': basis, 'runs': [(s, dy(rng, -3, 3, 2)) for s in st]}
  if k == 6:
    st = gen_starts(rng, basis, zero=rng.random() < 0.85)
    return {'kind': 'runs_pair', 'basis': basis, 'runs': [(s, (dy(rng, -3, 3, 2), dy(rng, -3, 3, 2))) for s in st]}
  if k in (7, 8):
    n = basis
    care = [pick(rng, [F(0), F(1), F(1), F(1)] + ([F(1, 2), F(2)] if rng.random() < 0.15 else [])) for _ in range(n)]
    return {'kind': 'care', 'care': care, 'bounds': gen_bform(rng, n)}
  on = []
  for _ in range(rng.randint(0, 3)):
    a = rng.randrange(0, basis + 2)
    on += [a, a + rng.randint(-1, 3)] if a else [a, rng.randint(0, 3)]
  return {'kind': 'on', 'l': basis, 'on': on, 'bounds': gen_bform(rng, basis)}


def gen_cases(rng, tier):
  n = {'quick': 500, 'thorough': 6000, 'search': 200}[tier]
  return [gen_case(rng, i) for i in range(n)]


# ---- the implementation side -------------------------------------------------------------------------------------------
def jnum(x):
  """A number as json.load would deliver it: integral values are Python ints (exports write 2, not 2.0), others floats."""
  return int(x) if F(x).denominator == 1 else float(x)


def py_run(basis, runs):
  return {'basis': basis, 'runs': {str(k): ([jnum(x) for x in v] if isinstance(v, tuple) else jnum(v)) for k, v in runs}}


def py_device(basis, d):
  o = {'type': d['kind']}
  if d['title'] is not None:
    o['title'] = d['title']
  o['bounds'] = py_run(basis, d['bounds'])
  if d['cum'] is not None:
    o['cumulative_bounds'] = py_run(basis, d['cum'])
  if d['kind'] in ('load', 'supply'):
    o['costs'] = {}
  if d['kind'] == 'storage':
    o['parameters'] = {k: float(v) for k, v in d['params']}
  if d['kind'] == 'thermal_load':
    o['parameters'] = {'desiredTemperature': 20.0, 'initialTemperature': 10.0, 'thermalSustainment': 0.5, 'efficiencyFactor': 2.0,
                       'externalTemperatureProfile': [5.0] * basis, 'temperatureVariationCareFactor': py_run(basis, [(0, F(2))])}
  return o


def py_bform(b):
  if isinstance(b, tuple):
    return np.array(fl(b[1]))
  if isinstance(b[0], list):
    return (np.array(fl(b[0])), np.array(fl(b[1])))
  return (float(b[0]), float(b[1]))


def same(a, b):
  if isinstance(a, np.ndarray) or isinstance(b, np.ndarray):
    return isinstance(a, np.ndarray) and isinstance(b, np.ndarray) and a.shape == b.shape and bool((a == b).all())
  if isinstance(a, dict):
    return isinstance(b, dict) and list(a.keys()) == list(b.keys()) and all(same(a[k], b[k]) for k in a)
  if isinstance(a, (list, tuple)):
    return type(a) is type(b) and len(a) == len(b) and all(same(x, y) for x, y in zip(a, b))
  return type(a) is type(b) and a == b


def outcome(f):
  try:
    return ('ok', f())
  except ValueError:
    return ('ValueError', None)
  except AssertionError:
    raise
  except Exception:
    return ('Other', None)


def read_leaf(dev):
  is_s = type(dev).__name__ == 'SDevice'
  if type(dev).__name__ not in ('SDevice', 'ADevice'):
    raise AssertionError('unexpected leaf class %s' % type(dev).__name__)
  cb = None if dev.cbounds is None else [(fr(c[0]), fr(c[1]), int(c[2]), int(c[3])) for c in dev.cbounds]
  ps, clip = [], (None, None)
  if is_s:
    ps = [fr(getattr(dev, k)) for k in NAMES8]
    clip = tuple(None if v is None else fr(v) for v in dev.rate_clip)
  return {'id': dev.id, 'is_s': is_s, 'bounds': [tuple(fr(list(r))) for r in np.array(dev.bounds).tolist()], 'cb': cb, 'params': ps, 'clip': clip}


def observe(c):
  from device_kit.loaders import builder_loader as bl
  from device_kit import utils
  k = c['kind']
  if k == 'scenario':
    data = {'basis': c['basis'], 'devices': [py_device(c['basis'], d) for d in c['devices']]}
    keep = copy.deepcopy(data)
    def run():
      site = bl.load_data(data)
      leaves = list(site.devices)
      if len(leaves) != len(c['devices']):
        raise AssertionError('%d leaves for %d exported devices' % (len(leaves), len(c['devices'])))
      return [read_leaf(x) for x in leaves]
    o = outcome(run)
    if not same(data, keep):
      raise AssertionError('load_data modified its input')
    return {'tag': o[0], 'leaves': o[1]}
  if k in ('runs_scalar', 'runs_pair'):
    run = py_run(c['basis'], c['runs'])
    keep = copy.deepcopy(run)
    o = outcome(lambda: fr(np.array(bl.run_to_array(run))))
    res = {'tag': o[0], 'arr': o[1]}
    if k == 'runs_pair':
      res['arr'] = None if o[1] is None else [tuple(r) for r in o[1]]
      res['cb'] = [(fr(a), fr(b), int(s), int(e)) for a, b, s, e in bl.run_to_cbounds_array(run)]
    if not same(run, keep):
      raise AssertionError('run helper modified its input')
    return res
  if k == 'care':
    dev = {'id': 'x', 'care': np.array(fl(c['care'])), 'bounds': py_bform(c['bounds']), 'note': [1, 2]}
    keep = copy.deepcopy(dev)
    out = utils.care2bounds(dev)
    if not same(dev, keep):
      raise AssertionError('care2bounds modified its input')
    if 'care' in out or out.get('id') != 'x' or out.get('note') != [1, 2] or set(out) != {'id', 'bounds', 'note'}:
      raise AssertionError('care2bounds result keys %s' % sorted(out))
    return {'bounds': [tuple(fr(list(r))) for r in np.array(out['bounds']).tolist()]}
  dev = {'id': 'x', 'on': list(c['on']), 'bounds': py_bform(c['bounds']), 'note': [1, 2]}
  keep = copy.deepcopy(dev)
  out = utils.on2bounds(dev, c['l'])
  if not same(dev, keep):
    raise AssertionError('on2bounds modified its input')
  if 'on' in out or out.get('id') != 'x' or out.get('note') != [1, 2] or set(out) != {'id', 'bounds', 'note'}:
    raise AssertionError('on2bounds result keys %s' % sorted(out))
  return {'bounds': [tuple(fr(list(r))) for r in np.array(out['bounds']).tolist()]}


# ---- Coq literals ----------------------------------------------------------------------------------------------------------
KIND = {'load': 'BLoad', 'fixed_load': 'BFixed', 'supply': 'BSupply', 'storage': 'BStorage', 'thermal_load': 'BThermal'}


def coq_runs(runs):
  return [(N(s), v) for s, v in runs]


def coq_bdev(d):
  return Raw('(Build_bdev %s %s %s %s %s)' % (KIND[d['kind']], cq(None if d['title'] is None else Some(d['title'])), cq(coq_runs(d['bounds'])),
                                              cq(None if d['cum'] is None else Some(coq_runs(d['cum']))), cq([(k, v) for k, v in d['params']])))


def coq_out(tag, val):
  return Raw('(Accept %s)' % cq(val)) if tag == 'ok' else Raw('RaiseValueError' if tag == 'ValueError' else 'RaiseOther')


def coq_bform(b):
  if isinstance(b, tuple):
    return [C('PS', v) for v in b[1]]
  if isinstance(b[0], list):
    return [C('PV', b[0]), C('PV', b[1])]
  return [C('PS', b[0]), C('PS', b[1])]


def coq_case(c, o):
  k = c['kind']
  opt = lambda v: None if v is None else Some(v)
  if k == 'scenario':
    leaves = None
    if o['tag'] == 'ok':
      leaves = [(x['id'], x['is_s'], x['bounds'], opt(None if x['cb'] is None else [(a, b, N(s), N(e)) for a, b, s, e in x['cb']]),
                 x['params'], (opt(x['clip'][0]), opt(x['clip'][1]))) for x in o['leaves']]
    return 'CScen %s %s %s' % (cq(N(c['basis'])), cq([coq_bdev(d) for d in c['devices']]), cq(coq_out(o['tag'], leaves)))
  if k == 'runs_scalar':
    return 'CRunS %s %s %s' % (cq(N(c['basis'])), cq(coq_runs(c['runs'])), cq(coq_out(o['tag'], o['arr'])))
  if k == 'runs_pair':
    return 'CRunP %s %s %s %s' % (cq(N(c['basis'])), cq(coq_runs(c['runs'])), cq(coq_out(o['tag'], o['arr'])),
                                  cq([(a, b, N(s), N(e)) for a, b, s, e in o['cb']]))
  if k == 'care':
    return 'CCare %s %s %s' % (cq(c['care']), cq(coq_bform(c['bounds'])), cq(o['bounds']))
  return 'COn %s %s %s %s' % (cq(N(c['l'])), cq([N(v) for v in c['on']]), cq(coq_bform(c['bounds'])), cq(o['bounds']))


def nontrivial(c, o):
  k = c['kind']
  if k == 'scenario':
    return any(len(d['bounds']) > 1 or d['cum'] or d['params'] for d in c['devices'])
  if k in ('runs_scalar', 'runs_pair'):
    return len(c['runs']) > 1
  if k == 'care':
    return len(set(c['care'])) > 1
  return len(c['on']) > 0


def classify(c, o):
  k = c['kind']
  ks = ['kind:' + k]
  if k == 'scenario':
    ks += ['basis:%d' % c['basis'], 'outcome:' + o['tag'], 'devices:%d' % len(c['devices'])]
    for d in c['devices']:
      ks.append('device:' + d['kind'])
      st = [s for s, _ in d['bounds']]
      if st != sorted(st):
        ks.append('runs:unsorted')
      if any(s >= c['basis'] for s in st):
        ks.append('runs:start-beyond-basis')
      if d['cum']:
        ks.append('cumulative:%d' % len(d['cum']))
      if d['kind'] == 'storage' and any(kk.endswith('ClippingFactor') for kk, _ in d['params']):
        ks.append('storage:rate-clip')
  elif k in ('runs_scalar', 'runs_pair'):
    ks += ['outcome:' + o['tag'], 'runs:%d' % len(c['runs'])]
    st = [s for s, _ in c['runs']]
    if st != sorted(st):
      ks.append('runs:unsorted')
  else:
    b = c['bounds']
    ks.append('bounds:' + ('vector' if isinstance(b, tuple) else ('pair-of-vectors' if isinstance(b[0], list) else 'pair')))
  return ks


def case_to_json(c):
  return core.jsonable(c)


def case_from_json(j):
  def num(v):
    if isinstance(v, list):
      return [num(x) for x in v]
    return F(v)
  def runs(rs, pair):
    return [(int(s), (tuple(num(v)) if pair else num(v))) for s, v in rs]
  def bform(b):
    if b and b[0] == 'vec':
      return ('vec', num(b[1]))
    return num(b)
  k = j['kind']
  if k == 'scenario':
    return {'kind': k, 'basis': int(j['basis']), 'devices': [
        {'kind': d['kind'], 'title': d['title'], 'bounds': runs(d['bounds'], True), 'cum': None if d['cum'] is None else runs(d['cum'], True),
         'params': [(kk, F(v)) for kk, v in d['params']]} for d in j['devices']]}
  if k in ('runs_scalar', 'runs_pair'):
    return {'kind': k, 'basis': int(j['basis']), 'runs': runs(j['runs'], k == 'runs_pair')}
  if k == 'care':
    return {'kind': k, 'care': num(j['care']), 'bounds': bform(j['bounds'])}
  return {'kind': k, 'l': int(j['l']), 'on': [int(v) for v in j['on']], 'bounds': bform(j['bounds'])}


# ---- direct oracle: what the property says, against the implementation alone --------------------------------------------
def want_mask_bounds(mask, b):
  n = len(mask)
  if isinstance(b, tuple):
    lo = hi = b[1]
  elif isinstance(b[0], list):
    lo, hi = b
  else:
    lo, hi = [b[0]] * n, [b[1]] * n
  return [(m * lo[i], m * hi[i]) for i, m in enumerate(mask)]


def well_formed(c):
  """the property speaks about well-formed exports: a run at 0, distinct starts, low <= high"""
  for d in c['devices']:
    st = [s for s, _ in d['bounds']]
    if 0 not in st or len(set(st)) != len(st) or any(lo > hi for _, (lo, hi) in d['bounds']):
      return False
  return True


def oracle(c):
  k = c['kind']
  try:
    o = observe(c)
  except AssertionError as e:
    return str(e)
  except Exception as e:
    return 'implementation raised %s: %s' % (type(e).__name__, e)
  if k == 'scenario':
    if any(d['kind'] == 'thermal_load' for d in c['devices']):
      return 'a thermal_load device cannot be loaded (outcome %s)' % o['tag'] if o['tag'] != 'ok' else None
    if not well_formed(c):
      return None
    basis = c['basis']
    if o['tag'] != 'ok':
      if all(d['kind'] != 'fixed_load' or any(lo == hi for lo, hi in expand(basis, d['bounds'], None)) for d in c['devices']):
        return 'loading a well-formed export raised (%s)' % o['tag']
      return None
    for i, (d, x) in enumerate(zip(c['devices'], o['leaves'])):
      want = expand(basis, d['bounds'], (F(0), F(0)))
      if d['kind'] == 'supply':
        want = [(-h, -l) for l, h in want]
      if [tuple(b) for b in x['bounds']] != want:
        return 'device %d (%s): bounds %s, the runs denote %s' % (i, d['kind'], fl([list(b) for b in x['bounds']]), fl([list(b) for b in want]))
      if x['id'] != (d['title'] if d['title'] is not None else d['kind']):
        return 'device %d has id %r' % (i, x['id'])
      if d['kind'] != 'storage':
        wcb = None
        if d['cum'] is not None:
          srt = sorted(d['cum'])
          wcb = [(l, h, s, srt[j + 1][0] if j + 1 < len(srt) else basis) for j, (s, (l, h)) in enumerate(srt)]
        if d['kind'] == 'fixed_load':
          wcb = None
        if x['cb'] != wcb:
          return 'device %d (%s): cumulative bounds %s, the runs denote %s' % (i, d['kind'], core.jsonable(x['cb']), core.jsonable(wcb))
      else:
        dflt = dict(zip(NAMES8, [F(10), F(1), F(0), F(0), F(1), F(0), F(0), F(0)]))
        for kk, v in d['params']:
          if kk in PARAM_MAP:
            dflt[PARAM_MAP[kk]] = v
        if x['params'] != [dflt[n] for n in NAMES8]:
          return 'device %d (storage): parameters %s, exported %s' % (i, fl(x['params']), fl([dflt[n] for n in NAMES8]))
        ps = dict(d['params'])
        if tuple(x['clip']) != (ps.get('disChargeRateClippingFactor'), ps.get('chargeRateClippingFactor')):
          return 'device %d (storage): rate_clip %s' % (i, core.jsonable(x['clip']))
    return None
  if k in ('runs_scalar', 'runs_pair'):
    st = [s for s, _ in c['runs']]
    if 0 not in st:
      return None
    zero = F(0) if k == 'runs_scalar' else (F(0), F(0))
    want = expand(c['basis'], c['runs'], zero)
    if o['tag'] != 'ok' or list(o['arr']) != want:
      return 'run_to_array gives %s, the runs denote %s' % (core.jsonable(o['arr']), core.jsonable(want))
    if k == 'runs_pair':
      srt = sorted(c['runs'])
      wcb = [(l, h, s, srt[j + 1][0] if j + 1 < len(srt) else c['basis']) for j, (s, (l, h)) in enumerate(srt)]
      if o['cb'] != wcb:
        return 'run_to_cbounds_array gives %s, the runs denote %s' % (core.jsonable(o['cb']), core.jsonable(wcb))
    return None
  if k == 'care':
    want = want_mask_bounds(c['care'], c['bounds'])
  else:
    on = c['on']
    mask = [F(1) if any(on[i] <= t <= on[i + 1] for i in range(0, len(on), 2)) else F(0) for t in range(c['l'])]
    want = want_mask_bounds(mask, c['bounds'])
  if isinstance(c['bounds'], tuple) and len(c['bounds'][1]) == 2:
    return None   # a length-2 vector is read as the (low, high) pair: documented ambiguity, no opinion
  if [tuple(b) for b in o['bounds']] != want:
    return '%s gives %s, expected limits inside and zero outside: %s' % (k, core.jsonable(o['bounds']), core.jsonable(want))
  return None


def finding_matches(finding, case):
  m = finding.get('match', {})
  if 'kind' not in m or case['kind'] != 'scenario':
    return False
  if 'basis' in m and case['basis'] != m['basis']:
    return False
  return any(d['kind'] == m['kind'] for d in case['devices'])


def witness_fails(finding):
  w = finding.get('witness', {})
  if w.get('kind') == 'thermal_load':
    basis = int(w.get('basis', 3))
    c = {'kind': 'scenario', 'basis': basis,
         'devices': [{'kind': 'thermal_load', 'title': None, 'bounds': [(0, (F(0), F(2)))], 'cum': None, 'params': []}]}
    return oracle(c) is not None
  return True


def shrink(case, why):
  if case['kind'] == 'scenario' and len(case['devices']) > 1:
    for d in case['devices']:
      c1 = {'kind': 'scenario', 'basis': case['basis'], 'devices': [d]}
      w = oracle(c1)
      if w:
        return (c1, w)
  return (case, why)


def search(rng, budget, seeds, findings):
  return core.default_search(__import__('c20'), rng, budget, seeds, findings)
