"""C05 - solve() returns a feasible cost-minimal flow or raises, never a silent bad one.   PARTIAL by nature.

SLSQP (scipy.optimize.minimize) is compiled code: an oracle, a function parameter of Model/Solve.v `solve_model`.
(i)  fault injection: device_kit.solve.minimize is replaced by stubs returning every status 0..9 with success True/False and
     well-formed / malformed x (bounded-exhaustive); the implementation's outcome, the start point, objective and flattened
     Jacobian it handed to the optimiser are compared inside Coq with `solve_model` on the tree model of Model/Tree.v.
(ii) real solves on feasible convex leaves and trees (incl. prox and custom s0) and on infeasible ones: every returned flow is
     checked with the certificate proved sound in Props/C05.v (C05_fw_gap_certificate): feasibility residual <= 1e-6 x max(1, largest bound magnitude) and the
     Frank-Wolfe gap computed with scipy.optimize.linprog (HiGHS, independent of SLSQP) within tolerance; infeasible models must
     raise OptimizationException.  What no model can exhibit: SLSQP's convergence and failure reporting."""
import numpy as np
from fractions import Fraction as F
import core
from core import cq, fr, fl, Raw, N, C, Some, dy
import leafgen as lg
import treegen as tg
import c18_common as cc
from c18_common import pick

ID = 'C05'
GEN = ['kernels', 'solve', 'constraints']
# the scalar kernels of functions.py this property's statement depends on (a change confined to the others is not this property's business;
# what its own correspondence compares still is)
KERNELS_USED = []
PROPS = 'Props/C05.v'
MODEL_VO = ['Model/Solve.v']
CASE_TYPE = 'kase'
CHECKER = 'chk'
SHARD = 80
FEAS_TOL = 1e-6


def feas_tol(dev):
  """feasibility is judged at the scale of the problem: SLSQP's own accuracy is relative to the magnitudes involved (a flow of 8192
  that misses a bound by 4e-6 is feasible to 5e-10 of its size)"""
  b = np.abs(np.asarray(dev.bounds, dtype=float))
  b = b[np.isfinite(b)]
  return FEAS_TOL * max(1.0, float(b.max()) if b.size else 1.0)
GAP_REL = 5e-3          # calibrated on the unchanged tree (see RULE); SLSQP stops on |df| < ftol = 1e-6
COQ_PRELUDE = '''From Coq Require Import ZArith QArith Qabs List Bool String.
From DK Require Import Num NumQ Vec.
From DK.Model Require Import Leaf Fn Dev Tree Solve.
Import ListNotations.
Local Open Scope Q_scope.
Inductive outcome := OAccept (m : list (list Q)) (o_is_none : bool) | OOpt | OValue.
Inductive kase :=
| KFault (d : dev Q) (p : price Q) (s0 : option (list Q)) (prox : option Q) (stub : optresult Q) (probe : list Q)
         (called : bool) (ox0 : list Q) (ofun : Q) (ojac : list Q) (nb nc : nat) (out : outcome)
         (uopts : sopts Q) (oopts : sopts Q) (okeys : nat)
| KSolve (rows n : nat) (bnd : list (Q * Q)) (x : list (list Q)) (resid gap gtol ftol : Q)
| KMustRaise (raised : bool).
Definition is_none {T} (o : option T) : bool := match o with None => true | Some _ => false end.
Definition oeq {T} (e : T -> T -> bool) (a b : option T) : bool :=
  match a, b with Some x, Some y => e x y | None, None => true | _, _ => false end.
Definition opts_eq (m o : sopts Q) : bool :=
  oeq (Qclose Qtol) (so_ftol m) (so_ftol o) && oeq Z.eqb (so_maxiter m) (so_maxiter o) && oeq Bool.eqb (so_disp m) (so_disp o).
Definition chk (c : kase) : bool :=
  match c with
  | KFault d p s0 prox stub probe called ox0 ofun ojac nb nc out uopts oopts okeys =>
      let dv := tree_view d p in
      let pb := solve_problem dv s0 prox in
      let consulted := if all_fixed (dv_bounds dv) then false
                       else negb (Nat.ltb (List.length (pb_x0 pb)) (count_eq (pb_cons pb))) in
      if Bool.eqb consulted called then
        (if called then
           Qclose_list Qtol (pb_x0 pb) ox0 && Qclose Qtol (pb_fun pb probe) ofun && Qclose_list Qtol (pb_jac pb probe) ojac &&
           Nat.eqb nb (List.length (pb_bounds pb)) && Nat.eqb nc (List.length (pb_cons pb)) &&
           opts_eq (solve_options uopts) oopts && Nat.eqb okeys 3
         else true) &&
        match solve_model (fun _ => stub) dv s0 prox, out with
        | SAccept m o, OAccept m' none => Qclose_mat Qtol m m' && Bool.eqb (is_none o) none
        | SRaiseOptimization, OOpt => true
        | SRaiseValueError, OValue => true
        | _, _ => false
        end
      else false
  | KSolve rows n bnd x resid gap gtol ftol =>
      Nat.eqb (List.length x) rows && forallb (fun r => Nat.eqb (List.length r) n) x &&
      forallb (fun '(lh, v) => Qle_bool (fst lh - ftol) v && Qle_bool v (snd lh + ftol)) (combine bnd (List.concat x)) &&
      Qle_bool resid ftol && Qle_bool gap gtol
  | KMustRaise raised => raised
  end.
'''
RULE = ('cases: (fault) a device tree (all leaf classes, sets, sub-balanced sets, adaptors; also all-slots-fixed trees and trees with '
        'more equality constraints than variables) x price (scalar/vector/matrix) x start (default / custom flat / custom shaped) x '
        'prox (None / 0 / >0) x EVERY optimiser report in {status 0..9} x {success True, False} x {x well-formed, one short, one '
        'long, empty} (that sub-space is enumerated exhaustively per configuration); compared in Coq: outcome (flow + result / '
        'OptimizationException / ValueError), whether the optimiser was consulted, and the start point, objective value and '
        'flattened Jacobian it was handed (evaluated at a probe flow) against solve_model on the tree model. (solve) real solves '
        'of feasible convex trees (Device, PVDevice, CDevice, CDevice2, IDevice, IDevice2, GDevice leaves; sets with aggregate '
        'bounds, sub-balanced sets, adaptors) incl. prox and custom starts: shape, bounds, constraint residual <= 1e-6 x max(1, largest bound magnitude) and the '
        'LP-computed Frank-Wolfe gap <= 5e-3*(1+|cost|) (measured on the unchanged tree over ~600 judged solves: max 4.8e-4). (infeasible) trees made '
        'infeasible by an unreachable aggregate bound must raise. (closed) base devices against the closed-form optimum. '
        'Non-trivial: the optimiser is consulted or an exception is the expected outcome. Problems whose exported constraint '
        'rows are linearly dependent are solved but not judged for optimality (reported SLSQP finding).')
EXPLANATION = ('Theorems (Props/C05.v): for ALL optimiser behaviours solve_model raises OptimizationException iff no success is '
               'reported (or there are too many equalities), returns only the reported point reshaped to the device shape (or the '
               'fixed point of the bounds without consulting the optimiser); soundness of the Frank-Wolfe gap certificate for convex '
               'costs; closed-form optimum of the base device. The check evaluates that certificate on every flow returned by the '
               'real optimiser. PARTIAL: SLSQP convergence and failure reporting are runtime behaviour of compiled code that the '
               'model cannot exhibit; they are explored (real solves, fault injection), not proved.')
ASSUMPTIONS = ['scipy.optimize.minimize returns an OptimizeResult with success/status/x (oracle contract)',
               'gradient exactness (C01) and convexity (C07) of the leaf costs are used by the certificate',
               'trees whose exported constraints are linearly dependent are not judged for optimality (SLSQP false-success finding)'
               ]
TRUSTED_EXTRA = ['scipy.optimize.linprog (HiGHS) computing the Frank-Wolfe gap and deciding feasibility of the linear description',
                 'c18_common.linear_description: affine constraints recovered by probing the exported callables']
CONVEX_CLASSES = ['Device', 'PVDevice', 'CDevice', 'CDevice2', 'IDevice', 'IDevice2', 'GDevice']
STATUSES = list(range(10))
# solver_options of the observed call, and of a call made just BEFORE it on another device (None: no earlier call)
OPTS = [{}, {}, {'ftol': F(1, 128)}, {'maxiter': 50}, {'ftol': F(1, 1024), 'maxiter': 7, 'disp': False}, {'disp': True}]
PRE = [None, {'ftol': F(1, 4)}, {'maxiter': 3, 'disp': True}, None, {'ftol': F(1, 2), 'maxiter': 1}]
XKINDS = ['good', 'short', 'long', 'empty']


# ---------------------------------------------------------------------------------------------------
# generation
# ---------------------------------------------------------------------------------------------------
def flat(M):
  return [v for r in M for v in r]


def gen_start(rng, T):
  k = pick(rng, ['default', 'default', 'flat', 'shaped'])
  if k == 'default':
    return ('default', None)
  return (k, tg.gen_matrix(rng, T))


def fixed_tree(rng, violate=False):
  n = pick(rng, [1, 2, 3, 4])
  kids = []
  for i in range(rng.randint(1, 2)):
    L = lg.gen_leaf(rng, cls=pick(rng, ['Device', 'CDevice', 'IDevice2']), n=n, zero_width='all', cbounds='none')
    L['id'] = 'f%d' % i
    kids.append({'kind': 'leaf', 'id': L['id'], 'leaf': L})
  if rng.random() < .3:
    # an all-fixed ADevice whose user constraints are handed over as ONE vector-valued constraint: every component counts (a large
    # slack in one component must not hide a violated one)
    A = lg.gen_leaf(rng, cls='ADevice', n=n, zero_width='all', cbounds='none', fn_depth=0)
    A['id'], A['f'] = 'fa', ('null',)
    x = [lo for lo, _ in A['bounds']]
    dotx = lambda w: sum((a * b for a, b in zip(w, x)), F(0))
    w1, w2 = [F(1)] * n, [F(j % 2) - F(1, 2) for j in range(n)]
    A['ucons'] = [{'eq': False, 'w': w1, 'k': F(5) - dotx(w1), 'jac': True},
                  {'eq': False, 'w': w2, 'k': (F(-1, 2) if violate else F(1, 4)) - dotx(w2), 'jac': True}]
    # (the stacked form only where the optimiser is not consulted: the model counts one constraint per component)
    A['ucon_stack'] = all(lo == hi for k in kids for lo, hi in k['leaf']['bounds']) and all(lo == hi for lo, hi in A['bounds'])
    kids.append({'kind': 'leaf', 'id': 'fa', 'leaf': A})
    if violate:
      return {'kind': 'set', 'id': 'fs', 'kids': kids, 'sbounds': None, 'sb_kind': 'none'}
  if len(kids) == 1 and rng.random() < .5 and not violate:
    return kids[0]
  T = {'kind': 'set', 'id': 'fs', 'kids': kids, 'sbounds': None, 'sb_kind': 'none'}
  lo, hi = tg.agg_bounds(T, n)
  if violate:      # every slot is fixed and the only flow within bounds misses an aggregate bound
    # the violated slot is any slot; every other slot has its own (different) bounds, wide enough to hold every slot's sum, so a
    # constraint that reads another slot's bounds reaches a different verdict
    j = rng.randrange(n)
    T['sbounds'] = [(lo[i] + 1, lo[i] + 2) if i == j else (min(lo) - 1 - i, max(lo) + 2 + i) for i in range(n)]
    T['sb_kind'] = 'ineq'
  elif rng.random() < .5:
    T['sbounds'] = [(lo[i] - pick(rng, [F(0), F(1)]), lo[i] + pick(rng, [F(0), F(1)])) for i in range(n)]
    T['sb_kind'] = 'mixed'
  return T


def too_many_eq_tree(rng):
  n = pick(rng, [1, 2])
  L = lg.gen_leaf(rng, cls='Device', n=n, zero_width=None, cbounds='none')
  L['bounds'] = [(F(0), F(2))] * n
  L['id'] = 'd1e'
  mid = [(F(1), F(1))] * n
  return {'kind': 'subbal', 'id': 'sb', 'kids': [{'kind': 'leaf', 'id': 'd1e', 'leaf': L}], 'sbounds': mid, 'sb_kind': 'eq',
          'labels': ['e'], 'eq': True, 'sign': F(1), 'remaining': False}


def gen_fault_config(rng, i):
  kind = ['tree', 'tree', 'fixed', 'too-many-eq', 'tree', 'fixed-infeasible'][i % 6]
  if kind == 'fixed':
    T = fixed_tree(rng)
  elif kind == 'fixed-infeasible':
    T = fixed_tree(rng, violate=True)
  elif kind == 'too-many-eq':
    T = too_many_eq_tree(rng)
  else:
    T = tg.gen_tree(rng, pick(rng, [0, 1, 1, 2]), lengths=[1, 2, 3], fanout=3)
    if i % 6 == 4:      # this configuration must reach the optimiser (see below): not all-fixed, not over-determined
      for _ in range(12):
        try:
          dev = tg.build_tree(T)
          if not all_fixed(T) and sum(1 for k in dev.constraints if k['type'] == 'eq') <= int(np.prod(dev.shape)):
            break
        except Exception:
          pass
        T = tg.gen_tree(rng, pick(rng, [0, 1, 1]), lengths=[1, 2, 3], fanout=3)
  cfg = {'t': T, 'cfg': kind, 'p': tg.gen_tree_price(rng, T), 's0': gen_start(rng, T),
         'prox': pick(rng, [None, None, F(0), F(1, 2), F(2)]), 'probe': flat(tg.gen_matrix(rng, T)),
         'good': flat(tg.gen_matrix(rng, T))}
  if kind in ('fixed', 'fixed-infeasible') and T['kind'] == 'set' and rng.random() < .5:
    # a warm start from elsewhere (the previous window's flow): the start point is a hint, the answer is the pinned point - or the
    # exception when the pinned point violates an aggregate bound, even if the hint itself satisfies every constraint
    M = tg.gen_matrix(rng, T)
    if kind == 'fixed-infeasible' and not T.get('sbounds'):
      pass      # infeasible through a user constraint: the start point stays inside the bounds
    elif kind == 'fixed-infeasible':
      j = [k for k, (lo, hi) in enumerate(T['sbounds']) if hi - lo == 1][0]
      M = [list(r) for r in M]
      M[0][j] += F(3, 2)
    else:
      M = [[v + pick(rng, [F(0), F(1, 2), F(-1, 4), F(3)]) for v in r] for r in M]
    cfg['s0'] = (pick(rng, ['flat', 'shaped']), M)
  if i % 6 == 4:
    # a caller-supplied start point OUTSIDE the bounds with a proximal weight: the proximal term is centred on the point the caller
    # gave (the start point is only a hint for the optimiser; nothing may move the centre)
    M = tg.gen_matrix(rng, T)
    cfg['s0'] = (pick(rng, ['flat', 'shaped']), [[v + 64 + j for j, v in enumerate(r)] for r in M])
    cfg['prox'] = pick(rng, [F(1, 2), F(2)])
  return cfg


def convex_tree(rng, depth):
  return tg.gen_tree(rng, depth, lengths=[1, 2, 3, 4], classes=CONVEX_CLASSES, mf_classes=CONVEX_CLASSES, fanout=3)


def make_infeasible(rng, T):
  """wrap T in a set whose aggregate bound no flow within the leaf bounds can meet"""
  n = tg.length(T)
  lo, hi = tg.agg_bounds(T, n)
  up = rng.random() < .5
  sb = [((hi[i] + 1, hi[i] + 2) if up else (lo[i] - 2, lo[i] - 1)) if i == 0 or rng.random() < .5 else (lo[i] - 1, hi[i] + 1) for i in range(n)]
  return {'kind': 'set', 'id': 'top', 'kids': [T], 'sbounds': sb, 'sb_kind': 'ineq'}


def gen_cases(rng, tier):
  k = {'quick': 1, 'thorough': 8, 'search': 1}[tier]
  out = []
  for i in range(6 * k if tier != 'search' else 2):
    cfg = gen_fault_config(rng, i)
    for st in STATUSES:
      for ok in (True, False):
        for xk in XKINDS:
          if tier == 'search' and rng.random() < .7:
            continue
          # the optimiser is not consulted for an all-fixed tree, so the stub variations would repeat one case: a fresh tree each time
          c = dict(gen_fault_config(rng, i)) if cfg['cfg'] in ('fixed', 'fixed-infeasible') else dict(cfg)
          oi = st * 8 + 4 * int(ok) + XKINDS.index(xk)
          c.update({'kind': 'fault', 'status': st, 'success': ok, 'xkind': xk, 'opts': OPTS[oi % len(OPTS)], 'pre': PRE[(oi // 3) % len(PRE)]})
          out.append(c)
  for i in range(110 * k):
    for _ in range(6):      # prefer feasible models here (infeasible ones have their own stream below)
      T = convex_tree(rng, pick(rng, [0, 0, 1, 1, 2]))
      desc = cc.linear_description(tg.build_tree(T))
      if desc[6] and cc.feasible_point(desc) is not None:
        break
    out.append({'kind': 'solve', 't': T, 'p': tg.gen_tree_price(rng, T), 's0': gen_start(rng, T) if rng.random() < .4 else ('default', None),
                'prox': pick(rng, [None, None, None, F(1, 2), F(2), F(8)])})
  for i in range(30 * k):
    T = fixed_tree(rng, violate=True) if i % 6 == 5 else make_infeasible(rng, convex_tree(rng, pick(rng, [0, 1, 1])))
    out.append({'kind': 'infeasible', 't': T, 'p': tg.gen_tree_price(rng, T), 's0': ('default', None), 'prox': None})
  for i in range(20 * k):
    L = lg.gen_leaf(rng, cls=pick(rng, ['Device', 'PVDevice']), cbounds='none')
    L['id'] = 'b%d' % i
    T = {'kind': 'leaf', 'id': L['id'], 'leaf': L}
    out.append({'kind': 'closed', 't': T, 'p': ('vector', [dy(rng, -2, 3, 2) for _ in range(L['n'])]), 's0': ('default', None), 'prox': None})
  return out


# ---------------------------------------------------------------------------------------------------
# implementation side
# ---------------------------------------------------------------------------------------------------
def py_start(c, dev):
  k, M = c['s0']
  if k == 'default':
    return None
  a = np.array(fl(M))
  return a.reshape(-1) if k == 'flat' else a.reshape(dev.shape)


def stub_x(c):
  g = list(c['good'])
  return {'good': g, 'short': g[:-1], 'long': g + [F(1)], 'empty': []}[c['xkind']]


def py_opts(o):
  return {k: (float(v) if k == 'ftol' else v) for k, v in o.items()}


def coq_opts(o):
  f = lambda k, conv: Raw('None') if o.get(k) is None else Some(conv(o[k]))
  return Raw('(@Build_sopts Q %s %s %s)' % (cq(f('ftol', lambda v: fr(float(v)))), cq(f('maxiter', int)), cq(f('disp', bool))))


def run_solve(dev, c, minimize=None):
  """-> ('accept', x, o) | 'opt' | 'value'; other exceptions propagate"""
  import importlib
  S = importlib.import_module('device_kit.solve')     # (the package attribute `solve` is the function)
  keep = S.minimize
  if minimize is not None:
    S.minimize = minimize
  try:
    if c.get('pre') is not None and minimize is not None:
      # an earlier call with other options on an unrelated device: must not influence the observed call
      from scipy.optimize import OptimizeResult
      import device_kit as dk
      S.minimize = lambda **kw: OptimizeResult(x=np.array(kw['x0'], dtype=float), success=True, status=0, message='stub', fun=0.0)
      S.solve(dk.Device('pre', 2, (0, 1)), 0, None, py_opts(c['pre']))
      S.minimize = minimize
    if minimize is None and int(core.case_hash(tg.tree_to_json(c['t'])), 16) % 4 == 2:
      # a PREDECESSOR of the device (same ids and shape, without its cumulative and aggregate bounds: last window's model) has been
      # solved in the same process: nothing solve() keeps between calls may reach this device
      try:
        S.solve(tg.build_tree(tg.predecessor(c['t'])), tg.py_price(c['p']))
      except Exception:
        pass
    try:
      x, o = S.solve(dev, tg.py_price(c['p']), py_start(c, dev), py_opts(c.get('opts') or {}), None if c['prox'] is None else float(c['prox']))
    except S.OptimizationException:
      return 'opt'
    except ValueError:
      return 'value'
  finally:
    S.minimize = keep
  return ('accept', x, o)


def observe_fault(c):
  from scipy.optimize import OptimizeResult
  dev = tg.build_tree(c['t'])
  probe = np.array(fl(c['probe']))
  rec = {'called': False}

  def stub(**kw):
    rec['called'] = True
    rec['x0'] = fr(np.array(kw['x0'], dtype=float))
    rec['fun'] = fr(float(kw['fun'](probe.copy())))
    j = np.asarray(kw['jac'](probe.copy()), dtype=float)
    if j.ndim != 1:
      raise AssertionError('the Jacobian handed to the optimiser has shape %s' % (j.shape,))
    rec['jac'] = fr(j)
    rec['nb'] = len(kw['bounds'])
    rec['nc'] = len(kw['constraints'])
    rec['opts'] = dict(kw.get('options') or {})
    if kw.get('method') != 'SLSQP':
      raise AssertionError('method %r' % (kw.get('method'),))
    return OptimizeResult(x=np.array(fl(stub_x(c)), dtype=float), success=c['success'], status=c['status'], message='stub', fun=0.0)
  r = run_solve(dev, c, stub)
  if isinstance(r, tuple):
    x = np.asarray(r[1])
    if tuple(x.shape) != tuple(int(v) for v in dev.shape):
      raise AssertionError('returned flow has shape %s, device shape %s' % (x.shape, dev.shape))
    rec['out'] = ('accept', [fr(np.asarray(row, dtype=float)) for row in x], r[2] is None)
  else:
    rec['out'] = r
  return rec


def problem_of(dev, c):
  desc = cc.linear_description(dev)
  return desc, desc[6], cc.feasible_point(desc) is not None


def objective_gradient(dev, c, x, x0):
  """gradient of the minimised objective at the flat point x (device.deriv plus the proximal term)"""
  g = np.asarray(dev.deriv(x.copy(), tg.py_price(c['p'])), dtype=float).reshape(-1)
  if c['prox']:
    g = g + (1 / float(c['prox'])) * (x - x0)
  return g


def objective(dev, c, x, x0):
  f = float(dev.cost(x.copy(), tg.py_price(c['p'])))
  if c['prox']:
    f += (1 / (2 * float(c['prox']))) * float(((x - x0) ** 2).sum())
  return f


def start_point(dev, c):
  s0 = py_start(c, dev)
  return (s0 if s0 is not None else dev.project(np.zeros(dev.shape))).flatten()


def judge(dev, c, r, skip_dependent=True):
  """certificate of a returned flow: dict with resid, gap (None when not judged), gtol"""
  x = np.asarray(r[1], dtype=float)
  desc, lin, feas = problem_of(dev, c)
  xf = x.reshape(-1)
  out = {'resid': cc.nonlinear_residual(xf, dev), 'gap': None, 'gtol': None, 'why_no_gap': None}
  if r[2] is None:
    out['why_no_gap'] = 'all-fixed shortcut'
    return out
  if not lin:
    out['why_no_gap'] = 'non-affine constraint'
    return out
  if skip_dependent and cc.structurally_dependent(desc):
    out['why_no_gap'] = 'dependent constraint rows'
    return out
  x0 = start_point(dev, c)
  g = objective_gradient(dev, c, xf, x0)
  gap = cc.fw_gap(xf, g, desc)
  if gap is None:
    out['why_no_gap'] = 'LP failed'
    return out
  out['gap'] = gap
  out['gtol'] = GAP_REL * (1 + abs(objective(dev, c, xf, x0)))
  return out


def observe(c):
  if c['kind'] == 'fault':
    return observe_fault(c)
  dev = tg.build_tree(c['t'])
  r = run_solve(dev, c)
  o = {'out': r if isinstance(r, str) else 'accept'}
  desc, lin, feas = problem_of(dev, c)
  o['lp_feasible'] = feas
  o['linear'] = lin
  if isinstance(r, tuple):
    x = np.asarray(r[1])
    if x.ndim != 2:
      raise AssertionError('returned flow has shape %s' % (x.shape,))
    o['x'] = [fr(np.asarray(row, dtype=float)) for row in x]
    o['shape'] = tuple(int(v) for v in dev.shape)
    o['bounds'] = [(fr(float(a)), fr(float(b))) for a, b in np.array(dev.bounds, dtype=float)]
    o.update(judge(dev, c, r))
    o['ftol'] = feas_tol(dev)
    o['status'] = None if r[2] is None else int(getattr(r[2], 'status', -2))
    if c['kind'] == 'closed':
      L = c['t']['leaf']
      best = sum((lo if pi > 0 else hi) * pi for (lo, hi), pi in zip(L['bounds'], c['p'][1]))
      got = sum(F(v) * pi for v, pi in zip(o['x'][0], c['p'][1]))
      o['closed_excess'] = got - best
  return o


def coq_out(out):
  if out == 'opt':
    return Raw('OOpt')
  if out == 'value':
    return Raw('OValue')
  return Raw('(OAccept %s %s)' % (cq(out[1]), cq(bool(out[2]))))


def coq_case(c, o):
  if c['kind'] == 'fault':
    k, M = c['s0']
    s0 = Raw('None') if k == 'default' else Some(flat(M))
    prox = Raw('None') if c['prox'] is None else Some(c['prox'])
    stub = Raw('(Build_optresult %s %s %s)' % (cq(bool(c['success'])), cq(int(c['status'])), cq(stub_x(c))))
    called = o['called']
    return '(KFault %s %s %s %s %s %s %s %s %s %s %s %s %s %s %s %s)' % (
        cq(tg.coq_tree(c['t'])), cq(tg.coq_price(c['p'])), cq(s0), cq(prox), cq(stub), cq(c['probe']), cq(called),
        cq(o['x0'] if called else []), cq(o['fun'] if called else F(0)), cq(o['jac'] if called else []),
        cq(N(o['nb'] if called else 0)), cq(N(o['nc'] if called else 0)), cq(coq_out(o['out'])),
        cq(coq_opts(c.get('opts') or {})), cq(coq_opts(o.get('opts') or {})), cq(N(len(o.get('opts') or {}))))
  if c['kind'] == 'infeasible' or (o['out'] != 'accept' and True):
    # a raise: acceptable for every kind except that an infeasible model MUST raise
    if c['kind'] == 'infeasible' and not o['lp_feasible']:
      return '(KMustRaise %s)' % cq(o['out'] == 'opt')
    if o['out'] != 'accept':
      return '(KMustRaise true)'
  gap, gtol = (o['gap'], o['gtol']) if o['gap'] is not None else (0.0, 1.0)
  if c['kind'] == 'closed':
    gap, gtol = float(o['closed_excess']), GAP_REL * (1 + abs(float(sum(F(v) * pi for v, pi in zip(o['x'][0], c['p'][1])))))
  return '(KSolve %s %s %s %s %s %s %s %s)' % (cq(N(o['shape'][0])), cq(N(o['shape'][1])), cq(o['bounds']), cq(o['x']),
                                               cq(fr(float(o['resid']))), cq(fr(float(gap))), cq(fr(float(gtol))), cq(fr(float(o['ftol']))))


def nontrivial(c, o):
  if c['kind'] == 'fault':
    return o['called'] or o['out'] in ('opt', 'value')
  return o['out'] != 'accept' or o.get('status') is not None


def classify(c, o):
  ks = ['kind:' + c['kind'], 'tree-depth:%d' % tg.depth(c['t'])] + ['has:' + x for x in tg.kinds(c['t'])]
  ks.append('start:' + c['s0'][0])
  ks.append('prox:' + ('none' if c['prox'] is None else 'zero' if c['prox'] == 0 else 'positive'))
  ks.append('price:' + c['p'][0])
  if c['kind'] == 'fault':
    ks += ['cfg:' + c['cfg'], 'stub-status:%d' % c['status'], 'stub-success:%s' % c['success'], 'stub-x:' + c['xkind'],
           'consulted:%s' % o['called'], 'outcome:' + (o['out'] if isinstance(o['out'], str) else 'accept')]
  else:
    ks.append('outcome:' + o['out'])
    ks.append('lp-feasible:%s' % o['lp_feasible'])
    if o['out'] == 'accept':
      ks.append('slsqp-status:%s' % o['status'])
      if o['gap'] is None:
        ks.append('gap-not-judged:' + str(o['why_no_gap']))
      else:
        rel = o['gap'] / (o['gtol'] / GAP_REL)
        ks.append('rel-gap:' + ('<=1e-6' if rel <= 1e-6 else '<=1e-5' if rel <= 1e-5 else '<=1e-4' if rel <= 1e-4 else '<=1e-3' if rel <= 1e-3 else '>1e-3'))
  return ks


# ---------------------------------------------------------------------------------------------------
# json
# ---------------------------------------------------------------------------------------------------
def case_to_json(c):
  d = {'kind': c['kind'], 't': tg.tree_to_json(c['t']), 'p': tg.price_to_json(c['p']),
       's0': [c['s0'][0], None if c['s0'][1] is None else tg.matrix_to_json(c['s0'][1])],
       'prox': None if c['prox'] is None else core.jsonable(c['prox'])}
  if c['kind'] == 'fault':
    d.update({'cfg': c['cfg'], 'probe': core.jsonable(c['probe']), 'good': core.jsonable(c['good']), 'status': c['status'],
              'success': c['success'], 'xkind': c['xkind'], 'opts': core.jsonable(c.get('opts') or {}), 'pre': core.jsonable(c.get('pre'))})
  return d


def opts_from_json(o):
  return {k: (F(v) if k == 'ftol' else v) for k, v in o.items()}


def case_from_json(j):
  c = {'kind': j['kind'], 't': tg.tree_from_json(j['t']), 'p': tg.price_from_json(j['p']),
       's0': (j['s0'][0], None if j['s0'][1] is None else tg.matrix_from_json(j['s0'][1])),
       'prox': None if j['prox'] is None else F(j['prox'])}
  if j['kind'] == 'fault':
    c.update({'cfg': j['cfg'], 'probe': [F(v) for v in j['probe']], 'good': [F(v) for v in j['good']], 'status': int(j['status']),
              'success': bool(j['success']), 'xkind': j['xkind'], 'opts': opts_from_json(j.get('opts') or {}), 'pre': None if j.get('pre') is None else opts_from_json(j['pre'])})
  return c


# ---------------------------------------------------------------------------------------------------
# direct oracle on the implementation
# ---------------------------------------------------------------------------------------------------
def all_fixed(T):
  return all(lo == hi for _, L in tg.leaf_list(T) for lo, hi in L['bounds'])


DOC_CLASSES = ('Device', 'CDevice', 'IDevice', 'IDevice2', 'CDevice2', 'PVDevice', 'GDevice', 'SDevice', 'ADevice')


def doc_infeasible(T):
  """whether the only flow within bounds of an all-fixed tree violates a documented hard constraint (leaf constraints as C03 states
  them, per-slot sbounds of every set), computed from the description alone; None when the tree has a unit this does not cover."""
  import c03
  tol = F(1, 10**6)

  def walk(t):
    if t['kind'] == 'leaf':
      L = t['leaf']
      if L['cls'] not in DOC_CLASSES:
        return None
      x = [lo for lo, _ in L['bounds']]
      ineq, eq = c03.margin(L, x)
      return [x], (ineq < -tol or eq > tol)
    if t['kind'] != 'set':
      return None
    rws, bad = [], False
    for k in t['kids']:
      r = walk(k)
      if r is None:
        return None
      rws += r[0]
      bad = bad or r[1]
    if t.get('sbounds'):
      for i, (lo, hi) in enumerate(t['sbounds']):
        tot = sum((r[i] for r in rws), F(0))
        if tot < lo - tol or tot > hi + tol:
          bad = True
    return rws, bad
  r = walk(T)
  return None if r is None else r[1]


def oracle_fault(c):
  """the property under fault injection: no success reported -> OptimizationException; success -> the reported point in the
  device shape (or an exception for a malformed one); never something else"""
  o = observe_fault(c)
  out = o['out']
  if not o['called']:
    if all_fixed(c['t']):
      bad = doc_infeasible(c['t'])
      if bad is None:
        dev = tg.build_tree(c['t'])
        bad = cc.nonlinear_residual(np.array(dev.lbounds, dtype=float), dev) > feas_tol(dev)
      if bad:
        return None if out == 'opt' else 'the only flow within bounds violates a constraint and solve did not raise OptimizationException'
      if not isinstance(out, tuple):
        return 'every slot is fixed (and feasible) but solve raised'
      pinned = [float(lo) for _, L in tg.leaf_list(c['t']) for lo, _ in L['bounds']]
      got = [float(v) for r in out[1] for v in r]
      return None if got == pinned else 'every slot is fixed: the only flow within bounds is %s, solve returned %s' % (pinned, got)
    return None if out == 'opt' else 'the optimiser was not consulted and solve did not raise OptimizationException'
  if not c['success']:
    return None if out == 'opt' else 'the optimiser reported failure (status %d) and solve %s' % (
        c['status'], 'returned a flow' if isinstance(out, tuple) else 'raised something else')
  if c['xkind'] != 'good':
    return None if out in ('value', 'opt') else 'a malformed optimiser result was turned into a flow'
  if not isinstance(out, tuple):
    return 'the optimiser reported success and solve raised'
  got = [v for r in out[1] for v in r]
  if got != list(c['good']):
    return 'solve returned something else than the point the optimiser reported'
  return None


def oracle_solve(c, skip_dependent=True):
  dev = tg.build_tree(c['t'])
  r = run_solve(dev, c)
  desc, lin, feas = problem_of(dev, c)
  if r == 'value':
    return 'solve raised ValueError'
  if r == 'opt':
    return None
  x = np.asarray(r[1], dtype=float)
  if tuple(x.shape) != tuple(int(v) for v in dev.shape):
    return 'returned flow has shape %s, device shape %s' % (x.shape, dev.shape)
  if lin and not feas:
    return 'the model is infeasible (LP) but solve returned a flow (constraint violation %.3g)' % cc.nonlinear_residual(x.reshape(-1), dev)
  j = judge(dev, c, r, skip_dependent)
  if j['resid'] > feas_tol(dev):
    return 'returned flow violates bounds/constraints by %.3g' % j['resid']
  if j['gap'] is not None and j['gap'] > j['gtol']:
    return 'returned flow is not optimal: Frank-Wolfe gap %.6g (tolerance %.3g): a feasible flow is cheaper by up to that much to first order' % (j['gap'], j['gtol'])
  if c['kind'] == 'closed':
    L = c['t']['leaf']
    best = float(sum((lo if pi > 0 else hi) * pi for (lo, hi), pi in zip(L['bounds'], c['p'][1])))
    got = float(dev.cost(x, tg.py_price(c['p'])))
    if got > best + GAP_REL * (1 + abs(best)):
      return 'cost %.9g, the closed-form optimum (lower bound where p>0, upper where p<0) costs %.9g' % (got, best)
  return None


def oracle(c):
  try:
    return oracle_fault(c) if c['kind'] == 'fault' else oracle_solve(c)
  except Exception as e:
    return 'implementation raised %s: %s' % (type(e).__name__, str(e)[:200])


SLSQP_FINDING = 'slsqp-false-success-dependent-constraints'


def finding_matches(f, c):
  """the open SLSQP finding: real solves of trees whose exported constraint rows are linearly dependent"""
  if f.get('id') != SLSQP_FINDING or c['kind'] == 'fault':
    return False
  desc = cc.linear_description(tg.build_tree(c['t']))
  return desc[6] and cc.structurally_dependent(desc) and cc.feasible_point(desc) is not None


def witness_fails(f):
  """replay the stored witness with the un-filtered oracle (the filter is what keeps the finding's region out of the run)"""
  w = f.get('witness')
  if not w:
    return True
  w = w.get('C05', w) if isinstance(w, dict) and 'kind' not in w else w
  try:
    c = case_from_json(w)
    if c['kind'] == 'fault':
      return oracle(c) is not None
    return oracle_solve(c, skip_dependent=False) is not None
  except Exception:
    return True


def search(rng, budget, seeds, findings):
  return core.default_search(__import__('c05'), rng, budget, seeds, findings)
