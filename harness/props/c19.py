"""C19 - step() stays feasible, never raises cost, and progresses when not optimal.   PARTIAL by nature.

step() makes two SLSQP calls (utils.project, the bounded line search): oracles, parameters of Model/Solve.v `step_model`.
(real) real step() calls, chained (repeated steps), on feasible convex leaves and trees from feasible starts given flat or in the
     device shape: the two inner results are recorded, and Coq re-runs `step_model` with exactly those oracle answers on the tree
     model and compares the outcome, the point handed to utils.project (s - t*deriv) and the line-search objective; Coq also
     evaluates the property with the model cost and constraints: shape, bounds, constraints to 1e-6, cost not higher (1e-9 rel),
     strictly lower when the start is clearly sub-optimal (Frank-Wolfe gap of the start > 1e-2, LP-computed).
(fault) both inner calls replaced by stubs reporting success / status 8 / other failures / malformed x: outcome vs step_model."""
import importlib
import logging
import numpy as np
from fractions import Fraction as F
import core
from core import cq, fr, fl, Raw, N, C, Some, dy
import leafgen as lg
import treegen as tg
import c18_common as cc
from c18_common import pick

ID = 'C19'
GEN = ['kernels', 'solve']
# the scalar kernels of functions.py this property's statement depends on (a change confined to the others is not this property's business;
# what its own correspondence compares still is)
KERNELS_USED = []
PROPS = 'Props/C19.v'
MODEL_VO = ['Model/Solve.v']
CASE_TYPE = 'kase'
CHECKER = 'chk'
SHARD = 40
FEAS_TOL = 1e-6


def feas_tol(dev):
  """feasibility is judged at the scale of the problem: SLSQP's own accuracy is relative to the magnitudes involved (a flow of 8192
  that misses a bound by 4e-6 is feasible to 5e-10 of its size)"""
  b = np.abs(np.asarray(dev.bounds, dtype=float))
  b = b[np.isfinite(b)]
  return FEAS_TOL * max(1.0, float(b.max()) if b.size else 1.0)
CLEAR_GAP = 1e-2
COQ_PRELUDE = '''From Coq Require Import ZArith QArith Qabs List Bool String.
From DK Require Import Num NumQ Vec.
From DK.Model Require Import Leaf Fn Dev Tree Solve.
Import ListNotations.
Local Open Scope Q_scope.
Inductive outcome := OAccept (m : list (list Q)) | OOpt | OValue.
(* one step() call: start (flat), the two oracle answers, what the implementation handed to utils.project, the line-search
   objective at x = 1/2 (when the line search was reached), the outcome, and whether strict progress is required *)
Record srec := { r_s : list Q; r_o : optresult Q; r_ol : optresult Q; r_target : list Q; r_ls : bool; r_phi_half : Q;
                 r_out : outcome; r_judge : bool; r_progress : bool }.
Inductive kase := KSteps (d : dev Q) (p : price Q) (t : Q) (recs : list srec).
Definition ftol : Q := 1 # 1000000.
Definition chk_rec (d : dev Q) (p : price Q) (t : Q) (r : srec) : bool :=
  let dv := tree_view d p in
  let s := r_s r in
  Qclose_list Qtol (vsub s (vscale t (List.concat (dv_deriv dv s)))) (r_target r) &&
  (if r_ls r then Qclose Qtol (dv_cost dv (step_point s (o_x (r_o r)) (1 # 2))) (r_phi_half r) else true) &&
  match step_model (fun _ => r_o r) (fun _ => r_ol r) dv s t, r_out r with
  | StAccept m _, OAccept m' =>
      Qclose_mat Qtol m m' &&
      (if r_judge r then
         let x := List.concat m' in
         Nat.eqb (List.length m') (dv_rows dv) && forallb (fun row => Nat.eqb (List.length row) (dv_n dv)) m' &&
         forallb (fun '(lh, v) => Qle_bool (fst lh - ftol) v && Qle_bool v (snd lh + ftol)) (combine (dv_bounds dv) x) &&
         forallb (fun c => con_sat ftol c x) (dv_cons dv) &&
         Qle_bool (dv_cost dv x) (dv_cost dv s + (1 # 1000000000) * (1 + Qabs (dv_cost dv s))) &&
         (if r_progress r then negb (Qle_bool (dv_cost dv s - (1 # 1000000000)) (dv_cost dv x)) else true)
       else true)
  | StRaiseOptimization, OOpt => true
  | StRaiseValueError, OValue => true
  | _, _ => false
  end.
Definition chk (c : kase) : bool := match c with KSteps d p t recs => forallb (chk_rec d p t) recs end.
'''
RULE = ('cases: (real) a feasible convex device tree (Device, PVDevice, CDevice, CDevice2, IDevice, IDevice2, GDevice leaves; sets with '
        'aggregate bounds, sub-balanced sets, adaptors; single- and multi-row) x price (scalar/vector/matrix) x a feasible start '
        '(LP vertices and their mixtures) passed flat or in the device shape x stepsize in {1/8..4} x 1..3 repeated steps; the two '
        'inner SLSQP answers are recorded and replayed into step_model inside Coq; Coq compares outcome and returned flow (1e-9), '
        'the projected point s - t*deriv and the line-search objective at 1/2, and evaluates shape, bounds, constraints (1e-6), '
        'cost non-increase (1e-9 rel) and strict progress when the LP-computed Frank-Wolfe gap of the start exceeds 1e-2*(1+|cost|) '
        'with the model cost. (fault) stubs for both inner calls: {success, status 8, status 4, status 9} x {x well-formed, short} '
        'for utils.project and {success, status 8, status 4} x {[x], []} for the line search. Non-trivial: the flow moved, or an '
        'exception is the expected outcome.')
EXPLANATION = ('Theorems (Props/C19.v): for ALL behaviours of the two inner optimiser calls step_model returns s + x (z - s) reshaped to '
               'the device shape or raises (status 8 tolerated); under the oracle contracts (utils.project returns a feasible point, the '
               'line search returns x in [0,1] not worse than 0) feasibility is preserved and the cost never increases for any number '
               'of repeated steps; the projected-gradient step is a descent direction and an exact line search makes strict progress '
               'whenever the projected point differs from the start. PARTIAL: that SLSQP honours those contracts is runtime behaviour '
               'of compiled code which the model cannot exhibit; the check measures it on every real call.')
ASSUMPTIONS = ['utils.project returns a feasible point when its report is tolerated; the line search returns x in [0,1] with phi(x) <= phi(0) (oracle contracts, measured per call)',
               'trees whose exported constraints are linearly dependent are run but strict progress is not required of them (SLSQP false-success finding)']
TRUSTED_EXTRA = ['scipy.optimize.linprog (HiGHS): feasible starts and the Frank-Wolfe gap of the start']
CONVEX_CLASSES = ['Device', 'PVDevice', 'CDevice', 'CDevice2', 'IDevice', 'IDevice2', 'GDevice']
SLSQP_FINDING = 'slsqp-false-success-dependent-constraints'


def flat(M):
  return [v for r in M for v in r]


def S():
  logging.getLogger('device_kit.solve').setLevel(logging.CRITICAL)     # status-8 reports are logged with warn()
  return importlib.import_module('device_kit.solve')


# ---------------------------------------------------------------------------------------------------
# generation
# ---------------------------------------------------------------------------------------------------
def feasible_start(rng, desc):
  """a feasible flow: a vertex of the polytope for a random linear objective, or a mixture of two"""
  m = len(desc[0])
  rs = np.random.RandomState(rng.randrange(1 << 30))
  a = cc.lp_min(rs.randn(m), desc)
  if a is None:
    return None
  if rng.random() < .5:
    return a[1]
  b = cc.lp_min(rs.randn(m), desc)
  w = rng.choice([0.25, 0.5, 0.75])
  return w * a[1] + (1 - w) * b[1]


def dyadic(v, bits=20):
  return F(int(round(float(v) * (1 << bits))), 1 << bits)


def gen_real(rng, i):
  for _ in range(8):
    T = tg.gen_tree(rng, pick(rng, [0, 1, 1, 1, 2]), lengths=[1, 2, 3, 4], classes=CONVEX_CLASSES, mf_classes=CONVEX_CLASSES, fanout=3)
    dev = tg.build_tree(T)
    desc = cc.linear_description(dev)
    if not desc[6]:
      continue
    s = feasible_start(rng, desc)
    if s is None:
      continue
    # snap to the dyadic grid (exact inputs) and keep it only if it is still feasible to 1e-9
    sq = [dyadic(v) for v in s]
    if cc.residual(np.array(fl(sq)), desc) > 1e-9:
      continue
    c = {'kind': 'real', 't': T, 'p': tg.gen_tree_price(rng, T), 's': sq, 'shape': pick(rng, ['flat', 'shaped', 'shaped']),
         'step': pick(rng, [F(1, 8), F(1, 2), F(1), F(1), F(4)]), 'k': pick(rng, [1, 1, 2, 3])}
    if i % 4 == 1:
      # the device has been stepped once with WIDER bounds on one leaf and was re-bounded afterwards (the public setter accepts it):
      # every later step must respect the bounds the device reports now
      if T['kind'] == 'leaf':
        c['late'] = -1
      elif T['kind'] in ('set', 'subbal'):
        ks = [j for j, k in enumerate(T['kids']) if k['kind'] == 'leaf' and not k['leaf'].get('cbounds')]
        if ks:
          c['late'] = ks[0]
      if c.get('late') == -1 and T['leaf'].get('cbounds'):
        c.pop('late')
    if i % 4 == 2:
      # a PREDECESSOR of the device - same ids, same shape, but without its cumulative and aggregate bounds (last window's model) - has
      # been stepped in the same process: nothing step() keeps between calls may reach this device
      c['decoy'] = True
    return c
  return None


PROJ_REPORTS = [(True, 0), (False, 8), (False, 4), (False, 9), (True, 8)]
LS_REPORTS = [(True, 0), (False, 8), (False, 4)]


def gen_fault(rng, i):
  T = tg.gen_tree(rng, pick(rng, [0, 1]), lengths=[1, 2, 3], fanout=2)
  s = flat(tg.gen_matrix(rng, T))
  z = flat(tg.gen_matrix(rng, T))
  out = []
  for pr in PROJ_REPORTS:
    for zk in ('good', 'short'):
      for lr in LS_REPORTS:
        for xk in ('one', 'empty'):
          out.append({'kind': 'fault', 't': T, 'p': tg.gen_tree_price(rng, T) if False else None, 's': s, 'shape': 'flat',
                      'step': F(1, 2), 'proj': pr, 'z': z if zk == 'good' else z[:-1], 'ls': lr,
                      'x': [pick(rng, [F(0), F(1, 4), F(1)])] if xk == 'one' else []})
  p = tg.gen_tree_price(rng, T)
  for c in out:
    c['p'] = p
  return out


def gen_cases(rng, tier):
  k = {'quick': 1, 'thorough': 10, 'search': 1}[tier]
  out = []
  for i in range(100 * k):
    c = gen_real(rng, i)
    if c is not None:
      out.append(c)
  for i in range((2 if tier != 'search' else 1) * k):
    out += gen_fault(rng, i)
  return out


# ---------------------------------------------------------------------------------------------------
# implementation side
# ---------------------------------------------------------------------------------------------------
def res_tuple(o):
  return (bool(o.success), int(getattr(o, 'status', -2)), fr(np.asarray(o.x, dtype=float).reshape(-1)))


def one_step(dev, price, s_arg, t, proj=None, ls=None):
  """run step() once with recording (or stubbed) inner calls. Returns a record dict."""
  M = S()
  keep = (M.project, M.minimize)
  rec = {'ls': False}

  def rproject(p, x0, bounds=[], constraints=[], solver_options={}):
    rec['target'] = fr(np.asarray(p, dtype=float).reshape(-1))
    rec['x0'] = fr(np.asarray(x0, dtype=float).reshape(-1))
    if proj is not None:
      from scipy.optimize import OptimizeResult
      o = OptimizeResult(x=np.array(fl(proj['z']), dtype=float), success=proj['report'][0], status=proj['report'][1], message='stub')
      rec['o'] = res_tuple(o)
      return (o.x.reshape(np.asarray(x0).shape), o)
    x, o = keep[0](p, x0, bounds, constraints, solver_options)
    rec['o'] = res_tuple(o)
    return (x, o)

  def rminimize(fun, x0, **kw):
    rec['ls'] = True
    rec['phi_half'] = fr(float(fun(np.array([0.5]))))
    rec['phi0'] = float(fun(np.array([0.0])))
    if ls is not None:
      from scipy.optimize import OptimizeResult
      ol = OptimizeResult(x=np.array(fl(ls['x']), dtype=float), success=ls['report'][0], status=ls['report'][1], message='stub')
    else:
      ol = keep[1](fun, x0, **kw)
    rec['ol'] = res_tuple(ol)
    if ol.x.size == 1:
      rec['phix'] = float(fun(np.array(ol.x, dtype=float)))
    return ol
  M.project, M.minimize = rproject, rminimize
  try:
    try:
      r, ol = M.step(dev, price, s_arg, t)
      r = np.asarray(r)
      if tuple(r.shape) != tuple(int(v) for v in dev.shape):
        raise AssertionError('returned flow has shape %s, device shape %s' % (r.shape, dev.shape))
      rec['out'] = ('accept', [fr(np.asarray(row, dtype=float)) for row in r])
      rec['result'] = r
    except M.OptimizationException:
      rec['out'] = 'opt'
    except ValueError:
      rec['out'] = 'value'
  finally:
    M.project, M.minimize = keep
  return rec


def start_gap(dev, c, s, desc):
  """relative Frank-Wolfe gap of the start (None when it is not judged)"""
  if not desc[6] or cc.structurally_dependent(desc):
    return None
  price = tg.py_price(c['p'])
  g = np.asarray(dev.deriv(np.array(s), price), dtype=float).reshape(-1)
  gap = cc.fw_gap(np.array(s), g, desc)
  if gap is None:
    return None
  return gap / (1 + abs(float(dev.cost(np.array(s), price))))


def build_dev(c):
  late = c.get('late')
  if late is None:
    return tg.build_tree(c['t'])
  import copy
  T0 = copy.deepcopy(c['t'])
  L = T0['leaf'] if late == -1 else T0['kids'][late]['leaf']
  target = [tuple(b) for b in L['bounds']]
  L['bounds'] = lg.widen(L['bounds'])
  for k in ('rebound', 'recb', 'post_set', 'intb'):
    L.pop(k, None)
  dev = tg.build_tree(T0)
  s = np.array(fl(c['s']))
  try:
    S().step(dev, tg.py_price(c['p']), s.reshape(dev.shape), float(c['step']))
  except Exception:
    pass
  leaf = dev if late == -1 else dev.devices[late]
  leaf.bounds = np.array(fl([list(b) for b in target]))
  return dev


def step_decoy(c):
  try:
    d0 = tg.build_tree(tg.predecessor(c['t']))
    s = np.array(fl(c['s']))
    S().step(d0, tg.py_price(c['p']), s.reshape(d0.shape), float(c['step']))
  except Exception:
    pass


def observe(c):
  if c.get('decoy'):
    step_decoy(c)
  dev = build_dev(c)
  price = tg.py_price(c['p'])
  t = float(c['step'])
  if c['kind'] == 'fault':
    s = np.array(fl(c['s']))
    rec = one_step(dev, price, s, t, proj={'z': c['z'], 'report': c['proj']}, ls={'x': c['x'], 'report': c['ls']})
    rec['s'] = list(c['s'])
    rec['judge'] = False
    rec['progress'] = False
    return {'recs': [rec]}
  desc = cc.linear_description(dev)
  s = np.array(fl(c['s']))
  recs = []
  for i in range(c['k']):
    s_arg = s.reshape(dev.shape) if c['shape'] == 'shaped' else s.copy()
    rel = start_gap(dev, c, s, desc)
    rec = one_step(dev, price, s_arg, t)
    rec['s'] = fr(s)
    rec['judge'] = True
    rec['start_gap'] = rel
    rec['progress'] = rel is not None and rel > CLEAR_GAP
    rec['z_resid'] = cc.residual(np.array(fl(rec['o'][2])), desc) if 'o' in rec and len(rec['o'][2]) == len(s) else None
    recs.append(rec)
    if rec['out'] in ('opt', 'value'):
      break
    s = rec['result'].reshape(-1)
  return {'recs': recs, 'dependent': cc.structurally_dependent(desc)}


def coq_opt(t):
  return Raw('(Build_optresult %s %s %s)' % (cq(bool(t[0])), cq(int(t[1])), cq(list(t[2]))))


def coq_rec(r):
  none = (False, 0, [])
  out = r['out']
  o = Raw('OOpt') if out == 'opt' else Raw('OValue') if out == 'value' else Raw('(OAccept %s)' % cq(out[1]))
  return Raw('(Build_srec %s %s %s %s %s %s %s %s %s)' % (
      cq(list(r['s'])), cq(coq_opt(r.get('o', none))), cq(coq_opt(r.get('ol', none))), cq(r.get('target', [])), cq(bool(r['ls'])),
      cq(r.get('phi_half', F(0))), cq(o), cq(bool(r['judge'])), cq(bool(r['progress']))))


def coq_case(c, o):
  return '(KSteps %s %s %s %s)' % (cq(tg.coq_tree(c['t'])), cq(tg.coq_price(c['p'])), cq(c['step']), cq([coq_rec(r) for r in o['recs']]))


def nontrivial(c, o):
  r = o['recs'][0]
  if r['out'] in ('opt', 'value'):
    return True
  return [v for row in r['out'][1] for v in row] != list(r['s'])


def classify(c, o):
  ks = ['kind:' + c['kind'], 'tree-depth:%d' % tg.depth(c['t']), 'rows:%s' % ('1' if tg.rows(c['t']) == 1 else '>1'), 'input:' + c['shape'],
        'price:' + c['p'][0], 'stepsize:%s' % float(c['step'])] + ['has:' + x for x in tg.kinds(c['t'])]
  ks.append('steps:%d' % len(o['recs']))
  for r in o['recs']:
    ks.append('outcome:' + (r['out'] if isinstance(r['out'], str) else 'accept'))
    if c['kind'] == 'fault':
      ks += ['stub-project:%s/%d' % c['proj'], 'stub-linesearch:%s/%d' % c['ls']]
      continue
    if 'o' in r:
      ks.append('project-status:%d' % r['o'][1])
      if r.get('z_resid') is not None:
        ks.append('contract-project-feasible:' + ('ok' if r['z_resid'] <= FEAS_TOL else 'VIOLATED'))
    if 'ol' in r:
      ks.append('linesearch-status:%d' % r['ol'][1])
      if 'phix' in r:
        x = float(r['ol'][2][0])
        ks.append('contract-linesearch:' + ('ok' if -1e-12 <= x <= 1 + 1e-12 and r['phix'] <= r['phi0'] + 1e-9 * (1 + abs(r['phi0'])) else 'VIOLATED'))
    g = r.get('start_gap')
    ks.append('start-gap:' + ('not-judged' if g is None else '>1e-2' if g > CLEAR_GAP else '<=1e-2'))
  if o.get('dependent'):
    ks.append('dependent-constraint-rows')
  return ks


# ---------------------------------------------------------------------------------------------------
# json
# ---------------------------------------------------------------------------------------------------
def case_to_json(c):
  d = {'kind': c['kind'], 't': tg.tree_to_json(c['t']), 'p': tg.price_to_json(c['p']), 's': core.jsonable(c['s']), 'shape': c['shape'],
       'step': core.jsonable(c['step'])}
  if c['kind'] == 'real':
    d['k'] = c['k']
    d['late'] = c.get('late')
    d['decoy'] = bool(c.get('decoy'))
  else:
    d.update({'proj': list(c['proj']), 'z': core.jsonable(c['z']), 'ls': list(c['ls']), 'x': core.jsonable(c['x'])})
  return d


def case_from_json(j):
  c = {'kind': j['kind'], 't': tg.tree_from_json(j['t']), 'p': tg.price_from_json(j['p']), 's': [F(v) for v in j['s']],
       'shape': j['shape'], 'step': F(j['step'])}
  if j['kind'] == 'real':
    c['k'] = int(j['k'])
    if j.get('late') is not None:
      c['late'] = int(j['late'])
    if j.get('decoy'):
      c['decoy'] = True
  else:
    c.update({'proj': (bool(j['proj'][0]), int(j['proj'][1])), 'z': [F(v) for v in j['z']], 'ls': (bool(j['ls'][0]), int(j['ls'][1])),
              'x': [F(v) for v in j['x']]})
  return c


# ---------------------------------------------------------------------------------------------------
# direct oracle on the implementation (plain calls, no recording, the implementation's own cost)
# ---------------------------------------------------------------------------------------------------
def oracle_real(c):
  M = S()
  if c.get('decoy'):
    step_decoy(c)
  dev = build_dev(c)
  price = tg.py_price(c['p'])
  desc = cc.linear_description(dev)
  s = np.array(fl(c['s']))
  if cc.residual(s, desc) > 1e-9:
    return None      # not a feasible start: the property does not speak
  for i in range(c['k']):
    s_arg = s.reshape(dev.shape) if c['shape'] == 'shaped' else s.copy()
    rel = start_gap(dev, c, s, desc)
    try:
      r, ol = M.step(dev, price, s_arg, float(c['step']))
    except M.OptimizationException:
      return None      # raising is not a silent bad flow; the property constrains what is returned
    r = np.asarray(r, dtype=float)
    if tuple(r.shape) != tuple(int(v) for v in dev.shape):
      return 'step %d returned shape %s, device shape %s' % (i + 1, r.shape, dev.shape)
    res = cc.nonlinear_residual(r.reshape(-1), dev)
    if res > feas_tol(dev):
      return 'step %d left the feasible set: violation %.3g' % (i + 1, res)
    c0, c1 = float(dev.cost(s, price)), float(dev.cost(r, price))
    if c1 > c0 + 1e-9 * (1 + abs(c0)):
      return 'step %d raised the cost from %.12g to %.12g' % (i + 1, c0, c1)
    if rel is not None and rel > CLEAR_GAP and not c1 < c0 - 1e-9:
      return 'step %d made no progress (cost %.12g -> %.12g) although the start is clearly sub-optimal (relative Frank-Wolfe gap %.3g)' % (i + 1, c0, c1, rel)
    s = r.reshape(-1)
  return None


def oracle_fault(c):
  o = observe(c)['recs'][0]
  out = o['out']
  tol = lambda rep: rep[0] or rep[1] == 8
  if len(c['z']) != len(c['s']):
    return None if out in ('value', 'opt') else 'a malformed projection result was accepted'
  if not tol(c['proj']):
    return None if out == 'opt' else 'utils.project reported failure (status %d) and step did not raise OptimizationException' % c['proj'][1]
  if not tol(c['ls']):
    return None if out == 'opt' else 'the line search reported failure (status %d) and step did not raise OptimizationException' % c['ls'][1]
  if len(c['x']) != 1:
    return None if out in ('value', 'opt') else 'a malformed line-search result was accepted'
  if not isinstance(out, tuple):
    return 'both inner calls were tolerated and step raised'
  want = [a + c['x'][0] * (b - a) for a, b in zip(c['s'], c['z'])]
  got = [v for row in out[1] for v in row]
  if any(abs(float(a) - float(b)) > 1e-9 * (1 + abs(float(b))) for a, b in zip(got, want)):
    return 'step returned something else than s + x (z - s)'
  return None


def oracle(c):
  try:
    return oracle_fault(c) if c['kind'] == 'fault' else oracle_real(c)
  except Exception as e:
    return 'implementation raised %s: %s' % (type(e).__name__, str(e)[:200])


def finding_matches(f, c):
  return False


def witness_fails(f):
  """the shared SLSQP finding is replayed through utils.project, the call step() makes (witness stored in C18 form)"""
  if f.get('id') != SLSQP_FINDING:
    return True
  try:
    import c18
    return c18.witness_fails(f)
  except Exception:
    return True


def search(rng, budget, seeds, findings):
  return core.default_search(__import__('c19'), rng, budget, seeds, findings)
