"""Syntactic state inventory for C12: every in-place write site of the package, found on the Python AST.

A site is (file, enclosing function, kind, what) - no line numbers, so moving code around does not change the inventory.
kinds: attr-assign (x.a = ..), item-assign (x[i] = .. / x[a:b] = ..), aug-attr / aug-item (+= etc. on those), del, setattr,
mutating-call (.append/.update/.extend/.insert/.pop/.remove/.sort/.clear/.setdefault/.popitem/.reverse/.fill/.resize/.put/
.itemset/.difference_update/... on anything), lru_cache (decorator), global / nonlocal, mutable-default (list/dict/set literal as a
parameter default), class-mutable-attr (list/dict/set literal or constructor call bound in a class body)."""
import ast
import json
import os

MUTATORS = {'append', 'update', 'extend', 'insert', 'pop', 'remove', 'sort', 'clear', 'setdefault', 'popitem', 'reverse',
            'fill', 'resize', 'put', 'itemset', 'difference_update', 'intersection_update', 'symmetric_difference_update',
            'add', 'discard', 'setflags', 'partition', 'byteswap'}
# files that are not part of the device API (plotting, CLI, scenario loaders, samples): listed, never an obligation
TOOLING = ('plots.py', 'run.py', '__main__.py', 'loaders/', 'sample_scenarios/')


def _targets(t):
  if isinstance(t, (ast.Tuple, ast.List)):
    for e in t.elts:
      for x in _targets(e):
        yield x
  elif isinstance(t, ast.Starred):
    for x in _targets(t.value):
      yield x
  else:
    yield t


class Scanner(ast.NodeVisitor):
  def __init__(self, rel):
    self.rel = rel
    self.stack = []
    self.sites = []
    self.setter_depth = 0

  def where(self):
    return '.'.join(self.stack) if self.stack else '<module>'

  def add(self, kind, what):
    self.sites.append({'file': self.rel, 'function': self.where(), 'kind': kind, 'what': what})

  def visit_ClassDef(self, node):
    for st in node.body:
      if isinstance(st, (ast.Assign, ast.AnnAssign)):
        v = st.value
        if isinstance(v, (ast.List, ast.Dict, ast.Set)) or (isinstance(v, ast.Call) and not isinstance(v.func, ast.Attribute) and getattr(v.func, 'id', '') in ('list', 'dict', 'set')) \
           or (isinstance(v, ast.Call) and isinstance(v.func, ast.Name) and v.func.id[:1].isupper()):
          names = [ast.unparse(t) for t in (st.targets if isinstance(st, ast.Assign) else [st.target])]
          self.sites.append({'file': self.rel, 'function': node.name, 'kind': 'class-mutable-attr', 'what': ','.join(names)})
    self.stack.append(node.name)
    self.generic_visit(node)
    self.stack.pop()

  def _func(self, node):
    for d in node.decorator_list:
      txt = ast.unparse(d)
      if 'lru_cache' in txt or txt.endswith('.cache') or txt == 'cache':
        self.stack.append(node.name)
        self.add('lru_cache', txt)
        self.stack.pop()
    a = node.args
    defaults = list(a.defaults) + [d for d in a.kw_defaults if d is not None]
    for d in defaults:
      if isinstance(d, (ast.List, ast.Dict, ast.Set)):
        self.stack.append(node.name)
        self.add('mutable-default', ast.unparse(d))
        self.stack.pop()
    setter = any(ast.unparse(d).endswith('.setter') for d in node.decorator_list)
    self.stack.append(node.name + ('[setter]' if setter else ''))
    self.generic_visit(node)
    self.stack.pop()

  visit_FunctionDef = _func
  visit_AsyncFunctionDef = _func

  def visit_Lambda(self, node):
    self.stack.append('<lambda>')
    self.generic_visit(node)
    self.stack.pop()

  def visit_Assign(self, node):
    for t in node.targets:
      for x in _targets(t):
        if isinstance(x, ast.Attribute):
          self.add('attr-assign', ast.unparse(x))
        elif isinstance(x, ast.Subscript):
          self.add('item-assign', ast.unparse(x.value) + '[]')
    self.generic_visit(node)

  def visit_AnnAssign(self, node):
    if node.value is not None:
      x = node.target
      if isinstance(x, ast.Attribute):
        self.add('attr-assign', ast.unparse(x))
      elif isinstance(x, ast.Subscript):
        self.add('item-assign', ast.unparse(x.value) + '[]')
    self.generic_visit(node)

  def visit_AugAssign(self, node):
    x = node.target
    if isinstance(x, ast.Attribute):
      self.add('aug-attr', ast.unparse(x))
    elif isinstance(x, ast.Subscript):
      self.add('aug-item', ast.unparse(x.value) + '[]')
    self.generic_visit(node)

  def visit_Delete(self, node):
    for t in node.targets:
      self.add('del', ast.unparse(t.value) + '[]' if isinstance(t, ast.Subscript) else ast.unparse(t))
    self.generic_visit(node)

  def visit_Global(self, node):
    self.add('global', ','.join(node.names))

  def visit_Nonlocal(self, node):
    self.add('nonlocal', ','.join(node.names))

  def visit_Call(self, node):
    f = node.func
    if isinstance(f, ast.Name) and f.id in ('setattr', 'delattr'):
      self.add('setattr', ast.unparse(node.args[0]) if node.args else '')
    elif isinstance(f, ast.Attribute) and f.attr in MUTATORS:
      self.add('mutating-call', ast.unparse(f.value) + '.' + f.attr)
    elif isinstance(f, ast.Attribute) and f.attr in ('__setattr__', '__setitem__', '__delitem__', '__dict__'):
      self.add('setattr', ast.unparse(f))
    self.generic_visit(node)


def scan(repo):
  root = os.path.join(repo, 'device_kit')
  sites = []
  for d, _, fs in sorted(os.walk(root)):
    for fn in sorted(fs):
      if not fn.endswith('.py'):
        continue
      path = os.path.join(d, fn)
      rel = os.path.relpath(path, root)
      sc = Scanner(rel)
      sc.visit(ast.parse(open(path).read(), path))
      sites += sc.sites
  return sites


def key(s):
  # `what` (the target text) is documentation only: renaming a local variable is not a new write site
  return (s['file'], s['function'], s['kind'])


def is_tooling(s):
  return any(s['file'] == t or s['file'].startswith(t) for t in TOOLING)


def compare(found, inventory):
  """-> (new sites (not in the inventory, multiset), vanished sites). Only `new` is an obligation."""
  from collections import Counter
  cf, ci = Counter(key(s) for s in found), Counter(key(s) for s in inventory)
  new = [dict(zip(('file', 'function', 'kind'), k)) for k, c in sorted(cf.items()) for _ in range(c - ci.get(k, 0))]
  gone = [dict(zip(('file', 'function', 'kind'), k)) for k, c in sorted(ci.items()) for _ in range(c - cf.get(k, 0))]
  return new, gone


if __name__ == '__main__':
  import sys
  for s in scan(sys.argv[1] if len(sys.argv) > 1 else '/repo'):
    print(json.dumps(s))
