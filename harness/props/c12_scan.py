"""Syntactic state inventory for C12: every in-place write site of the package, found on the Python AST.

A site is (file, enclosing function, kind, what) - no line numbers, so moving code around does not change the inventory.
kinds: attr-assign (x.a = ..), item-assign (x[i] = .. / x[a:b] = ..), aug-attr / aug-item (+= etc. on those), del, setattr,
mutating-call (.append/.update/.extend/.insert/.pop/.remove/.sort/.clear/.setdefault/.popitem/.reverse/.fill/.resize/.put/
.itemset/.difference_update/... on anything), lru_cache (decorator), global / nonlocal, mutable-default (list/dict/set literal as a
parameter default), class-mutable-attr (list/dict/set literal or constructor call bound in a class body)."""
import ast
import json
import os

MUTATORS = {'append', 'update', 'extend', 'insert', 'pop', 'remove', 'sort', 'clear', 'setdefault', 'popitem', 'reverse',
            'fill', 'resize', 'put', 'itemset', 'difference_update', 'intersection_update', 'symmetric_difference_update',
            'add', 'discard', 'setflags', 'partition', 'byteswap'}
# files that are not part of the device API (plotting, CLI, scenario loaders, samples): listed, never an obligation
TOOLING = ('plots.py', 'run.py', '__main__.py', 'loaders/', 'sample_scenarios/')


def _targets(t):
  if isinstance(t, (ast.Tuple, ast.List)):
    for e in t.elts:
      for x in _targets(e):
        yield x
  elif isinstance(t, ast.Starred):
    for x in _targets(t.value):
      yield x
  else:
    yield t


class Scanner(ast.NodeVisitor):
  def __init__(self, rel):
    self.rel = rel
    self.stack = []
    self.sites = []
    self.setter_depth = 0

  def where(self):
    return '.'.join(self.stack) if self.stack else '<module>'

  def add(self, kind, what):
    self.sites.append({'file': self.rel, 'function': self.where(), 'kind': kind, 'what': what})

  def visit_ClassDef(self, node):
    for st in node.body:
      if isinstance(st, (ast.Assign, ast.AnnAssign)):
        v = st.value
        if isinstance(v, (ast.List, ast.Dict, ast.Set)) or (isinstance(v, ast.Call) and not isinstance(v.func, ast.Attribute) and getattr(v.func, 'id', '') in ('list', 'dict', 'set')) \
           or (isinstance(v, ast.Call) and isinstance(v.func, ast.Name) and v.func.id[:1].isupper()):
          names = [ast.unparse(t) for t in (st.targets if isinstance(st, ast.Assign) else [st.target])]
          self.sites.append({'file': self.rel, 'function': node.name, 'kind': 'class-mutable-attr', 'what': ','.join(names)})
    self.stack.append(node.name)
    self.generic_visit(node)
    self.stack.pop()

  def _func(self, node):
    for d in node.decorator_list:
      txt = ast.unparse(d)
      if 'lru_cache' in txt or txt.endswith('.cache') or txt == 'cache':
        self.stack.append(node.name)
        self.add('lru_cache', txt)
        self.stack.pop()
    a = node.args
    defaults = list(a.defaults) + [d for d in a.kw_defaults if d is not None]
    for d in defaults:
      if isinstance(d, (ast.List, ast.Dict, ast.Set)):
        self.stack.append(node.name)
        self.add('mutable-default', ast.unparse(d))
        self.stack.pop()
    setter = any(ast.unparse(d).endswith('.setter') for d in node.decorator_list)
    self.stack.append(node.name + ('[setter]' if setter else ''))
    self.generic_visit(node)
    self.stack.pop()

  visit_FunctionDef = _func
  visit_AsyncFunctionDef = _func

  def visit_Lambda(self, node):
    self.stack.append('<lambda>')
    self.generic_visit(node)
    self.stack.pop()

  def visit_Assign(self, node):
    for t in node.targets:
      for x in _targets(t):
        if isinstance(x, ast.Attribute):
          self.add('attr-assign', ast.unparse(x))
        elif isinstance(x, ast.Subscript):
          self.add('item-assign', ast.unparse(x.value) + '[]')
    self.generic_visit(node)

  def visit_AnnAssign(self, node):
    if node.value is not None:
      x = node.target
      if isinstance(x, ast.Attribute):
        self.add('attr-assign', ast.unparse(x))
      elif isinstance(x, ast.Subscript):
        self.add('item-assign', ast.unparse(x.value) + '[]')
    self.generic_visit(node)

  def visit_AugAssign(self, node):
    x = node.target
    if isinstance(x, ast.Attribute):
      self.add('aug-attr', ast.unparse(x))
    elif isinstance(x, ast.Subscript):
      self.add('aug-item', ast.unparse(x.value) + '[]')
    self.generic_visit(node)

  def visit_Delete(self, node):
    for t in node.targets:
      self.add('del', ast.unparse(t.value) + '[]' if isinstance(t, ast.Subscript) else ast.unparse(t))
    self.generic_visit(node)

  def visit_Global(self, node):
    self.add('global', ','.join(node.names))

  def visit_Nonlocal(self, node):
    self.add('nonlocal', ','.join(node.names))

  def visit_Call(self, node):
    f = node.func
    if isinstance(f, ast.Name) and f.id in ('setattr', 'delattr'):
      self.add('setattr', ast.unparse(node.args[0]) if node.args else '')
    elif isinstance(f, ast.Attribute) and f.attr in MUTATORS:
      self.add('mutating-call', ast.unparse(f.value) + '.' + f.attr)
    elif isinstance(f, ast.Attribute) and f.attr in ('__setattr__', '__setitem__', '__delitem__', '__dict__'):
      self.add('setattr', ast.unparse(f))
    self.generic_visit(node)


# ---------------------------------------------------------------------------------------------------------------------------
# automatic classification of the sites that cannot matter for C12, so that ordinary refactoring (a new local list, a helper
# extracted from a setter) does not need a hand-written inventory entry:
#   local-fresh       the written object is a local name bound ONLY to objects created inside the same call (list / dict / set /
#                     tuple displays, comprehensions, arithmetic results, np.zeros/ones/array/stack/..., .copy(), list(), dict(), ...)
#   constructor-self  `self.<attr> = ...` / `self.<attr>[..] = ...` directly inside __init__: the object under construction
#   unreachable       the enclosing function cannot be reached (name-based call graph, attribute loads count as calls of
#                     properties, attribute stores as calls of setters, class names as calls of __init__, setattr as a call of every
#                     setter) from the read-only API C12 quantifies over; e.g. setters, validators and helpers only they use
# Everything else still has to be classified by hand in corpus/C12/write_sites.json.
# ---------------------------------------------------------------------------------------------------------------------------
FRESH_FUNCS = {'list', 'dict', 'set', 'tuple', 'sorted', 'OrderedDict', 'deepcopy', 'range', 'zip', 'enumerate', 'map', 'filter',
               'reversed', 'len', 'float', 'int', 'str', 'bool', 'sum', 'min', 'max', 'abs', 'round'}
FRESH_NP = {'zeros', 'ones', 'array', 'empty', 'full', 'zeros_like', 'ones_like', 'empty_like', 'full_like', 'stack', 'vstack', 'hstack',
            'concatenate', 'tile', 'repeat', 'copy', 'diag', 'arange', 'linspace', 'eye', 'identity', 'outer', 'dot', 'where', 'minimum',
            'maximum', 'clip', 'cumsum', 'cumprod', 'tril', 'triu', 'power', 'abs', 'sign', 'sum', 'prod', 'mean', 'sqrt', 'exp', 'log',
            'poly1d', 'polyadd', 'polyval', 'vectorize', 'meshgrid', 'append', 'delete', 'insert', 'roll', 'sort', 'argsort', 'flip',
            'kron', 'matmul', 'multiply', 'add', 'subtract', 'divide', 'negative', 'square', 'isclose', 'allclose', 'logical_and',
            'logical_or', 'logical_not', 'nan_to_num', 'float64', 'int64'}
FRESH_METHODS = {'copy', 'flatten', 'astype', 'tolist', 'sum', 'cumsum', 'dot', 'mean', 'min', 'max', 'items', 'keys', 'values', 'deriv',
                 'split', 'join', 'format', 'strip', 'lower', 'upper', 'any', 'all', 'round', 'clip', 'repeat', 'conj'}

READ_ONLY_API = {'cost', 'costv', 'deriv', 'hess', 'bounds', 'lbounds', 'hbounds', 'cbounds', 'sbounds', 'constraints', 'project', 'map',
                 'mapDevices', 'leaf_devices', 'to_dict', 'shape', 'shapes', 'partition', 'slices', 'get', 'find', 'id', 'length',
                 'params', 'devices', 'flows', 'solve', 'step', 'to_str', 'is_in', 'dykstra_project'}
ALWAYS = {'__call__', '__iter__', '__len__', '__str__', '__repr__', '__getattr__', '__getitem__', '__contains__', '__eq__', '__hash__'}


def _fresh(e, fresh_names):
  if isinstance(e, (ast.List, ast.Dict, ast.Set, ast.Tuple, ast.ListComp, ast.DictComp, ast.SetComp, ast.GeneratorExp, ast.Constant,
                    ast.BinOp, ast.UnaryOp, ast.Compare, ast.BoolOp, ast.JoinedStr, ast.Lambda)):
    return True
  if isinstance(e, ast.Name):
    return e.id in fresh_names
  if isinstance(e, ast.IfExp):
    return _fresh(e.body, fresh_names) and _fresh(e.orelse, fresh_names)
  if isinstance(e, ast.Call):
    f = e.func
    if isinstance(f, ast.Name):
      return f.id in FRESH_FUNCS or f.id[:1].isupper()      # a constructor call builds a new object
    if isinstance(f, ast.Attribute):
      if isinstance(f.value, ast.Name) and f.value.id in ('np', 'numpy'):
        return f.attr in FRESH_NP
      return f.attr in FRESH_METHODS
  return False


def _own_nodes(fn):
  """Nodes of the body of `fn` that are not inside a nested def/lambda/class (comprehensions are included)."""
  stack = list(fn.body) if not isinstance(fn, ast.Lambda) else [fn.body]
  while stack:
    n = stack.pop()
    yield n
    for c in ast.iter_child_nodes(n):
      if isinstance(c, (ast.FunctionDef, ast.AsyncFunctionDef, ast.Lambda, ast.ClassDef)):
        continue
      stack.append(c)


def fresh_locals(fn):
  a = fn.args
  params = {x.arg for x in a.posonlyargs + a.args + a.kwonlyargs} | ({a.vararg.arg} if a.vararg else set()) | ({a.kwarg.arg} if a.kwarg else set())
  assigns, tainted = {}, set(params)
  for n in _own_nodes(fn):
    if isinstance(n, ast.Assign):
      for t in n.targets:
        if isinstance(t, ast.Name):
          assigns.setdefault(t.id, []).append(n.value)
        else:
          for x in _targets(t):
            if isinstance(x, ast.Name):
              tainted.add(x.id)          # unpacking: elements of something else
    elif isinstance(n, ast.AnnAssign) and isinstance(n.target, ast.Name) and n.value is not None:
      assigns.setdefault(n.target.id, []).append(n.value)
    elif isinstance(n, ast.AugAssign) and isinstance(n.target, ast.Name):
      assigns.setdefault(n.target.id, []).append(ast.Name(id=n.target.id, ctx=ast.Load()))
    elif isinstance(n, (ast.For, ast.AsyncFor)):
      for x in _targets(n.target):
        if isinstance(x, ast.Name):
          tainted.add(x.id)
    elif isinstance(n, (ast.With, ast.AsyncWith)):
      for it in n.items:
        if it.optional_vars is not None:
          for x in _targets(it.optional_vars):
            if isinstance(x, ast.Name):
              tainted.add(x.id)
    elif isinstance(n, (ast.Global, ast.Nonlocal)):
      tainted.update(n.names)
    elif isinstance(n, ast.NamedExpr) and isinstance(n.target, ast.Name):
      assigns.setdefault(n.target.id, []).append(n.value)
    elif isinstance(n, ast.ExceptHandler) and n.name:
      tainted.add(n.name)
  fresh = {k for k in assigns if k not in tainted}
  changed = True
  while changed:
    changed = False
    for k in list(fresh):
      if not all(_fresh(v, fresh) for v in assigns[k]):
        fresh.discard(k)
        changed = True
  return fresh


def _root(e):
  """-> (root Name id or None, has an attribute hop) of a target / receiver expression."""
  hop = False
  while True:
    if isinstance(e, ast.Subscript):
      e = e.value
    elif isinstance(e, ast.Attribute):
      hop = True
      e = e.value
    elif isinstance(e, ast.Name):
      return e.id, hop
    else:
      return None, hop


class AutoScanner(Scanner):
  """Scanner that also records, per site, the automatic classification (or None)."""
  def __init__(self, rel):
    super().__init__(rel)
    self.fn_stack = []       # (node, fresh local names)
    self.top_fn = []         # qualified name of the outermost enclosing function (for reachability)

  def add(self, kind, what, target=None):
    auto = None
    if target is not None and self.fn_stack:
      node, fresh = self.fn_stack[-1]
      root, hop = _root(target)
      if root is not None and root in fresh and not hop:
        auto = 'local-fresh'
      elif root == 'self' and isinstance(node, ast.FunctionDef) and node.name == '__init__' and kind in ('attr-assign', 'aug-attr', 'item-assign', 'aug-item', 'mutating-call'):
        auto = 'constructor-self'
    self.sites.append({'file': self.rel, 'function': self.where(), 'kind': kind, 'what': what, 'auto': auto,
                       'top': self.top_fn[0] if self.top_fn else None})

  def _func(self, node):
    self.fn_stack.append((node, fresh_locals(node)))
    setter = any(ast.unparse(d).endswith('.setter') for d in node.decorator_list)
    pushed = False
    if not self.top_fn:
      self.top_fn.append((self.rel, '.'.join(self.stack + [node.name]) + ('[setter]' if setter else '')))
      pushed = True
    Scanner._func(self, node)
    if pushed:
      self.top_fn.pop()
    self.fn_stack.pop()

  visit_FunctionDef = _func
  visit_AsyncFunctionDef = _func

  def visit_Lambda(self, node):
    self.fn_stack.append((node, fresh_locals(node)))
    Scanner.visit_Lambda(self, node)
    self.fn_stack.pop()

  def visit_Assign(self, node):
    for t in node.targets:
      for x in _targets(t):
        if isinstance(x, ast.Attribute):
          self.add('attr-assign', ast.unparse(x), x)
        elif isinstance(x, ast.Subscript):
          self.add('item-assign', ast.unparse(x.value) + '[]', x)
    self.generic_visit(node)

  def visit_AnnAssign(self, node):
    if node.value is not None:
      x = node.target
      if isinstance(x, ast.Attribute):
        self.add('attr-assign', ast.unparse(x), x)
      elif isinstance(x, ast.Subscript):
        self.add('item-assign', ast.unparse(x.value) + '[]', x)
    self.generic_visit(node)

  def visit_AugAssign(self, node):
    x = node.target
    if isinstance(x, ast.Attribute):
      self.add('aug-attr', ast.unparse(x), x)
    elif isinstance(x, ast.Subscript):
      self.add('aug-item', ast.unparse(x.value) + '[]', x)
    self.generic_visit(node)

  def visit_Delete(self, node):
    for t in node.targets:
      self.add('del', ast.unparse(t.value) + '[]' if isinstance(t, ast.Subscript) else ast.unparse(t), t if isinstance(t, ast.Subscript) else None)
    self.generic_visit(node)

  def visit_Call(self, node):
    f = node.func
    if isinstance(f, ast.Name) and f.id in ('setattr', 'delattr'):
      self.add('setattr', ast.unparse(node.args[0]) if node.args else '')
    elif isinstance(f, ast.Attribute) and f.attr in MUTATORS:
      self.add('mutating-call', ast.unparse(f.value) + '.' + f.attr, f.value)
    elif isinstance(f, ast.Attribute) and f.attr in ('__setattr__', '__setitem__', '__delitem__', '__dict__'):
      self.add('setattr', ast.unparse(f))
    self.generic_visit(node)


def _functions(tree, rel):
  """(qualified name, simple name, is setter, class name or None, node) of every def that is not nested in another def."""
  out = []

  def walk(body, prefix, cls):
    for n in body:
      if isinstance(n, ast.ClassDef):
        walk(n.body, prefix + [n.name], n.name)
      elif isinstance(n, (ast.FunctionDef, ast.AsyncFunctionDef)):
        setter = any(ast.unparse(d).endswith('.setter') for d in n.decorator_list)
        out.append(('.'.join(prefix + [n.name]) + ('[setter]' if setter else ''), n.name, setter, cls, n))
  walk(tree.body, [], None)
  return out


def reachable_functions(trees):
  """Name-based, conservative: the set of (file, qualified name) reachable from the read-only API."""
  funcs = []
  classes = set()
  bases = {}
  for rel, tree in trees:
    for n in ast.walk(tree):
      if isinstance(n, ast.ClassDef):
        bases[n.name] = [b.id if isinstance(b, ast.Name) else b.attr for b in n.bases if isinstance(b, (ast.Name, ast.Attribute))]

  def ancestors(c, acc=None):
    acc = set() if acc is None else acc
    for b in bases.get(c, []):
      if b not in acc:
        acc.add(b)
        ancestors(b, acc)
    return acc
  for rel, tree in trees:
    for q, name, setter, cls, node in _functions(tree, rel):
      funcs.append((rel, q, name, setter, cls, node))
      if cls:
        classes.add(cls)
  by_name, setters, inits = {}, {}, {}
  for f in funcs:
    rel, q, name, setter, cls, node = f
    (setters if setter else by_name).setdefault(name, []).append(f)
    if name == '__init__' and cls:
      inits.setdefault(cls, []).append(f)
  all_setters = [f for fs in setters.values() for f in fs]
  seen, work = {}, []
  cur = [None]

  def push(f):
    k = (f[0], f[1])
    if k not in seen:
      seen[k] = cur[0]
      work.append(f)
  for f in funcs:
    if not f[3] and (f[2] in READ_ONLY_API or f[2] in ALWAYS):
      push(f)
  while work:
    rel, q, name, setter, cls, node = work.pop()
    cur[0] = (rel, q)
    for n in ast.walk(node):
      if isinstance(n, ast.Call):      # a class is constructed only where it is called
        cn = n.func.id if isinstance(n.func, ast.Name) else n.func.attr if isinstance(n.func, ast.Attribute) else None
        if cn in classes:
          for g in inits.get(cn, []):
            push(g)
      if isinstance(n, ast.Name) and isinstance(n.ctx, ast.Load):
        for g in by_name.get(n.id, []):
          push(g)
        if n.id in ('setattr',):
          for g in all_setters:
            push(g)
      elif isinstance(n, ast.Attribute):
        if isinstance(n.ctx, ast.Store):
          for g in setters.get(n.attr, []):
            push(g)
        elif n.attr == '__init__':       # super().__init__ / Base.__init__(self, ..): only the constructors of the ancestors
          if name == '__init__' and cls:
            for b in ancestors(cls):
              for g in inits.get(b, []):
                push(g)
        else:
          for g in by_name.get(n.attr, []):
            push(g)
  return seen


def scan(repo, auto=True):
  root = os.path.join(repo, 'device_kit')
  sites, trees = [], []
  for d, _, fs in sorted(os.walk(root)):
    for fn in sorted(fs):
      if not fn.endswith('.py'):
        continue
      path = os.path.join(d, fn)
      rel = os.path.relpath(path, root)
      tree = ast.parse(open(path).read(), path)
      trees.append((rel, tree))
      sc = AutoScanner(rel)
      sc.visit(tree)
      sites += sc.sites
  reach = reachable_functions(trees)
  for s in sites:
    top = s.pop('top', None)
    if s.get('auto') is None and top is not None and tuple(top) not in reach and s['kind'] not in ('lru_cache', 'mutable-default', 'global', 'nonlocal'):
      s['auto'] = 'unreachable'
  return sites


def key(s):
  # `what` (the target text) is documentation only: renaming a local variable is not a new write site
  return (s['file'], s['function'], s['kind'])


def is_tooling(s):
  return any(s['file'] == t or s['file'].startswith(t) for t in TOOLING)


def compare(found, inventory):
  """-> (new sites (not in the inventory, multiset), vanished sites). Only `new` is an obligation."""
  from collections import Counter
  cf, ci = Counter(key(s) for s in found if not s.get('auto')), Counter(key(s) for s in inventory)
  new = [dict(zip(('file', 'function', 'kind'), k)) for k, c in sorted(cf.items()) for _ in range(max(0, c - ci.get(k, 0)))]
  gone = [dict(zip(('file', 'function', 'kind'), k)) for k, c in sorted(ci.items()) for _ in range(max(0, c - cf.get(k, 0)))]
  return new, gone


if __name__ == '__main__':
  import sys
  for s in scan(sys.argv[1] if len(sys.argv) > 1 else '/repo'):
    print(json.dumps(s))
