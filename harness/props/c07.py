"""C07 - shipped device costs are convex over their bounds box."""
import numpy as np
from fractions import Fraction as F
import core
from core import cq, fr, fl, dy
import leafgen as lg

ID = 'C07'
GEN = ['kernels', 'validators']
# the scalar kernels of functions.py this property's statement depends on (a change confined to the others is not this property's business;
# what its own correspondence compares still is)
KERNELS_USED = ['ABCCost.s', 'ABCCost.q', 'ABCCost._cost', 'HLQuadraticCost._cost']
PROPS = 'Props/C07.v'
MODEL_VO = ['Model/Dev.v']
CASE_TYPE = 'leafdev Q * list Q * list Q * Q'
CHECKER = 'chk'
COQ_PRELUDE = '''From Coq Require Import ZArith QArith List Bool.
From DK Require Import Num NumQ Vec.
From DK.Model Require Import Leaf Fn Dev.
Import ListNotations.
Local Open Scope Q_scope.
Definition chk (c : leafdev Q * list Q * list Q * Q) : bool :=
  let '(d, s, p, ic) := c in Qclose Qtol (leaf_cost d s p) ic.
'''
RULE = ('cases = (convex-documented class config at validator-boundary parameter values: exponent b in {1,2,3}, p_l = p_h and p_l < p_h, '
        'c2 in {0, c1/2, c1}, c3 zero/non-zero, a in {0,..,1}, efficiency/sustainment in {1, <1}, heating/cooling, zero-width slots; '
        'in-bounds flow; price); observable: cost only, compared with the model inside Coq (tol 1e-9). Non-trivial: class has a '
        'preference term; distinct by hash.')
EXPLANATION = ('Props/C07.v proves convexity of the model cost over the bounds box for every n for Device, PV, CDevice, CDevice2 (one range), '
               'IDevice (natural exponents), IDevice2, GDevice (convex polynomials), lossless SDevice with c2<=c1, one-directional TDevice; '
               'two _refuted theorems exhibit the validator corners where it fails (open findings). Lossy two-way storage and '
               'multi-range CDevice2 are covered by the chord/monotonicity oracle only (partial).')
CLASSES = ['Device', 'PVDevice', 'CDevice', 'CDevice2', 'IDevice', 'IDevice2', 'GDevice', 'SDevice', 'TDevice']


def convex_poly(c, lo, hi):
  """Is sum c_k u^(deg-k) convex for u in [-hi, -lo]? (second derivative >= 0 at a grid + endpoints; cubic at most)"""
  m = len(c) - 1
  d2 = [ck * (m - k) * (m - k - 1) for k, ck in enumerate(c) if m - k >= 2]
  f2 = lambda u: sum(a * u ** (len(d2) - 1 - j) for j, a in enumerate(d2))
  a, b = -hi, -lo
  return all(f2(a + (b - a) * F(t, 8)) >= 0 for t in range(9))


def in_finding(L):
  if L['cls'] == 'IDevice':
    b = L['b']
    return any(v < 1 for v in (b if isinstance(b, list) else [b]))
  if L['cls'] == 'SDevice':
    return L['c1'] == 0 and L['c2'] > 0
  if L['cls'] == 'TDevice':
    return L['efficiency'] != 1 and any(lo < 0 for lo, hi in L['bounds']) and any(hi > 0 for lo, hi in L['bounds'])
  return False


def finding_matches(f, c):
  L = c['leaf']
  if f.get('id') == 'sdevice-lossy-feasible-set-nonconvex':
    return False      # about the feasible set, not about any cost case of the correspondence
  return f.get('match', {}).get('class') == L['cls'] and in_finding(L)


def adversarial(rng, L):
  """Perturb a configuration towards what a validator should reject (used by the failing-input search only: if a loosened
  validator accepts it, the chord oracle exposes the non-convexity)."""
  cls, n = L['cls'], L['n']
  if cls == 'IDevice2':
    ph = [dy(rng, -2, 0, 2) for _ in range(n)]
    pl = [v - lg.pick(rng, [F(1), F(-1, 2), F(-1), F(1, 2)]) for v in ph]      # some slots with p_l > p_h
    L['p_h'], L['p_l'] = ph, [min(v, F(0)) for v in pl]
    if rng.random() < 0.5:
      # the HIGH slope is assigned first (keyword order / setter order), within the class default p_l = -1, then a low slope above it
      ph = [dy(rng, -1, 0, 2) for _ in range(n)]
      L['p_h'], L['p_l'], L['ph_first'] = ph, [min(v + lg.pick(rng, [F(1, 4), F(1, 2), F(-1, 4)]), F(0)) for v in ph], True
      L['post_set'] = lg.pick(rng, [None, ['p_l'], ['p_l', 'p_h']])
  elif cls == 'CDevice2':
    L['p_l'] = L['p_h'] + lg.pick(rng, [F(1, 2), F(-1, 2)]) if L['p_h'] <= F(-1, 2) else L['p_l']
    if rng.random() < 0.5:
      L['p_h'] = dy(rng, -1, F(-1, 4), 2)
      L['p_l'], L['ph_first'] = min(L['p_h'] + lg.pick(rng, [F(1, 4), F(1, 2)]), F(0)), True
      L['post_set'] = lg.pick(rng, [None, ['p_l'], ['p_l', 'p_h']])
  elif cls == 'CDevice':
    L['a'] = dy(rng, -2, 2, 2)
  elif cls == 'IDevice':
    L['a'] = lg.gen_param(rng, n, -1, 1, 2); L['c'] = lg.gen_param(rng, n, -2, 2, 2)
  elif cls == 'SDevice':
    L['c1'] = dy(rng, F(1, 4), 2, 2); L['c2'] = L['c1'] * lg.pick(rng, [F(1), F(3, 2), F(2)]); L['c3'] = dy(rng, -1, 2, 2)
    if rng.random() < 0.5:
      # c1 never passed (it stays at its class default 1.0) and c2 above it, in the constructor call or through the setter afterwards
      L['c1'], L['c2'], L['c3'], L['omit'] = F(1), lg.pick(rng, [F(3, 2), F(2), F(3)]), F(0), ['c1']
      L['post_set'] = ['c2'] if rng.random() < 0.5 else []
  elif cls == 'TDevice':
    L['c'] = lg.gen_param(rng, n, -2, 2, 2)
  elif cls == 'GDevice':
    L['bounds'] = [(-abs(a) - 1, abs(b)) for a, b in L['bounds']]
  return L


def gen_cases(rng, tier):
  n = {'quick': 300, 'thorough': 5000, 'search': 160}[tier]
  out = []
  i = 0
  while len(out) < n:
    i += 1
    L = lg.gen_leaf(rng, cls=CLASSES[i % len(CLASSES)], variant=i // len(CLASSES))
    if tier == 'search' and i % 2 == 0:
      L = adversarial(rng, L)
      try:
        lg.build(L)        # rejected by the validators (as it should be): nothing to test
      except Exception:
        continue
    if L['cls'] == 'GDevice':
      cc = L['cost_coeffs']
      polys = cc if isinstance(cc[0], list) else [cc] * L['n']
      if not all(convex_poly(c, lo, hi) for c, (lo, hi) in zip(polys, L['bounds'])):
        continue
    if in_finding(L):
      continue
    s = lg.gen_flow(rng, L, avoid_kinks=False)
    y = lg.gen_flow(rng, L, avoid_kinks=False)
    p, pk = lg.gen_price(rng, L['n'])
    out.append({'leaf': L, 's': s, 'y': y, 'lam': dy(rng, 0, 1, 3), 'p': p})
  return out


def observe(c):
  d = lg.build(c['leaf'])
  return {'cost': fr(d.cost(np.array(fl(c['s'])), np.array(fl(c['p']))))}


def coq_case(c, o):
  return cq((lg.coq_leafdev(c['leaf']), c['s'], c['p'], o['cost']))


def nontrivial(c, o):
  return c['leaf']['cls'] not in ('Device', 'PVDevice')


def classify(c, o):
  L = c['leaf']
  ks = ['class:' + L['cls'], 'n:%d' % L['n']]
  if L['cls'] == 'IDevice':
    b = L['b']
    ks.append('b=1' if 1 in (b if isinstance(b, list) else [b]) else 'b>1')
  if L['cls'] in ('IDevice2', 'CDevice2'):
    pl, ph = L['p_l'], L['p_h']
    ks.append('p_l=p_h' if pl == ph else 'p_l!=p_h')
  if L['cls'] == 'SDevice':
    ks.append('c2=c1' if L['c2'] == L['c1'] else ('c2=0' if L['c2'] == 0 else 'c2<c1'))
    ks.append('lossless' if L['efficiency'] == 1 else 'lossy')
  if L['cls'] == 'TDevice':
    ks.append('cooling' if L['efficiency'] < 0 else 'heating')
  return ks


def case_to_json(c):
  return {'leaf': lg.leaf_to_json(c['leaf']), 's': core.jsonable(c['s']), 'y': core.jsonable(c['y']),
          'lam': float(c['lam']), 'p': core.jsonable(c['p'])}


def case_from_json(j):
  return {'leaf': lg.leaf_from_json(j['leaf']), 's': [F(v) for v in j['s']], 'y': [F(v) for v in j['y']],
          'lam': F(j['lam']), 'p': [F(v) for v in j['p']]}


def chord(d, x, y, lam, p):
  m = lam * x + (1 - lam) * y
  fm, fx, fy = d.cost(m, p), d.cost(x, p), d.cost(y, p)
  gap = fm - (lam * fx + (1 - lam) * fy)
  scale = 1 + abs(fx) + abs(fy)
  return gap, scale


def oracle(c):
  """Chord test and marginal-cost monotonicity on the implementation alone."""
  L = c['leaf']
  try:
    d = lg.build(L)
    x, y, p = np.array(fl(c['s'])), np.array(fl(c['y'])), np.array(fl(c['p']))
    lam = float(c['lam'])
    gap, scale = chord(d, x, y, lam, p)
    if gap > 1e-9 * scale:
      return 'cost at the mix (lambda=%g) exceeds the chord by %.6g (f(x)=%.6g, f(y)=%.6g)' % (lam, gap, d.cost(x, p), d.cost(y, p))
    gx, gy = np.array(d.deriv(x, p)).reshape(-1), np.array(d.deriv(y, p)).reshape(-1)
    mono = float((gy - gx).dot(y - x))
    if mono < -1e-7 * (1 + abs(gx).sum() + abs(gy).sum()):
      return 'marginal cost is not monotone along the segment: <g(y)-g(x), y-x> = %.6g' % mono
  except Exception as e:
    return 'implementation raised %s: %s' % (type(e).__name__, e)
  return None


def _lossy_feasible_set_witness(w):
  """both end points satisfy the bounds and every exported constraint, a point between them does not"""
  import device_kit as dk
  d = dk.SDevice('w', w['n'], np.array(w['bounds'], dtype=float), capacity=w['capacity'], start=w['start'], efficiency=w['efficiency'])

  def feasible(x):
    x = np.array(x, dtype=float)
    return all(lo - 1e-9 <= v <= hi + 1e-9 for v, (lo, hi) in zip(x, d.bounds)) and \
        all((abs(c['fun'](x)) <= 1e-9) if c['type'] == 'eq' else (c['fun'](x) >= -1e-9) for c in d.constraints)
  x, y, lam = np.array(w['x'], dtype=float), np.array(w['y'], dtype=float), w['lam']
  return feasible(x) and feasible(y) and not feasible(lam * x + (1 - lam) * y)


def witness_fails(f):
  w = f['witness']
  if f.get('id') == 'sdevice-lossy-feasible-set-nonconvex':
    try:
      return _lossy_feasible_set_witness(w)
    except ValueError:
      return False
  import device_kit as dk
  cls = w['class']
  b = np.array(w['bounds'], dtype=float)
  try:
    if cls == 'IDevice':
      d = dk.IDevice('w', w['n'], b, a=w['a'], b=w['b'], c=w['c'])
    elif cls == 'SDevice':
      d = dk.SDevice('w', w['n'], b, c1=w['c1'], c2=w['c2'])
    elif cls == 'TDevice':
      d = dk.TDevice('w', w['n'], b, w['sustainment'], w['efficiency'], w['t_init'], w['t_optimal'], w['t_range'], w['t_external'], c=w['c'])
    else:
      return True
  except ValueError:
    return False   # the validator now rejects the configuration
  gap, scale = chord(d, np.array(w['x'], dtype=float), np.array(w['y'], dtype=float), w['lam'], np.zeros(w['n']))
  return gap > 1e-9 * scale


def search(rng, budget, seeds, findings):
  return core.default_search(__import__('c07'), rng, budget, seeds, findings)
