"""C11 - validation: ill-formed settings are rejected with ValueError, accepted ones are reported back faithfully.

Correspondence (all comparisons evaluated in Coq, exactly):
  vb     BaseDevice.validate_bounds on every dynamically typed value of a bounded-exhaustive domain x lengths 1..5
         vs Model/Validate.v:validate_bounds (outcome tag and the returned table)
  ctor   cls(id, n, bounds, None) for every atomic class x the class-level bounds domain x lengths 1..5
         vs Model/Validate.v:ctor (outcome, reported .bounds and .cbounds)
  cb     cls(id, n, <valid bounds>, cbounds) over the cumulative-bounds domain vs ctor (outcome, reported .cbounds)
  par    every parameter setter at its thresholds and thresholds +- 2^-6 (scalar and per-slot forms, both orders for the
         coupled pairs), the TDevice / MFDeviceSet / TwoRatioMFDeviceSet guard blocks, vs the *generated* guards of
         Gen/Validators.v (outcome; stored value = value read back from the device)
Inputs inside the region of an open finding are generated but not compared (the model mirrors the defect there).
"""
import copy
import itertools
import json
import os
import warnings
from fractions import Fraction as F

import numpy as np

import core
from core import cq, fr, fl, Raw

ID = 'C11'
GEN = ['validators']
PROPS = 'Props/C11.v'
MODEL_VO = ['Model/Validate.v']
CASE_TYPE = 'kase'
CHECKER = 'chk'
SHARD = 8
EXHAUSTIVE = True
S = [-1, 0, 1, 2, None]                    # the value alphabet
E = F(1, 64)
NS = [1, 2, 3, 4, 5]                       # device lengths
CLASSES = ['CDev', 'CPV', 'CG', 'CC', 'CC2', 'CI', 'CI2', 'CS', 'CA', 'CT', 'CW']

COQ_PRELUDE = r'''From Coq Require Import String ZArith QArith List Bool Arith.
From DK Require Import Num NumQ Vec.
From DK.Model Require Import Leaf PyVal Validate.
From DK.Gen Require Import Validators.
Import ListNotations.
Local Open Scope Q_scope.
Definition s := @PSeq Q.
Definition i (z : Z) : pv Q := PNum (inject_Z z).
Definition q (a : Q) : pv Q := PNum a.
Definition o : pv Q := PNone.
Definition c (z : Z) : option Q := Some (inject_Z z).
Definition cq (a : Q) : option Q := Some a.
Definition x : option Q := None.
Definition rt := @rawtable Q.
(* what the implementation did: accepted with a value, ValueError, another exception, not compared.
   Monomorphic on purpose: literals with implicit type arguments make Coq's elaboration quadratic. *)
Inductive ocb := NB | SB (l : list (pv Q)).
Inductive iov := VA (t : rt) | VV | VO | VZ.
Inductive ioc := CA_ (t : rt) (c : ocb) | CV | CO | CZ.
Definition cell_eqb (a b : option Q) : bool :=
  match a, b with Some u, Some v => Qeq_bool u v | None, None => true | _, _ => false end.
Fixpoint list_eqb {T} (e : T -> T -> bool) (l m : list T) : bool :=
  match l, m with [] , [] => true | a :: l', b :: m' => e a b && list_eqb e l' m' | _, _ => false end.
Fixpoint pv_eqb (a b : pv Q) {struct a} : bool :=
  match a, b with
  | PNum u, PNum v => Qeq_bool u v
  | PNone, PNone => true
  | PSeq l, PSeq m => (fix go (l m : list (pv Q)) : bool :=
        match l, m with [], [] => true | a' :: l', b' :: m' => pv_eqb a' b' && go l' m' | _, _ => false end) l m
  | _, _ => false
  end.
Definition raw_eqb : rt -> rt -> bool := list_eqb (list_eqb cell_eqb).
Definition cbs_eqb (a b : option (list (pv Q))) : bool :=
  match a, b with None, None => true | Some l, Some m => list_eqb pv_eqb l m | _, _ => false end.
Definition agree_v (m : outcome rt) (im : iov) : bool :=
  match im, m with
  | VZ, _ => true
  | VA u, Accept t => raw_eqb t u
  | VV, RaiseValueError => true
  | VO, RaiseOther => true
  | _, _ => false
  end.
Definition ocb_opt (c : ocb) : option (list (pv Q)) := match c with NB => None | SB l => Some l end.
Definition agree_c (m : outcome (rt * option (list (pv Q)))) (im : ioc) : bool :=
  match im, m with
  | CZ, _ => true
  | CA_ u c, Accept t => raw_eqb (fst t) u && cbs_eqb (snd t) (ocb_opt c)
  | CV, RaiseValueError => true
  | CO, RaiseOther => true
  | _, _ => false
  end.
Definition param_eqb (a b : param Q) : bool :=
  match a, b with PS u, PS v => Qeq_bool u v | PV l, PV m => list_eqb Qeq_bool l m | _, _ => false end.
Definition optpair_eqb (a b : option Q * option Q) : bool := cell_eqb (fst a) (fst b) && cell_eqb (snd a) (snd b).
Fixpoint all2 {U W} (f : U -> W -> bool) (l : list U) (m : list W) : bool :=
  match l, m with [], [] => true | a :: l', b :: m' => f a b && all2 f l' m' | _, _ => false end.
Inductive kase :=
| KVB (ns : list nat) (bs : list (pv Q)) (outs : list (list iov))
| KCt (ks : list cclass) (ns : list nat) (bs : list (pv Q)) (outs : list (list (list ioc)))
| KCb (ks : list cclass) (n : nat) (b : pv Q) (cbs : list (pv Q)) (outs : list (list ioc))
| KPar (checks : list (bool * nat * bool)).
Definition chk (k : kase) : bool :=
  match k with
  | KVB ns bs outs => all2 (fun n row => all2 (fun b im => agree_v (validate_bounds n b) im) bs row) ns outs
  | KCt ks ns bs outs =>
      all2 (fun k per_n => all2 (fun n row => all2 (fun b im => agree_c (ctor k n b PNone) im) bs row) ns per_n) ks outs
  | KCb ks n b cbs outs => all2 (fun k row => all2 (fun cb im => agree_c (ctor k n b cb) im) cbs row) ks outs
  | KPar checks => forallb (fun t : bool * nat * bool => let '(acc, code, same) := t in Nat.eqb (if acc then 0%nat else 1%nat) code && (negb acc || same)) checks
  end.
'''

EXPLANATION = ('Theorems (Props/C11.v): validate_bounds of the model is sound and complete for the documented bounds forms and rejects '
               'ill-formed ones with ValueError for every device length, outside the explicitly stated region of the open findings '
               '(refuted there by concrete witnesses); the generated cbounds guard is arity 4 /\\ lo < hi /\\ attainable; every '
               'generated parameter guard equals its documented range; accepted settings are stored unchanged. The model is tied to '
               '/repo by the bounded-exhaustive correspondence below; the parameter guards are regenerated from the source.')
RULE = ''       # filled by gen_cases (it states the enumerated domain and its size)
ASSUMPTIONS = ['input nesting depth <= 2; sequences are Python lists (a tuple of length >= 3 makes validate_bounds raise TypeError on item assignment)',
               'slice indices in cumulative bounds are integers or None']

warnings.simplefilter('ignore')


# ---------------------------------------------------------------------------------------------------
# dynamically typed values: int / Fraction / None / list
# ---------------------------------------------------------------------------------------------------
def is_seq(v):
  return isinstance(v, list)


def pv_lit(v):
  if v is None:
    return 'o'
  if is_seq(v):
    return 's[' + ';'.join(pv_lit(e) for e in v) + ']'
  f = F(v)
  if f.denominator == 1:
    return 'i %d' % f.numerator if f.numerator >= 0 else 'i(%d)' % f.numerator
  return 'q %s' % cq(f)


def cell_lit(v):
  if v is None:
    return 'x'
  f = F(v)
  if f.denominator == 1:
    return 'c %d' % f.numerator if f.numerator >= 0 else 'c(%d)' % f.numerator
  return 'cq %s' % cq(f)


NUMFORM = 'plain'      # the TYPE of the numbers handed over: Python int/float, fractions.Fraction, numpy scalars (same values)


def to_py(v):
  """pv -> the Python object handed to the implementation (fresh lists; numbers in the current NUMFORM)"""
  if v is None:
    return None
  if is_seq(v):
    return [to_py(e) for e in v]
  if NUMFORM == 'fraction':
    return F(v)
  if NUMFORM == 'npscalar':
    return np.int64(int(v)) if F(v).denominator == 1 else np.float64(float(v))
  return int(v) if F(v).denominator == 1 else float(v)


def in_form(c, f):
  """run f() with the number type of the block"""
  global NUMFORM
  old, NUMFORM = NUMFORM, c.get('form', 'plain')
  try:
    return f()
  finally:
    NUMFORM = old


def shape(v):
  if not is_seq(v):
    return ()
  if len(v) == 0:
    return (0,)
  shs = [shape(e) for e in v]
  if any(s is None or s != shs[0] for s in shs):
    return None
  return (len(v),) + shs[0]


def numeric(v):
  return all(numeric(e) for e in v) if is_seq(v) else v is not None


def is_table(n, b):
  return shape(b) == (n, 2)


# regions of the open findings (mirrors quirk_long / quirk_two of Model/Validate.v)
def quirk_long(n, b):
  return is_seq(b) and len(b) >= 3 and not is_table(n, b)


def quirk_two(n, b):
  if not (is_seq(b) and n == 2 and 1 <= len(b) <= 2 and all(is_seq(e) for e in b)):
    return False
  m = len(b[0])
  return all(len(e) == m for e in b) and m != 2


def ragged(b):
  return is_seq(b) and shape(b) is None


# k = None: validate_bounds itself; otherwise the class tag of the constructor
FINDING_REGIONS = {
  'bounds-three-list-as-pair': lambda k, n, b: quirk_long(n, b) and not any(is_seq(e) for e in b[:2]),
  'bounds-table-on-length-two': lambda k, n, b: quirk_long(n, b) and any(is_seq(e) for e in b[:2]),
  'bounds-wrong-length-vectors-on-length-two': lambda k, n, b: quirk_two(n, b),
}
PENDING = []     # findings reported by this check that are not yet in known_findings.json (none at the moment)


_open_ids = None


def open_ids():
  global _open_ids
  if _open_ids is None:
    _open_ids = {f.get('id') for f in core.load_findings(ID)} | {p['id'] for p in PENDING}
  return _open_ids


def in_open_region(n, b, k=None):
  ids = open_ids()
  return any(fid in ids and f(k, n, b) for fid, f in FINDING_REGIONS.items())


# ---------------------------------------------------------------------------------------------------
# domains
# ---------------------------------------------------------------------------------------------------
def fam(m, full_upto):
  """inner vectors of length m: the whole alphabet^m for m <= full_upto, else a fixed family of ten patterns"""
  if m <= full_upto:
    return [list(t) for t in itertools.product(S, repeat=m)]
  up = [min(k - 1, 2) for k in range(m)]
  return [[c] * m for c in S] + [up, up[::-1], [0] * (m - 1) + [None], [0] * (m - 1) + [1], [1] + [0] * (m - 1)]


def small_fam(m):
  return [[c] * m for c in (0, 1, None)] + [[min(k - 1, 2) for k in range(m)]]


def elems(lmax, full_upto=2):
  out = list(S)
  for m in range(1, lmax + 1):
    out += fam(m, full_upto)
  return out


def threshold_bounds():
  """low/high around equality, off the integer alphabet: (lo, hi) scalar pairs, tables and vector pairs of length 1-3"""
  vals = [F(0), E, -E, F(1), F(1) - E, F(1) + E]
  out = []
  for lo in vals:
    for hi in vals:
      out += [[lo, hi], [[lo, hi]], [[lo], [hi]], [[lo, hi], [lo, hi]], [[F(0), lo], [F(1), hi]], [[F(0), F(0), lo], [F(1), F(1), hi]], [[lo, hi]] * 3]
  return out


def vb_domain(tier):
  """list of pv values (deterministic order) + a description"""
  if tier in ('quick', 'search'):
    e2 = elems(3)                                   # 45 elements
    e3 = list(S) + fam(1, 2) + [[c] * 2 for c in S] + [[0, 1], [1, 0], [0, None]] + fam(3, 2)
    out = [None, 5, []] + threshold_bounds() + [[a] for a in e2] + [[a, b] for a in e2 for b in e2] + [[a, b, c] for a in e3 for b in e3 for c in e3]
    desc = ('252 low/high pairs around equality (0, 1, +-2^-6 off them) as scalar pair / table / vector pair; '
            'outer length 1-2 over E = alphabet + all inner vectors of length 1-2 + 10 patterns of length 3 (|E|=45); outer length 3 over '
            'alphabet + all vectors of length 1 + 8 of length 2 + 10 of length 3 (28 elements)')
    return out, desc
  e2 = elems(5)
  e4 = list(S) + [v for m in range(1, 6) for v in small_fam(m)]
  e5 = list(S) + small_fam(2) + small_fam(5)
  out = [None, 5, []] + threshold_bounds() + [[a] for a in e2] + [[a, b] for a in e2 for b in e2] + [[a, b, c] for a in e2 for b in e2 for c in e2]
  out += [list(t) for t in itertools.product(e4, repeat=4)] + [list(t) for t in itertools.product(e5, repeat=5)]
  desc = ('252 low/high pairs around equality (0, 1, +-2^-6 off them) as scalar pair / table / vector pair; outer length 1-3 over E = alphabet + all inner vectors of length 1-2 + 10 patterns of each length 3-5 (|E|=65); outer length 4 over '
          'alphabet + 4 patterns of each length 1-5 (25); outer length 5 over alphabet + 4 patterns of lengths 2 and 5 (13)')
  return out, desc


def ctor_domain(tier):
  e = elems(3)
  rows = [[0, 1], [1, 0], [-1, 0], [0, None]]
  out = [[a] for a in e] + [[a, b] for a in e for b in e] + [list(t) for t in itertools.product(S, repeat=3)]
  out += [list(t) for t in itertools.product(rows, repeat=3)]
  if tier == 'thorough':
    out += [list(t) for t in itertools.product(rows, repeat=4)] + [list(t) for t in itertools.product(rows[:3], repeat=5)]
    out += [[a, b, c] for a in [0, [0, 0, 0], [0, 0]] for b in [1, [1, 1, 1], [2, 2]] for c in e]
  return out


def cb_domain(n, small=False):
  vals = [-1, 0, 1, 2, n, n + 1]
  vals = [v for k, v in enumerate(vals) if v not in vals[:k]]
  idxs = [0, 1, n, None, -1, n + 1]
  idxs = [v for k, v in enumerate(idxs) if v not in idxs[:k]]
  out = [None, 5, []]
  out += [[a, b] for a in vals + [None] for b in vals + [None]]
  if small:
    out += [[[a, b, s, e]] for a in vals for b in vals for s, e in [(0, n), (0, 1), (1, n), (None, None)]]
  else:
    out += [[[a, b, s, e]] for a in vals for b in vals for s in idxs for e in idxs]
  # attainability missed or met by a hair (2^-20): an exact comparison is required, a relative tolerance is not good enough
  eps = F(1, 2 ** 20)
  out += [[n + eps, n + 1], [n - eps, n + 1], [-n - 1, -n - eps], [-n - 1, -n + eps], [[n + eps, n + 1, 0, n]], [[-n - 1, -n - eps, 0, n]],
          [[1 + eps, 2, 0, 1]], [[1 - eps, 2, 0, 1]], [eps, 2 * eps], [0, eps], [eps, eps]]
  tup = [[0, 1, 0, 1], [0, 1, 1, n], [-1, 2, 0, n], [0, n + 1, 1, 2], [1, 0, 0, n], [0, 1, 0, n], [0, 2, 2, n], [5, 6, 0, 1]]
  out += [[a, b] for a in tup for b in tup]
  out += [[[0, 1]], [[0, 1, 0]], [[0, 1, 0, 1, 2]], [0, 1, 2], [[0, 1], [0, 1]], [[0, 1, 0, n], 5], [[None, 1, 0, n]], [[0, None, 0, n]],
          [[0, 1, 0, n], [0, 1, 0, n], [0, 1, 0, n]], [[0, 1, 0, 1], [0, 1, 1, 2], [0, 1, 2, n]]]
  return out


def chunks(l, k):
  return [l[j:j + k] for j in range(0, len(l), k)]


# ---------------------------------------------------------------------------------------------------
# parameter checks: (class, n, [(param, value), ...] applied in this order)
# ---------------------------------------------------------------------------------------------------
def around(t):
  return [t - E, t, t + E]


def vec_forms(n, vals):
  """scalar and per-slot forms built from probe values, plus a wrong-length vector"""
  out = list(vals)
  for v in vals:
    out.append([v] * n)
  if n >= 2:
    out.append([vals[0]] + [vals[-1]] * (n - 1))
    out.append([vals[-1]] * (n - 1) + [vals[0]])
  out.append([vals[1]] * (n + 1))
  if n >= 2:
    out.append([vals[1]] * (n - 1))
  return out


def par_cases(tier):
  out = []
  ns = [1, 2, 3] if tier != 'thorough' else NS
  for v in around(F(0)) + [F(-3), F(2)]:
    out.append(('CDevice', 2, [('a', v)]))
  for cls in ('CDevice2', 'IDevice2'):
    for n in ns:
      for v in vec_forms(n, around(F(0)) + around(F(-1))):
        out.append((cls, n, [('p_h', v)]))
        out.append((cls, n, [('p_l', v)]))
      grid = [F(-2), F(-1) - E, F(-1), F(-1) + E, F(-1, 2), -E, F(0), E]
      for a in grid:
        for b in grid:
          out.append((cls, n, [('p_l', a), ('p_h', b)]))
          out.append((cls, n, [('p_h', b), ('p_l', a)]))
      if n >= 2:
        for a, b in [(F(-2), F(-1)), (F(-1), F(-1)), (F(-1), F(-2)), (F(-1, 2), F(0))]:
          out.append((cls, n, [('p_l', [a] * n), ('p_h', [b] * (n - 1) + [a])]))
          out.append((cls, n, [('p_h', [b] * n), ('p_l', [a] * (n - 1) + [b])]))
          out.append((cls, n, [('p_h', [b] * n), ('p_l', a)]))
          out.append((cls, n, [('p_l', [a] * n), ('p_h', b)]))
  for n in ns:
    for p in ('a', 'b', 'c'):
      for v in vec_forms(n, around(F(0)) + [F(1), F(2)]):
        out.append(('IDevice', n, [(p, v)]))
  for p, ts in [('c3', [F(0)]), ('capacity', [F(0)]), ('start', [F(0), F(1)]), ('reserve', [F(0), F(1)]), ('damage_depth', [F(0), F(1)]),
                ('efficiency', [F(0), F(1)]), ('sustainment', [F(0), F(1)])]:
    for t in ts:
      for v in around(t):
        out.append(('SDevice', 2, [(p, v)]))
  cgrid = [-E, F(0), E, F(1, 2), F(1) - E, F(1), F(1) + E, F(2)]
  for a in cgrid:
    out.append(('SDevice', 2, [('c1', a)]))
    out.append(('SDevice', 2, [('c2', a)]))
    for b in cgrid:
      out.append(('SDevice', 2, [('c1', a), ('c2', b)]))
      out.append(('SDevice', 2, [('c2', b), ('c1', a)]))
  rc = [None] + around(F(1)) + [F(3)]
  for a in rc:
    out.append(('SDevice', 2, [('rate_clip', ('one', a))]))
    for b in rc:
      out.append(('SDevice', 2, [('rate_clip', ('two', a, b))]))
  for n in ns:
    base = {'sustainment': F(1, 2), 'efficiency': F(1), 't_range': F(2), 't_external': [F(10)] * n, 'c': F(1)}
    probes = [('sustainment', around(F(0)) + around(F(1))), ('efficiency', around(F(0)) + [F(-2)]), ('t_range', around(F(0))),
              ('t_external', [[F(10)] * (n + 1), [F(10)] * (n - 1), [F(-3)] * n]), ('c', vec_forms(n, around(F(0)) + [F(2)]))]
    for p, vs in probes:
      for v in vs:
        d = dict(base)
        d[p] = v
        out.append(('TDevice', n, sorted(d.items())))
  # set-level guards
  for lo, hi in [([0, 0], [1, 1]), ([-1, -1], [0, 0]), ([-1, 0], [0, 1]), ([0, 0], [0, 0]), ([-1, -1], [E, 0]), ([-E, 0], [0, 1])]:
    for k in range(0, 4):
      out.append(('MFDeviceSet', 2, [('lo', lo), ('hi', hi), ('flows', k)]))
  for lens in [[2], [2, 2], [2, 3], [3, 2], [3, 3, 3], [3, 2, 3], [1, 1, 2]]:
    for i in ['set1', 'Set-2_x', 'bad id', '', '-x', 'a.b']:
      out.append(('DeviceSet', 2, [('lens', lens), ('id', i)]))
  for k in range(1, 4):
    for r in [None, 1, 2, 3]:
      for ct in ['eq', 'ineq', 'x', '']:
        out.append(('TwoRatioMFDeviceSet', 2, [('flows', k), ('ratios', r), ('constraint_type', ct)]))
  return out


DEFAULTS = {'CDevice2': {'p_h': F(0), 'p_l': F(-1)}, 'IDevice2': {'p_h': F(0), 'p_l': F(-1)}, 'SDevice': {'c1': F(1), 'c2': F(0)}}


def par_lit(v):
  return '(PV %s)' % cq([F(e) for e in v]) if isinstance(v, list) else '(PS %s)' % cq(F(v))


def opt_lit(v):
  return '(@None Q)' if v is None else '(Some %s)' % cq(F(v))


def par_model(cls, n, settings):
  """-> (accepts expression, [(param, stored expression, kind)])  written against Gen/Validators.v"""
  acc, stored = [], []
  st = dict(DEFAULTS.get(cls, {}))
  if cls == 'TDevice':
    d = dict(settings)
    return ('TDevice_init_accepts %d %s %s %s %s %s' % (n, cq(d['sustainment']), cq(d['efficiency']), cq(d['t_range']),
                                                      cq([F(e) for e in d['t_external']]), par_lit(d['c'])), [])
  if cls == 'MFDeviceSet':
    d = dict(settings)
    return ('MFDeviceSet_init_accepts %s %s %s' % (cq([F(e) for e in d['lo']]), cq([F(e) for e in d['hi']]),
                                                 cq(['f%d' % j for j in range(d['flows'])])), [])
  if cls == 'DeviceSet':
    import re
    d = dict(settings)
    return ('DeviceSet_init_accepts %s %s' % (cq(bool(re.match('(?i)^[a-z0-9][a-z0-9_-]*$', d['id']))), '[' + '; '.join('%d%%nat' % v for v in d['lens']) + ']'), [])
  if cls == 'TwoRatioMFDeviceSet':
    d = dict(settings)
    r = '(@None (list Q))' if d['ratios'] is None else '(Some %s)' % cq([F(1)] * d['ratios'])
    return ('TwoRatioMFDeviceSet_init_accepts %s %s %s' % (cq(['f%d' % j for j in range(d['flows'])]), r, cq(d['constraint_type'])), [])
  for p, v in settings:
    if cls == 'CDevice':
      a, s_, kind = 'CDevice_a_accepts %s' % cq(v), 'PS (CDevice_a_stored %s)' % cq(v), 'param'
    elif cls in ('CDevice2', 'IDevice2'):
      other = 'p_l' if p == 'p_h' else 'p_h'
      args = '%d %s %s' % (n, par_lit(st[other]), par_lit(v))
      a, s_, kind = '%s_%s_accepts %s' % (cls, p, args), '%s_%s_stored %s' % (cls, p, args), 'param'
      st[p] = v
    elif cls == 'IDevice':
      args = '%d %s' % (n, par_lit(v))
      a, s_, kind = 'IDevice_%s_accepts %s' % (p, args), 'IDevice_%s_stored %s' % (p, args), 'param'
    elif cls == 'SDevice' and p in ('c1', 'c2'):
      other = 'c2' if p == 'c1' else 'c1'
      args = '%s %s' % (cq(st[other]), cq(v))
      a, s_, kind = 'SDevice_%s_accepts %s' % (p, args), 'PS (SDevice_%s_stored %s)' % (p, args), 'param'
      st[p] = v
    elif cls == 'SDevice' and p == 'rate_clip':
      lit = '(RCOne %s)' % opt_lit(v[1]) if v[0] == 'one' else '(RCTwo %s %s)' % (opt_lit(v[1]), opt_lit(v[2]))
      a, s_, kind = 'SDevice_rate_clip_accepts %s' % lit, 'SDevice_rate_clip_stored %s' % lit, 'optpair'
    elif cls == 'SDevice':
      a, s_, kind = 'SDevice_%s_accepts %s' % (p, cq(v)), 'PS (SDevice_%s_stored %s)' % (p, cq(v)), 'param'
    else:
      raise AssertionError((cls, p))
    acc.append('(%s)' % a)
    stored.append((p, s_, kind))
  return ' && '.join(acc), stored


def par_build(cls, n, settings):
  import device_kit as dk
  kw = {}
  if cls == 'DeviceSet':
    d = dict(settings)
    return dk.DeviceSet(d['id'], [dk.Device('k%d' % j, n_, [0, 1]) for j, n_ in enumerate(d['lens'])])
  if cls in ('TDevice', 'MFDeviceSet', 'TwoRatioMFDeviceSet'):
    d = dict(settings)
    if cls == 'TDevice':
      return dk.TDevice('d', n, [0, 1], float(d['sustainment']), float(d['efficiency']), 20., 20., float(d['t_range']),
                        fl(d['t_external']), c=(fl(d['c']) if isinstance(d['c'], list) else float(d['c'])))
    if cls == 'MFDeviceSet':
      dev = dk.Device('w', 2, np.stack((np.array(fl(d['lo'])), np.array(fl(d['hi']))), axis=1))
      return dk.MFDeviceSet(dev, ['f%d' % j for j in range(d['flows'])])
    dev = dk.Device('w', 2, [0, 1])
    return dk.TwoRatioMFDeviceSet(dev, ['f%d' % j for j in range(d['flows'])], None if d['ratios'] is None else [1.] * d['ratios'], d['constraint_type'])
  for p, v in settings:
    if p == 'rate_clip':
      kw[p] = (None if v[1] is None else float(v[1])) if v[0] == 'one' else tuple(None if e is None else float(e) for e in v[1:])
    else:
      kw[p] = fl(v) if isinstance(v, list) else float(v)
  c = getattr(dk, cls)
  if cls == 'CDevice2':
    return c('d', n, [0, 1], None, **kw)
  return c('d', n, [0, 1], None, **kw)


def par_observe(cls, n, settings):
  """-> (code, {param: reported})"""
  try:
    d = par_build(cls, n, settings)
  except ValueError:
    return 1, {}
  except Exception:
    return 2, {}
  rep = {}
  if cls not in ('TDevice', 'MFDeviceSet', 'TwoRatioMFDeviceSet', 'DeviceSet'):
    for p, _ in settings:
      rep[p] = getattr(d, p)
  return 0, rep


def rep_lit(v, kind):
  if kind == 'optpair':
    a, b = v[0], v[1]
    return '(%s, %s)' % (opt_lit(None if a is None else fr(a)), opt_lit(None if b is None else fr(b)))
  a = np.array(v)
  if a.ndim == 0:
    return '(PS %s)' % cq(fr(a.item()))
  return '(PV %s)' % cq([fr(e) for e in a.tolist()])


# ---------------------------------------------------------------------------------------------------
# implementation side
# ---------------------------------------------------------------------------------------------------
_devs = {}


def dev_of(n):
  import device_kit as dk
  if n not in _devs:
    _devs[n] = dk.Device('d', n, [[0, 1]] * n)
  return _devs[n]


def tab(a):
  """ndarray / nested list -> nested list of Fraction / None (2-D), else raises"""
  a = np.array(a)
  if a.ndim != 2:
    raise ValueError('table with %d dimensions' % a.ndim)
  return [[None if e is None else fr(e) for e in row] for row in a.tolist()]


def impl_vb(n, b):
  try:
    r = dev_of(n).validate_bounds(to_py(b))
  except ValueError:
    return ('V',)
  except Exception:
    return ('O',)
  return ('A', tab(r))


def make(k, n, b, cb):
  import device_kit as dk
  b, cb = to_py(b), to_py(cb)
  if isinstance(cb, list):
    cb = [tuple(e) if isinstance(e, list) else e for e in cb]
  if k == 'CT':
    return dk.TDevice('d', n, b, .5, 1., 20., 20., 2., [10.] * n, cbounds=cb)
  if k == 'CW':
    return dk.WindowDevice('d', n, b, 1, cbounds=cb)
  cls = {'CDev': dk.Device, 'CPV': dk.PVDevice, 'CG': dk.GDevice, 'CC': dk.CDevice, 'CC2': dk.CDevice2, 'CI': dk.IDevice,
         'CI2': dk.IDevice2, 'CS': dk.SDevice, 'CA': dk.ADevice}[k]
  return cls('d', n, b, cb)


def cb_back(c):
  """reported cbounds -> pv"""
  if c is None:
    return None
  return [[None if e is None else (int(e) if float(e) == int(e) else fr(float(e))) for e in t] for t in c]


def impl_ctor(k, n, b, cb):
  try:
    d = make(k, n, b, cb)
  except ValueError:
    return ('V',)
  except Exception:
    return ('O',)
  return ('A', tab(d.bounds), cb_back(d.cbounds))


def impl_ctor_hist(k, n, b, cb):
  """The same decision reached through a HISTORY on one object: built with another (wider) bounds table and a cumulative bound that is
  validated once, the cumulative bound cleared, `bounds` re-assigned to b, then `cbounds` assigned.  Nothing derived from the first
  table may survive the re-assignment (seeded C11_11: a prefix-sum memo of the bounds the `bounds` setter never invalidates)."""
  d = make(k, n, [[-3, 4]] * n, [[-1, 1, 0, n]])
  d.cbounds = None
  d.bounds = to_py(b)
  cb = to_py(cb)
  if isinstance(cb, list):
    cb = [tuple(e) if isinstance(e, list) else e for e in cb]
  try:
    d.cbounds = cb
  except ValueError:
    return ('V',)
  except Exception:
    return ('O',)
  return ('A', tab(d.bounds), cb_back(d.cbounds))


def impl_cb(c, k, cb):
  return (impl_ctor_hist if c.get('hist') else impl_ctor)(k, c['n'], c['b'], cb)


def io_vb(o):
  if o[0] == 'A':
    return 'VA[' + ';'.join('[' + ';'.join(cell_lit(e) for e in row) + ']' for row in o[1]) + ']'
  return {'V': 'VV', 'O': 'VO', 'Z': 'VZ'}[o[0]]


def io_ctor(o):
  if o[0] == 'A':
    t = '[' + ';'.join('[' + ';'.join(cell_lit(e) for e in row) + ']' for row in o[1]) + ']'
    c = 'NB' if o[2] is None else '(SB[' + ';'.join(pv_lit(e) for e in o[2]) + '])'
    return 'CA_ %s %s' % (t, c)
  return {'V': 'CV', 'O': 'CO', 'Z': 'CZ'}[o[0]]


# ---------------------------------------------------------------------------------------------------
# cases
# ---------------------------------------------------------------------------------------------------
def gen_cases(rng, tier):
  global RULE
  out = []
  dom, desc = vb_domain(tier)
  blk = 1500 if tier == 'thorough' else 700
  for i, c in enumerate(chunks(dom, blk)):
    out.append({'kind': 'vb', 'ns': NS, 'bs': c})
    # the same values again as fractions.Fraction / numpy scalars: the outcome must not depend on the TYPE of the numbers
    out.append({'kind': 'vb', 'ns': NS, 'bs': c, 'form': ['fraction', 'npscalar'][i % 2]})
  cdom = ctor_domain(tier)
  for i, c in enumerate(chunks(cdom, 100)):
    out.append({'kind': 'ct', 'ks': CLASSES, 'ns': NS, 'bs': c, 'form': ['plain', 'fraction', 'plain', 'npscalar'][i % 4]})
  ncb = 0
  for n in NS:
    tables = [[[0, 1]] * n, [[-1, 0]] * n] + ([[[0, 2]] + [[1, 1]] * (n - 1)] if n > 1 else [])
    full = ['CDev', 'CC2'] if tier != 'thorough' else CLASSES
    rest = [k for k in CLASSES if k not in full]
    for t in tables:
      for c in chunks(cb_domain(n), 350):
        out.append({'kind': 'cb', 'ks': full, 'n': n, 'b': t, 'cbs': c})
        ncb += len(c) * len(full)
        # and once more through a history on one object (see impl_ctor_hist): same model outcome expected
        out.append({'kind': 'cb', 'ks': ['CDev', 'CC'], 'n': n, 'b': t, 'cbs': c, 'hist': True})
        ncb += len(c) * 2
      if rest:
        for c in chunks(cb_domain(n, small=True), 100):
          out.append({'kind': 'cb', 'ks': rest, 'n': n, 'b': t, 'cbs': c})
          ncb += len(c) * len(rest)
  pars = par_cases(tier)
  for c in chunks(pars, 400):
    out.append({'kind': 'par', 'items': c})
  RULE = ('bounded-exhaustive, no sampling. validate_bounds: every value of depth <= 2 over the alphabet {-1,0,1,2,None} in the domain [%s] '
          '(%d values) x device lengths 1..5 = %d calls; constructors: %d bounds values x lengths 1..5 x 11 classes (Device, PVDevice, GDevice, '
          'CDevice, CDevice2, IDevice, IDevice2, SDevice, ADevice, TDevice, WindowDevice) = %d calls; cumulative bounds: None / scalar / pair / lists of '
          '4-tuples over values {-1,0,1,2,n,n+1} and slice indices {0,1,n,None,-1,n+1}, wrong arities, nested forms x 2-3 bounds tables x lengths 1..5 x 11 '
          'classes (quick tier: the full slice-index grid for Device and CDevice2, four index pairs for the other classes; the full grid once more for Device and CDevice through a history on one object - built with a wider table and a validated cumulative bound, bounds re-assigned, then cbounds assigned) = %d calls; parameters: %d constructor calls at every threshold and threshold +- 2^-6 (scalar, per-slot, wrong-length vectors, both '
          'orders of the coupled pairs p_l/p_h and c1/c2, pair/single rate_clip, the TDevice / MFDeviceSet / TwoRatioMFDeviceSet guard blocks). Outcome '
          '(accepted / ValueError / other exception) and the reported bounds table, cbounds and parameter values are compared exactly inside Coq. '
          'A case is one block of inputs; non-trivial = the block contains accepted and rejected inputs. Inputs inside the region of an open finding '
          'are not compared.' % (desc, len(dom), len(dom) * len(NS), len(cdom), len(cdom) * len(NS) * len(CLASSES), ncb, len(pars)))
  return out


def observe(c):
  return in_form(c, lambda: observe_(c))


def observe_(c):
  k = c['kind']
  if k == 'vb':
    return {'outs': [[('Z',) if in_open_region(n, b) else impl_vb(n, b) for b in c['bs']] for n in c['ns']]}
  if k == 'ct':
    return {'outs': [[[('Z',) if in_open_region(n, b, kk) else impl_ctor(kk, n, b, None) for b in c['bs']] for n in c['ns']] for kk in c['ks']]}
  if k == 'cb':
    return {'outs': [[impl_cb(c, kk, cb) for cb in c['cbs']] for kk in c['ks']]}
  return {'outs': [par_observe(*it) for it in c['items']]}


def nats(l):
  return '[' + ';'.join('%d%%nat' % v for v in l) + ']'


def coq_case(c, o):
  k = c['kind']
  if k == 'vb':
    return 'KVB %s [%s] [%s]' % (nats(c['ns']), ';'.join(pv_lit(b) for b in c['bs']),
                                ';'.join('[' + ';'.join(io_vb(e) for e in row) + ']' for row in o['outs']))
  if k == 'ct':
    return 'KCt [%s] %s [%s] [%s]' % (';'.join(c['ks']), nats(c['ns']), ';'.join(pv_lit(b) for b in c['bs']),
                                     ';'.join('[' + ';'.join('[' + ';'.join(io_ctor(e) for e in row) + ']' for row in per_n) + ']' for per_n in o['outs']))
  if k == 'cb':
    return 'KCb [%s] %d%%nat (%s) [%s] [%s]' % (';'.join(c['ks']), c['n'], pv_lit(c['b']), ';'.join(pv_lit(b) for b in c['cbs']),
                                               ';'.join('[' + ';'.join(io_ctor(e) for e in row) + ']' for row in o['outs']))
  items = []
  for (cls, n, settings), (code, rep) in zip(c['items'], o['outs']):
    acc, stored = par_model(cls, n, settings)
    same = 'true'
    if code == 0 and stored:
      same = ' && '.join('%s (%s) %s' % ('optpair_eqb' if kind == 'optpair' else 'param_eqb', s_, rep_lit(rep[p], kind)) for p, s_, kind in stored)
    items.append('(%s, %d%%nat, %s)' % (acc, code, same))
  return 'KPar [%s]' % ';\n'.join(items)


def nontrivial(c, o):
  flat = []

  def walk(x):
    if isinstance(x, tuple):
      flat.append(x[0])
    else:
      for e in x:
        walk(e)
  walk(o['outs'])
  tags = set(flat)
  return ('A' in tags or 0 in tags) and bool(tags - {'A', 0, 'Z'})


def classify(c, o):
  ks = ['kind:' + c['kind'], 'numbers:' + c.get('form', 'plain')]
  if c.get('hist'):
    ks.append('history:bounds-reassigned-before-cbounds')
  cnt = {}

  def walk(x):
    if isinstance(x, tuple):
      cnt[x[0]] = cnt.get(x[0], 0) + 1
    else:
      for e in x:
        walk(e)
  walk(o['outs'])
  names = {'A': 'accepted', 'V': 'ValueError', 'O': 'other-exception', 'Z': 'not-compared(open finding)', 0: 'accepted', 1: 'ValueError', 2: 'other-exception'}
  for t, v in cnt.items():
    ks += ['inputs:%s:%s' % (c['kind'], names[t])] * v
  return ks


def case_to_json(c):
  return json.loads(json.dumps(c, default=lambda v: float(v) if isinstance(v, F) else list(v)))


def case_from_json(j):
  def conv(v):
    if isinstance(v, float):
      return F(v)
    if isinstance(v, list):
      return [conv(e) for e in v]
    if isinstance(v, dict):
      return {k: conv(e) for k, e in v.items()}
    return v
  c = conv(j)
  if c['kind'] == 'par':
    c['items'] = [(it[0], it[1], [(p, tuple(v) if p == 'rate_clip' else v) for p, v in it[2]]) for it in c['items']]
  return c


# ---------------------------------------------------------------------------------------------------
# oracle: the property tested directly on the implementation (no Coq model involved)
# ---------------------------------------------------------------------------------------------------
def doc_meaning(n, b):
  """the documented meaning of a bounds specification: a list of (low, high), or None when it is not one of the three forms"""
  if not is_seq(b) or not numeric(b):
    return None
  if is_table(n, b):
    return [tuple(r) for r in b]

  def vec(v):
    if not is_seq(v):
      return [v] * n
    return list(v) if shape(v) == (n,) else None
  if len(b) == 2:
    lo, hi = vec(b[0]), vec(b[1])
    return None if lo is None or hi is None else list(zip(lo, hi))
  if len(b) == 1:
    v = vec(b[0])
    return None if v is None else list(zip(v, v))
  return None


def oracle_bounds(n, b, got, where):
  """got = ('A', table, ...) | ('V',) | ('O',)"""
  shown = core.jsonable(b)
  if is_seq(b) and (not numeric(b) or len(b) == 0 or any(is_seq(e) and len(e) == 0 for e in b)):
    return None                      # None entries / empty sequences: outside the documented forms and the property's lengths 1..5, no verdict
  t = doc_meaning(n, b)
  good = t is not None and all(lo <= hi for lo, hi in t)
  if good:
    if got[0] != 'A':
      return '%s rejects the well-formed bounds %r on a length-%d device (%s)' % (where, shown, n, got[0])
    if got[1] != [[F(lo), F(hi)] for lo, hi in t]:
      return '%s normalises bounds %r on a length-%d device to %r, documented meaning %r' % (where, shown, n, core.jsonable(got[1]), core.jsonable(t))
    return None
  if got[0] == 'A':
    return '%s accepts the ill-formed bounds %r on a length-%d device as %r' % (where, shown, n, core.jsonable(got[1]))
  if got[0] == 'O':
    return '%s raises something other than ValueError for the ill-formed bounds %r on a length-%d device' % (where, shown, n)
  return None


def oracle_cb(n, table, cb, got, k):
  """documented: None | 2-sequence (lo, hi) | list of 4-tuples (lo, hi, start, end); lo < hi; attainable within the slot bounds of [start, end)"""
  def tup_ok(t):
    if not (is_seq(t) and len(t) == 4 and t[0] is not None and t[1] is not None):
      return None if is_seq(t) and len(t) == 4 else False
    lo, hi, s_, e_ = t
    rows = table[slice(s_, e_)]
    return lo < hi and sum(r[0] for r in rows) <= hi and sum(r[1] for r in rows) >= lo
  if cb is None:
    want = None
    ok = True
  elif not is_seq(cb):
    ok, want = False, None
  elif len(cb) == 2 and not is_seq(cb[0]):
    if cb[0] is None or cb[1] is None:
      return None
    want = [[cb[0], cb[1], 0, n]]
    ok = tup_ok(want[0])
  else:
    oks = [tup_ok(t) for t in cb]
    if any(v is None for v in oks):
      return None
    ok = all(oks)
    want = [list(t) for t in cb] if ok else None
  if k == 'CC2':
    return None                       # CDevice2 derives / further restricts its ranges; covered by the model comparison only
  if ok:
    if got[0] != 'A':
      return '%s rejects the attainable cumulative bounds %r (bounds %r) with %s' % (k, cb, table, got[0])
    if got[2] != want:
      return '%s reports cumulative bounds %r for the supplied %r' % (k, got[2], cb)
    return None
  if got[0] == 'A':
    return '%s accepts the ill-formed / unattainable cumulative bounds %r (bounds %r)' % (k, cb, table)
  if got[0] == 'O':
    return '%s raises something other than ValueError for the cumulative bounds %r' % (k, cb)
  return None


def in_range(v, test):
  return all(test(F(e)) for e in v) if isinstance(v, list) else test(F(v))


def oracle_par(cls, n, settings, code, rep):
  """documented ranges, written from the docstrings / error messages"""
  d = dict(settings)
  verdict = None
  def shape_ok(v):
    return not isinstance(v, list) or len(v) == n
  if cls == 'CDevice':
    verdict = d['a'] <= 0
  elif cls in ('CDevice2', 'IDevice2'):
    if all(shape_ok(v) for v in d.values()):
      st = dict(DEFAULTS[cls])
      st.update(d)
      pl = st['p_l'] if isinstance(st['p_l'], list) else [st['p_l']] * n
      ph = st['p_h'] if isinstance(st['p_h'], list) else [st['p_h']] * n
      final = all(a <= b <= 0 for a, b in zip(pl, ph)) and all(a <= 0 for a in pl)
      if not final:
        verdict = False
      elif len(settings) == 1:
        verdict = True
      # two settings whose final state is fine may still pass through a bad intermediate state: no verdict
    else:
      verdict = False
  elif cls == 'IDevice':
    (p, v), = settings
    verdict = shape_ok(v) and in_range(v, (lambda e: e > 0) if p == 'b' else (lambda e: e >= 0))
  elif cls == 'SDevice':
    if 'rate_clip' in d:
      v = d['rate_clip']
      verdict = all(e is None or e >= 1 for e in v[1:])
    elif 'c1' in d or 'c2' in d:
      c1, c2 = d.get('c1', F(1)), d.get('c2', F(0))
      if c1 < 0 or c2 < 0 or (0 < c1 < c2):
        verdict = False
      elif c1 > c2:
        verdict = True if len(settings) == 1 or settings[0][0] == 'c1' else None
    else:
      (p, v), = settings
      verdict = {'c3': v >= 0, 'capacity': v > 0, 'start': 0 <= v <= 1, 'reserve': 0 <= v <= 1, 'damage_depth': 0 <= v <= 1,
                 'efficiency': 0 < v <= 1, 'sustainment': 0 < v <= 1}[p]
  elif cls == 'TDevice':
    verdict = 0 <= d['sustainment'] <= 1 and d['efficiency'] != 0 and d['t_range'] >= 0 and len(d['t_external']) == n and \
        shape_ok(d['c']) and in_range(d['c'], lambda e: e >= 0)
  elif cls == 'DeviceSet':
    import re
    verdict = len(set(d['lens'])) == 1 and bool(re.match('^[A-Za-z0-9][A-Za-z0-9_-]*$', d['id']))
  elif cls == 'MFDeviceSet':
    verdict = d['flows'] >= 1 and not (any(e < 0 for e in d['lo']) and any(e > 0 for e in d['hi']))
  elif cls == 'TwoRatioMFDeviceSet':
    if d['ratios'] is None:
      return None                     # open finding C10 tworatio-ratios-none
    verdict = d['flows'] == 2 and d['ratios'] == 2 and d['constraint_type'] in ('eq', 'ineq')
  if verdict is None:
    return None
  what = '%s(%s) on a length-%d device' % (cls, ', '.join('%s=%r' % (p, core.jsonable(v)) for p, v in settings), n)
  if verdict and code != 0:
    return '%s is within the documented ranges but is rejected' % what
  if not verdict and code == 0:
    return '%s is outside the documented ranges but is accepted' % what
  if not verdict and code == 2:
    return '%s is rejected with something other than ValueError' % what
  if code == 0:
    for p, v in settings:
      if p in rep:
        if p == 'rate_clip':
          want = [v[1], v[1]] if v[0] == 'one' else list(v[1:])
          got = [None if e is None else fr(e) for e in rep[p]]
        else:
          want, got = v, (np.array(rep[p]).tolist())
          got = [fr(e) for e in got] if isinstance(got, list) else fr(got)
        if got != want:
          return '%s reports %s=%r' % (what, p, core.jsonable(got))
  return None


def oracle(c):
  return in_form(c, lambda: oracle_(c))


def oracle_(c):
  k = c['kind']
  if k == 'vb':
    for n in c['ns']:
      for b in c['bs']:
        if in_open_region(n, b):
          continue
        why = oracle_bounds(n, b, impl_vb(n, b), 'validate_bounds')
        if why:
          return why
  elif k == 'ct':
    for kk in c['ks']:
      for n in c['ns']:
        for b in c['bs']:
          if in_open_region(n, b, kk):
            continue
          got = impl_ctor(kk, n, b, None)
          if kk in ('CPV', 'CG') and doc_meaning(n, b) is not None and any(hi > 0 for _, hi in doc_meaning(n, b)):
            why = None if got[0] == 'V' else '%s accepts bounds %r that allow consumption' % (kk, b)
          elif kk == 'CC2' and doc_meaning(n, b) is not None and sum(lo for lo, _ in doc_meaning(n, b)) == sum(hi for _, hi in doc_meaning(n, b)):
            why = None
          else:
            why = oracle_bounds(n, b, got, kk + ' constructor')
          if why:
            return why
  elif k == 'cb':
    for kk in c['ks']:
      for cb in c['cbs']:
        if kk in ('CPV', 'CG') and any(r[1] > 0 for r in c['b']):
          continue
        why = oracle_cb(c['n'], c['b'], cb, impl_cb(c, kk, cb), kk + (' (bounds re-assigned, then cbounds assigned)' if c.get('hist') else ''))
        if why:
          return why
  else:
    for it in c['items']:
      code, rep = par_observe(*it)
      why = oracle_par(it[0], it[1], it[2], code, rep)
      if why:
        return why
  return None


def shrink(c, why):
  """one input instead of a block"""
  k = c['kind']
  if k == 'vb':
    for n in c['ns']:
      for b in c['bs']:
        one = {'kind': 'vb', 'ns': [n], 'bs': [b], 'form': c.get('form', 'plain')}
        w = oracle(one)
        if w:
          return one, w
  elif k == 'ct':
    for kk in c['ks']:
      for n in c['ns']:
        for b in c['bs']:
          one = {'kind': 'ct', 'ks': [kk], 'ns': [n], 'bs': [b], 'form': c.get('form', 'plain')}
          w = oracle(one)
          if w:
            return one, w
  elif k == 'cb':
    for kk in c['ks']:
      for cb in c['cbs']:
        one = {'kind': 'cb', 'ks': [kk], 'n': c['n'], 'b': c['b'], 'cbs': [cb], 'hist': bool(c.get('hist'))}
        w = oracle(one)
        if w:
          return one, w
  else:
    for it in c['items']:
      one = {'kind': 'par', 'items': [it]}
      w = oracle(one)
      if w:
        return one, w
  return c, why


def finding_matches(f, c):
  """only single-input bounds cases can lie inside a finding's region (blocks skip such inputs themselves)"""
  reg = FINDING_REGIONS.get(f.get('id'))
  if reg is None or c['kind'] not in ('vb', 'ct') or len(c['ns']) != 1 or len(c['bs']) != 1:
    return False
  return reg(c['ks'][0] if c['kind'] == 'ct' else None, c['ns'][0], c['bs'][0])


def witness_fails(f):
  w = f.get('witness', {})
  n, b = w.get('n'), w.get('bounds')
  if w.get('class') == 'PVDevice':
    return oracle_bounds(n, b, impl_ctor('CPV', n, b, None), 'PVDevice constructor') is not None
  return oracle_bounds(n, b, impl_vb(n, b), 'validate_bounds') is not None


def search(rng, budget, seeds, findings):
  return core.default_search(__import__('c11'), rng, budget, seeds, findings + PENDING)
