"""C02 - a device tree composes its leaves row-wise (cost, gradient, bounds, constraints).

Tie O + H. The Coq tree model (Model/Tree.v) is instantiated with a leaf type that is a record of values OBSERVED on the
implementation's own standalone units (a plain leaf called alone with 1-D vectors; a multi-flow adaptor called alone
with its (k,n) block), keyed by the exact flow / price rows the harness handed to that unit. The model's partition,
row slicing, price expansion, constraint re-wrapping and zero padding decide which rows each unit is asked about: a
unit asked about anything but its own rows answers with a poison value. Coq then compares the implementation's tree
values with the composition of those standalone values."""
from fractions import Fraction as F
import numpy as np
import core
from core import cq, fr, fl, Raw, N, C, Some
import leafgen as lg
import treegen as tg

ID = 'C02'
GEN = ['kernels', 'deviceset']
# the scalar kernels of functions.py this property's statement depends on (a change confined to the others is not this property's business;
# what its own correspondence compares still is)
KERNELS_USED = []
PROPS = 'Props/C02.v'
MODEL_VO = ['Model/Tree.v']
SHARD = 40
CASE_TYPE = 'gdev Q obs * list (list Q) * price Q * (Q * list Q * list (Q * Q) * list (bool * Q * option (list Q)))'
CHECKER = 'chk'
COQ_PRELUDE = '''From Coq Require Import ZArith QArith List Bool String.
From DK Require Import Num NumQ Vec.
From DK.Model Require Import Leaf Fn Dev Tree.
Import ListNotations.
Local Open Scope Q_scope.
(* what the implementation's standalone unit returned for the rows o_s and price rows o_p *)
Record obs := { o_rows : nat; o_n : nat; o_bounds : list (Q * Q); o_s : list Q; o_p : list Q;
                o_cost : Q; o_deriv : list Q; o_cons : list (bool * Q * option (list Q)) }.
Definition poison : Q := 1000000000000 # 1.
Fixpoint eqlist (a b : list Q) : bool :=
  match a, b with [], [] => true | x :: a', y :: b' => Qeq_bool x y && eqlist a' b' | _, _ => false end.
Definition obs_con (l : obs) (c : bool * Q * option (list Q)) : con Q :=
  let '(e, v, j) := c in
  {| c_eq := e; c_fun := fun s => if eqlist s (o_s l) then v else poison;
     c_jac := match j with Some jv => Some (fun s => if eqlist s (o_s l) then jv else []) | None => None end |}.
Definition obs_ops : leafops Q obs :=
  {| l_rows := o_rows; l_n := o_n; l_bounds := o_bounds;
     l_cost := fun l s p => if eqlist s (o_s l) && eqlist p (o_p l) then o_cost l else poison;
     l_deriv := fun l s p => if eqlist s (o_s l) && eqlist p (o_p l) then o_deriv l else [];
     l_hess := fun _ _ => [];
     l_cons := fun l => map (obs_con l) (o_cons l);
     l_conduit := fun n b => Build_obs 1 n b [] [] 0 [] [] |}.
(* which entries of the exported constraint list are re-wrapped unit constraints (true) / a set's own coupling
   constraints (false; those are C04's business) *)
Fixpoint unit_mask (d : gdev Q obs) : list bool :=
  match d with
  | Leaf _ l => repeat true (List.length (o_cons l))
  | DSet _ ks _ | SubBal _ ks _ _ _ _ _ =>
      (fix go (ks : list (gdev Q obs)) : list bool := match ks with [] => [] | k :: ks' => unit_mask k ++ go ks' end) ks
      ++ repeat false (List.length (own_cons obs_ops d))
  | _ => repeat false (List.length (own_cons obs_ops d))
  end.
Definition optclose (a b : option (list Q)) : bool :=
  match a, b with Some x, Some y => Qclose_list Qtol x y | None, None => true | _, _ => false end.
Fixpoint cons_ok (x : list Q) (cs : list (con Q)) (mask : list bool) (ic : list (bool * Q * option (list Q))) : bool :=
  match cs, mask, ic with
  | [], [], [] => true
  | c :: cs', m :: mask', (e, v, j) :: ic' =>
      (if m then Bool.eqb (c_eq c) e && Qclose Qtol (c_fun c x) v
                 && optclose (match c_jac c with Some f => Some (f x) | None => None end) j
       else true) && cons_ok x cs' mask' ic'
  | _, _, _ => false
  end.
Definition chk (c : gdev Q obs * list (list Q) * price Q * (Q * list Q * list (Q * Q) * list (bool * Q * option (list Q)))) : bool :=
  let '(d, S0, p, (ic, idv, ib, icons)) := c in
  let P := prices obs_ops d p in
  Qclose Qtol (gcost obs_ops d S0 P) ic
  && Qclose_list Qtol (List.concat (gderiv obs_ops d S0 P)) idv
  && Qclose_list Qtol (map fst (gbounds obs_ops d)) (map fst ib) && Qclose_list Qtol (map snd (gbounds obs_ops d)) (map snd ib)
  && cons_ok (List.concat S0) (gcons obs_ops d) (unit_mask d) icons.
'''
RULE = ('cases = (tree, in-bounds flow matrix, price); trees of depth 0..3 (thorough: 0..4), fan-out 1..4, plain and sub-balanced '
        'sets, children with different row counts, ~30% multi-flow / two-ratio adaptors as children, all ten atomic classes as '
        'leaves, horizon 1..5, aggregate bounds none/ineq/eq/mixed, price scalar/vector/matrix, flow passed flat or shaped. '
        'Observed: tree cost, deriv, bounds and every exported constraint (type, value, Jacobian) at the flow; and for every unit '
        '(leaf alone with 1-D vectors, adaptor alone) the same on its own rows. Compared in Coq: the tree values vs the model '
        'composition (Model/Tree.v partition / slicing / price expansion / re-wrapping / zero padding) of the standalone values; '
        'a unit queried on other rows than its own poisons the result. Non-trivial: at least two units and a unit at a non-zero offset; '
        'distinct by hash of (tree, flow, price).')
EXPLANATION = ('Theorems (Props/C02.v, structural induction on trees, arbitrary leaf behaviours) state that the model tree is the '
               'row-wise composition of its units; the correspondence ties the model plumbing to deviceset.py / utils.zmm.')
TRUSTED_EXTRA = ['tie O: leaf/adaptor behaviours are the implementation\'s own standalone values (lookup keyed by the exact rows)']


def gen_cases(rng, tier):
  n = {'quick': 260, 'thorough': 4000, 'search': 120}[tier]
  out = []
  for i in range(n):
    depth = rng.choice([0, 1, 1, 2, 2, 3] if tier != 'thorough' else [0, 1, 2, 2, 3, 3, 4])
    T = tg.gen_tree(rng, depth, fanout=4 if depth < 3 else 3)
    S = tg.gen_matrix(rng, T)
    p = tg.gen_tree_price(rng, T, ['scalar', 'vector', 'matrix'][i % 3])
    c = {'tree': T, 'S': S, 'p': p, 'flat': bool(i % 2)}
    if i % 6 == 4:
      # whole-number flows handed over as an INTEGER array (the units are evaluated standalone on float copies): the tree must not
      # compute in the caller's dtype
      c['S'] = [[F(round(v)) for v in r] for r in S]
      c['int'] = True
    out.append(c)
  return out


def _con_obs(cons, x):
  out = []
  for c in cons:
    v = fr(float(np.array(c['fun'](x), dtype=float).reshape(-1)[0]))
    j = fr(np.array(c['jac'](x), dtype=float).reshape(-1)) if 'jac' in c else None
    out.append((c['type'] == 'eq', v, j))
  return out


def unit_obs(U, Srows, Prows):
  """Standalone values of one unit on its own rows."""
  d = tg.build_tree(U)
  if U['kind'] == 'leaf':
    s, p = np.array(fl(Srows[0])), np.array(fl(Prows[0]))
  else:
    s, p = np.array(fl(Srows)), np.array(fl(Prows))
  L = U['leaf']
  bounds = L['bounds'] if U['kind'] == 'leaf' else tg.conduit_bounds(L['bounds']) * len(U['flows'])
  return {'rows': len(Srows), 'n': L['n'], 'bounds': fr(np.array(d.bounds, dtype=float)),
          's': [v for r in Srows for v in r], 'p': [v for r in Prows for v in r],
          'cost': fr(float(d.cost(s, p))), 'deriv': fr(np.array(d.deriv(s, p), dtype=float).reshape(-1)),
          'cons': _con_obs(d.constraints, s.reshape(-1) if U['kind'] != 'leaf' else s)}


def observe(c):
  T, S, p = c['tree'], c['S'], c['p']
  R, n = tg.rows(T), tg.length(T)
  d = tg.build_tree(T)
  s = np.array(fl(S)).reshape(R, n)
  arg = s.reshape(-1) if c.get('flat') else s
  if c.get('int'):
    arg = arg.astype(int)
  pp = tg.py_price(p)
  Pm = tg.price_matrix(p, R, n)
  x = s.reshape(-1)
  tree = {'cost': fr(float(d.cost(arg, pp))), 'deriv': fr(np.array(d.deriv(arg, pp), dtype=float).reshape(-1)),
          'bounds': fr(np.array(d.bounds, dtype=float)), 'cons': _con_obs(d.constraints, x)}
  units = [unit_obs(U, S[off:off + r], Pm[off:off + r]) for off, r, U in tg.units(T)]
  return {'tree': tree, 'units': units}


def coq_obs(o):
  cons = [(e, v, Raw('None') if j is None else Some(j)) for e, v, j in o['cons']]
  return Raw('(Build_obs %s)' % ' '.join(cq(x) for x in [N(o['rows']), N(o['n']), [tuple(b) for b in o['bounds']], o['s'], o['p'],
                                                         o['cost'], o['deriv'], cons]))


def obs_tree(T, units):
  """T with every unit replaced by an abstract leaf carrying its observed values (consumes `units` in row order)."""
  if T['kind'] in ('leaf', 'mf', 'tworatio'):
    return {'kind': 'leaf', 'id': T['id'], 'leaf': units.pop(0)}
  T2 = dict(T)
  T2['kids'] = [obs_tree(k, units) for k in T['kids']]
  return T2


def coq_case(c, o):
  T2 = obs_tree(c['tree'], list(o['units']))
  t = o['tree']
  cons = [(e, v, Raw('None') if j is None else Some(j)) for e, v, j in t['cons']]
  return cq((tg.coq_tree(T2, leaf=coq_obs), c['S'], tg.coq_price(c['p']), (t['cost'], t['deriv'], [tuple(b) for b in t['bounds']], cons)))


def nontrivial(c, o):
  us = tg.units(c['tree'])
  return len(us) >= 2 and any(off > 0 for off, _, _ in us)


def classify(c, o):
  T = c['tree']
  us = tg.units(T)
  ks = ['depth:%d' % tg.depth(T), 'units:%s' % (len(us) if len(us) < 8 else '8+'), 'n:%d' % tg.length(T), 'price:' + c['p'][0],
        'flat' if c.get('flat') else 'shaped']
  ks += ['has:' + k for k in tg.kinds(T)]
  if len({r for _, r, _ in us}) > 1:
    ks.append('mixed-row-counts')
  if any(len(u['cons']) for u in o['units']):
    ks.append('unit-constraints')
  for _, _, U in us:
    ks.append('leafclass:' + U['leaf']['cls'])
  return sorted(set(ks))


def case_to_json(c):
  return {'tree': tg.tree_to_json(c['tree']), 'S': tg.matrix_to_json(c['S']), 'p': tg.price_to_json(c['p']), 'flat': bool(c.get('flat')), 'int': bool(c.get('int'))}


def case_from_json(j):
  return {'tree': tg.tree_from_json(j['tree']), 'S': tg.matrix_from_json(j['S']), 'p': tg.price_from_json(j['p']), 'flat': j.get('flat', False), 'int': j.get('int', False)}


# ---- direct oracle: the same identity, evaluated on the implementation alone (partition taken from the tree dict) -----
def _close(a, b, tol=1e-7):
  return abs(float(a) - float(b)) <= tol * (1 + abs(float(b)))


def _expected_cons(T, off):
  """[(unit offset, unit rows, unit node, index into the unit's constraint list) | None for a set's own constraint],
  in the order DeviceSet.constraints lists them; own-constraint counts are read off the implementation."""
  if T['kind'] in ('leaf', 'mf', 'tworatio'):
    k = len(tg.build_tree(T).constraints)
    return [(off, tg.rows(T), T, i) for i in range(k)]
  out = []
  o = off
  for kid in T['kids']:
    out += _expected_cons(kid, o)
    o += tg.rows(kid)
  own = len(tg.build_tree(T).constraints) - len(out)
  return out + [None] * max(0, own)


def oracle(c):
  T, S, p = c['tree'], c['S'], c['p']
  R, n = tg.rows(T), tg.length(T)
  try:
    o = observe(c)
  except Exception as e:
    return 'implementation raised %s: %s' % (type(e).__name__, str(e)[:200])
  t, us = o['tree'], o['units']
  want = sum(float(u['cost']) for u in us)
  if not _close(t['cost'], want):
    return 'tree cost %r is not the sum of the standalone unit costs on their own rows %r' % (float(t['cost']), want)
  wd = [v for u in us for v in u['deriv']]
  if len(wd) != len(t['deriv']) or any(not _close(a, b) for a, b in zip(t['deriv'], wd)):
    bad = [k for k, (a, b) in enumerate(zip(t['deriv'], wd)) if not _close(a, b)][:3]
    return 'tree deriv differs from the stacked standalone unit derivs at flat indices %s' % bad
  wb = [tuple(b) for u in us for b in u['bounds']]
  if [tuple(b) for b in t['bounds']] != wb:
    return 'tree bounds are not the unit bounds in row order'
  exp = _expected_cons(T, 0)
  if len(exp) != len(t['cons']):
    return 'tree exports %d constraints, %d expected from its units and sets' % (len(t['cons']), len(exp))
  offs = {id(U): k for k, (_, _, U) in enumerate(tg.units(T))}
  for k, (e, got) in enumerate(zip(exp, t['cons'])):
    if e is None:
      continue
    off, r, U, ci = e
    ue, uv, uj = us[offs[id(U)]]['cons'][ci]
    if got[0] != ue or not _close(got[1], uv):
      return 'constraint %d (constraint %d of unit %s at rows %d..%d) evaluates to %r in the tree, %r standalone' % (
          k, ci, U['id'], off, off + r, float(got[1]), float(uv))
    if (got[2] is None) != (uj is None):
      return 'constraint %d: Jacobian present in one of tree / standalone only' % k
    if uj is not None:
      wj = [F(0)] * (off * n) + list(uj) + [F(0)] * ((R - off - r) * n)
      if len(wj) != len(got[2]) or any(not _close(a, b) for a, b in zip(got[2], wj)):
        return 'constraint %d: Jacobian is not the unit Jacobian on rows %d..%d padded with zeros' % (k, off, off + r)
  return None


def shrink(case, why):
  """Greedy: drop children / replace the tree by a subtree while the oracle still fails."""
  import copy

  def fails(c):
    try:
      return oracle(c)
    except Exception:
      return None
  best, bw = case, why
  improved = True
  while improved:
    improved = False
    T = best['tree']
    if 'kids' not in T:
      break
    cands = []
    off = 0
    for i, k in enumerate(T['kids']):
      r = tg.rows(k)
      if len(T['kids']) > 1:
        T2 = copy.deepcopy(T)
        del T2['kids'][i]
        S2 = best['S'][:off] + best['S'][off + r:]
        p2 = best['p'] if best['p'][0] != 'matrix' else ('matrix', best['p'][1][:off] + best['p'][1][off + r:])
        cands.append({'tree': T2, 'S': S2, 'p': p2, 'flat': best.get('flat')})
      if 'kids' in k:
        p2 = best['p'] if best['p'][0] != 'matrix' else ('matrix', best['p'][1][off:off + r])
        cands.append({'tree': k, 'S': best['S'][off:off + r], 'p': p2, 'flat': best.get('flat')})
      off += r
    for c2 in cands:
      w = fails(c2)
      if w:
        best, bw, improved = c2, w, True
        break
  return best, bw


def search(rng, budget, seeds, findings):
  return core.default_search(__import__('c02'), rng, budget, seeds, findings)
