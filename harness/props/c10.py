"""C10 - every accepted device is usable: finite values and contract shapes at all in-bounds flows.

Tie T: the *_defined predicates of Gen/Kernels.v and the guards of Gen/Validators.v are regenerated from /repo; Props/C10.v
proves that accepted parameters make every kernel defined on the box (with the exact exceptional region stated and refuted
elsewhere) and that every model observable has the contract shape for every length.
Tie H (this file): boundary configurations of every atomic class and of trees; the implementation is asked for cost, marginal
cost, Hessian and every constraint value / Jacobian with the flow given flat and in device shape; for each observable the
outcome tag (usable = returned and finite / unusable = raised or not finite) and the shape are compared exactly, inside Coq,
with Model/Usable.v (definedness assembled from the generated predicates, shapes read off the executable model).
"""
import json
import random
import warnings
from fractions import Fraction as F

import numpy as np

import core
from core import cq, fr, fl, Raw, N, C
import leafgen as lg

try:
  import treegen as tg
except ImportError:
  tg = None

ID = 'C10'
GEN = ['kernels', 'validators']
PROPS = 'Props/C10.v'
MODEL_VO = ['Model/Usable.v']
CASE_TYPE = 'kase'
CHECKER = 'chk'
SHARD = 60
COQ_PRELUDE = r'''From Coq Require Import String ZArith QArith List Bool.
From DK Require Import Num NumQ Vec.
From DK.Model Require Import Leaf Fn Dev Tree Usable.
Import ListNotations.
Local Open Scope Q_scope.
(* monomorphic literals for what the implementation showed: U = unusable (raised / not finite) *)
Inductive ish := U | S_ | V_ (n : nat) | M_ (r c : nat).
Definition ish_shape (i : ish) : option shape :=
  match i with U => None | S_ => Some Sc | V_ n => Some (Vec n) | M_ r c => Some (Mat r c) end.
Inductive icon := IC (f : ish) | ICJ (f j : ish).
Definition icon_obs (c : icon) : option shape * option (option shape) :=
  match c with IC f => (ish_shape f, None) | ICJ f j => (ish_shape f, Some (ish_shape j)) end.
Record iobs := { i_cost : ish; i_deriv : ish; i_hess : ish; i_cons : list icon }.
Definition to_obs (i : iobs) : obs :=
  {| o_cost := ish_shape (i_cost i); o_deriv := ish_shape (i_deriv i); o_hess := ish_shape (i_hess i); o_cons := map icon_obs (i_cons i) |}.
(* a WindowDevice is not in the executable model: its contract only (cost scalar, one marginal cost per slot, n x n Hessian,
   two constraints per cumulative bound) *)
Definition window_obs (n ncb : nat) : obs :=
  {| o_cost := Some Sc; o_deriv := Some (Vec n); o_hess := Some (Mat n n);
     o_cons := repeat (Some Sc, Some (Some (Vec n))) (2 * ncb) |}.
Inductive kase :=
| KLeaf (d : leafdev Q) (s p : list Q) (flat shaped : iobs)
| KTree (d : dev Q) (SS : list (list Q)) (p : price Q) (flat shaped : iobs)
| KWin (n ncb : nat) (flat shaped : iobs).
Definition chk (k : kase) : bool :=
  match k with
  | KLeaf d s p f g => let m := leaf_obs d s p in obs_agrees m (to_obs f) && obs_agrees m (to_obs g)
  | KTree d SS p f g => let m := tree_obs d SS (tree_prices d p) in obs_agrees m (to_obs f) && obs_agrees m (to_obs g)
  | KWin n ncb f g => let m := window_obs n ncb in obs_agrees m (to_obs f) && obs_agrees m (to_obs g)
  end.
'''
RULE = ''
EXPLANATION = ('Theorems (Props/C10.v): the generated parameter guards imply the generated definedness predicates of every quotient and power on '
               'the bounds box (high/low quadratic: always; power curve: value always, slope / curvature outside a = 0 at the upper bound with '
               'exponent < 1 / < 2 and not 1, refuted there; storage and thermal: the efficiency and capacity quotients), and the model observables have the '
               'contract shapes for every length. The correspondence compares usability tags and shapes of the implementation, flat and shaped input, '
               'with the model on boundary configurations.')
ASSUMPTIONS = ['numdifftools Hessians of SDevice/TDevice are finite whenever the cost is (oracle: compiled / numerical code outside the model)']
warnings.simplefilter('ignore')

PENDING = []     # findings reported by this check that are not yet in known_findings.json (none at the moment)
ABC = 'abc-power-singular-at-upper-bound'


def open_ids():
  return {f.get('id') for f in core.load_findings(ID)} | {p['id'] for p in PENDING}


# ---------------------------------------------------------------------------------------------------
# boundary configurations
# ---------------------------------------------------------------------------------------------------
def tweak(rng, L, beyond=False):
  """push a generated leaf onto validator / kernel boundaries (beyond=True, search tier only: also onto values the validators
  reject today - if a loosened validator lets them through, the oracle sees the unusable device)"""
  cls, n = L['cls'], L['n']
  pk = lambda xs: xs[rng.randrange(len(xs))]
  if beyond and rng.random() < .5:
    if cls == 'SDevice':
      L['rate_clip'] = (F(1), F(1))
      L[pk(['capacity', 'efficiency'])] = F(0)
      return L
    if cls == 'TDevice':
      L['efficiency'] = F(0)
      return L
  if cls == 'IDevice':
    bs = [F(1), F(2), F(3), F(1, 2), F(3, 2)]
    as_ = [F(0), F(0), F(1, 4), F(1), F(2)]
    cs = [F(0), F(1), F(2)]
    L['b'] = [pk(bs) for _ in range(n)] if rng.random() < .4 else pk(bs)
    L['a'] = [pk(as_) for _ in range(n)] if rng.random() < .4 else pk(as_)
    L['c'] = [pk(cs) for _ in range(n)] if rng.random() < .4 else pk(cs)
  elif cls in ('IDevice2', 'CDevice2') and rng.random() < .5:
    L['p_l'] = L['p_h']                                   # equal slopes
  elif cls == 'SDevice':
    r = rng.random()
    if r < .25:
      L['c1'], L['c2'], L['c3'] = F(0), F(0), F(0)
    elif r < .4:
      L['c1'], L['c2'] = F(1), F(1)
  elif cls == 'TDevice':
    r = rng.random()
    if r < .25:
      L['t_range'] = F(0)
    elif r < .4:
      L['c'] = F(0)
  elif cls == 'GDevice':
    r = rng.random()
    cc = L['cost_coeffs']
    if r < .3:
      L['cost_coeffs'] = [[F(0)] * len(r_) for r_ in cc] if isinstance(cc[0], list) else [F(0)] * len(cc)
    elif r < .45:
      L['cost_coeffs'] = [F(0)]            # constructed WITHOUT cost_coeffs (see build): the class default is the zero polynomial
      L['no_coeffs'] = True
  return L


def abc_region(a, b, c, lo, hi, x):
  """ABCCost with a = 0 at the upper bound of a slot of non-zero width and exponent < 2, other than 1"""
  return lo != hi and a == 0 and x == hi and b < 2 and b != 1


def leaf_in_abc_region(L, s):
  par = lambda v, i: v[i] if isinstance(v, list) else v
  if L['cls'] == 'IDevice':
    return any(abc_region(par(L['a'], i), par(L['b'], i), par(L['c'], i), lo, hi, s[i]) for i, (lo, hi) in enumerate(L['bounds']))
  if L['cls'] == 'ADevice':
    return fn_in_abc_region(L['f'], s)
  return False


def fn_in_abc_region(f, x):
  par = lambda v, i: v[i] if isinstance(v, list) else v
  k = f[0]
  if k == 'abc':
    return any(abc_region(par(f[1], i), par(f[2], i), par(f[3], i), par(f[4], i), par(f[5], i), v) for i, v in enumerate(x))
  if k == 'sum':
    return any(fn_in_abc_region(g, x) for g in f[1])
  if k == 'reflect':
    return fn_in_abc_region(f[1], [-v for v in x])
  if k == 'ranges':
    return any(fn_in_abc_region(g, x[s:e]) for s, e, g in f[1])
  return False


def gen_leaf_case(rng, k, tier):
  classes = lg.CLASSES
  cls = classes[k % len(classes)]
  n = [1, 2, 3, 1, 2, 3, 4, 5][(k // len(classes)) % 8] if tier != 'thorough' else [1, 2, 3, 4, 5, 6, 7, 1, 2, 3][(k // len(classes)) % 10]
  zw = [None, 'some', 'all', None][(k // (len(classes) * 2)) % 4]
  L = tweak(rng, lg.gen_leaf(rng, cls=cls, n=n, zero_width=zw), beyond=(tier == 'search'))
  kind = ['lower', 'upper', 'mixed', 'interior'][k % 4]
  s = lg.gen_flow(rng, L, kind, avoid_kinks=False)
  p, _ = lg.gen_price(rng, n)
  return {'kind': 'leaf', 'leaf': L, 's': s, 'p': p}


def gen_window_case(rng, k):
  n = 1 + k % 4
  lo = [F(0)] * n if k % 5 == 0 else [core.dy(rng, 0, 1, 2) for _ in range(n)]
  b = [(l, l + (F(0) if (k // 4) % 3 == 2 else core.dy(rng, F(1, 2), 2, 2))) for l in lo]
  cb = None if k % 2 else (sum(x for x, _ in b), sum(y for _, y in b) + 1)
  s = [x if k % 3 == 0 else (y if k % 3 == 1 else (x + y) / 2) for x, y in b]
  if k % 6 == 4 and n >= 2:
    # bounds on both sides of zero and an in-bounds flow that is not zero but has zero total (load shifted between slots)
    b = [(F(-1), F(1))] * n
    cb = None
    s = [F(1, 2), F(-1, 2)] + [F(0)] * (n - 2) if k % 12 == 4 else [F(1)] + [F(0)] * (n - 2) + [F(-1)]
  return {'kind': 'win', 'n': n, 'bounds': b, 'cb': cb, 'w': F(1 + k % 3), 'c': F(k % 3), 's': s, 'p': [F(1, 2)] * n}


def gen_cases(rng, tier):
  global RULE
  nl = {'quick': 360, 'thorough': 6000, 'search': 200}[tier]
  nt = {'quick': 90, 'thorough': 1500, 'search': 40}[tier] if tg is not None else 0
  nw = {'quick': 36, 'thorough': 240, 'search': 12}[tier]
  out = [gen_leaf_case(rng, k, tier) for k in range(nl)]
  out += [gen_window_case(rng, k) for k in range(nw)]
  for k in range(nt):
    T = tg.gen_tree(rng, k % 3 if tier != 'thorough' else k % 4, lengths=[1, 2, 3, 3, 4])
    S = tg.gen_matrix(rng, T, ['lower', 'upper', 'mixed', None, 'free'][k % 5])
    out.append({'kind': 'tree', 'tree': T, 'S': S, 'p': tg.gen_tree_price(rng, T)})
  ids = open_ids()
  if ABC in ids:
    keep = []
    for c in out:
      if c['kind'] == 'leaf' and leaf_in_abc_region(c['leaf'], c['s']):
        continue
      if c['kind'] == 'tree' and tree_in_abc_region(c['tree'], c['S']):
        continue
      keep.append(c)
    out = keep
  RULE = ('boundary configurations: %d atomic devices (all ten modelled classes in turn x length 1-5 (thorough 1-7) x zero-width slots none/some/all x '
          'flow on the lower bounds / upper bounds / mixed / interior, zeros included; power-curve exponents 1/2, 1, 3/2, 2, 3 with a in {0, 1/4, 1, 2} and '
          'c = 0; equal slopes p_l = p_h; storage with all coefficients 0 and c1 = c2, rate clipping, efficiency / sustainment 1 and < 1; thermal with '
          't_range = 0, c = 0, sustainment 0 and 1, negative efficiency; generator coefficients 1-D / 2-D / all zero), %d WindowDevices, %d trees (depth 0-2, '
          'thorough 0-3; plain / sub-balanced sets, multi-flow and two-ratio adaptors; flow matrices on the bounds / mixed / free). Each is asked for '
          'cost, deriv, hess and every constraint fun / jac with the flow flat and in device shape; compared in Coq with Model/Usable.v: usable-or-not per '
          'observable and the shape tags (cost Sc; deriv one entry per flow variable; hess (n,n); constraint value Sc, Jacobian one entry per flow '
          'variable). Non-trivial: the device has a preference term or constraints (not a bare Device / PVDevice).' % (
              sum(1 for c in out if c['kind'] == 'leaf'), sum(1 for c in out if c['kind'] == 'win'), sum(1 for c in out if c['kind'] == 'tree')))
  return out


def tree_in_abc_region(T, S):
  if tg is None:
    return False
  for off, r, U in tg.units(T):
    L = U['leaf']
    rows = S[off:off + r]
    tot = [sum(row[i] for row in rows) for i in range(L['n'])]
    if leaf_in_abc_region(L, tot):
      return True
  return False


# ---------------------------------------------------------------------------------------------------
# implementation side
# ---------------------------------------------------------------------------------------------------
def finite(a):
  try:
    return bool(np.all(np.isfinite(np.array(a, dtype=float))))
  except (TypeError, ValueError):
    return False


def tag(v, what):
  """-> 'U' | 'S_' | 'V_ k' | 'M_ r c' """
  a = np.array(v)
  if not finite(a):
    return 'U'
  if what == 'value':           # a constraint value: SciPy takes any one-element result
    return 'S_' if a.size == 1 else 'V_ %d' % a.size
  if what == 'scalar':
    return 'S_' if a.ndim == 0 else ('V_ %d' % a.size if a.ndim == 1 else 'M_ %d %d' % a.shape[:2])
  if what == 'entries':          # one entry per flow variable, any array shape that reshapes to the device shape
    return 'S_' if a.ndim == 0 else 'V_ %d' % a.size
  if a.ndim == 2:
    return 'M_ %d %d' % a.shape
  return 'S_' if a.ndim == 0 else 'V_ %d' % a.size


def attempt(f, what):
  try:
    return tag(f(), what)
  except Exception:
    return 'U'


def observe_dev(d, s, p):
  o = {'cost': attempt(lambda: d.cost(s, p), 'scalar'), 'deriv': attempt(lambda: d.deriv(s, p), 'entries'),
       'hess': attempt(lambda: d.hess(s), 'matrix'), 'cons': []}
  try:
    cons = d.constraints
  except Exception:
    cons = None
  if cons is None:
    o['cons'] = None
    return o
  for c in cons:
    fv = attempt(lambda: c['fun'](s), 'value')
    o['cons'].append((fv, attempt(lambda: c['jac'](s), 'entries') if 'jac' in c else None))
  return o


def build(c):
  import device_kit as dk
  if c['kind'] == 'leaf':
    L = c['leaf']
    if L.get('no_coeffs'):
      return dk.GDevice(L.get('id', 'd'), L['n'], np.array(fl([list(b) for b in L['bounds']])), lg.py_cbounds(L['cbounds'], L.get('cb_kind')))
    return lg.build(L)
  if c['kind'] == 'win':
    cb = None if c['cb'] is None else (float(c['cb'][0]), float(c['cb'][1]))
    return dk.WindowDevice('w', c['n'], np.array(fl([list(b) for b in c['bounds']])), float(c['w']), cbounds=cb, c=float(c['c']))
  return tg.build_tree(c['tree'])


def observe(c):
  d = build(c)
  if c['kind'] == 'tree':
    S = np.array(fl(c['S']))
    p = tg.py_price(c['p'])
    return {'flat': observe_dev(d, S.reshape(-1), p if np.ndim(p) < 2 else p), 'shaped': observe_dev(d, S, p)}
  s, p = np.array(fl(c['s'])), np.array(fl(c['p']))
  n = len(s)
  return {'flat': observe_dev(d, s, p), 'shaped': observe_dev(d, s.reshape(1, n), p.reshape(1, n))}


def iobs_lit(o):
  if o['cons'] is None:
    cons = '[IC U]'
  else:
    cons = '[' + '; '.join(('IC (%s)' % f) if j is None else ('ICJ (%s) (%s)' % (f, j)) for f, j in o['cons']) + ']'
  return '(Build_iobs (%s) (%s) (%s) %s)' % (o['cost'], o['deriv'], o['hess'], cons)


def coq_case(c, o):
  if c['kind'] == 'leaf':
    return 'KLeaf %s %s %s %s %s' % (cq(lg.coq_leafdev(c['leaf'])), cq(c['s']), cq(c['p']), iobs_lit(o['flat']), iobs_lit(o['shaped']))
  if c['kind'] == 'win':
    return 'KWin %d%%nat %d%%nat %s %s' % (c['n'], 0 if c['cb'] is None else 1, iobs_lit(o['flat']), iobs_lit(o['shaped']))
  return 'KTree %s %s %s %s %s' % (cq(tg.coq_tree(c['tree'])), cq(c['S']), cq(tg.coq_price(c['p'])), iobs_lit(o['flat']), iobs_lit(o['shaped']))


def nontrivial(c, o):
  if c['kind'] == 'leaf':
    return c['leaf']['cls'] not in ('Device', 'PVDevice') or bool(c['leaf'].get('cbounds'))
  return True


def classify(c, o):
  if c['kind'] == 'leaf':
    L = c['leaf']
    ks = ['class:' + L['cls'], 'n:%d' % L['n']]
    zw = sum(1 for a, b in L['bounds'] if a == b)
    ks.append('zero-width:' + ('all' if zw == L['n'] else 'some' if zw else 'none'))
    if any(x in (a, b) for x, (a, b) in zip(c['s'], L['bounds'])):
      ks.append('flow-on-a-bound')
    if 'U' in (o['flat']['cost'], o['flat']['deriv'], o['flat']['hess']):
      ks.append('unusable-observable')
    return ks
  if c['kind'] == 'win':
    return ['class:WindowDevice', 'n:%d' % c['n']]
  return ['tree', 'tree-rows:%d' % tg.rows(c['tree']), 'tree-depth:%d' % tg.depth(c['tree'])] + ['tree-kind:' + k for k in sorted(tg.kinds(c['tree']))]


def case_to_json(c):
  if c['kind'] == 'leaf':
    return {'kind': 'leaf', 'leaf': lg.leaf_to_json(c['leaf']), 's': core.jsonable(c['s']), 'p': core.jsonable(c['p'])}
  if c['kind'] == 'win':
    return core.jsonable(c)
  return {'kind': 'tree', 'tree': tg.tree_to_json(c['tree']), 'S': tg.matrix_to_json(c['S']), 'p': tg.price_to_json(c['p'])}


def case_from_json(j):
  if j['kind'] == 'leaf':
    return {'kind': 'leaf', 'leaf': lg.leaf_from_json(j['leaf']), 's': [F(v) for v in j['s']], 'p': [F(v) for v in j['p']]}
  if j['kind'] == 'win':
    c = dict(j)
    c['bounds'] = [(F(a), F(b)) for a, b in j['bounds']]
    c['cb'] = None if j['cb'] is None else (F(j['cb'][0]), F(j['cb'][1]))
    for k in ('w', 'c'):
      c[k] = F(j[k])
    c['s'] = [F(v) for v in j['s']]
    c['p'] = [F(v) for v in j['p']]
    return c
  return {'kind': 'tree', 'tree': tg.tree_from_json(j['tree']), 'S': tg.matrix_from_json(j['S']), 'p': tg.price_from_json(j['p'])}


# ---------------------------------------------------------------------------------------------------
# oracle: the property on the implementation alone
# ---------------------------------------------------------------------------------------------------
def in_open_region(c):
  ids = open_ids()
  if ABC in ids:
    if c['kind'] == 'leaf' and leaf_in_abc_region(c['leaf'], c['s']):
      return True
    if c['kind'] == 'tree' and tree_in_abc_region(c['tree'], c['S']):
      return True
  return False


def oracle(c):
  if in_open_region(c):
    return None
  try:
    d = build(c)
  except Exception as e:
    return None          # not an accepted configuration: nothing to say
  if c['kind'] == 'tree':
    R, n = d.shape
    S = np.array(fl(c['S']))
    p = tg.py_price(c['p'])
    forms = [('flat', S.reshape(-1), p), ('shaped', S, p)]
    nvar = R * n
  else:
    s, p = np.array(fl(c['s'])), np.array(fl(c['p']))
    n = len(s)
    nvar = n
    forms = [('flat', s, p), ('shaped', s.reshape(1, n), p.reshape(1, n))]
  what = case_name(c)
  for name, s, p in forms:
    o = observe_dev(d, s, p)
    if o['cost'] != 'S_':
      return '%s: cost at an in-bounds flow (%s input) is %s, not a finite scalar' % (what, name, describe(o['cost']))
    if o['deriv'] != 'V_ %d' % nvar:
      return '%s: deriv (%s input) is %s, expected %d finite entries' % (what, name, describe(o['deriv']), nvar)
    if o['hess'] != 'M_ %d %d' % (n, n):
      return '%s: hess (%s input) is %s, expected a finite (%d,%d) matrix' % (what, name, describe(o['hess']), n, n)
    if o['cons'] is None:
      return '%s: reading .constraints raises' % what
    for k, (f, j) in enumerate(o['cons']):
      if f != 'S_':
        return '%s: constraint %d value (%s input) is %s, not a finite scalar' % (what, k, name, describe(f))
      if j is not None and j != 'V_ %d' % nvar:
        return '%s: constraint %d Jacobian (%s input) is %s, expected %d finite entries' % (what, k, name, describe(j), nvar)
  return None


def describe(t):
  return {'U': 'an exception or a non-finite value', 'S_': 'a scalar'}.get(t, 'an array of shape tag ' + t)


def case_name(c):
  if c['kind'] == 'leaf':
    L = c['leaf']
    return '%s of length %d at flow %s' % (L['cls'], L['n'], core.jsonable(c['s']))
  if c['kind'] == 'win':
    return 'WindowDevice of length %d at flow %s' % (c['n'], core.jsonable(c['s']))
  return 'tree (%s, %d rows)' % ('/'.join(sorted(tg.kinds(c['tree']))), tg.rows(c['tree']))


def finding_matches(f, c):
  if f.get('id') != ABC:
    return False
  if c['kind'] == 'leaf':
    return leaf_in_abc_region(c['leaf'], c['s'])
  if c['kind'] == 'tree':
    return tree_in_abc_region(c['tree'], c['S'])
  return False


def witness_fails(f):
  """replay the stored witness of an open finding on the implementation"""
  import device_kit as dk
  w = f.get('witness', {})
  try:
    if f.get('id') == ABC:
      d = dk.IDevice('i', w['n'], np.array(w['bounds'], dtype=float), a=w['a'], b=w['b'], c=w['c'])
      s = np.array(w.get('s', [b_[1] for b_ in w['bounds']]), dtype=float)
      return not (finite(d.hess(s)) and finite(d.deriv(s, np.zeros(len(s)))))
    if f.get('id') == 'tworatio-ratios-none':
      t = dk.TwoRatioMFDeviceSet(dk.Device('a', 2, (0, 1)), ['e', 'h'], None)
      return not all(finite(c['fun'](np.zeros(4))) for c in t.constraints)
  except Exception:
    return True
  return True


def search(rng, budget, seeds, findings):
  return core.default_search(__import__('c10'), rng, budget, seeds, findings + PENDING)
