"""In-Coq correspondence for the transcendental preference functions (InformationEntropy, TemporalVariance, CobbDouglas): the model
definitions of coq/Model/Trans.v are evaluated on the generated flows by interval arithmetic (Interval's `interval` tactic, a
kernel-checked enclosure) and compared with the implementation's floating-point values within a stated tolerance.  One proposition
per observable; Proofs/TransEval.v's `trans_check` proves it or prints TRANS-FAIL."""
import os
import re
import subprocess
import time
from fractions import Fraction as F
import numpy as np
import core
from core import fl

PRELUDE = '''From Coq Require Import ZArith Reals List Lra.
From Interval Require Import Tactic.
From DK Require Import Num NumR Vec.
From DK.Model Require Import Leaf Trans.
From DK.Proofs Require Import TransEval.
Import ListNotations.
Local Open Scope R_scope.
'''
KINDS = ['entropy', 'tvar', 'cobb']


def rq(v):
  v = F(v)
  if v.denominator == 1:
    return '(%d)' % v.numerator
  return '((%d) / %d)' % (v.numerator, v.denominator)


def rlist(vs):
  return '[' + '; '.join(rq(v) for v in vs) + ']'


def model_terms(f, s):
  """(cost functional F, gradient list G at s) as Coq text."""
  k = f[0]
  if k == 'entropy':
    return '(entropy %s)' % rq(f[1]), '(entropy_grad %s %s)' % (rq(f[1]), rlist(s))
  if k == 'tvar':
    return '(tvar %s)' % rq(f[1]), '(tvar_grad %s %s)' % (rq(f[1]), rlist(s))
  if k == 'cobb':
    return '(cobb %s %s)' % (rq(f[2]), rlist(f[1])), '(cobb_grad %s %s %s)' % (rq(f[2]), rlist(f[1]), rlist(s))
  raise AssertionError(k)


def hess_term(f, s):
  if f[0] == 'tvar':
    return '(tvar_hess %s %s)' % (rq(f[1]), rlist(s))
  return None


def close_prop(term, v, rel, abs_=None):
  """|term - v| <= rel * (1 + |v|): v is the implementation's float (exact dyadic rational)."""
  v = F(v)
  tol = F(rel) * (1 + abs(v)) if abs_ is None else F(abs_)
  return '(Rabs (%s - %s) <= %s)' % (term, rq(v), rq(tol))


def gen_leaf(rng, i):
  """An ADevice over one of the three functions with a flow where the cost is differentiable; dyadic parameters."""
  from leafgen import dy, pick
  kind = KINDS[i % 3]
  n = pick(rng, [1, 2, 3, 4, 5, 6]) if kind != 'tvar' else pick(rng, [2, 3, 4, 5, 6])
  c = pick(rng, [F(1), F(1), F(2), F(1, 2), F(3, 4), F(-1)])
  sign = pick(rng, [1, 1, -1]) if kind != 'cobb' else 1
  s = [sign * dy(rng, F(1, 4), 4, 3) for _ in range(n)]
  zero_at = None
  if kind == 'entropy' and n >= 2 and rng.random() < 0.2:
    zero_at = rng.randrange(n)        # an exact zero entry is filtered out of the distribution (cost only; no derivative there)
    s[zero_at] = F(0)
  if kind == 'entropy' and n >= 2 and sign == 1 and rng.random() < 0.3:
    j = rng.randrange(n)
    if s[j] != 0:
      s[j] = -s[j]                    # mixed signs: the entropy works on |r|
  if kind == 'entropy':
    f = ('entropy', c)
  elif kind == 'tvar':
    f = ('tvar', c)
  else:
    f = ('cobb', [dy(rng, F(1, 4), 3, 2) for _ in range(n)], c)
  bounds = [(min(v, F(0)) - 1, max(v, F(0)) + 1) for v in s]
  L = {'cls': 'ADevice', 'n': n, 'id': 'a', 'bounds': bounds, 'cbounds': None, 'cb_kind': 'none', 'f': f, 'ucons': []}
  p = [dy(rng, -2, 2, 2) for _ in range(n)] if rng.random() < 0.6 else [F(0)] * n
  return {'leaf': L, 's': s, 'p': p, 'pk': 'vector', 'trans': kind, 'zero_at': zero_at}


def run_checks(pid, props, shard=60, timeout=900, tag='trans'):
  """Prove every proposition in Coq (interval arithmetic). Returns (sorted failing indices, error-or-None, seconds)."""
  os.makedirs(core.CASES, exist_ok=True)
  t0 = time.time()
  shards = [list(range(i, min(i + shard, len(props)))) for i in range(0, len(props), shard)]
  procs = []
  for k, ids in enumerate(shards):
    path = os.path.join(core.CASES, '%s_%s_%d.v' % (pid, tag, k))
    with open(path, 'w') as fh:
      fh.write(PRELUDE)
      fh.write('Goal True.\nidtac "@@BEGIN".\n')
      for i in ids:
        fh.write('trans_check %d%%Z %s.\n' % (i, props[i]))
      fh.write('idtac "@@END".\nexact I.\nQed.\n')
    procs.append((k, path, ids))
  failing, err = [], None
  running, queue = [], list(procs)
  results = {}
  while queue or running:
    while queue and len(running) < 16:
      k, path, ids = queue.pop(0)
      pr = subprocess.Popen(['coqc', '-Q', '.', 'DK', '-w', 'none', os.path.relpath(path, core.COQ)], cwd=core.COQ,
                            stdout=subprocess.PIPE, stderr=subprocess.STDOUT, text=True)
      running.append((k, path, ids, pr))
    k, path, ids, pr = running.pop(0)
    try:
      out, _ = pr.communicate(timeout=max(5, timeout - (time.time() - t0)))
    except subprocess.TimeoutExpired:
      pr.kill()
      out = '[timeout]'
      err = 'coqc timeout on %s' % os.path.basename(path)
    results[k] = (pr.returncode, out)
  for k, path, ids in procs:
    rc, out = results[k]
    if rc != 0 or '@@BEGIN' not in out or '@@END' not in out:
      err = err or ('coqc failed on %s: %s' % (os.path.basename(path), core.first_error(out)))
      continue
    ok = {int(m) for m in re.findall(r'TRANS-OK (\d+)%Z', out)}
    bad = {int(m) for m in re.findall(r'TRANS-FAIL (\d+)%Z', out)}
    if ok | bad != set(ids):
      err = err or ('incomplete output for %s' % os.path.basename(path))
      if os.environ.get('TRANS_KEEP'):
        import shutil
        shutil.copy(path, os.environ['TRANS_KEEP'])
        open(os.path.join(os.environ['TRANS_KEEP'], os.path.basename(path) + '.out'), 'w').write(out)
    failing += sorted(bad | (set(ids) - ok))
    for ext in ('.v', '.vo', '.vok', '.vos', '.glob'):
      try:
        os.remove(path[:-2] + ext)
      except OSError:
        pass
    try:
      os.remove(os.path.join(core.CASES, '.' + os.path.basename(path)[:-2] + '.aux'))
    except OSError:
      pass
  return sorted(set(failing)), err, time.time() - t0
