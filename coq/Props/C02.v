(* C02 - A device tree composes its leaves row-wise (cost, gradient, bounds, constraints).
   Statements only; each is closed by the lemma of Proofs/C02Proofs.v it names.

   The tree model (Model/Tree.v: gcost, gderiv, gbounds, gcons, rows, ...) mirrors deviceset.py /
   subbalanceddeviceset.py / mfdeviceset.py / utils.zmm and is tied to /repo by the correspondence run of ./check C02.
   Tie O: every theorem is for an ARBITRARY record `ops` of leaf behaviours (cost, deriv, bounds, constraints of a
   leaf are unconstrained functions) and an arbitrary leaf type L; trees are arbitrary values of the inductive type
   gdev (any depth, any fan-out, children with different row counts, adaptors as children): proofs are by structural
   induction (gdev_induction), nothing is bounded.

   units_from ops o d : the behavioural units of d (plain leaves and multi-flow adaptors) in row order, each with the
   absolute offset of its first row; nodes_post: every node, children before parents (the order of DeviceSet.constraints). *)
From Coq Require Import ZArith Reals List Bool Arith String.
From DK Require Import Num NumR Vec.
From DK.Model Require Import Leaf Fn Dev Tree.
From DK.Proofs Require Import C02Proofs.
Import ListNotations.
Local Open Scope string_scope.
#[local] Arguments l_rows {A L}. #[local] Arguments l_n {A L}. #[local] Arguments l_bounds {A L}.
#[local] Arguments l_cost {A L}. #[local] Arguments l_deriv {A L}. #[local] Arguments l_cons {A L}.
#[local] Arguments l_conduit {A L}.

(* every row of the flow matrix belongs to exactly one unit: the units tile [0, rows d) in order *)
Theorem C02_units_tile_the_rows : forall {A} `{Num A} {L} (ops : leafops A L) (d : gdev A L) o,
  tiled ops o (units_from ops o d) (o + rows ops d).
Proof. intros A H L ops d. exact (units_tile ops d). Qed.

(* cost = sum over the units of the unit's own cost on its own rows of the flow and of the (expanded) prices *)
Theorem C02_cost_is_sum_of_unit_costs_on_own_rows : forall {L} (ops : leafops R L) (d : gdev R L) (S P : list (list R)),
  List.length S = rows ops d -> List.length P = rows ops d ->
  gcost ops d S P
  = vsum (map (fun ou => gcost ops (snd ou) (rslice (fst ou) (rows ops (snd ou)) S) (rslice (fst ou) (rows ops (snd ou)) P))
              (units_from ops 0 d)).
Proof. intros L ops d S P. exact (cost_compose_root ops d S P). Qed.

(* marginal-cost matrix = the unit marginal costs stacked in row order *)
Theorem C02_deriv_stacks_unit_derivs : forall {A} `{Num A} {L} (ops : leafops A L) (d : gdev A L) (S P : list (list A)),
  List.length S = rows ops d -> List.length P = rows ops d ->
  gderiv ops d S P
  = List.concat (map (fun ou => gderiv ops (snd ou) (rslice (fst ou) (rows ops (snd ou)) S) (rslice (fst ou) (rows ops (snd ou)) P))
                     (units_from ops 0 d)).
Proof. intros A H L ops d S P. exact (deriv_compose_root ops d S P). Qed.

(* the price rows a child sees are the expansion of the same scalar / vector price, or its rows of a matrix price *)
Theorem C02_child_sees_matching_price_rows : forall {A} `{Num A} R n o r (p : price A), o + r <= R ->
  rslice o r (price_rows R n p) = price_rows r n (price_slice o r p).
Proof. intros A H. exact price_rows_slice. Qed.

(* flat bounds = unit bounds in row order = leaf bounds (conduits of adaptors included) in row-major order *)
Theorem C02_bounds_are_unit_bounds_in_row_order : forall {A} `{Num A} {L} (ops : leafops A L) (d : gdev A L),
  gbounds ops d = List.concat (map (fun ou => gbounds ops (snd ou)) (units_from ops 0 d)).
Proof. intros A H L ops d. exact (bounds_compose ops d 0). Qed.

Theorem C02_bounds_are_leaf_bounds_in_row_order : forall {A} `{Num A} {L} (ops : leafops A L) (d : gdev A L),
  (forall n b, l_bounds ops (l_conduit ops n b) = b) ->
  gbounds ops d = List.concat (map (fun pl => l_bounds ops (snd pl)) (leaves ops d)).
Proof. intros A H L ops d Hc. exact (bounds_leaves ops d Hc (dev_id d)). Qed.

(* constraints: the exported list is, in order and one for one, each node's own list (a unit: all its constraints; a
   set: its coupling constraints) evaluated on exactly the rows of that node - same type, same value for every flat
   flow of the right size, Jacobian equal to the node's Jacobian on those rows and 0 on every other row. *)
Theorem C02_constraints_read_exactly_the_owner_rows : forall {A} `{Num A} {L} (ops : leafops A L) (d : gdev A L),
  wf_len ops d ->
  List.Forall2 (con_equiv_on (rows ops d * dlen ops d))
    (gcons ops d)
    (List.concat (map (fun ond => map (on_rows (rows ops d) (dlen ops d) (fst ond) (rows ops (snd ond))) (node_cons ops (snd ond)))
                      (nodes_post ops 0 d))).
Proof. intros A H L ops d. exact (cons_compose_root ops d). Qed.

(* a leaf behaves identically alone and at any position of any tree *)
Theorem C02_leaf_alone_equals_leaf_in_tree : forall {A} `{Num A} {L} (ops : leafops A L) (d : gdev A L) o i l S P s p,
  In (o, Leaf i l) (units_from ops 0 d) -> l_rows ops l = 1 -> nth_error S o = Some s -> nth_error P o = Some p ->
  let u := Leaf i l in
  gcost ops u (rslice o (rows ops u) S) (rslice o (rows ops u) P) = l_cost ops l s p /\
  gderiv ops u (rslice o (rows ops u) S) (rslice o (rows ops u) P) = [l_deriv ops l s p] /\
  gcost ops u [s] [p] = l_cost ops l s p /\ gderiv ops u [s] [p] = [l_deriv ops l s p].
Proof. intros A H L ops. exact (position_independent ops). Qed.

Theorem C02_standalone_leaf_is_the_leaf : forall {A} `{Num A} {L} (ops : leafops A L) i l s p,
  gcost ops (Leaf i l) [s] [p] = l_cost ops l s p /\ gderiv ops (Leaf i l) [s] [p] = [l_deriv ops l s p] /\
  gbounds ops (Leaf i l) = l_bounds ops l /\ gcons ops (Leaf i l) = l_cons ops l.
Proof. intros A H L ops. exact (leaf_standalone ops). Qed.

(* flat and matrix-shaped flows are interchangeable *)
Theorem C02_flat_and_shaped_flows_interchangeable : forall {A} `{Num A} {L} (ops : leafops A L) (d : gdev A L) S P,
  0 < dlen ops d -> well_shaped (rows ops d) (dlen ops d) S ->
  gcost ops d (shaped ops d (List.concat S)) P = gcost ops d S P /\
  gderiv ops d (shaped ops d (List.concat S)) P = gderiv ops d S P /\
  gproject ops d (shaped ops d (List.concat S)) = gproject ops d S.
Proof. intros A H L ops. exact (flat_is_shaped ops). Qed.

Theorem C02_reshape_then_flatten_is_identity : forall {A} `{Num A} {L} (ops : leafops A L) (d : gdev A L) s,
  List.length s = rows ops d * dlen ops d -> List.concat (shaped ops d s) = s.
Proof. intros A H L ops. exact (concat_shaped ops). Qed.

(* non-vacuity: a three-level tree with children of 1, 3 and 1 rows (an adaptor with two conduits inside) *)
Definition C02_example_tree : dev R :=
  DSet "root" [ Leaf "a" (Build_leafdev 2 [(0, 1); (0, 1)]%R [] KDev);
                DSet "in" [ Leaf "b" (Build_leafdev 2 [(0, 2); (0, 2)]%R [] (KC 1 2)%R);
                            MF "m" (Build_leafdev 2 [(0, 3); (0, 3)]%R [] KDev) ["e"; "h"] ] None;
                Leaf "c" (Build_leafdev 2 [(-1, 0); (-1, 0)]%R [] KPV) ]
       (Some [(0, 4); (1, 1)]%R).
Example C02_example_units : map fst (units_from std_ops 0 C02_example_tree) = [0; 1; 2; 4]
  /\ rows std_ops C02_example_tree = 5 /\ wf_len std_ops C02_example_tree.
Proof. exact example_units. Qed.

(* ---- the two instances agree on TREES (Proofs/HomTree.v, induction on the tree): for any units whose cost and marginal cost evaluated on
   exact rationals map through Q2R to the real ones (proved for the atomic devices: C15_instances_agree_leaf_cost / _deriv), the tree cost and
   the tree marginal cost do too - what the correspondence evaluates with vm_compute vs what the theorems above speak about. ---- *)
From Coq Require Import QArith Qreals.
From DK Require Import NumQ NumR.
From DK.Proofs Require Import Hom HomLeaf HomHess HomTree.
Theorem C02_instances_agree_tree_cost : forall (LQ LR : Type) (opsQ : leafops Q LQ) (opsR : leafops R LR) (m : LQ -> LR),
  (forall l, @l_rows R LR opsR (m l) = @l_rows Q LQ opsQ l) -> (forall l, @l_n R LR opsR (m l) = @l_n Q LQ opsQ l) ->
  (forall l s p, Q2R (@l_cost Q LQ opsQ l s p) = @l_cost R LR opsR (m l) (rl s) (rl p)) ->
  forall d S P, Q2R (gcost opsQ d S P) = gcost opsR (mdev LQ LR m d) (rm S) (rm P).
Proof. exact instances_agree_tree_cost. Qed.
Theorem C02_instances_agree_tree_deriv : forall (LQ LR : Type) (opsQ : leafops Q LQ) (opsR : leafops R LR) (m : LQ -> LR),
  (forall l, @l_rows R LR opsR (m l) = @l_rows Q LQ opsQ l) -> (forall l, @l_n R LR opsR (m l) = @l_n Q LQ opsQ l) ->
  (forall l s p, rl (@l_deriv Q LQ opsQ l s p) = @l_deriv R LR opsR (m l) (rl s) (rl p)) ->
  forall d S P, rm (gderiv opsQ d S P) = gderiv opsR (mdev LQ LR m d) (rm S) (rm P).
Proof. exact instances_agree_tree_deriv. Qed.

(* ---- ONE DeviceSet level as regenerated from device_kit/deviceset.py on every run (Gen/DeviceSet.v, translator/deviceset_tx.py:
        shapes / shape / partition incl. the np.roll(cumsum) idiom / costv / cost / deriv / hess / bounds / project over ABSTRACT
        children) is one level of the tree recursion the theorems above are about.  Any carrier, any leaf behaviours, any children
        (kid_of ops n k: the child sub-tree k as the set above it sees it); SubBalancedDeviceSet inherits these methods. ---- *)
From DK.Model Require Import SetOps.
From DK.Gen Require Import DeviceSet.
From DK.Proofs Require Import GenDeviceSet.
Theorem C02_source_partition_is_exclusive_prefix_sums : forall rs : list nat,
  combine (np_set0 (np_roll1 (np_cumsum rs))) rs = pairs_from 0 rs.
Proof. exact roll_cumsum_pairs. Qed.
Theorem C02_source_set_shape_and_partition : forall {A} `{Num A} {L} (ops : leafops A L) i ks sb,
  let d := DSet i ks sb in let n := dlen ops d in
  DeviceSet_shape (map (kid_of ops n) ks) n = (rows ops d, dlen ops d) /\ DeviceSet_partition (map (kid_of ops n) ks) n = partition ops d.
Proof. intros A H L ops i ks sb. split; [apply gen_node_shape | apply gen_node_partition]. Qed.
Theorem C02_source_set_cost : forall {A} `{Num A} {L} (ops : leafops A L) i ks sb s p,
  let d := DSet i ks sb in let n := dlen ops d in
  DeviceSet_cost (map (kid_of ops n) ks) n s p = gcost ops d (shaped ops d s) (prices ops d p).
Proof. intros A H L ops i ks sb s p. apply gen_node_cost. Qed.
Theorem C02_source_set_deriv : forall {A} `{Num A} {L} (ops : leafops A L) i ks sb s p,
  let d := DSet i ks sb in let n := dlen ops d in
  DeviceSet_deriv (map (kid_of ops n) ks) n s p = gderiv ops d (shaped ops d s) (prices ops d p).
Proof. intros A H L ops i ks sb s p. apply gen_node_deriv. Qed.
Theorem C02_source_set_hess : forall {A} `{Num A} {L} (ops : leafops A L) i ks sb s p,
  let d := DSet i ks sb in let n := dlen ops d in
  DeviceSet_hess (map (kid_of ops n) ks) n s p = ghess ops d (shaped ops d s).
Proof. intros A H L ops i ks sb s p. apply gen_node_hess. Qed.
Theorem C02_source_set_bounds_and_project : forall {A} `{Num A} {L} (ops : leafops A L) i ks sb s,
  let d := DSet i ks sb in let n := dlen ops d in
  DeviceSet_bounds (map (kid_of ops n) ks) n = gbounds ops d /\ DeviceSet_project (map (kid_of ops n) ks) n s = gproject ops d (shaped ops d s).
Proof. intros A H L ops i ks sb s. split; [apply gen_node_bounds | apply gen_node_project]. Qed.
Theorem C02_source_subbalanced_set : forall {A} `{Num A} {L} (ops : leafops A L) i ks sb lb e sg rm s p,
  let d := SubBal i ks sb lb e sg rm in let n := dlen ops (DSet i ks sb) in
  DeviceSet_cost (map (kid_of ops n) ks) n s p = gcost ops d (shaped ops d s) (prices ops d p) /\
  DeviceSet_deriv (map (kid_of ops n) ks) n s p = gderiv ops d (shaped ops d s) (prices ops d p) /\
  DeviceSet_bounds (map (kid_of ops n) ks) n = gbounds ops d.
Proof. intros A H L ops i ks sb lb e sg rm s p. apply gen_subbalanced_node. Qed.
