(* C09 - Storage and thermal state follow the documented first-order recurrences.
   Statements only; each is closed by the lemma of Proofs/C09Proofs.v it names. The model functions
   (sust_row, sust_matrix, soc, base_soc, sdev_charge, tdev_tbase, tdev_r2t of Model/Leaf.v; s_soc, sdev_cons of
   Model/Dev.v) mirror utils.soc/base_soc/sustainment_matrix, SDevice.charge_at, the soc closure of
   SDevice.constraints, TDevice._make_t_base and TDevice.r2t and are tied to /repo by the correspondence run
   of ./check C09. The specification side (stored, state_rec, thermal_in) is Model/StateSpec.v.
   Every statement holds for every horizon length (no bound on the length of r). *)
From Coq Require Import ZArith Reals List Arith.
From DK Require Import Num NumR Vec.
From DK.Model Require Import Leaf Fn Dev StateSpec.
From DK.Proofs Require Import C09Proofs.
Import ListNotations.
Local Open Scope R_scope.

(* the sustainment matrix is lower triangular with s^(i-j) at (i, j) *)
Theorem C09_sustainment_row : forall (s : R) n i j, (j < n)%nat ->
  nth j (sust_row s n i) 0 = if (j <=? i)%nat then s ^ (i - j) else 0.
Proof. exact sust_row_nth. Qed.

Theorem C09_sustainment_matrix : forall (s : R) n i j, (i < n)%nat -> (j < n)%nat ->
  nth j (nth i (sust_matrix s n) []) 0 = if (j <=? i)%nat then s ^ (i - j) else 0.
Proof. exact sust_matrix_nth. Qed.

Theorem C09_sustainment_matrix_shape : forall (s : R) n,
  length (sust_matrix s n) = n /\ forall row, In row (sust_matrix s n) -> length row = n.
Proof. exact sust_matrix_shape. Qed.

(* what a slot adds: r*e when charging, r/e when discharging, nothing when idle *)
Theorem C09_stored_cases : forall e r,
  (0 < r -> stored e r = r * e) /\ (r < 0 -> stored e r = r / e) /\ (r = 0 -> stored e r = 0).
Proof. exact stored_cases. Qed.

(* storage: state after slot 0 and after slot i+1 *)
Theorem C09_storage_state_start : forall (q : sparams R) r, r <> [] ->
  nth 0 (sdev_charge q r) 0 = sp_sus q * (sp_start q * sp_capacity q) + stored (sp_eff q) (nth 0 r 0).
Proof. exact storage_start. Qed.

Theorem C09_storage_state_step : forall (q : sparams R) r i, (S i < length r)%nat ->
  nth (S i) (sdev_charge q r) 0 = sp_sus q * nth i (sdev_charge q r) 0 + stored (sp_eff q) (nth (S i) r 0).
Proof. exact storage_step. Qed.

(* the same, as one equation between lists *)
Theorem C09_storage_state_is_recurrence : forall (q : sparams R) r,
  sdev_charge q r = state_rec (sp_sus q) (sp_start q * sp_capacity q) (map (stored (sp_eff q)) r).
Proof. exact storage_is_recurrence. Qed.

Theorem C09_storage_state_length : forall (q : sparams R) r, length (sdev_charge q r) = length r.
Proof. exact storage_length. Qed.

(* the state bounded by the storage constraints is that state *)
Theorem C09_constraint_state_is_reported_state : forall (q : sparams R) r i, (i < length r)%nat ->
  s_soc q (length r) r i = nth i (sdev_charge q r) 0.
Proof. exact constraint_state. Qed.

Theorem C09_exported_constraints_bound_that_state : forall (q : sparams R) bnd r i, (i < length r)%nat ->
  let cs := sdev_cons q (length r) bnd in
  let dflt := Build_con false (fun _ => 0) None in
  c_fun (nth (2 * i) cs dflt) r = nth i (sdev_charge q r) 0 /\
  c_fun (nth (2 * i + 1) cs dflt) r = sp_capacity q - nth i (sdev_charge q r) 0 /\
  c_fun (last cs dflt) r = nth (length r - 1) (sdev_charge q r) 0 - sp_capacity q * sp_reserve q.
Proof. exact sdev_cons_soc. Qed.

(* thermal: temperature after slot 0 and after slot i+1, for any real external temperatures *)
Theorem C09_thermal_start : forall (q : tparams R) r, length (tp_ext q) = length r -> r <> [] ->
  nth 0 (tdev_r2t q r) 0
  = tp_sus q * tp_init q + (1 - tp_sus q) * nth 0 (tp_ext q) 0 + stored (tp_eff q) (nth 0 r 0).
Proof. exact thermal_start. Qed.

Theorem C09_thermal_step : forall (q : tparams R) r i, length (tp_ext q) = length r -> (S i < length r)%nat ->
  nth (S i) (tdev_r2t q r) 0
  = tp_sus q * nth i (tdev_r2t q r) 0 + (1 - tp_sus q) * nth (S i) (tp_ext q) 0 + stored (tp_eff q) (nth (S i) r 0).
Proof. exact thermal_step. Qed.

(* for a consumption (r >= 0) the slot term is efficiency * r, whatever the sign of the efficiency *)
Theorem C09_thermal_consumption_term : forall e r, 0 <= r -> stored e r = e * r.
Proof. exact stored_consumption. Qed.

Theorem C09_thermal_is_recurrence : forall (q : tparams R) r, length (tp_ext q) = length r ->
  tdev_r2t q r = state_rec (tp_sus q) (tp_init q) (thermal_in (tp_sus q) (tp_eff q) (tp_ext q) r).
Proof. exact thermal_is_recurrence. Qed.

(* the base temperature is the recurrence without consumption *)
Theorem C09_thermal_base_is_recurrence : forall (q : tparams R) n, length (tp_ext q) = n ->
  tdev_tbase q n = state_rec (tp_sus q) (tp_init q) (map (fun t => (1 - tp_sus q) * t) (tp_ext q)).
Proof. exact tbase_is_recurrence. Qed.

(* non-vacuity: sustainment 1/2, efficiency 1/2, start level 4; charge 1, discharge 1, idle *)
Example C09_example_storage : state_rec (1/2) 4 (map (stored (1/2)) [1; -1; 0]) = [5/2; -3/4; -3/8].
Proof. exact example_storage. Qed.

(* ---- rolling horizon (Proofs/C09Rolling.v): splitting the horizon at ANY slot, the state over the whole horizon is the state over the
        first part followed by the state over the second part started from the state the first part ends in.  This is what a
        rolling-horizon user relies on when re-basing `start` (storage) or `t_init` (thermal) on the last reported state. ---- *)
From DK.Proofs Require Import C09Rolling.
Theorem C09_recurrence_splits_at_any_slot : forall s (u v : list R) prev,
  state_rec s prev (u ++ v) = state_rec s prev u ++ state_rec s (last (state_rec s prev u) prev) v.
Proof. exact state_rec_app. Qed.

Theorem C09_storage_rolling_horizon : forall (q q' : sparams R) (r1 r2 : list R),
  sp_sus q' = sp_sus q -> sp_eff q' = sp_eff q ->
  sp_start q' * sp_capacity q' = last (sdev_charge q r1) (sp_start q * sp_capacity q) ->
  sdev_charge q (r1 ++ r2) = sdev_charge q r1 ++ sdev_charge q' r2.
Proof. exact storage_rolling. Qed.

Theorem C09_thermal_rolling_horizon : forall (q q1 q2 : tparams R) (r1 r2 : list R),
  tp_ext q = tp_ext q1 ++ tp_ext q2 -> length (tp_ext q1) = length r1 -> length (tp_ext q2) = length r2 ->
  tp_sus q1 = tp_sus q -> tp_eff q1 = tp_eff q -> tp_init q1 = tp_init q ->
  tp_sus q2 = tp_sus q -> tp_eff q2 = tp_eff q -> tp_init q2 = last (tdev_r2t q1 r1) (tp_init q) ->
  tdev_r2t q (r1 ++ r2) = tdev_r2t q1 r1 ++ tdev_r2t q2 r2.
Proof. exact thermal_rolling. Qed.

Example C09_example_rolling :
  state_rec (1/2) 4 (map (stored (1/2)) ([1] ++ [-1; 0]))
  = state_rec (1/2) 4 (map (stored (1/2)) [1]) ++ state_rec (1/2) (5/2) (map (stored (1/2)) [-1; 0]).
Proof. exact example_rolling. Qed.

(* ---- TDevice._make_t_base and TDevice.r2t regenerated from tdevice.py on every run (Gen/Thermal.v, translator/tdevice_tx.py; every
        attribute they read is checked against __init__ and the properties) ARE the model temperatures of the theorems above ---- *)
From DK.Gen Require Import Thermal.
From DK.Proofs Require Import GenThermal.
Theorem C09_source_thermal_base : forall n su ef ti to tr te c,
  TDevice__make_t_base (A:=R) n su ef ti to tr te c te su ti = tdev_tbase (tq su ef ti to tr te c) n.
Proof. exact gen_tdevice_tbase. Qed.
Theorem C09_source_thermal_temperature : forall n su ef ti to tr te c (r : list R), length r = n ->
  TDevice_r2t (A:=R) n su ef ti to tr te c r = tdev_r2t (tq su ef ti to tr te c) r.
Proof. exact gen_tdevice_r2t. Qed.

(* ---- utils.base_soc / soc / sustainment_matrix / power_matrix regenerated from device_kit/utils.py on every run (Gen/Utils.v, a typed
        table of the NumPy array operations they are written in) ARE the closed forms the recurrences above are proved about: the
        triu / cumsum / transpose idiom is the matrix of exponents i - j, np.tril(s ** that) the sustainment matrix (np.tril(ones) for s = 1),
        and the diagonal of the row-wise cumsum of (r * e**sign(r)) * matrix the state of charge.  Over the reals. ---- *)
From DK.Model Require Import SetOps NpOps.
From DK.Gen Require Import Utils.
From DK.Proofs Require Import GenUtils.
Theorem C09_source_power_matrix : forall l, power_matrix_gen l = map (fun i => map (fun j => (i - j)%nat) (seq 0 l)) (seq 0 l).
Proof. exact gen_power_matrix. Qed.
Theorem C09_source_sustainment_matrix : forall (s : R) l, sustainment_matrix_gen s l = sust_matrix s l.
Proof. exact gen_sustainment_matrix. Qed.
Theorem C09_source_base_soc : forall (b s : R) l, base_soc_gen b s l = base_soc b s l.
Proof. exact gen_base_soc. Qed.
Theorem C09_source_soc : forall (r : list R) s e, soc_gen r s e = soc r s e.
Proof. exact gen_soc. Qed.
