(* C12 - Devices are stateless: reads and solves never change behaviour or caller data.
   Statements only; each is closed by the lemma of Proofs/C12Proofs.v it names.
   Model: Model/State.v - the cells a read-only call can reach (caller constraint dict objects and the lists holding them,
   Poly2D/Poly2DOffset lazy caches, the lru_cache tables of utils.sustainment_matrix / power_matrix, caller-supplied arrays) and
   `step`, what each API call (cost, deriv, hess, bounds, read constraints, call a constraint function / Jacobian, project, map,
   to_dict, solve; addressed at the root, an inner node, a leaf, an adaptor or its wrapped device; plus cache eviction) writes.
   The theorems hold for every carrier (they are instantiated at Q by the correspondence) and use no axiom.
   Tie: ./check C12 replays random histories on /repo and in Coq and compares the written cells call by call, re-scans the
   package for write sites that are not in the inventory the model was derived from, and compares with fresh twins. *)
From Coq Require Import ZArith QArith List Bool.
From DK Require Import Num NumQ Vec.
From DK.Model Require Import Leaf State.
From DK.Proofs Require Import C12Proofs.
Import ListNotations.

(* every finite history, any order, any repetition, any addressing: what later calls can observe is unchanged *)
Theorem C12_history_fingerprint : forall (A : Type) (NA : Num A) (sc : scenario A) (init : st A) (ops : list op),
  wf sc init -> fingerprint sc (run sc ops init) = fingerprint sc init.
Proof. intros A NA. exact history_fingerprint. Qed.

(* ... and the caller's dict objects, lists and arrays are never written *)
Theorem C12_history_caller_data : forall (A : Type) (NA : Num A) (sc : scenario A) (init : st A) (ops : list op),
  wf sc init -> caller_data (run sc ops init) = caller_data init.
Proof. intros A NA. exact history_caller_data. Qed.

(* the invariant: configuration cells equal the initial ones, caches are empty or hold what a fresh object computes *)
Theorem C12_invariant_initial : forall (A : Type) (NA : Num A) (sc : scenario A) (init : st A), wf sc init -> Inv sc init init.
Proof. intros A NA. exact Inv_refl. Qed.
Theorem C12_invariant_step : forall (A : Type) (NA : Num A) (sc : scenario A) (s0 s : st A) (o : op),
  Inv sc s0 s -> Inv sc s0 (fst (step sc s o)).
Proof. intros A NA. exact step_Inv. Qed.
Theorem C12_invariant_history : forall (A : Type) (NA : Num A) (sc : scenario A) (s0 : st A) (ops : list op) (s : st A),
  Inv sc s0 s -> Inv sc s0 (run sc ops s).
Proof. intros A NA. exact run_Inv. Qed.

(* under the invariant every observation is a function of the configuration alone (cache filling is invisible) *)
Theorem C12_observations_from_configuration : forall (A : Type) (NA : Num A) (sc : scenario A) (s : st A),
  wf sc s -> fingerprint sc s = cfg_fingerprint sc (cfg s).
Proof. intros A NA. exact fingerprint_cfg. Qed.

(* the shared lru tables answer every key - also keys of devices outside the scenario - as a fresh computation would *)
Theorem C12_lru_any_key : forall (A : Type) (NA : Num A) (sc : scenario A) (init : st A) (ops : list op) (k l : nat),
  wf sc init -> lookup_sus sc (run sc ops init) k = sus_value sc k /\ lookup_pow (run sc ops init) l = pow_matrix l.
Proof. intros A NA. exact history_lru_any_key. Qed.

(* freshly constructed objects (empty caches) satisfy the hypothesis *)
Theorem C12_fresh_is_wellformed : forall (A : Type) (NA : Num A) (sc : scenario A) d a c ps ar,
  List.Forall (fun o : polyobj A => po_d o = None /\ po_h o = None) ps ->
  wf sc {| s_dicts := d; s_adcons := a; s_caller := c; s_polys := ps; s_sus := []; s_pow := []; s_arrays := ar |}.
Proof. intros A NA. exact fresh_wf. Qed.

(* the per-call trace the correspondence replays ends in the same state as `run` *)
Theorem C12_trace_is_run : forall (A : Type) (NA : Num A) (sc : scenario A) (ops : list op) (s : st A),
  fst (trace sc ops s) = run sc ops s.
Proof. intros A NA. exact trace_run. Qed.

(* non-vacuity: an adaptor around an ADevice (Poly2D preference, one user constraint) next to a storage device; the history
   interleaves the adaptor, the wrapped device and the storage device, fills 7 cache cells on the way, and changes nothing *)
Example C12_example : wf ex_sc ex_init /\
  map (@length event) (snd (trace ex_sc ex_ops ex_init)) = [0; 0; 1; 2; 1; 1; 2; 0]%nat /\
  fingerprint ex_sc (run ex_sc ex_ops ex_init) = fingerprint ex_sc ex_init /\
  caller_data (run ex_sc ex_ops ex_init) = caller_data ex_init.
Proof. split; [exact ex_wf|]. split; [exact ex_writes|]. exact ex_stateless. Qed.

(* the statement is falsifiable in this model: the behaviour of /repo before fix dc6ad74 (reading MFDeviceSet.constraints re-wraps
   the wrapped ADevice's constraint dicts in place) breaks it after a single read *)
Example C12_prefix_behaviour_refuted :
  exists ops, fingerprint ex_sc (run_old ex_sc ops ex_init) <> fingerprint ex_sc ex_init
              /\ caller_data (run_old ex_sc ops ex_init) <> caller_data ex_init.
Proof. exact old_readcons_breaks. Qed.
