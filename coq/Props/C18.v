(* C18 - Projection returns the nearest point of the region (or raises), idempotently.
   Statements only; each is closed by the lemma of Proofs/C18Proofs.v it names. The model functions (Model/Projection.v)
   are tied to /repo (projection/projection.py, device.py, deviceset.py, mfdeviceset.py) by the correspondence run of
   ./check C18.  Everything is over R and for lists of every length.
   PARTIAL: nearestness of the point returned by an early-stopped Dykstra loop and all of utils.project (SLSQP) are
   not theorems (see C18_dykstra_post for what is proved); they are explored by the check against an independent QP. *)
From Coq Require Import ZArith Reals List Bool QArith.
From DK Require Import Num NumR NumQ Vec.
From DK.Model Require Import Leaf Fn Dev Tree Projection ProjectionTree.
From DK.Model Require Import PyOps.
From DK.Gen Require Import Projection.
From DK.Proofs Require Import RVec VecAlg C18Proofs C18Cols C18Bridge GenProjection.
Import ListNotations.
Local Open Scope R_scope.

(* ---- HyperCube: zero-width sides allowed (box_wf is low <= high on every side) ---- *)
Theorem C18_box_member : forall b (x q : list R), box_wf b -> box_project b x = POk q -> in_box b q.
Proof. exact box_member. Qed.
Theorem C18_box_nearest : forall b (x q y : list R), box_project b x = POk q -> in_box b y -> dist2 x q <= dist2 x y.
Proof. exact box_nearest. Qed.
Theorem C18_box_idempotent : forall b (x : list R), in_box b x -> box_project b x = POk x.
Proof. exact box_idempotent. Qed.
Theorem C18_box_raises_iff_wrong_length : forall b (x : list R), box_project b x = PValueError <-> length x <> length b.
Proof. exact box_project_raises. Qed.
Theorem C18_box_is_in_up_to_tol : forall b (x : list R) tol, box_wf b -> 0 <= tol -> length x = length b ->
  (is_in_of tol (box_project b) x = POk true <-> in_box (widen tol b) x).
Proof. exact box_is_in. Qed.
Theorem C18_in_box_pointwise : forall b (x : list R),
  in_box b x <-> length x = length b /\ forall i, (i < length b)%nat -> lo b i <= nth i x 0 <= hi b i.
Proof. exact in_box_nth. Qed.

(* ---- HalfSpace: the model's square-root-free formula is the normalised formula the code computes ---- *)
Theorem C18_halfspace_form : forall n off sg p, dot n n <> 0 -> half_clamp_normalised n off sg p = half_clamp n off sg p.
Proof. exact halfspace_form. Qed.
Theorem C18_halfspace_member : forall n off sg (x q : list R), dot n n <> 0 -> sg <> 0 ->
  half_project n off sg x = POk q -> in_half n off sg q.
Proof. exact half_member. Qed.
Theorem C18_halfspace_nearest : forall n off sg (x q y : list R), dot n n <> 0 -> half_project n off sg x = POk q ->
  length y = length n -> in_half n off sg y -> dist2 x q <= dist2 x y.
Proof. exact half_nearest. Qed.
Theorem C18_halfspace_idempotent : forall n off sg (x : list R), length x = length n -> in_half n off sg x ->
  half_project n off sg x = POk x.
Proof. exact half_idempotent. Qed.
Theorem C18_halfspace_raises_iff_wrong_length : forall n off sg (x : list R),
  half_project n off sg x = PValueError <-> length x <> length n.
Proof. exact half_project_raises. Qed.
Theorem C18_halfspace_is_in_of_members : forall n off sg (x : list R) tol, 0 <= tol -> length x = length n ->
  in_half n off sg x -> is_in_of tol (half_project n off sg) x = POk true.
Proof. exact half_is_in_complete. Qed.
Theorem C18_halfspace_is_in_within_tol : forall n off sg (x : list R) tol, dot n n <> 0 -> sg <> 0 ->
  is_in_of tol (half_project n off sg) x = POk true -> exists q, in_half n off sg q /\ close_to tol q x.
Proof. exact half_is_in_sound. Qed.
Theorem C18_halfspace_is_in_exact_at_tol_0 : forall n off sg (x : list R), dot n n <> 0 -> sg <> 0 -> length x = length n ->
  (is_in_of 0 (half_project n off sg) x = POk true <-> in_half n off sg x).
Proof. exact half_is_in_exact. Qed.

(* ---- Slice ---- *)
Theorem C18_slab_nearest : forall tol n lw hg (x q y : list R), dot n n <> 0 -> slab_project tol n lw hg x = POk q ->
  length y = length n -> in_slab n lw hg y -> dist2 x q <= dist2 x y.
Proof. exact slab_nearest. Qed.
(* full statement (false for tol > 0, see the refutation):  ... slab_project tol n lw hg x = POk q -> in_slab n lw hg q *)
Theorem C18_slab_member_refuted : exists (tol : Q) (n : list Q) (lw hg : Q) (x q : list Q),
  (0 < tol)%Q /\ (lw <= hg)%Q /\ slab_project tol n lw hg x = POk q /\ (dot n q < lw)%Q.
Proof. exact slab_member_refuted. Qed.
Theorem C18_slab_member_partial : forall tol n lw hg (x q : list R), dot n n <> 0 -> lw <= hg -> 0 <= tol ->
  slab_project tol n lw hg x = POk q ->
  dot n q <= hg /\ (lw <= dot n q \/ (q = x /\ is_in_of tol (half_project n lw 1) x = POk true)).
Proof. exact slab_member_relaxed. Qed.
Theorem C18_slab_result_passes_is_in : forall tol n lw hg (x q : list R), dot n n <> 0 -> lw <= hg -> 0 <= tol ->
  slab_project tol n lw hg x = POk q -> slab_is_in tol n lw hg q = POk true.
Proof. exact slab_result_passes_is_in. Qed.
Theorem C18_slab_member_exact_at_tol_0 : forall n lw hg (x q : list R), dot n n <> 0 -> lw <= hg ->
  slab_project 0 n lw hg x = POk q -> in_slab n lw hg q.
Proof. exact slab_member_exact. Qed.
Theorem C18_slab_idempotent : forall tol n lw hg (x : list R), 0 <= tol -> length x = length n -> in_slab n lw hg x ->
  slab_project tol n lw hg x = POk x.
Proof. exact slab_idempotent. Qed.
Theorem C18_slab_raises_on_wrong_length : forall tol n lw hg (x : list R), length x <> length n ->
  slab_project tol n lw hg x = PValueError.
Proof. exact slab_project_raises. Qed.
Theorem C18_slab_is_in_of_members : forall tol n lw hg (x : list R), 0 <= tol -> length x = length n -> in_slab n lw hg x ->
  slab_is_in tol n lw hg x = POk true.
Proof. exact slab_is_in_complete. Qed.
Theorem C18_slab_is_in_within_tol : forall tol n lw hg (x : list R), dot n n <> 0 -> lw <= hg -> 0 <= tol ->
  slab_is_in tol n lw hg x = POk true -> exists q, in_slab n lw hg q /\ close_to tol q x.
Proof. exact slab_is_in_sound. Qed.

(* ---- the three closed-form classes meet one specification (total on the right length, raises otherwise, member,
        nearest, idempotent) ---- *)
Theorem C18_region_spec : forall tol mi (r : region R), 0 <= tol -> rwf r ->
  proj_spec (rlen r) (rproject tol mi r) (rmem_tol tol r) (rmem r).
Proof. exact region_spec. Qed.

(* ---- List: any list of projections meeting the specification, row by row; then the model's List.project ---- *)
Theorem C18_list_generic : forall (T : Type) (proj : T -> list R -> pres (list R)) (Cin C : T -> list R -> Prop) (n : nat) (rs : list T),
  List.Forall (fun r => proj_spec n (proj r) (Cin r) (C r)) rs ->
  forall m, length m = length rs -> List.Forall (fun row => length row = n) m ->
  exists m', pmap2 proj rs m = POk m' /\
    length m' = length rs /\ List.Forall (fun row => length row = n) m' /\
    List.Forall2 (fun r row => Cin r row) rs m' /\
    (forall Y, List.Forall2 (fun r row => C r row /\ length row = n) rs Y -> mdist2 m m' <= mdist2 m Y) /\
    (List.Forall2 (fun r row => C r row) rs m -> m' = m).
Proof. exact rows_project_spec. Qed.
Theorem C18_list_rows : forall tol mi (rs : list (region R)) n m, 0 <= tol -> rs <> [] ->
  List.Forall (fun r => rwf r /\ rlen r = n) rs -> mshape (length rs) n m ->
  exists m', list_project (rproject tol mi) rs false m = POk m' /\ mshape (length rs) n m' /\
    List.Forall2 (fun r row => rmem_tol tol r row) rs m' /\
    (forall Y, List.Forall2 (fun r row => rmem r row /\ length row = n) rs Y -> mdist2 m m' <= mdist2 m Y) /\
    (List.Forall2 (fun r row => rmem r row) rs m -> m' = m).
Proof. exact list_project_rows. Qed.
Theorem C18_list_raises_on_wrong_shape : forall (tol : R) mi (rs : list (region R)) (ax : bool) (m : list (list R)),
  (if ax then mshape_ok (match rs with r0 :: _ => rlen r0 | [] => 0%nat end) (length rs) m
   else mshape_ok (length rs) (match rs with r0 :: _ => rlen r0 | [] => 0%nat end) m) = false ->
  list_project (rproject tol mi) rs ax m = PValueError.
Proof. exact list_project_wrong_shape. Qed.
Theorem C18_list_columns_are_rows_of_the_transpose : forall (tol : R) mi (rs : list (region R)) (m : list (list R)),
  mshape_ok (match rs with r0 :: _ => rlen r0 | [] => 0%nat end) (length rs) m = true ->
  list_project (rproject tol mi) rs true m =
  pbind (list_project (rproject tol mi) rs false (transpose (length rs) m))
        (fun t => POk (transpose (match rs with r0 :: _ => rlen r0 | [] => 0%nat end) t)) \/
  list_project (rproject tol mi) rs false (transpose (length rs) m) = PValueError.
Proof. exact list_project_cols. Qed.

Theorem C18_list_columns : forall tol mi (rs : list (region R)) n m, 0 <= tol -> rs <> [] ->
  List.Forall (fun r => rwf r /\ rlen r = n) rs -> mshape n (length rs) m ->
  exists m', list_project (rproject tol mi) rs true m = POk m' /\ mshape n (length rs) m' /\
    List.Forall2 (fun r col => rmem_tol tol r col) rs (transpose (length rs) m') /\
    (forall Y, mshape n (length rs) Y -> List.Forall2 (fun r col => rmem r col) rs (transpose (length rs) Y) ->
               mdist2 m m' <= mdist2 m Y) /\
    (List.Forall2 (fun r col => rmem r col) rs (transpose (length rs) m) -> m' = m).
Proof. exact list_project_columns. Qed.
Theorem C18_transpose_involutive : forall a b (m : list (list R)), mshape a b m -> transpose a (transpose b m) = m.
Proof. exact transpose_involutive. Qed.
Theorem C18_distance_rowwise_is_columnwise : forall a b (m m' : list (list R)), mshape a b m -> mshape a b m' ->
  mdist2 (transpose b m) (transpose b m') = mdist2 m m'.
Proof. exact mdist2_transpose. Qed.

(* ---- Intersection: the two short cuts ---- *)
Theorem C18_intersection_first_shortcut : forall pa pb ia ib maxiter (x ra : list R),
  pa x = POk ra -> ib ra = POk true -> inter_project pa pb ia ib maxiter x = POk ra.
Proof. exact inter_first_shortcut. Qed.
Theorem C18_intersection_second_shortcut : forall pa pb ia ib maxiter (x ra rb : list R),
  pa x = POk ra -> ib ra = POk false -> pb x = POk rb -> ia rb = POk true -> inter_project pa pb ia ib maxiter x = POk rb.
Proof. exact inter_second_shortcut. Qed.
Theorem C18_intersection_otherwise_dykstra : forall pa pb ia ib maxiter (x ra rb : list R),
  pa x = POk ra -> ib ra = POk false -> pb x = POk rb -> ia rb = POk false ->
  inter_project pa pb ia ib maxiter x = dykstra pa pb ia ib maxiter x.
Proof. exact inter_falls_through. Qed.
Theorem C18_intersection_exact : forall (Ca Cb : list R -> Prop) (x q : list R),
  Ca q -> Cb q -> (forall y, Ca y -> dist2 x q <= dist2 x y) ->
  (Ca q /\ Cb q) /\ forall y, Ca y /\ Cb y -> dist2 x q <= dist2 x y.
Proof. exact nearest_in_intersection. Qed.
Theorem C18_intersection_shortcut_a_nearest : forall n pa pb ia ib maxiter (Cina Ca Cb : list R -> Prop) (x q : list R),
  proj_spec n pa Cina Ca -> pa x = POk q -> ib q = POk true ->
  inter_project pa pb ia ib maxiter x = POk q /\ Cina q /\
  (forall y, length y = n -> Ca y /\ Cb y -> dist2 x q <= dist2 x y).
Proof. exact inter_shortcut_a. Qed.
Theorem C18_intersection_shortcut_b_nearest : forall n pa pb ia ib maxiter (Cinb Ca Cb : list R -> Prop) (x ra q : list R),
  proj_spec n pb Cinb Cb -> pa x = POk ra -> ib ra = POk false -> pb x = POk q -> ia q = POk true ->
  inter_project pa pb ia ib maxiter x = POk q /\ Cinb q /\
  (forall y, length y = n -> Ca y /\ Cb y -> dist2 x q <= dist2 x y).
Proof. exact inter_shortcut_b. Qed.

(* ---- Dykstra: post-condition of the loop for all behaviours of the four region methods (PARTIAL: no nearestness) ---- *)
Theorem C18_dykstra_post : forall pa pb ia ib maxiter (point xr yr : list R), (1 <= maxiter)%nat ->
  dykstra_xy pa pb ia ib maxiter point = POk (xr, yr) ->
  ia yr = POk true /\ ib yr = POk true /\ (exists u, pa u = POk yr) /\ (exists v, pb v = POk xr).
Proof. exact dykstra_post. Qed.
Theorem C18_dykstra_returns_x_not_y : forall pa pb ia ib maxiter (point xr : list R),
  dykstra pa pb ia ib maxiter point = POk xr <-> exists yr, dykstra_xy pa pb ia ib maxiter point = POk (xr, yr).
Proof. exact dykstra_returns_x. Qed.
Theorem C18_dykstra_model_fuel_suffices : forall pa pb ia ib maxiter,
  (forall u : list R, pa u <> POutOfFuel) -> (forall u, pb u <> POutOfFuel) ->
  (forall u, ia u <> POutOfFuel) -> (forall u, ib u <> POutOfFuel) ->
  forall point, dykstra pa pb ia ib maxiter point <> POutOfFuel.
Proof. exact dykstra_fuel_enough. Qed.

(* ---- the region methods regenerated from projection/projection.py on every run (Gen/Projection.v, translator/stmt_tx.py:
        if / elif / raise / return, the `while` loop of dykstra_project on explicit fuel, the `for` loop of List.project as a fold)
        ARE the model the theorems above speak about.  Any carrier unless R is written. ---- *)
Theorem C18_source_is_in : forall (A : Type) (NA : Num A) tol (proj : list A -> pres (list A)) p,
  ConvexRegion_is_in tol proj p = is_in_of tol proj p.
Proof. intros A NA. exact (@gen_is_in A NA). Qed.
Theorem C18_source_box_project : forall (A : Type) (NA : Num A) (cube : list (A * A)) p, HyperCube_project cube p = box_project cube p.
Proof. intros A NA. exact (@gen_box_project A NA). Qed.
(* HalfSpace stores normal/|normal| and offset/|normal| (np.linalg.norm = sqrt <n,n>): constructor + project = the square-root-free model *)
Theorem C18_source_halfspace : forall n off sg nn oo sg' (p : list R), dot n n <> 0 ->
  HalfSpace_init norm2 n off sg = POk (nn, oo, sg') -> HalfSpace_project nn oo sg' p = half_project n off sg p.
Proof. exact gen_halfspace_is_model. Qed.
Theorem C18_source_slice : forall tol n lw hg lo hi (p : list R), dot n n <> 0 -> Slice_init norm2 n lw hg = POk (lo, hi) ->
  Slice_project tol (fst (fst lo)) (snd (fst lo)) (snd lo) (fst (fst hi)) (snd (fst hi)) (snd hi) p = slab_project tol n lw hg p
  /\ Slice_is_in tol (fst (fst lo)) (snd (fst lo)) (snd lo) (fst (fst hi)) (snd (fst hi)) (snd hi) p = slab_is_in tol n lw hg p.
Proof. exact gen_slice_is_model. Qed.
Theorem C18_source_constructor_guards : forall n off sg lw hg,
  (HalfSpace_init norm2 n off sg = PValueError <-> sg = 0) /\ (Slice_init norm2 n lw hg = PValueError <-> hg < lw).
Proof. exact gen_ctor_guards. Qed.
Theorem C18_source_intersection_is_in : forall (A : Type) (pa pb : list A -> pres (list A)) ia ib maxiter fuel p,
  Intersection_is_in pa pb ia ib maxiter fuel p = inter_is_in ia ib p.
Proof. intros A. exact (@gen_inter_is_in A). Qed.
(* the Dykstra loop: `y = p = q = c = 0`, test-first `while`, the counter, the final maxiter test - with fuel maxiter + 2 the
   generated loop is the model's loop, for every behaviour of the two regions (a's projection keeps the length of its argument) *)
Theorem C18_source_dykstra_loop : forall (A : Type) (NA : Num A) (pa pb : list A -> pres (list A)) ia ib maxiter,
  (forall x : A, nadd x n0 = x) -> (forall v q, pa v = POk q -> length q = length v) -> forall point,
  Intersection_dykstra_project pa pb ia ib maxiter (S (S maxiter)) point = dykstra pa pb ia ib maxiter point.
Proof. intros A NA. exact (@gen_dykstra A NA). Qed.
Theorem C18_source_intersection_project : forall (A : Type) (NA : Num A) (pa pb : list A -> pres (list A)) ia ib maxiter,
  (forall x : A, nadd x n0 = x) -> (forall v q, pa v = POk q -> length q = length v) -> forall p,
  Intersection_project pa pb ia ib maxiter (S (S maxiter)) p = inter_project pa pb ia ib maxiter p.
Proof. intros A NA. exact (@gen_inter_project A NA). Qed.
Theorem C18_source_intersection_of_regions : forall tol mi (a b : region R) (p : list R), 0 <= tol -> rwf a ->
  Intersection_project (rproject tol mi a) (rproject tol mi b) (ris_in tol mi a) (ris_in tol mi b) mi (S (S mi)) p
  = rproject tol mi (RInter a b) p.
Proof. exact gen_intersection_of_regions. Qed.
(* List.project: the in-place row / column loop is the row-wise (column-wise: transpose, project, transpose back) model *)
Theorem C18_source_list_project : forall (A : Type) (NA : Num A) (proj : region A -> list A -> pres (list A)) rs (axis1 : bool) m,
  (axis1 = true -> forall r, In r rs -> forall v q, proj r v = POk q -> length q = length v) ->
  List_project (map proj rs) (if axis1 then 1 else 0)%nat (list_shape rs axis1) m = list_project proj rs axis1 m.
Proof. intros A NA. exact (@gen_list_is_model A NA). Qed.
Theorem C18_source_constants : ConvexRegion_tol (A:=R) = 7737125245533627 / 77371252455336267181195264 /\ Intersection_maxiter = 1000%nat.
Proof. exact gen_constants. Qed.

(* Device.project regenerated from device.py (Gen/Projection.v): `self._feasible_region.project(s.reshape(len(self))).reshape(self.shape)` with
   the box region REBUILT from the stored bounds by __init__ and by the bounds setter (checked by the translator) IS the leaf
   projection of the tree model (tproject at a PLeaf), any carrier *)
From DK.Proofs Require Import GenDeviceProject.
Theorem C18_source_device_project : forall (A : Type) (NA : Num A) (bounds : list (A * A)) (s : list (list A)),
  Device_project bounds s = leaf_project bounds s.
Proof. intros A NA. exact (@gen_device_project A NA). Qed.


(* ---- Device / DeviceSet / MFDeviceSet.project, for trees of any depth and fan-out ---- *)
Theorem C18_tree_structure : forall n t m, twf n t -> mshape (prows t) n m ->
  exists m', tproject n t m = POk m' /\ mshape (prows t) n m' /\ trel (leaf_does n) (mf_does n) t m m'.
Proof. exact tproject_structure. Qed.
Theorem C18_tree_in_bounds_unchanged_totals : forall n t m m', twf n t -> mshape (prows t) n m -> tproject n t m = POk m' ->
  mshape (prows t) n m' /\ trel leaf_in_bounds (mf_totals n) t m m' /\ trel leaf_unchanged (mf_totals n) t m m'.
Proof. exact tproject_in_bounds. Qed.
Theorem C18_tree_without_adaptors_unchanged : forall n t m, twf n t -> mshape (prows t) n m -> tinb t m -> tproject n t m = POk m.
Proof. exact tproject_unchanged. Qed.
Theorem C18_tree_flat_input : forall n t (s : list R), (0 < n)%nat -> twf n t -> length s = (prows t * n)%nat ->
  exists m', tproject_flat n t s = POk m' /\ mshape (prows t) n m' /\
             trel leaf_in_bounds (mf_totals n) t (reshape (prows t) n s) m'.
Proof. exact tproject_flat_total. Qed.
Theorem C18_tree_wrong_size_raises : forall n t (s : list R), length s <> (prows t * n)%nat -> tproject_flat n t s = PValueError.
Proof. exact tproject_bad_size. Qed.
Theorem C18_mf_shares_within_conduit_bounds : forall b k t, one_signed b -> (1 <= k)%nat -> in_box b t ->
  in_box (conduit_bounds_R b) (map (fun v => v / nofnat k) t).
Proof. exact share_in_conduit. Qed.

(* the projection model's reading of a tree of Model/Tree.v computes tree_project (any carrier; structural, axiom-free) *)
Theorem C18_tree_view_agrees_with_tree_model : forall (A : Type) (NA : Num A) n (d : dev A), twfd n d ->
  forall S, gshape (tree_rows d) n S -> tproject n (ptree_of d) S = POk (tree_project d S).
Proof. intros A NA. exact (@tree_models_agree A NA). Qed.

(* non-vacuity *)
Example C18_example_halfspace : half_project [3; 4] 25 1 [0; 0] = POk [3; 4].
Proof. exact half_example. Qed.
Example C18_example_box_zero_width : box_project [(0, 1); (2, 2)] [5; -1] = POk [1; 2].
Proof. exact box_example. Qed.

(* ---- utils.project regenerated from utils.py on every run (Gen/Utils.v, translator/utils_tx.py: the options dictionary and its update, the
        two lambdas of the minimize call, the start point, bounds and constraints handed on, the report returned whatever it says).
        What it ASKS of the optimiser: minimise the squared distance to p, with the exact gradient 2 (s - p); so a point that minimises the
        objective over the feasible set is a nearest feasible point.  Whether SLSQP delivers that point is the PARTIAL part (explored by
        the check with an LP / KKT certificate on real calls). ---- *)
From DK.Model Require Import Solve SolveOps.
From DK.Gen Require Import Utils.
From DK.Proofs Require Import GenProject.
Theorem C18_source_utils_project : forall (A : Type) (NA : Num A) (minimize : problem A -> optresult A) (pc : projcall A),
  project_gen minimize pc = uproject_model minimize pc /\ project_problem_gen pc = uproject_problem pc
  /\ project_defaults_gen (A:=A) = uproject_defaults /\ forall user, project_options_gen user = uproject_options user.
Proof. intros A NA. exact (@gen_project A NA). Qed.
Theorem C18_utils_project_asks_for_the_nearest_point : forall (pc : projcall R) (s : list R),
  pb_fun (project_problem_gen pc) s = dist2 s (pc_p pc)
  /\ (length (pc_p pc) = length s -> grad_at (pb_fun (project_problem_gen pc)) (pb_jac (project_problem_gen pc) s) s)
  /\ pb_bounds (project_problem_gen pc) = pc_bounds pc /\ pb_cons (project_problem_gen pc) = pc_cons pc /\ pb_x0 (project_problem_gen pc) = pc_x0 pc.
Proof.
  intros pc s. split; [exact (proj1 (uproject_objective pc s))|]. split; [exact (uproject_gradient pc s)|]. repeat split.
Qed.
Theorem C18_a_minimiser_of_that_objective_is_a_nearest_feasible_point : forall (pc : projcall R) (C : list R -> Prop) x,
  (forall y, C y -> pb_fun (project_problem_gen pc) x <= pb_fun (project_problem_gen pc) y) ->
  forall y, C y -> dist2 x (pc_p pc) <= dist2 y (pc_p pc).
Proof. intros pc C x. exact (uproject_minimiser_is_nearest pc C x). Qed.
