(* C01 - Marginal cost is the exact gradient of cost for every device model.
   grad_at F G x  :=  length G = length x  /\  for every coordinate k, t |-> F (x with x_k := t) has derivative G_k at x_k.
   Statements only; proofs in Proofs/C01Proofs.v (calculus library: Proofs/Calc.v, Proofs/RVec.v, kernels: Proofs/KernelR.v
   over the regenerated Gen/Kernels.v). Every theorem holds for every horizon length n. *)
From Coq Require Import ZArith Reals List Lra Lia Arith.
From Coquelicot Require Import Coquelicot.
From DK Require Import Num NumR Vec.
From DK.Gen Require Import Kernels.
From DK.Model Require Import Leaf Fn Dev.
From DK.Proofs Require Import RVec KernelR Calc C01Proofs.
Import ListNotations.
Local Open Scope R_scope.

(* the scalar kernels regenerated from functions.py *)
Theorem C01_kernel_highlow : forall x pl ph xl xh,
  is_derive (fun t => hl_cost (A:=R) t pl ph xl xh) x (hl_deriv (A:=R) x pl ph xl xh).
Proof. exact hl_cost_derive. Qed.

Theorem C01_kernel_abc_natural_exponent : forall x a k c xl xh,
  is_derive (fun t => abc_cost (A:=R) t a (Rnat (S k)) c xl xh) x (abc_deriv (A:=R) x a (Rnat (S k)) c xl xh).
Proof. exact abc_cost_derive. Qed.

Theorem C01_device_and_pv : forall n b cb (s p : list R), length s = n -> length p = n ->
  grad_at (fun s' => leaf_cost (Build_leafdev n b cb KDev) s' p) (leaf_deriv (Build_leafdev n b cb KDev) s p) s /\
  grad_at (fun s' => leaf_cost (Build_leafdev n b cb KPV) s' p) (leaf_deriv (Build_leafdev n b cb KPV) s p) s.
Proof. exact grad_device. Qed.

Theorem C01_cdevice : forall n b cb a b0 (s p : list R), length s = n -> length p = n ->
  grad_at (fun s' => leaf_cost (Build_leafdev n b cb (KC a b0)) s' p) (leaf_deriv (Build_leafdev n b cb (KC a b0)) s p) s.
Proof. exact grad_cdevice. Qed.

Theorem C01_cdevice2_one_range : forall n b c pl ph (s p : list R), length s = n -> length p = n ->
  grad_at (fun s' => leaf_cost (Build_leafdev n b [c] (KC2 pl ph)) s' p) (leaf_deriv (Build_leafdev n b [c] (KC2 pl ph)) s p) s.
Proof. exact grad_cdevice2_single. Qed.

Theorem C01_idevice : forall n b cb a bp c (s p : list R), length s = n -> length p = n -> nat_exponents bp n ->
  grad_at (fun s' => leaf_cost (Build_leafdev n b cb (KI a bp c)) s' p) (leaf_deriv (Build_leafdev n b cb (KI a bp c)) s p) s.
Proof. exact grad_idevice. Qed.

Theorem C01_idevice2 : forall n b cb pl ph (s p : list R), length s = n -> length p = n ->
  grad_at (fun s' => leaf_cost (Build_leafdev n b cb (KI2 pl ph)) s' p) (leaf_deriv (Build_leafdev n b cb (KI2 pl ph)) s p) s.
Proof. exact grad_idevice2. Qed.

Theorem C01_gdevice : forall n b cb g (s p : list R), length s = n -> length p = n ->
  grad_at (fun s' => leaf_cost (Build_leafdev n b cb (KG g)) s' p) (leaf_deriv (Build_leafdev n b cb (KG g)) s p) s.
Proof. exact grad_gdevice. Qed.

(* storage: away from the charge/discharge kink (efficiency = 1, or no slot flow is exactly 0); the deep-discharge term
   min(.,0)^2 needs no exclusion, it is differentiable everywhere *)
Theorem C01_sdevice : forall n b cb q (s p : list R), length s = n -> length p = n -> smooth_at (sp_eff q) s ->
  grad_at (fun s' => leaf_cost (Build_leafdev n b cb (KS q)) s' p) (leaf_deriv (Build_leafdev n b cb (KS q)) s p) s.
Proof. exact grad_sdevice. Qed.

(* thermal: heating and cooling, one- or two-directional flow, same kink exclusion *)
Theorem C01_tdevice : forall n b cb q (s p : list R), length s = n -> length p = n -> length (tp_ext q) = n ->
  smooth_at (tp_eff q) s ->
  grad_at (fun s' => leaf_cost (Build_leafdev n b cb (KT q)) s' p) (leaf_deriv (Build_leafdev n b cb (KT q)) s p) s.
Proof. exact grad_tdevice. Qed.

(* the shared building blocks, for every length *)
Theorem C01_price_term : forall p x, length p = length x -> grad_at (fun s => dot s p) p x.
Proof. exact grad_dot. Qed.
Theorem C01_min0_square_differentiable_everywhere : forall D u, is_derive (msq D) u (2 * nmin (A:=R) (u - D) 0).
Proof. exact msq_derive. Qed.

(* non-vacuity: a lossy storage device and a flow with no zero slot satisfy the hypotheses *)
Example C01_smooth_example : smooth_at (1/2) [1; -1; 2] /\ length [1; -1; 2] = 3%nat.
Proof.
  split; [right|reflexivity]. intros k Hk. simpl in Hk.
  destruct k as [|[|[|k]]]; simpl; try lra. lia.
Qed.
