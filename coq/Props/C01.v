(* C01 - Marginal cost is the exact gradient of cost for every device model.
   grad_at F G x  :=  length G = length x  /\  for every coordinate k, t |-> F (x with x_k := t) has derivative G_k at x_k.
   Statements only; proofs in Proofs/C01Proofs.v (calculus library: Proofs/Calc.v, Proofs/RVec.v, kernels: Proofs/KernelR.v
   over the regenerated Gen/Kernels.v). Every theorem holds for every horizon length n. *)
From Coq Require Import ZArith Reals List Lra Lia Arith.
From Coquelicot Require Import Coquelicot.
From DK Require Import Num NumR Vec.
From DK.Gen Require Import Kernels.
From DK.Model Require Import Leaf Fn Dev.
From DK.Proofs Require Import RVec KernelR Calc C01Proofs.
Import ListNotations.
Local Open Scope R_scope.

(* the scalar kernels regenerated from functions.py *)
Theorem C01_kernel_highlow : forall x pl ph xl xh,
  is_derive (fun t => hl_cost (A:=R) t pl ph xl xh) x (hl_deriv (A:=R) x pl ph xl xh).
Proof. exact hl_cost_derive. Qed.

Theorem C01_kernel_abc_natural_exponent : forall x a k c xl xh,
  is_derive (fun t => abc_cost (A:=R) t a (Rnat (S k)) c xl xh) x (abc_deriv (A:=R) x a (Rnat (S k)) c xl xh).
Proof. exact abc_cost_derive. Qed.

Theorem C01_device_and_pv : forall n b cb (s p : list R), length s = n -> length p = n ->
  grad_at (fun s' => leaf_cost (Build_leafdev n b cb KDev) s' p) (leaf_deriv (Build_leafdev n b cb KDev) s p) s /\
  grad_at (fun s' => leaf_cost (Build_leafdev n b cb KPV) s' p) (leaf_deriv (Build_leafdev n b cb KPV) s p) s.
Proof. exact grad_device. Qed.

Theorem C01_cdevice : forall n b cb a b0 (s p : list R), length s = n -> length p = n ->
  grad_at (fun s' => leaf_cost (Build_leafdev n b cb (KC a b0)) s' p) (leaf_deriv (Build_leafdev n b cb (KC a b0)) s p) s.
Proof. exact grad_cdevice. Qed.

Theorem C01_cdevice2_one_range : forall n b c pl ph (s p : list R), length s = n -> length p = n ->
  grad_at (fun s' => leaf_cost (Build_leafdev n b [c] (KC2 pl ph)) s' p) (leaf_deriv (Build_leafdev n b [c] (KC2 pl ph)) s p) s.
Proof. exact grad_cdevice2_single. Qed.

Theorem C01_idevice : forall n b cb a bp c (s p : list R), length s = n -> length p = n -> nat_exponents bp n ->
  grad_at (fun s' => leaf_cost (Build_leafdev n b cb (KI a bp c)) s' p) (leaf_deriv (Build_leafdev n b cb (KI a bp c)) s p) s.
Proof. exact grad_idevice. Qed.

Theorem C01_idevice2 : forall n b cb pl ph (s p : list R), length s = n -> length p = n ->
  grad_at (fun s' => leaf_cost (Build_leafdev n b cb (KI2 pl ph)) s' p) (leaf_deriv (Build_leafdev n b cb (KI2 pl ph)) s p) s.
Proof. exact grad_idevice2. Qed.

Theorem C01_gdevice : forall n b cb g (s p : list R), length s = n -> length p = n ->
  grad_at (fun s' => leaf_cost (Build_leafdev n b cb (KG g)) s' p) (leaf_deriv (Build_leafdev n b cb (KG g)) s p) s.
Proof. exact grad_gdevice. Qed.

(* storage: away from the charge/discharge kink (efficiency = 1, or no slot flow is exactly 0); the deep-discharge term
   min(.,0)^2 needs no exclusion, it is differentiable everywhere *)
Theorem C01_sdevice : forall n b cb q (s p : list R), length s = n -> length p = n -> smooth_at (sp_eff q) s ->
  grad_at (fun s' => leaf_cost (Build_leafdev n b cb (KS q)) s' p) (leaf_deriv (Build_leafdev n b cb (KS q)) s p) s.
Proof. exact grad_sdevice. Qed.

(* thermal: heating and cooling, one- or two-directional flow, same kink exclusion *)
Theorem C01_tdevice : forall n b cb q (s p : list R), length s = n -> length p = n -> length (tp_ext q) = n ->
  smooth_at (tp_eff q) s ->
  grad_at (fun s' => leaf_cost (Build_leafdev n b cb (KT q)) s' p) (leaf_deriv (Build_leafdev n b cb (KT q)) s p) s.
Proof. exact grad_tdevice. Qed.

(* the shared building blocks, for every length *)
Theorem C01_price_term : forall p x, length p = length x -> grad_at (fun s => dot s p) p x.
Proof. exact grad_dot. Qed.
Theorem C01_min0_square_differentiable_everywhere : forall D u, is_derive (msq D) u (2 * nmin (A:=R) (u - D) 0).
Proof. exact msq_derive. Qed.

(* non-vacuity: a lossy storage device and a flow with no zero slot satisfy the hypotheses *)
Example C01_smooth_example : smooth_at (1/2) [1; -1; 2] /\ length [1; -1; 2] = 3%nat.
Proof.
  split; [right|reflexivity]. intros k Hk. simpl in Hk.
  destruct k as [|[|[|k]]]; simpl; try lra. lia.
Qed.

(* ==== every composition of the preference-function combinators, and several cumulative ranges ============================
   Proofs/FnProofs.v (induction on the AST of Model/Fn.v), Proofs/RangesProofs.v (contiguous slot ranges). *)
From DK.Proofs Require Import RangesProofs FnProofs.

(* wf_fn: what the combinators validate (RangesFunction: contiguous ranges from 0 covering the vector; ABCCost: natural
   exponents, the executable fragment). smooth_fn: the peak of a DemandFunction argument is attained at one index only. *)
Theorem C01_function_ast_every_composition : forall (f : fn R) (x : list R),
  wf_fn f (length x) -> smooth_fn f x -> grad_at (feval f) (fderiv f x) x.
Proof. exact fn_grad. Qed.

Theorem C01_adevice : forall n b cb f ucs (s p : list R), length s = n -> length p = n -> wf_fn f n -> smooth_fn f s ->
  grad_at (fun s' => leaf_cost (Build_leafdev n b cb (KA f ucs)) s' p) (leaf_deriv (Build_leafdev n b cb (KA f ucs)) s p) s.
Proof. exact grad_adevice. Qed.

(* what the two predicates say about the list-carrying combinators *)
Theorem C01_wf_of_a_sum : forall fs n, wf_fn (FSum fs) n -> forall g, In g fs -> wf_fn g n.
Proof. exact wf_sum_in. Qed.
Theorem C01_wf_of_ranges : forall rs n, wf_fn (FRanges rs) n ->
  chain rst ren 0 rs n /\ forall s e g, In (s, e, g) rs -> wf_fn g (e - s).
Proof. exact wf_ranges_in. Qed.
Theorem C01_chain_means_contiguous_cover : forall (rs : list (nat * nat * fn R)) a n r, chain rst ren a rs n -> In r rs ->
  (a <= rst r /\ rst r <= ren r /\ ren r <= n)%nat.
Proof. exact (chain_in rst ren). Qed.

(* the peak term alone: polynomial of max(x), gradient on the (unique) arg-max slot *)
Theorem C01_peak_demand : forall (c x : list R), unique_max x ->
  grad_at (fun y => horner (A:=R) c (vmax y)) (upd (zeros (length x)) (argmax x) (horner (A:=R) (pderiv c) (vmax x))) x.
Proof. exact grad_demand. Qed.
Theorem C01_argmax_is_the_unique_peak : forall (l : list R) m, (m < length l)%nat ->
  (forall i, (i < length l)%nat -> i <> m -> nth i l 0 < nth m l 0) -> argmax l = m.
Proof. exact argmax_unique. Qed.

(* a function summed over contiguous ranges: the gradient is the concatenation of the per-range gradients *)
Theorem C01_ranges_generic : forall (T : Type) (st en : T -> nat) (F : T -> list R -> R) (x : list R) (G : T -> list R) rs,
  chain st en 0 rs (length x) -> (forall r, In r rs -> grad_at (F r) (G r) (slice (st r) (en r) x)) ->
  grad_at (ranged_sum st en F rs) (flat_map G rs) x.
Proof. exact @ranged_grad. Qed.

(* CDevice2 with any number of contiguous cumulative ranges covering 0..n (generalises C01_cdevice2_one_range) *)
Theorem C01_cdevice2_contiguous_ranges : forall n b cbs pl ph (s p : list R), length s = n -> length p = n -> cb_chain cbs n ->
  grad_at (fun s' => leaf_cost (Build_leafdev n b cbs (KC2 pl ph)) s' p) (leaf_deriv (Build_leafdev n b cbs (KC2 pl ph)) s p) s.
Proof. exact grad_cdevice2_multi. Qed.

(* non-vacuity: a sum of (two ranges: a total-flow kernel and a peak term) and a reflected per-slot polynomial, at (1,2,3) *)
Example C01_fn_example : wf_fn ex_fn 3 /\ smooth_fn ex_fn [1; 2; 3] /\ hsmooth_fn ex_fn [1; 2; 3].
Proof. exact example_fn. Qed.
Example C01_cdevice2_ranges_example : cb_chain [(1, 2, 0%nat, 2%nat); (3, 5, 2%nat, 4%nat)] 4.
Proof. exact example_cb_chain. Qed.

(* ---- every real exponent b > 0 (the executable instance covers integers; here x ** b is Rpower for non-integers) ---- *)
From DK.Proofs Require Import RealExp.

Theorem C01_kernel_abc_any_real_exponent : forall x a b c xl xh, (xl = xh \/ 0 < abc_q (A:=R) x xl xh a) ->
  is_derive (fun t => abc_cost (A:=R) t a b c xl xh) x (abc_deriv (A:=R) x a b c xl xh).
Proof. exact abc_cost_derive_real. Qed.

Theorem C01_idevice_any_real_exponent : forall n b cb a bp c (s p : list R), List.length s = n -> List.length p = n ->
  q_positive a b s ->
  grad_at (fun s' => leaf_cost (Build_leafdev n b cb (KI a bp c)) s' p) (leaf_deriv (Build_leafdev n b cb (KI a bp c)) s p) s.
Proof. exact grad_idevice_real. Qed.

(* q > 0 at every flow below the upper bound when a >= 0 (which the validator enforces) *)
Theorem C01_q_positive_below_upper_bound : forall a b (s : list R),
  (forall i, (i < List.length s)%nat -> 0 <= pnth a i /\ (lo b i = hi b i \/ lo b i <= nth i s 0 < hi b i)) -> q_positive a b s.
Proof. exact q_positive_interior. Qed.

(* ---- tie T at class level: the deriv methods regenerated from the NumPy source (Gen/Classes.v) are the model marginal costs ---- *)
From DK.Gen Require Import Classes.
From DK.Proofs Require Import GenClasses GenClassesDeriv.
Theorem C01_source_device_deriv : forall n (s p : list R), Device_deriv (A:=R) n s p = dev_deriv n p.
Proof. exact gen_device_deriv. Qed.
Theorem C01_source_cdevice_deriv : forall n a b (s p : list R), CDevice_deriv (A:=R) n a b s p = cdev_deriv n a p.
Proof. exact gen_cdevice_deriv. Qed.
Theorem C01_source_idevice_deriv : forall n a b c bnd (s p : list R), IDevice_deriv (A:=R) n a b c bnd s p = idev_deriv a b c bnd s p.
Proof. exact gen_idevice_deriv. Qed.
Theorem C01_source_idevice2_deriv : forall n pl ph bnd (s p : list R), IDevice2_deriv (A:=R) n pl ph bnd s p = idev2_deriv pl ph bnd s p.
Proof. exact gen_idevice2_deriv. Qed.

(* ---- the "equivalently" clause: total derivative along every direction, and the line integral along the segment ----------
   Coordinate partials alone do not give either; exact partials in a neighbourhood together with continuity of the reported
   marginal cost do (Proofs/Total.v: telescoping over the coordinates, mean value theorem, any length).
   vnear x y r: sup-norm ball; gcont G x: every entry of G is continuous at x; dir_at F g x: for every direction d,
   t |-> F (x + t d) has derivative <g, d> at 0; seg x y t = x + t (y - x). *)
From DK.Proofs Require Import Total TotalLeaf.

Theorem C01_partials_and_continuity_give_the_total_derivative : forall (F : list R -> R) (G : list R -> list R) (x : list R) (r : R),
  0 < r -> (forall y, vnear x y r -> grad_at F (G y) y) -> gcont G x -> dir_at F (G x) x.
Proof. exact total_from_partials. Qed.

Theorem C01_line_integral_general : forall (F : list R -> R) (G : list R -> list R) (x y : list R) (r : R),
  length y = length x -> 0 < r ->
  (forall t, 0 <= t <= 1 -> forall z, vnear (seg x y t) z r -> grad_at F (G z) z) ->
  (forall t, 0 <= t <= 1 -> gcont G (seg x y t)) ->
  (forall t, length (G (seg x y t)) = length x) ->
  is_RInt (fun t => dot (G (seg x y t)) (vsub y x)) 0 1 (F y - F x).
Proof. exact line_integral. Qed.

(* the classes whose marginal cost is continuous everywhere: Device, PVDevice, CDevice, CDevice2 (one range), IDevice
   (natural exponents), IDevice2, GDevice - for ANY two flows of the right length (in bounds or not), any price.
   SDevice: below, at every flow off the charge/discharge kink and along every segment that does not cross it.
   TDevice: likewise below.  CDevice2 with several ranges and ADevice over every composition of the function AST: total derivative below (the line integral for
   these two is the general theorem C01_line_integral_general applied to them; not instantiated) (the general theorem
   applies once continuity of their marginal cost is shown, which is not done here). *)
Theorem C01_total_derivative_smooth_classes : forall n b cb k (p x : list R), length p = n -> length x = n -> smooth_kind k cb n ->
  dir_at (fun s => leaf_cost (Build_leafdev n b cb k) s p) (leaf_deriv (Build_leafdev n b cb k) x p) x.
Proof. exact smooth_classes_total. Qed.

Theorem C01_line_integral_smooth_classes : forall n b cb k (p x y : list R), length p = n -> length x = n -> length y = n ->
  smooth_kind k cb n ->
  is_RInt (fun t => dot (leaf_deriv (Build_leafdev n b cb k) (seg x y t) p) (vsub y x)) 0 1
          (leaf_cost (Build_leafdev n b cb k) y p - leaf_cost (Build_leafdev n b cb k) x p).
Proof. exact smooth_classes_line. Qed.

Theorem C01_smooth_kinds : forall (k : kind R) cbs n, smooth_kind k cbs n <->
  match k with
  | KDev | KPV | KC _ _ | KI2 _ _ | KG _ => True
  | KI _ bp _ => nat_exponents bp n
  | KC2 _ _ => exists c, cbs = [c]
  | _ => False
  end.
Proof. intros; reflexivity. Qed.

Example C01_line_integral_example :
  is_RInt (fun t => dot (leaf_deriv (Build_leafdev 3 [(0, 4); (0, 4); (0, 4)] [] (KI2 (PS (-1)) (PS 2))) (seg [0; 0; 0] [1; 2; 3] t) [1; 1; 1])
                        (vsub [1; 2; 3] [0; 0; 0])) 0 1
          (leaf_cost (Build_leafdev 3 [(0, 4); (0, 4); (0, 4)] [] (KI2 (PS (-1)) (PS 2))) [1; 2; 3] [1; 1; 1]
           - leaf_cost (Build_leafdev 3 [(0, 4); (0, 4); (0, 4)] [] (KI2 (PS (-1)) (PS 2))) [0; 0; 0] [1; 1; 1]).
Proof. exact line_example. Qed.

(* ---- storage: total derivative at every flow off the charge/discharge kink (efficiency 1, or no slot flow exactly 0), and the line
   integral along every segment whose end points lie on the same side of 0 in every slot (or efficiency 1). The deep-discharge term
   min(.,0)^2 needs no exclusion. Proofs/Cont.v (continuity in the sup norm), Proofs/TotalStorage.v. ---- *)
From DK.Proofs Require Import Cont TotalStorage.
Theorem C01_sdevice_marginal_cost_continuous_off_the_kink : forall q (x p : list R), smooth_at (sp_eff q) x ->
  gcont (fun y => sdev_deriv q y p) x.
Proof. exact sdev_deriv_continuous. Qed.
Theorem C01_sdevice_total_derivative : forall n b cb q (x p : list R), length x = n -> length p = n -> smooth_at (sp_eff q) x ->
  dir_at (fun s => leaf_cost (Build_leafdev n b cb (KS q)) s p) (leaf_deriv (Build_leafdev n b cb (KS q)) x p) x.
Proof. exact sdevice_total_derivative. Qed.
Theorem C01_sdevice_line_integral : forall n b cb q (x y p : list R), length x = n -> length y = n -> length p = n ->
  (sp_eff q = 1 \/ (forall k, (k < length x)%nat -> 0 < nth k x 0 * nth k y 0)) ->
  is_RInt (fun t => dot (leaf_deriv (Build_leafdev n b cb (KS q)) (seg x y t) p) (vsub y x)) 0 1
          (leaf_cost (Build_leafdev n b cb (KS q)) y p - leaf_cost (Build_leafdev n b cb (KS q)) x p).
Proof. exact sdevice_line_integral. Qed.

(* ---- thermal: the same, off the direction kink (efficiency 1, or no slot flow exactly 0). Proofs/TotalThermal.v ---- *)
From DK.Proofs Require Import TotalThermal.
Theorem C01_tdevice_total_derivative : forall n b cb q (x p : list R), length x = n -> length p = n -> length (tp_ext q) = n ->
  smooth_at (tp_eff q) x ->
  dir_at (fun s => leaf_cost (Build_leafdev n b cb (KT q)) s p) (leaf_deriv (Build_leafdev n b cb (KT q)) x p) x.
Proof. exact tdevice_total_derivative. Qed.
Theorem C01_tdevice_line_integral : forall n b cb q (x y p : list R), length x = n -> length y = n -> length p = n ->
  length (tp_ext q) = n -> (tp_eff q = 1 \/ (forall k, (k < length x)%nat -> 0 < nth k x 0 * nth k y 0)) ->
  is_RInt (fun t => dot (leaf_deriv (Build_leafdev n b cb (KT q)) (seg x y t) p) (vsub y x)) 0 1
          (leaf_cost (Build_leafdev n b cb (KT q)) y p - leaf_cost (Build_leafdev n b cb (KT q)) x p).
Proof. exact tdevice_line_integral. Qed.
Theorem C01_source_gdevice_deriv : forall n g (s p : list R), length s = n -> length p = n ->
  GDevice_deriv (A:=R) n g s p = gdev_deriv g s p.
Proof. exact gen_gdevice_deriv. Qed.
(* TDevice.deriv regenerated from tdevice.py (Gen/Thermal.v): (sustainment_matrix * dt.reshape(n,1)).sum(axis=0) * where(s < 0, 1/e, e) + p
   IS the model marginal cost that C01_tdevice / C01_tdevice_total_derivative prove to be the gradient *)
From DK.Gen Require Import Thermal.
From DK.Proofs Require Import GenThermal.
Theorem C01_source_tdevice_deriv : forall n su ef ti to tr te c (s p : list R), length s = n -> length p = n -> length te = n ->
  TDevice_deriv (A:=R) n su ef ti to tr te c s p = tdev_deriv (tq su ef ti to tr te c) s p.
Proof. exact gen_tdevice_deriv. Qed.
Theorem C01_source_tdevice_cost : forall n su ef ti to tr te c (s p : list R), length s = n -> length p = n -> (0 < n)%nat ->
  TDevice_cost (A:=R) n su ef ti to tr te c s p = tdev_cost (tq su ef ti to tr te c) s p.
Proof. exact gen_tdevice_cost. Qed.

(* SDevice.deriv regenerated from sdevice.py (Gen/Storage.v, translator/sdevice_tx.py: the accumulation loop of deep_damage_at_deriv over the rows
   of the stashed sustainment matrix - checked to be refreshed by the sustainment setter -, the np.hstack shifts of the flip-flop term)
   IS the model marginal cost that C01_sdevice proves to be the gradient, for every horizon length *)
From DK.Gen Require Import Storage.
From DK.Proofs Require Import GenStorage.
Theorem C01_source_sdevice_deriv : forall n c1 c2 c3 cap dep st e su (s p : list R), length s = n -> length p = n ->
  SDevice_deriv (A:=R) n c1 c2 c3 cap dep st e su s p = sdev_deriv (sq_of c1 c2 c3 cap dep st e su) s p.
Proof. exact gen_sdevice_deriv. Qed.

(* ---- the preference-function combinators regenerated from functions.py on every run (Gen/Functions.v, translator/functions_tx.py:
        NullFunction, SumFunction, ReflectedFunction, InnerSumFunction, X2D, Poly2D, Poly2DOffset over ABSTRACT operands) are the nodes
        of the function AST that C01_function_ast_every_composition is about: __call__ = feval and deriv = fderiv of the node ---- *)
From DK.Model Require Import FnOps.
From DK.Gen Require Import Functions.
From DK.Proofs Require Import GenFunctions.
Theorem C01_source_function_combinators : forall (fs : list (fn R)) (g : fn R) pl ph xl xh qs cs offs (x : list R),
  (SumFunction_call (map fobj_of fs) x = feval (FSum fs) x /\ SumFunction_deriv (map fobj_of fs) x = fderiv (FSum fs) x) /\
  (ReflectedFunction_call (fobj_of g) x = feval (FReflect g) x /\ ReflectedFunction_deriv (fobj_of g) x = fderiv (FReflect g) x) /\
  (InnerSumFunction_call (sfobj_hl (pl, ph, xl, xh)) x = feval (FInnerHL pl ph xl xh) x /\
   InnerSumFunction_deriv (sfobj_hl (pl, ph, xl, xh)) x = fderiv (FInnerHL pl ph xl xh) x) /\
  (X2D_call (map sfobj_hl qs) x = feval (FX2D qs) x /\ X2D_deriv (map sfobj_hl qs) x = fderiv (FX2D qs) x) /\
  (Poly2D_call cs x = feval (FPoly2D cs) x /\ Poly2D_deriv cs x = fderiv (FPoly2D cs) x) /\
  (Poly2DOffset_call cs offs x = feval (FPoly2DOffset cs offs) x /\ Poly2DOffset_deriv cs offs x = fderiv (FPoly2DOffset cs offs) x) /\
  (NullFunction_call x = feval FNull x /\ NullFunction_deriv x = fderiv FNull x).
Proof.
  intros fs g pl ph xl xh qs cs offs x.
  pose proof (gen_sum fs x) as [S1 S2]. pose proof (gen_reflect g x) as [R1 R2]. pose proof (gen_innersum pl ph xl xh x) as [I1 I2].
  pose proof (gen_x2d qs x) as [X1 X2]. pose proof (gen_poly2d cs x) as [P1 P2]. pose proof (gen_poly2doffset cs offs x) as [O1 O2].
  pose proof (gen_null x) as [N1 N2]. repeat split; assumption.
Qed.
(* RangesFunction.__call__ / deriv regenerated over abstract operands: the i-th function on the i-th range of the flow, derivatives concatenated *)
Theorem C01_source_ranges_function : forall (rs : list (nat * nat * fn R)) (x : list R),
  RangesFunction_call (ranges_of rs) (fobjs_of rs) x = feval (FRanges rs) x /\ RangesFunction_deriv (ranges_of rs) (fobjs_of rs) x = fderiv (FRanges rs) x.
Proof. intros rs x. exact (gen_ranges rs x). Qed.
(* ADevice.cost / deriv regenerated from adevice.py over an abstract function object (hess: C14): f(s) + sum(s*p), f.deriv(s) + p ARE
   the leaf model of the device whose preference is the function AST node g, for every g *)
Theorem C01_source_adevice : forall n bnd cb (g : fn R) ucs (s p : list R), let d := Build_leafdev n bnd cb (KA g ucs) in
  ADevice_cost (fobj_of g) s p = leaf_cost d s p /\ ADevice_deriv (fobj_of g) s p = leaf_deriv d s p.
Proof. intros n bnd cb g ucs s p. exact (gen_adevice n bnd cb g ucs s p). Qed.

(* CDevice2.deriv regenerated from cdevice2.py: np.ones(len(self)) * object.deriv(s) + p, the object assembled from InnerSumFunction /
   RangesFunction objects - IS the model marginal cost when the cumulative ranges cover the horizon (one gradient entry per slot; the
   constructor checks contiguity and cover) *)
Theorem C01_source_cdevice2_deriv : forall n pl ph (cbs : list (cbound R)) (s p : list R), length (cdev2_dpref pl ph cbs s) = n ->
  CDevice2_deriv n pl ph cbs s p = cdev2_deriv pl ph cbs s p.
Proof. intros n pl ph cbs s p. apply gen_cdevice2_deriv. Qed.

(* DemandFunction regenerated from functions.py: the inner polynomial at np.max(x); deriv puts the polynomial's derivative at x[argmax] into a
   zero vector at index argmax *)
Theorem C01_source_demand_function : forall (c x : list R),
  DemandFunction_call c x = feval (FDemand c) x /\ DemandFunction_deriv c x = fderiv (FDemand c) x.
Proof. intros c x. exact (gen_demand c x). Qed.





(* ---- sums over contiguous slot ranges: if every summand has a total derivative on its own range, so has the sum, and it is the
   concatenation of the per-range gradients; hence CDevice2 with ANY number of contiguous cumulative ranges. Proofs/RangedTotal.v ---- *)
From DK.Proofs Require Import RangedTotal.
Theorem C01_ranged_sum_total_derivative : forall (T : Type) (st en : T -> nat) (F : T -> list R -> R) (G : T -> list R) (x : list R) rs,
  chain st en 0 rs (length x) ->
  (forall r, In r rs -> length (G r) = (en r - st r)%nat /\ dir_at (F r) (G r) (slice (st r) (en r) x)) ->
  dir_at (ranged_sum st en F rs) (flat_map G rs) x.
Proof. exact @ranged_dir. Qed.
Theorem C01_cdevice2_total_derivative_any_ranges : forall n b cbs pl ph (x p : list R), length x = n -> length p = n -> cb_chain cbs n ->
  dir_at (fun s => leaf_cost (Build_leafdev n b cbs (KC2 pl ph)) s p) (leaf_deriv (Build_leafdev n b cbs (KC2 pl ph)) x p) x.
Proof. exact cdevice2_multi_total. Qed.

(* ---- every composition of the preference-function AST (hence ADevice): total derivative, by induction on the AST with directional
   building blocks - separable sums need no continuity argument, ranges as above, the peak index is locally constant. Proofs/FnTotal.v ---- *)
From DK.Proofs Require Import FnTotal.
Theorem C01_function_ast_total_derivative : forall (f : fn R) (x : list R),
  wf_fn f (length x) -> smooth_fn f x -> dir_at (feval f) (fderiv f x) x.
Proof. exact fn_dir. Qed.
Theorem C01_adevice_total_derivative : forall n b cb f ucs (x p : list R), length x = n -> length p = n -> wf_fn f n -> smooth_fn f x ->
  dir_at (fun s => leaf_cost (Build_leafdev n b cb (KA f ucs)) s p) (leaf_deriv (Build_leafdev n b cb (KA f ucs)) x p) x.
Proof. exact adevice_total_derivative. Qed.
Theorem C01_separable_sum_total_derivative : forall (phi dphi : nat -> R -> R) (x : list R),
  (forall k, (k < length x)%nat -> is_derive (phi k) (nth k x 0) (dphi k (nth k x 0))) ->
  dir_at (fun y => vsum (map (fun '(i, v) => phi i v) (idx y))) (map (fun '(i, v) => dphi i v) (idx x)) x.
Proof. exact dir_sepsum. Qed.

(* ---- the three preference functions of functions.py that differentiate their own cost numerically (InformationEntropy,
   TemporalVariance, CobbDouglas): the closed-form gradient of Model/Trans.v is the total derivative of the cost the code computes,
   for every length, wherever it is differentiable; the implementation's numerical derivative is compared with that gradient by
   interval arithmetic inside Coq (Proofs/TransEval.v). Proofs/TransProofs.v ---- *)
From DK.Model Require Import Trans.
From DK.Proofs Require Import TransProofs.
Theorem C01_temporal_variance_total_derivative : forall c (x : list R), vsum x <> 0 -> dir_at (tvar c) (tvar_grad c x) x.
Proof. exact tvar_total_derivative. Qed.
Theorem C01_information_entropy_total_derivative : forall c (x : list R), x <> [] -> (forall k, (k < length x)%nat -> nth k x 0 <> 0) ->
  dir_at (entropy c) (entropy_grad c x) x.
Proof. exact entropy_total_derivative. Qed.
Theorem C01_cobb_douglas_total_derivative : forall c (a x : list R), length a = length x -> (forall k, (k < length x)%nat -> 0 < nth k x 0) ->
  dir_at (cobb c a) (cobb_grad c a x) x.
Proof. exact cobb_total_derivative. Qed.
Theorem C01_adevice_over_any_differentiable_function : forall (F : list R -> R) (g p x : list R), length g = length x -> length p = length x ->
  dir_at F g x -> dir_at (fun s => F s + dot s p) (vadd g p) x.
Proof. exact adevice_any_function_total. Qed.
