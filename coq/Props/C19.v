(* C19 - step() stays feasible, never raises cost, and progresses when not optimal.            PARTIAL by nature.
   Statements only; each is closed by the lemma of Proofs/C19Proofs.v it names.  step() makes two SLSQP calls (utils.project and
   the bounded line search): they are the parameters `uproject` and `linesearch` of Model/Solve.v `step_model`.
   Proved for ALL behaviours of the two oracles: which outcomes are possible, what is returned, its shape, and that a failure
   report other than status 8 raises.  Proved under the oracles' CONTRACTS, stated as hypotheses and checked at run time by
   ./check C19 on real calls (utils.project returns a feasible point; the line search returns x in [0,1] not worse than x = 0):
   feasibility and cost monotonicity for any number of repeated steps; descent and strict progress from the projection
   characterisation.  NOT proved (runtime behaviour of compiled code): that SLSQP honours those contracts. *)
From Coq Require Import ZArith Reals List Bool.
From Coquelicot Require Import Coquelicot.
From DK Require Import Num NumR Vec.
From DK.Model Require Import Leaf Fn Dev Tree Solve.
From DK.Proofs Require Import RVec VecAlg Convex C05Proofs C19Proofs.
Import ListNotations.
Local Open Scope R_scope.

Theorem C19_convex_combination_feasible : forall (F : list R -> Prop) (s z : list R) x,
  convex_set F -> F s -> F z -> length z = length s -> 0 <= x <= 1 -> F (step_point s z x).
Proof. exact step_feasible. Qed.

(* ---- all oracle behaviours ---- *)
Theorem C19_what_is_returned : forall uproject linesearch (dv : devview R) s t m ol,
  step_model uproject linesearch dv s t = StAccept m ol ->
  let o := uproject (the_call dv s t) in
  tolerated o = true /\ length (o_x o) = length s /\ ol = linesearch (phi_of dv s (o_x o)) /\ tolerated ol = true /\
  length s = (dv_rows dv * dv_n dv)%nat /\
  exists x, o_x ol = [x] /\ m = reshape (dv_rows dv) (dv_n dv) (step_point s (o_x o) x).
Proof. exact step_accept_inv. Qed.
Theorem C19_shape : forall uproject linesearch (dv : devview R) s t m ol, (0 < dv_n dv)%nat ->
  step_model uproject linesearch dv s t = StAccept m ol ->
  length m = dv_rows dv /\ List.Forall (fun row => length row = dv_n dv) m /\
  concat m = step_point s (o_x (uproject (the_call dv s t))) (nth 0 (o_x ol) 0).
Proof. exact step_shape. Qed.
Theorem C19_raises_on_projection_failure : forall uproject linesearch (dv : devview R) s t,
  length (o_x (uproject (the_call dv s t))) = length s ->
  tolerated (uproject (the_call dv s t)) = false -> step_model uproject linesearch dv s t = StRaiseOptimization.
Proof. exact step_raises_on_projection_failure. Qed.
Theorem C19_raises_on_linesearch_failure : forall uproject linesearch (dv : devview R) s t,
  let o := uproject (the_call dv s t) in
  tolerated o = true -> length (o_x o) = length s -> tolerated (linesearch (phi_of dv s (o_x o))) = false ->
  step_model uproject linesearch dv s t = StRaiseOptimization.
Proof. exact step_raises_on_linesearch_failure. Qed.
(* the code tolerates exactly: success, or status 8 *)
Theorem C19_tolerated_reports : forall (o : optresult R), tolerated o = true <-> o_success o = true \/ o_status o = 8%Z.
Proof. exact tolerated_spec. Qed.

(* ---- under the oracle contracts ---- *)
Theorem C19_step_feasible_and_not_worse : forall uproject linesearch (dv : devview R) (F : list R -> Prop),
  convex_set F ->
  (forall call, tolerated (uproject call) = true -> F (o_x (uproject call))) ->
  (forall phi x, tolerated (linesearch phi) = true -> o_x (linesearch phi) = [x] -> 0 <= x <= 1 /\ phi x <= phi 0) ->
  forall s t m ol, F s -> step_model uproject linesearch dv s t = StAccept m ol ->
  F (concat m) /\ dv_cost dv (concat m) <= dv_cost dv s.
Proof. exact step_feasible_not_worse. Qed.
Theorem C19_repeated_steps_monotone : forall uproject linesearch (dv : devview R) (F : list R -> Prop),
  convex_set F ->
  (forall call, tolerated (uproject call) = true -> F (o_x (uproject call))) ->
  (forall phi x, tolerated (linesearch phi) = true -> o_x (linesearch phi) = [x] -> 0 <= x <= 1 /\ phi x <= phi 0) ->
  forall t k s s', F s -> steps_model uproject linesearch dv s t k = Some s' -> F s' /\ dv_cost dv s' <= dv_cost dv s.
Proof. exact steps_monotone. Qed.

(* ---- progress ---- *)
Theorem C19_descent_direction : forall (F : list R -> Prop) (s g z : list R) t, 0 < t -> length g = length s -> length z = length s ->
  F s -> (forall y, F y -> dot (vsub (vsub s (vscale t g)) z) (vsub y z) <= 0) ->
  dot g (vsub z s) <= - (dist2 z s / t).
Proof. exact descent_direction. Qed.
Theorem C19_small_steps_decrease : forall (cost : list R -> R) (s z g : list R), length z = length s ->
  has_gradient cost s g -> dot g (vsub z s) < 0 -> exists x, 0 < x <= 1 /\ cost (step_point s z x) < cost s.
Proof. exact strict_decrease_possible. Qed.
Theorem C19_strict_progress_with_exact_line_search : forall (F : list R -> Prop) (cost : list R -> R) (s g z : list R) t xs,
  0 < t -> length g = length s -> length z = length s -> F s ->
  (forall y, F y -> dot (vsub (vsub s (vscale t g)) z) (vsub y z) <= 0) ->
  has_gradient cost s g -> z <> s ->
  (forall x, 0 <= x <= 1 -> cost (step_point s z xs) <= cost (step_point s z x)) ->
  cost (step_point s z xs) < cost s.
Proof. exact strict_progress. Qed.

Example C19_example : step_point [1] [0] 1 = [0] /\ dot [2] (vsub [0] [1]) <= - (dist2 [0] [1] / (1 / 2)).
Proof. exact step_example. Qed.

(* ---- step() regenerated from device_kit/solve.py on every run (Gen/Solve.v: the gradient step with its sign, what the projection helper
        is given, the tolerated report (status 8) of both inner calls, the limited minimisation's objective and its bounds [(0, 1)], the final
        convex combination reshaped to the device shape) IS step_model, for EVERY behaviour of the two inner optimiser calls.  Any carrier. ---- *)
From DK.Model Require Import SolveOps.
From DK.Gen Require Import Solve.
From DK.Proofs Require Import GenStep.
Theorem C19_source_step : forall (A : Type) (NA : Num A) (uproject : projcall A -> optresult A) (linesearch : (A -> A) -> optresult A) dv s t,
  step_gen uproject (fun _ => linesearch) dv s t = step_model uproject linesearch dv s t.
Proof. intros A NA. exact (@gen_step A NA). Qed.
Theorem C19_source_line_search_is_asked_for_0_to_1 : forall (A : Type) (NA : Num A) (uproject : projcall A -> optresult A)
  (ls ls' : A * A -> (A -> A) -> optresult A) dv s t,
  (forall phi, ls (n0, n1) phi = ls' (n0, n1) phi) -> step_gen uproject ls dv s t = step_gen uproject ls' dv s t.
Proof. intros A NA. exact (@gen_step_linesearch_bounds A NA). Qed.
