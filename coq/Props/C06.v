(* C06 - Every supplied constraint Jacobian is the gradient of its constraint function.
   jac_exact c x := if c supplies a Jacobian J then  length (J x) = length x  and for every variable k the map
                    t |-> c_fun c (x with x_k := t) has derivative (J x)_k at x_k   (so entries are 0 for variables not read).
   Leaves (Proofs/C06Proofs.v), re-wrapping into a parent, coupling constraints, multi-flow adaptors and whole trees by
   induction on the tree (Proofs/C06Tree.v, over Model/Tree.v). Statements only. *)
From Coq Require Import ZArith Reals List Bool Lra Lia Arith String.
From Coquelicot Require Import Coquelicot.
From DK Require Import Num NumR Vec.
From DK.Model Require Import Leaf Fn Dev Tree.
From DK.Proofs Require Import RVec Calc C01Proofs C06Proofs C06Tree.
Import ListNotations.
Local Open Scope R_scope.

(* every constraint exported by an atomic device: cumulative bounds, storage state-of-charge (away from the charge/discharge kink),
   affine user constraints of an ADevice *)
Theorem C06_leaf : forall (d : leafdev R) x c, List.length x = ld_n d -> leaf_smooth d x -> In c (leaf_cons d) -> jac_exact c x.
Proof. exact leaf_cons_exact. Qed.

(* placing a child's constraint in the parent layout (rows o..o+r of Rw rows): still exact ... *)
Theorem C06_rewrap : forall Rw n o r (c : con R) (x : list R), (o + r <= Rw)%nat -> List.length x = (Rw * n)%nat ->
  jac_exact c (sub_flat Rw n o r x) -> jac_exact (rewrap Rw n o r c) x.
Proof. exact rewrap_exact. Qed.

(* ... and the padded Jacobian is the child's on the child's rows and exactly zero for every other variable *)
Theorem C06_rewrap_zero_elsewhere : forall Rw n o r (c : con R) J (x : list R) k, c_jac c = Some J ->
  List.length (J (sub_flat Rw n o r x)) = (r * n)%nat ->
  match c_jac (rewrap Rw n o r c) with
  | Some J' => nth k (J' x) 0 = if ((o * n <=? k) && (k <? (o + r) * n))%nat then nth (k - o * n) (J (sub_flat Rw n o r x)) 0 else 0
  | None => False
  end.
Proof. exact rewrap_jac_entries. Qed.

Theorem C06_aggregate_bounds : forall Rw n sb (x : list R) c, List.length x = (Rw * n)%nat -> In c (sb_cons Rw n sb) -> jac_exact c x.
Proof. exact sb_cons_exact. Qed.

Theorem C06_ratio : forall n r0 r1 is_eq (x : list R) c, List.length x = (2 * n)%nat ->
  In c (ratio_cons 2 n (r0, r1) is_eq) -> jac_exact c x.
Proof. exact ratio_cons_exact. Qed.

(* wrapped-device constraint evaluated on the slot-wise conduit total, Jacobian tiled once per conduit *)
Theorem C06_multiflow_wrap : forall k n (c : con R) (x : list R), (0 < n)%nat -> List.length x = (k * n)%nat ->
  jac_exact c (tot k n x) -> jac_exact (mf_wrap k n c) x.
Proof. exact mf_wrap_exact. Qed.

(* any tree: any depth and fan-out, children with different row counts, adaptors as children *)
Theorem C06_tree : forall n, (0 < n)%nat -> forall (d : gdev R (leafdev R)) x,
  wf n d -> List.length x = (rows std_ops d * n)%nat -> tsmooth n d x ->
  forall c, In c (tree_cons d) -> jac_exact c x.
Proof. exact tree_cons_exact_all. Qed.

(* non-vacuity: a two-leaf set of horizon 2 is well-formed and smooth at a flow of the right size *)
Example C06_example :
  let d := DSet "s" [Leaf "a" (Build_leafdev 2 [(0,1);(0,1)] [] KDev); Leaf "b" (Build_leafdev 2 [(0,1);(0,1)] [(0, 1, 0%nat, 2%nat)] KDev)] None in
  wf 2 d /\ tsmooth 2 d [0; 0; 0; 0] /\ List.length (tree_cons (A:=R) d) = 2%nat.
Proof. cbn. repeat split; discriminate. Qed.

(* ---- the constraint lists the source exports ARE these model lists, Jacobians included: Device / SDevice leaves, and every set /
        adaptor node of a tree (Gen/Constraints.v regenerated from the `constraints` properties on every run; Proofs/GenConstraints.v).
        A Jacobian lambda that leaves a loop variable free is translated with Python's late binding (the value of the last iteration),
        so such a slip changes the generated list and this equality no longer holds. ---- *)
From DK.Model Require Import ConOps.
From DK.Gen Require Import Constraints.
From DK.Proofs Require Import GenConstraints GenLeafConstraints.
Theorem C06_source_leaf_constraints_and_jacobians : forall (q : sparams R) n bnd cbs,
  Device_constraints n cbs = cb_cons n cbs /\ SDevice_constraints (Device_constraints n cbs) q n bnd = cb_cons n cbs ++ sdev_cons q n bnd.
Proof. intros q n bnd cbs. split; [apply gen_device_constraints|]. rewrite gen_sdevice_constraints, gen_device_constraints. reflexivity. Qed.
Theorem C06_source_set_node_constraints_and_jacobians : forall {L} (ops : leafops R L) i ks sb, let d := DSet i ks sb in
  DeviceSet_constraints (map (ckid_of ops) ks) (partition ops d) (rows ops d, dlen ops d) sb = gcons ops d.
Proof. intros L ops i ks sb. apply gen_set_node_constraints. Qed.
Theorem C06_source_adaptor_constraints_and_jacobians : forall {L} (ops : leafops R L) i l flows,
  let d := MF i l flows in let k := List.length flows in let n := l_n L ops l in
  MFDeviceSet_constraints (DeviceSet_constraints (repeat null_ckid k) (map (fun j => (j, 1%nat)) (seq 0 k)) (k, n) (Some (l_bounds L ops l)))
    (l_cons L ops l) (k, n) = gcons ops d.
Proof. intros L ops i l flows. apply gen_mf_node_constraints. Qed.

(* ---- utils.zmm regenerated from utils.py on every run (Gen/Utils.v: `r = np.zeros(x.shape)`, the `axis == 0 / axis == 1 / else raise`
        dispatch, the kept rows or column selected, `fn(i).reshape(i.shape) if fn else i` written back), in the two uses the exported
        Jacobians make of it: a child's Jacobian zero-padded onto its rows IS zpad, a slot's column vector IS col_jac - the two helpers
        the constraint model (and hence C06_tree) is written in. ---- *)
From DK.Model Require Import NpOps.
From DK.Gen Require Import Utils.
From DK.Proofs Require Import GenZmm.
Theorem C06_source_zmm : forall {A} `{Num A} (R n : nat) (s : list A), (0 < n)%nat -> (0 < R)%nat -> List.length s = (R * n)%nat ->
  (forall o r (jf : list A -> list A), (o + r <= R)%nat -> List.length (jf (sub_flat R n o r s)) = (r * n)%nat ->
     List.concat (zmm_rows_gen (reshape R n s) o r (Some (fun blk => jf (List.concat blk)))) = zpad R n o r (jf (sub_flat R n o r s)))
  /\ (forall i v, (i < n)%nat -> List.concat (zmm_col_gen (reshape R n s) i (Some (fun _ => v))) = col_jac R n i v).
Proof.
  intros A H R n s Hn HR Hs. split.
  - intros o r jf Hor Hj. now apply gen_zmm_rows.
  - intros i v Hi. now apply gen_zmm_col.
Qed.
