(* C16 - Serialisation round-trip preserves behaviour.
   Statements only; each is closed by the lemma of Proofs/C16Proofs.v it names.
   `signatures` (Gen/Signatures.v) is REGENERATED on every run from the __init__ signatures, the `_keys` construction and
   every `to_dict` body of /repo, so C16_table_ok is re-checked against the code as it is now.  An object is modelled
   by the keyword arguments it was built from; `norm` is the (arbitrary, idempotent) normalisation an attribute read applies
   to the supplied value - its idempotence per attribute is what the correspondence run measures on the implementation.
   Behavioural equality (cost / marginal cost / constraints) follows because those are functions of the fields. *)
From Coq Require Import String List Bool.
From DK.Gen Require Import Signatures.
From DK.Model Require Import Serial.
From DK.Proofs Require Import C16Proofs.
Import ListNotations.
Local Open Scope string_scope.

(* generic: under the static conditions sig_ok, rebuilding from the dump succeeds and every field is preserved *)
Theorem C16_roundtrip_lemma : forall (V : Type) (default : string -> V) (norm : string -> V -> V),
  (forall k v, norm k (norm k v) = norm k v) ->
  forall s a, sig_ok s = true -> accepted V s a ->
  let d := to_dict V default norm s a in
  accepted V s d /\ forall k, field V default norm d k = field V default norm a k.
Proof. exact roundtrip. Qed.

(* the finite table generated from the source satisfies the conditions (the domain is the table itself) *)
Theorem C16_table_ok : forallb sig_ok signatures = true.
Proof. exact table_ok. Qed.

Theorem C16_table_covers_the_shipped_classes : map cs_name signatures =
  ["Device"; "CDevice"; "CDevice2"; "IDevice"; "IDevice2"; "GDevice"; "PVDevice"; "SDevice"; "TDevice"; "ADevice"; "WindowDevice";
   "DeviceSet"; "SubBalancedDeviceSet"; "MFDeviceSet"; "TwoRatioMFDeviceSet"].
Proof. exact table_names. Qed.

(* hence: for every shipped class, every accepted keyword set (including extra keywords where the class takes them) *)
Theorem C16_roundtrip_every_class : forall (V : Type) (default : string -> V) (norm : string -> V -> V),
  (forall k v, norm k (norm k v) = norm k v) ->
  forall s, In s signatures -> forall a, accepted V s a ->
  accepted V s (to_dict V default norm s a) /\
  forall k, field V default norm (to_dict V default norm s a) k = field V default norm a k.
Proof. exact roundtrip_every_class. Qed.

(* the conditions separate good from bad: the two defects repaired earlier (TDevice omitted `c`, WindowDevice dumped `f`) fail them *)
Theorem C16_conditions_reject_the_repaired_defects :
  sig_ok sig_TDevice_without_c = false /\ sig_ok sig_WindowDevice_dumping_f = false.
Proof. exact old_defects_fail. Qed.

Example C16_example_accepted_call : accepted nat sig_TDevice
  [("id", 0); ("length", 3); ("bounds", 1); ("sustainment", 2); ("efficiency", 3); ("t_init", 4); ("t_optimal", 5); ("t_range", 6);
   ("t_external", 7); ("c", 8); ("extra", 9)].
Proof. exact example_accepted. Qed.
