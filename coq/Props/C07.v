(* C07 - Shipped device costs are convex over their bounds box.
   convex_on B F := forall x y l, B x -> B y -> 0 <= l <= 1 -> F (l x + (1-l) y) <= l F x + (1-l) F y   (lists of any length)
   in_box_R b x  := x has one entry per slot and every entry lies within that slot's bounds.
   The hypotheses on the parameters are the ranges the validators enforce (tied to the generated validators in C11/C10).
   Statements only; proofs in Proofs/C07Proofs.v and Proofs/Convex.v. *)
From Coq Require Import ZArith Reals List Lra Lia Arith.
From DK Require Import Num NumR Vec.
From DK.Gen Require Import Kernels.
From DK.Model Require Import Leaf Fn Dev.
From DK.Proofs Require Import RVec KernelR Calc C01Proofs Convex C07Proofs.
Import ListNotations.
Local Open Scope R_scope.

Theorem C07_device_and_pv : forall n b cb p,
  convex_on (in_box_R b) (fun s => leaf_cost (Build_leafdev n b cb KDev) s p) /\
  convex_on (in_box_R b) (fun s => leaf_cost (Build_leafdev n b cb KPV) s p).
Proof. exact convex_device. Qed.

Theorem C07_cdevice : forall n b cb a b0 p, convex_on (in_box_R b) (fun s => leaf_cost (Build_leafdev n b cb (KC a b0)) s p).
Proof. exact convex_cdevice. Qed.

Theorem C07_cdevice2_one_range : forall n b c pl ph p, pl <= ph -> cb_lo c <= cb_hi c ->
  convex_on (in_box_R b) (fun s => leaf_cost (Build_leafdev n b [c] (KC2 pl ph)) s p).
Proof. exact convex_cdevice2_single. Qed.

Theorem C07_idevice2 : forall n b cb pl ph p,
  (forall i, (i < length b)%nat -> pnth pl i <= pnth ph i /\ lo b i <= hi b i) ->
  convex_on (in_box_R b) (fun s => leaf_cost (Build_leafdev n b cb (KI2 pl ph)) s p).
Proof. exact convex_idevice2. Qed.

(* natural exponents (including the boundary value 1); a >= 0 and c >= 0 are what the validators enforce *)
Theorem C07_idevice_natural_exponent : forall n b cb a bp c p,
  (forall i, (i < length b)%nat -> (exists k, pnth bp i = Rnat k) /\ 0 <= pnth a i /\ 0 <= pnth c i /\ lo b i <= hi b i) ->
  convex_on (in_box_R b) (fun s => leaf_cost (Build_leafdev n b cb (KI a bp c)) s p).
Proof. exact convex_idevice. Qed.

(* generator: "polynomials restricted to convex ones" is the hypothesis, per slot, on the generated range *)
Theorem C07_gdevice : forall n b cb g p,
  (forall i, (i < length b)%nat -> sconvex_on (lo b i) (hi b i) (fun x => horner (A:=R) (gpoly g i) (- x))) ->
  convex_on (in_box_R b) (fun s => leaf_cost (Build_leafdev n b cb (KG g)) s p).
Proof. exact convex_gdevice. Qed.

(* storage: c2 <= c1 (the validator's intent), any c3 >= 0; proved for lossless storage. Lossy two-way storage (full statement:
   the same for every efficiency in (0,1]) needs the concave-composition argument and is covered by the chord oracle only. *)
Theorem C07_sdevice_lossless_partial : forall n b cb q p, sp_eff q = 1 -> 0 <= sp_c2 q <= sp_c1 q -> 0 <= sp_c3 q -> length b = n ->
  convex_on (in_box_R b) (fun s => leaf_cost (Build_leafdev n b cb (KS q)) s p).
Proof. exact convex_sdevice_lossless. Qed.

(* thermal: one-directional flow (or efficiency 1), heating or cooling, any sustainment and temperatures *)
Theorem C07_tdevice_one_directional : forall n b cb q p, one_directional (tp_eff q) b -> length (tp_ext q) = length b ->
  (forall i, 0 <= pnth (tp_c q) i) ->
  convex_on (in_box_R b) (fun s => leaf_cost (Build_leafdev n b cb (KT q)) s p).
Proof. exact convex_tdevice. Qed.

(* the scalar kernels regenerated from functions.py *)
Theorem C07_kernel_highlow_convex : forall pl ph xl xh lo hi, pl <= ph -> xl <= xh ->
  sconvex_on lo hi (fun t => hl_cost (A:=R) t pl ph xl xh).
Proof. exact sconvex_hl. Qed.
Theorem C07_kernel_abc_convex : forall a k c xl xh, 0 <= a -> 0 <= c -> xl <= xh ->
  sconvex_on xl xh (fun t => abc_cost (A:=R) t a (Rnat k) c xl xh).
Proof. exact sconvex_abc. Qed.
Theorem C07_tridiagonal_form_nonneg : forall c1 c2 r, 0 <= c2 <= c1 -> 0 <= Qf c1 c2 r.
Proof. exact Qf_nonneg. Qed.

(* marginal cost monotone (scalar high/low kernel), sub-level sets convex, local optimum is global *)
Theorem C07_highlow_marginal_monotone : forall pl ph xl xh u v, pl <= ph -> xl <= xh -> u <= v ->
  hl_deriv (A:=R) u pl ph xl xh <= hl_deriv (A:=R) v pl ph xl xh.
Proof. exact hl_deriv_monotone. Qed.
Theorem C07_sublevel_sets_convex : forall (B : list R -> Prop) F c, convex_on B F ->
  forall x y l, B x -> B y -> 0 <= l <= 1 -> F x <= c -> F y <= c -> F (vlerp l x y) <= c.
Proof. exact sublevel_convex. Qed.
Theorem C07_local_optimum_is_global : forall (B : list R -> Prop) F x y, convex_on B F -> B x -> B y -> F y < F x ->
  forall t, 0 < t <= 1 -> F (vlerp (1 - t) x y) < F x.
Proof. exact local_is_global. Qed.

(* the two parameter corners the validators admit where the statement is FALSE (open findings, see known_findings.json) *)
Theorem C07_sdevice_c1_zero_refuted :
  exists (q : sparams R) (x y : list R) (l : R),
    sp_c1 q = 0 /\ sp_c2 q = 1 /\ sp_c3 q = 0 /\ 0 <= l <= 1 /\ in_box_R [(-2, 2); (-2, 2)] x /\ in_box_R [(-2, 2); (-2, 2)] y /\
    sdev_cost q (vlerp l x y) [0; 0] > l * sdev_cost q x [0; 0] + (1 - l) * sdev_cost q y [0; 0].
Proof. exact sdevice_c1_zero_not_convex. Qed.
Theorem C07_idevice_exponent_half_refuted :
  exists (x y l : R), 0 <= x <= 2 /\ 0 <= y <= 2 /\ 0 <= l <= 1 /\
    abc_cost (A:=R) (l * x + (1 - l) * y) 0 (1 / 2) 1 0 2 > l * abc_cost (A:=R) x 0 (1 / 2) 1 0 2 + (1 - l) * abc_cost (A:=R) y 0 (1 / 2) 1 0 2.
Proof. exact idevice_b_half_not_convex. Qed.

Example C07_box_example : in_box_R [(0, 2); (1, 1)] [1; 1] /\ one_directional 2 [(0, 2); (1, 1)].
Proof.
  split.
  - split; [reflexivity|]. intros i Hi. simpl in Hi. destruct i as [|[|j]]; unfold lo, hi; simpl; try lra; lia.
  - right; left. intros i Hi. simpl in Hi. destruct i as [|[|j]]; unfold lo; simpl; try lra; lia.
Qed.

(* ==== several cumulative ranges (Proofs/RangesProofs.v) ================================================================ *)
From DK.Proofs Require Import RangesProofs.

(* CDevice2 with any list of cumulative ranges: a sum of convex kernels of range totals (generalises C07_cdevice2_one_range) *)
Theorem C07_cdevice2_any_ranges : forall n b cbs pl ph p, pl <= ph -> (forall c, In c cbs -> cb_lo c <= cb_hi c) ->
  convex_on (in_box_R b) (fun s => leaf_cost (Build_leafdev n b cbs (KC2 pl ph)) s p).
Proof. exact convex_cdevice2_multi. Qed.
Theorem C07_sum_of_convex_is_convex : forall (T : Type) (B : list R -> Prop) (Fc : T -> list R -> R) (cs : list T),
  (forall c, In c cs -> convex_on B (Fc c)) -> convex_on B (fun y => vsum (map (fun c => Fc c y) cs)).
Proof. exact @convex_vsum_map. Qed.
Theorem C07_range_total_is_affine : forall l (x y : list R) s e, length x = length y ->
  slice s e (vlerp l x y) = vlerp l (slice s e x) (slice s e y).
Proof. exact slice_vlerp. Qed.

(* ==== lossy two-way storage (Proofs/StorageProofs.v): the full statement announced above C07_sdevice_lossless_partial ======
   any efficiency in (0,1], sustainment >= 0, c2 <= c1, c3 >= 0, bounds of either sign. The charged amount r*e^sign(r) equals
   min(e r, r/e), which is concave; the state of charge is a non-negative combination of such terms; (min(u - D,0))^2 is
   convex and non-increasing in u, so its composition with the state of charge is convex. *)
From DK.Proofs Require Import StorageProofs.

Theorem C07_sdevice : forall n b cb q p, 0 < sp_eff q <= 1 -> 0 <= sp_sus q -> 0 <= sp_c2 q <= sp_c1 q -> 0 <= sp_c3 q -> length b = n ->
  convex_on (in_box_R b) (fun s => leaf_cost (Build_leafdev n b cb (KS q)) s p).
Proof. exact convex_sdevice_lossy. Qed.

Theorem C07_charged_amount_is_min_of_two_lines : forall e v, 0 < e <= 1 -> psi e v = Rmin (e * v) (v / e).
Proof. exact psi_min. Qed.
Theorem C07_charged_amount_concave : forall e u v l, 0 < e <= 1 -> 0 <= l <= 1 ->
  l * psi e u + (1 - l) * psi e v <= psi e (l * u + (1 - l) * v).
Proof. exact psi_concave. Qed.
Theorem C07_state_of_charge_concave : forall q l (x y : list R) i, 0 < sp_eff q <= 1 -> 0 <= sp_sus q -> 0 <= l <= 1 ->
  length x = length y -> (i < length x)%nat ->
  l * nth i (sdev_charge q x) 0 + (1 - l) * nth i (sdev_charge q y) 0 <= nth i (sdev_charge q (vlerp l x y)) 0.
Proof. exact sdev_charge_concave. Qed.
Theorem C07_deep_discharge_kernel_nonincreasing : forall D u v, u <= v -> msq D v <= msq D u.
Proof. exact msq_antitone. Qed.

Example C07_sdevice_example : 0 < sp_eff ex_q <= 1 /\ 0 <= sp_sus ex_q /\ 0 <= sp_c2 ex_q <= sp_c1 ex_q /\ 0 <= sp_c3 ex_q.
Proof. exact example_lossy_params. Qed.

(* ---- tie T: the parameter hypotheses above follow from the validators regenerated from /repo's setters (Gen/Validators.v) ---- *)
From DK.Gen Require Import Validators.
From DK.Model Require Import PyVal.
From DK.Proofs Require Import C07Validators.

Theorem C07_idevice2_under_its_validators : forall n b cb pl ph p, List.length b = n ->
  (forall i, (i < n)%nat -> lo b i <= hi b i) ->
  (IDevice2_validate_param_accepts (A:=R) n pl = true /\ IDevice2_p_h_accepts (A:=R) n pl ph = true) \/
  (IDevice2_validate_param_accepts (A:=R) n ph = true /\ IDevice2_p_l_accepts (A:=R) n ph pl = true) ->
  convex_on (in_box_R b) (fun s => leaf_cost (Build_leafdev n b cb (KI2 pl ph)) s p).
Proof. exact convex_idevice2_validated. Qed.

Theorem C07_cdevice2_validator_orders_slopes : forall n pl ph,
  CDevice2_p_h_accepts (A:=R) n (PS pl) (PS ph) = true \/ CDevice2_p_l_accepts (A:=R) n (PS ph) (PS pl) = true -> pl <= ph.
Proof. exact cdevice2_slopes_ordered. Qed.

Theorem C07_idevice_under_its_validators : forall n b cb a bp c p, List.length b = n ->
  (forall i, (i < n)%nat -> lo b i <= hi b i) ->
  IDevice_a_accepts (A:=R) n a = true -> IDevice_c_accepts (A:=R) n c = true ->
  (forall i, (i < n)%nat -> exists k, pnth bp i = Rnat k) ->
  convex_on (in_box_R b) (fun s => leaf_cost (Build_leafdev n b cb (KI a bp c)) s p).
Proof. exact convex_idevice_validated. Qed.

(* storage: the c2 setter enforces c2 <= c1 whenever c1 > 0 (c1 = 0 < c2 is the open finding), the c1 setter c1 >= c2 *)
Theorem C07_sdevice_c2_validator : forall c1 c2, SDevice_c2_accepts (A:=R) c1 c2 = true -> 0 < c1 -> 0 <= c2 <= c1.
Proof. exact sdevice_c2_le_c1. Qed.
Theorem C07_sdevice_c1_validator : forall c1 c2, SDevice_c1_accepts (A:=R) c2 c1 = true -> 0 <= c2 -> 0 <= c2 <= c1 /\ 0 <= c1.
Proof. exact sdevice_c1_ge_c2. Qed.

Theorem C07_tdevice_constructor_guards : forall n s e tr text c,
  TDevice_init_accepts (A:=R) n s e tr text c = true ->
  List.length text = n /\ (forall i, (i < n)%nat -> 0 <= pnth c i) /\ 0 <= s <= 1 /\ e <> 0 /\ 0 <= tr.
Proof. exact tdevice_init_facts. Qed.

(* ---- "its marginal cost is monotone along every segment" (Proofs/Total.v, Proofs/TotalConvex.v; any length) ----
   dir_at F g x: the total derivative of F at x is <g, .> (C01_partials_and_continuity_give_the_total_derivative). *)
From DK.Proofs Require Import Total TotalLeaf TotalConvex.

Theorem C07_marginal_cost_monotone : forall (B : list R -> Prop) (F : list R -> R) (x y gx gy : list R),
  convex_on B F -> B x -> B y -> List.length y = List.length x -> List.length gx = List.length x -> List.length gy = List.length x ->
  dir_at F gx x -> dir_at F gy y -> 0 <= dot (vsub gy gx) (vsub y x).
Proof. exact convex_gradient_monotone. Qed.

Theorem C07_marginal_cost_monotone_along_segment : forall (B : list R -> Prop) (F : list R -> R) (G : list R -> list R) (x y : list R),
  convex_on B F -> List.length y = List.length x ->
  (forall t, 0 <= t <= 1 -> B (seg x y t) /\ List.length (G (seg x y t)) = List.length x /\ dir_at F (G (seg x y t)) (seg x y t)) ->
  forall t1 t2, 0 <= t1 <= t2 -> t2 <= 1 ->
  dot (G (seg x y t1)) (vsub y x) <= dot (G (seg x y t2)) (vsub y x).
Proof. exact convex_marginal_monotone_along_segment. Qed.

(* instance: every class with an everywhere continuous marginal cost (Device, PV, CDevice, one-range CDevice2, IDevice with
   natural exponents, IDevice2, GDevice), given the convexity the theorems above establish for it *)
Theorem C07_smooth_classes_marginal_cost_monotone : forall n b cb k (p x y : list R), List.length p = n -> List.length b = n ->
  smooth_kind k cb n ->
  convex_on (in_box_R b) (fun s => leaf_cost (Build_leafdev n b cb k) s p) -> in_box_R b x -> in_box_R b y ->
  0 <= dot (vsub (leaf_deriv (Build_leafdev n b cb k) y p) (leaf_deriv (Build_leafdev n b cb k) x p)) (vsub y x).
Proof. exact smooth_convex_class_monotone. Qed.

(* ---- IDevice with ANY real exponent b >= 1 (the executable instance and C07_idevice_natural_exponent cover integers): the power
   curve c * q ** b is convex where the scaled flow q stays positive, i.e. for a > 0 (q falls from 1 to a).  A differentiable
   function with non-decreasing derivative on an interval is convex there; u ** e has derivative e * u ** (e - 1).
   Not covered (full statement for the record): a = 0 with a non-integer exponent - there q reaches 0 on the upper bound, where the
   real-number model of x ** b (Rpower, ln 0 := 0) does not describe the floating-point 0.0 ** b; exponents in (0,1) are the
   open finding idevice-b-below-one.  Proofs/RealConvex.v. ---- *)
From Coquelicot Require Import Coquelicot.
From DK.Proofs Require Import RealConvex.
Theorem C07_nondecreasing_derivative_means_convex : forall (f f' : R -> R) (lo hi : R),
  (forall u, lo <= u <= hi -> is_derive f u (f' u)) -> (forall u v, lo <= u -> u <= v -> v <= hi -> f' u <= f' v) -> sconvex_on lo hi f.
Proof. exact sconvex_of_monotone_derivative. Qed.
Theorem C07_real_power_convex_on_positive_reals : forall e lo hi, 1 <= e -> 0 < lo -> sconvex_on lo hi (fun t => Rpw t e).
Proof. exact sconvex_Rpw. Qed.
Theorem C07_kernel_abc_convex_any_real_exponent : forall a b c xl xh, 0 < a -> 0 <= c -> 1 <= b -> xl <= xh ->
  sconvex_on xl xh (fun t => abc_cost (A:=R) t a b c xl xh).
Proof. exact sconvex_abc_real. Qed.
Theorem C07_idevice_any_real_exponent_partial : forall n b cb a bp c p,
  (forall i, (i < List.length b)%nat ->
     ((exists k, pnth bp i = Rnat k) /\ 0 <= pnth a i \/ 1 <= pnth bp i /\ 0 < pnth a i) /\ 0 <= pnth c i /\ lo b i <= hi b i) ->
  convex_on (in_box_R b) (fun s => leaf_cost (Build_leafdev n b cb (KI a bp c)) s p).
Proof. exact convex_idevice_real. Qed.

(* ==== the "consequently" clause: convexity of the documented feasible set (which C03 proves to be the exported one) ==============
   Affine constraints - per-slot bounds, cumulative bounds, user constraints, lossless storage with or without rate clipping - give a
   convex feasible set, so a local optimum of a convex cost is global there.  A LOSSY two-way storage does not: its state of charge
   is concave in the flow (C07_state_of_charge_concave) and "state of charge <= capacity" is then not a convex condition; refuted by
   an exact witness (open finding sdevice-lossy-feasible-set-nonconvex). Proofs/FeasConvex.v ==== *)
From DK.Model Require Import FeasSpec.
From DK.Proofs Require Import FeasConvex.
Theorem C07_feasible_set_convex_when_constraints_affine : forall (d : leafdev R) n,
  (match ld_kind d with KS q => sp_eff q = 1 /\ 0 < sp_capacity q | _ => True end) ->
  forall x y l, List.length x = n -> List.length y = n -> leaf_feasible_spec d x -> leaf_feasible_spec d y -> 0 <= l <= 1 ->
    leaf_feasible_spec d (vlerp l x y).
Proof. exact leaf_feasible_set_convex. Qed.
Theorem C07_local_optimum_global_on_the_feasible_set : forall n (B : list R -> Prop) (F : list R -> R),
  convex_set n B -> convex_on (fun x => List.length x = n /\ B x) F ->
  forall x y, List.length x = n -> List.length y = n -> B x -> B y -> F y < F x ->
  forall l, 0 <= l < 1 -> B (vlerp l x y) /\ F (vlerp l x y) < F x.
Proof. exact local_optimum_global_on_feasible_set. Qed.
Theorem C07_lossy_storage_feasible_set_refuted :
  leaf_accepted lossy_dev /\
  leaf_feasible_spec lossy_dev [2; 0] /\ leaf_feasible_spec lossy_dev [-1; 6] /\
  ~ leaf_feasible_spec lossy_dev (vlerp (1 / 2) [2; 0] [-1; 6]).
Proof. exact lossy_storage_feasible_set_not_convex. Qed.
