(* C17 - The multi-flow adaptor is a pure re-expression of the wrapped device.
   Statements only; each is closed by the lemma of Proofs/C17Proofs.v it names. Over R.

   mf_cost / mf_deriv / mf_cons / mf_project / conduit_bounds (Model/Tree.v) mirror mfdeviceset.py and are tied to
   /repo by the correspondence run of ./check C17, in which the wrapped device's behaviour is the implementation's own
   standalone device (tie O). Here the wrapped device `l` is ABSTRACT: any leaf type L, any behaviours `ops`
   (cost, deriv, bounds, constraints are unconstrained functions), any number k of conduits, any horizon.

   S : the k x n conduit flow matrix; colsum n S : the slot-wise sum of the conduit flows. *)
From Coq Require Import ZArith Reals List Bool Arith String.
From DK Require Import Num NumR Vec.
From DK.Model Require Import Leaf Fn Dev Tree.
From DK.Proofs Require Import C03Proofs C04Proofs C17Proofs.
Import ListNotations.
Local Open Scope R_scope.
#[local] Arguments l_n {A L}. #[local] Arguments l_bounds {A L}. #[local] Arguments l_cost {A L}.
#[local] Arguments l_deriv {A L}. #[local] Arguments l_cons {A L}.

(* cost: at zero price exactly the wrapped device's cost of the slot totals; a price adds <S,P> *)
Theorem C17_cost_at_zero_price_is_device_cost_of_totals : forall {L} (ops : leafops R L) l k S,
  mf_cost ops l S (repeat (zeros (l_n ops l)) k) = l_cost ops l (colsum (l_n ops l) S) (zeros (l_n ops l)).
Proof. intros L ops l k S. exact (mf_cost_zero_price ops l k S). Qed.

Theorem C17_cost_at_any_price : forall {L} (ops : leafops R L) l S P,
  mf_cost ops l S P = l_cost ops l (colsum (l_n ops l) S) (zeros (l_n ops l)) + vsum (map2 dot S P).
Proof. intros L ops l S P. exact (mf_cost_any_price ops l S P). Qed.

(* marginal cost: the wrapped device's marginal cost of the totals, once per conduit (plus that conduit's price row) *)
Theorem C17_deriv_is_device_deriv_repeated_per_conduit : forall {L} (ops : leafops R L) l k S P j,
  (j < k)%nat -> (j < List.length P)%nat ->
  nth j (mf_deriv ops l k S P) [] = vadd (l_deriv ops l (colsum (l_n ops l) S) (zeros (l_n ops l))) (nth j P []).
Proof. intros L ops l k S P j. exact (mf_deriv_rows ops l k S P j). Qed.

Theorem C17_deriv_at_zero_price : forall {L} (ops : leafops R L) l k S,
  List.length (l_deriv ops l (colsum (l_n ops l) S) (zeros (l_n ops l))) = l_n ops l ->
  mf_deriv ops l k S (repeat (zeros (l_n ops l)) k) = repeat (l_deriv ops l (colsum (l_n ops l) S) (zeros (l_n ops l))) k.
Proof. intros L ops l k S. exact (mf_deriv_zero_price ops l k S). Qed.

(* feasibility: conduit bounds + exported constraints hold iff every conduit flow has the device's direction and the
   slot totals satisfy the wrapped device's bounds and constraints *)
Theorem C17_feasible_iff_direction_and_total_feasible : forall {L} (ops : leafops R L) l k S,
  one_directional ops l -> shaped_kn ops l k S -> (0 < l_n ops l)%nat ->
  mf_feasible ops l k S <-> direction_ok ops l k S /\ dev_feasible ops l (colsum (l_n ops l) S).
Proof. intros L ops l k S. exact (feasible_iff ops l k S). Qed.

(* the attainable costs coincide: every feasible conduit matrix costs what its (feasible) total costs the device, and
   every feasible device flow is attained by a feasible conduit matrix (all of it in the first conduit) *)
Theorem C17_same_attainable_costs : forall {L} (ops : leafops R L) l k,
  one_directional ops l -> (1 <= k)%nat -> (0 < l_n ops l)%nat ->
  (forall S, shaped_kn ops l k S -> mf_feasible ops l k S ->
     dev_feasible ops l (colsum (l_n ops l) S) /\
     mf_cost ops l S (repeat (zeros (l_n ops l)) k) = l_cost ops l (colsum (l_n ops l) S) (zeros (l_n ops l))) /\
  (forall t, List.length t = l_n ops l -> dev_feasible ops l t ->
     shaped_kn ops l k (first_conduit ops l k t) /\ mf_feasible ops l k (first_conduit ops l k t) /\
     mf_cost ops l (first_conduit ops l k t) (repeat (zeros (l_n ops l)) k) = l_cost ops l t (zeros (l_n ops l))).
Proof. intros L ops l k. exact (same_attainable_costs ops l k). Qed.

(* hence the minimum attainable cost is unchanged: both problems have the same lower bounds *)
Theorem C17_minimum_unchanged : forall {L} (ops : leafops R L) l k,
  one_directional ops l -> (1 <= k)%nat -> (0 < l_n ops l)%nat -> forall m,
  (forall S, shaped_kn ops l k S -> mf_feasible ops l k S -> m <= mf_cost ops l S (repeat (zeros (l_n ops l)) k)) <->
  (forall t, List.length t = l_n ops l -> dev_feasible ops l t -> m <= l_cost ops l t (zeros (l_n ops l))).
Proof. intros L ops l k. exact (same_lower_bounds ops l k). Qed.

(* projection: the slot totals of the adaptor's projection are the device's (box) projection of the slot totals; totals
   already within the device's bounds are kept *)
Theorem C17_projection_totals : forall {L} (ops : leafops R L) l k S,
  (1 <= k)%nat -> List.length (colsum (l_n ops l) S) = l_n ops l ->
  colsum (l_n ops l) (mf_project ops l k S) = clamp (l_bounds ops l) (colsum (l_n ops l) S).
Proof. intros L ops l k S. exact (project_totals ops l k S). Qed.

Theorem C17_projection_keeps_in_bounds_totals : forall {L} (ops : leafops R L) l k S,
  (1 <= k)%nat -> List.length (colsum (l_n ops l) S) = l_n ops l ->
  (forall i, (i < l_n ops l)%nat -> lo (l_bounds ops l) i <= nth i (colsum (l_n ops l) S) 0 <= hi (l_bounds ops l) i) ->
  colsum (l_n ops l) (mf_project ops l k S) = colsum (l_n ops l) S.
Proof. intros L ops l k S. exact (project_keeps_totals ops l k S). Qed.

(* non-vacuity: a concrete one-directional device *)
Example C17_example_one_directional : one_directional (std_ops (A:=R)) (Build_leafdev 2 [(0, 2); (1, 3)] [] KDev).
Proof. exact example_one_directional. Qed.

(* ---- the adaptor as regenerated from device_kit/mfdeviceset.py on every run (Gen/MFDeviceSet.v, translator/mfdeviceset_tx.py: cost /
        deriv / hess / project over an ABSTRACT wrapped device, self.shape being the inherited DeviceSet.shape over the conduit
        devices; the constructor's ValueError guards and the bounds it gives every conduit) IS the adaptor model (mf_cost, mf_deriv,
        mf_project, conduit_bounds) the theorems above are about.  Any carrier, any wrapped device, any number of conduits. ---- *)
From DK.Model Require Import SetOps.
From DK.Gen Require Import DeviceSet MFDeviceSet.
From DK.Proofs Require Import GenMFDeviceSet.
Theorem C17_source_adaptor_cost_deriv_hess_project : forall {A} `{Num A} {L} (ops : leafops A L) i l flows s p,
  let d := MF i l flows in let n := l_n ops l in
  MFDeviceSet_cost (wdev_of ops l) (conduits_of ops l flows) n s p = gcost ops d (shaped ops d s) (prices ops d p) /\
  MFDeviceSet_deriv (wdev_of ops l) (conduits_of ops l flows) n s p = gderiv ops d (shaped ops d s) (prices ops d p) /\
  MFDeviceSet_hess (wdev_of ops l) (conduits_of ops l flows) n s p = ghess ops d (shaped ops d s) /\
  MFDeviceSet_project (wdev_of ops l) (conduits_of ops l flows) n s = gproject ops d (shaped ops d s).
Proof.
  intros A H L ops i l flows s p. repeat split;
    [apply gen_mf_cost | apply gen_mf_deriv | apply gen_mf_hess | apply gen_mf_project].
Qed.
Theorem C17_source_adaptor_shape : forall {A} `{Num A} {L} (ops : leafops A L) l (flows : list string),
  DeviceSet_shape (conduits_of ops l flows) (l_n ops l) = (List.length flows, l_n ops l).
Proof. intros A H L ops l flows. apply conduits_shape. Qed.
Theorem C17_source_conduit_bounds : forall {A} `{Num A} (b : list (A * A)),
  MFDeviceSet_conduit_bounds (map fst b) (map snd b) = conduit_bounds b.
Proof. intros A H b. apply gen_mf_conduit_bounds. Qed.
Theorem C17_source_constructor_rejects : forall {A} `{Num A} (k : nat) (b : list (A * A)),
  MFDeviceSet_init_rejects k (map fst b) (map snd b) =
  (Nat.eqb k 0 || (existsb (fun lh => nltb (fst lh) n0) b && existsb (fun lh => nltb n0 (snd lh)) b)).
Proof. intros A H k b. unfold MFDeviceSet_init_rejects. rewrite existsb_map_fst. f_equal. f_equal. induction b as [|x b IH]; cbn; [reflexivity | now rewrite IH]. Qed.
