(* C13 - Row labelling: map() pairs each flow row with the leaf that owns it.
   Statements only; each is closed by the lemma of Proofs/C13Proofs.v it names. Everything here is structural
   (strings, lists, trees), for an arbitrary carrier A, arbitrary leaf type L and behaviours `ops` (only
   `l_rows = 1`, i.e. atomic leaves occupy one row, is assumed) and trees of any depth / fan-out (structural induction).

   leaves / labels / map_rows / get_in / find_..._in (Model/Tree.v) mirror BaseDevice.leaf_devices / map / mapDevices /
   get / find and are tied to /repo by the correspondence run of ./check C13.
   upaths ops p o d : the units (plain leaves, adaptors) of d in row order, each with the absolute offset of its first
   row and the dot-joined path built on the way down; forgetting the paths gives exactly `units_from` of C02, i.e. the
   offsets at which (C02) the unit's cost, bounds and constraints read the flow matrix. *)
From Coq Require Import ZArith List Bool Arith String.
From Coq Require Import QArith.
From DK Require Import Num NumQ Vec.
From DK.Model Require Import Leaf Fn Dev Tree.
From DK.Proofs Require Import C02Proofs C13Proofs.
Import ListNotations.
Local Open Scope string_scope.
Local Close Scope Q_scope.
#[local] Arguments l_rows {A L}.

Theorem C13_one_entry_per_row : forall {A} `{Num A} {L} (ops : leafops A L), (forall l, l_rows ops l = 1) ->
  forall d : gdev A L, List.length (leaves ops d) = rows ops d.
Proof. intros A H L ops H1 d. exact (leaves_count ops H1 d (dev_id d)). Qed.

(* the offsets used below are the ones of C02 *)
Theorem C13_offsets_are_the_row_offsets_of_C02 : forall {A} `{Num A} {L} (ops : leafops A L) (d : gdev A L),
  map (fun x => (fst (fst x), snd x)) (upaths ops (dev_id d) 0 d) = units_from ops 0 d.
Proof. intros A H L ops d. exact (upaths_units ops d (dev_id d) 0). Qed.

(* entry o of the leaf list is (path, leaf) for the leaf whose row is o; a multi-flow adaptor starting at row o
   contributes one labelled conduit per row o + j *)
Theorem C13_entry_of_a_leaf_is_at_its_own_row : forall {A} `{Num A} {L} (ops : leafops A L), (forall l, l_rows ops l = 1) ->
  forall (d : gdev A L) o p i l, In (o, p, Leaf i l) (upaths ops (dev_id d) 0 d) -> nth_error (leaves ops d) o = Some (p, l).
Proof. intros A H L ops H1. exact (leaf_label_at_its_row ops H1). Qed.

Theorem C13_adaptor_contributes_one_labelled_row_per_conduit : forall {A} `{Num A} {L} (ops : leafops A L), (forall l, l_rows ops l = 1) ->
  forall (d : gdev A L) o p i l fl j f, In (o, p, MF i l fl) (upaths ops (dev_id d) 0 d) -> nth_error fl j = Some f ->
  nth_error (leaves ops d) (o + j) = Some (dotjoin p f, conduit ops l).
Proof. intros A H L ops H1. exact (conduit_label_at_its_row ops H1). Qed.

Theorem C13_two_ratio_adaptor_contributes_one_labelled_row_per_conduit : forall {A} `{Num A} {L} (ops : leafops A L), (forall l, l_rows ops l = 1) ->
  forall (d : gdev A L) o p i l fl r e j f, In (o, p, TwoRatio i l fl r e) (upaths ops (dev_id d) 0 d) -> nth_error fl j = Some f ->
  nth_error (leaves ops d) (o + j) = Some (dotjoin p f, conduit ops l).
Proof. intros A H L ops H1. exact (conduit_label_at_its_row2 ops H1). Qed.

(* the label is the root id followed by the dot-joined ids of the nodes on the way down to the unit *)
Theorem C13_label_is_the_dot_joined_path : forall {A} `{Num A} {L} (ops : leafops A L) (d : gdev A L) o q u,
  In (o, q, u) (upaths ops (dev_id d) 0 d) -> exists ids, reaches d ids u /\ q = join_path (dev_id d) ids.
Proof. intros A H L ops d o q u. exact (upaths_paths ops d (dev_id d) 0 o q u). Qed.

(* map(s) / mapDevices(s): the label (and leaf) of row o is paired with row o of the flow matrix *)
Theorem C13_map_pairs_label_with_owner_row : forall {A} `{Num A} {L} (ops : leafops A L), (forall l, l_rows ops l = 1) ->
  forall (d : gdev A L) S o p i l s, In (o, p, Leaf i l) (upaths ops (dev_id d) 0 d) -> nth_error S o = Some s ->
  nth_error (map_rows ops d S) o = Some (p, s) /\ nth_error (map_devices ops d S) o = Some (p, l, s).
Proof. intros A H L ops H1. exact (map_rows_pairs_owner_row ops H1). Qed.

Theorem C13_map_returns_every_label_and_every_row_once : forall {A} `{Num A} {L} (ops : leafops A L), (forall l, l_rows ops l = 1) ->
  forall (d : gdev A L) S, List.length S = rows ops d ->
  List.length (map_rows ops d S) = rows ops d /\ map fst (map_rows ops d S) = labels ops d /\ map snd (map_rows ops d S) = S.
Proof. intros A H L ops H1. exact (map_rows_length ops H1). Qed.

Theorem C13_map_of_flat_flow_equals_map_of_shaped_flow : forall {A} `{Num A} {L} (ops : leafops A L) (d : gdev A L) S,
  0 < dlen ops d -> well_shaped (rows ops d) (dlen ops d) S -> map_rows_flat ops d (List.concat S) = map_rows ops d S.
Proof. intros A H L ops. exact (map_flat_is_map_shaped ops). Qed.

(* lookup. Two siblings with one id make two leaves share a qualified id and lookup ambiguous by construction
   (dict(...) keeps the last one): the statements carry NoDup and say so. find() takes any regular expression; the
   model covers a literal prefix and '.*suffix$'. *)
Theorem C13_get_returns_the_first_leaf_whose_label_ends_with_name : forall {A} `{Num A} {L} (ops : leafops A L) (d : gdev A L) name,
  NoDup (labels ops d) ->
  get ops d name = hd_error (map snd (filter (fun kv => ends_with (fst kv) name) (leaves ops d))).
Proof. intros A H L ops d name. exact (get_unique (leaves ops d) name). Qed.

Theorem C13_find_suffix_returns_exactly_the_matching_leaves : forall {A} `{Num A} {L} (ops : leafops A L) (d : gdev A L) suf,
  NoDup (labels ops d) ->
  find_suffix ops d suf = map snd (filter (fun kv => ends_with (fst kv) suf) (leaves ops d)).
Proof. intros A H L ops d suf. exact (find_suffix_unique (leaves ops d) suf). Qed.

Theorem C13_find_prefix_returns_exactly_the_matching_leaves : forall {A} `{Num A} {L} (ops : leafops A L) (d : gdev A L) pre,
  NoDup (labels ops d) ->
  find_prefix ops d pre = map snd (filter (fun kv => starts_with (fst kv) pre) (leaves ops d)).
Proof. intros A H L ops d pre. exact (find_prefix_unique (leaves ops d) pre). Qed.

(* dict(items) commutes with relabelling the values: looking up row positions (what the correspondence compares with
   the identity of the objects the implementation returns) is the same lookup as looking up the leaves *)
Theorem C13_lookup_of_positions_is_lookup_of_leaves : forall {V W} (g : V -> W) (items : list (string * V)),
  as_dict (map (fun kv => (fst kv, g (snd kv))) items) = map (fun kv => (fst kv, g (snd kv))) (as_dict items).
Proof. intros V W. exact as_dict_map. Qed.

Example C13_example_suffix_and_prefix_tests :
  ends_with "root.in.m.e" "m.e" = true /\ ends_with "root.in.m.e" "h" = false /\ starts_with "root.in.m.e" "root.in" = true.
Proof. exact ends_with_example. Qed.

(* non-vacuity: the tree of C02's example has five rows labelled in depth-first order *)
Example C13_example_labels : labels (A:=Q) std_ops
    (DSet "root" [ Leaf "a" (Build_leafdev 2 [] [] KDev);
                   DSet "in" [ Leaf "b" (Build_leafdev 2 [] [] KDev); MF "m" (Build_leafdev 2 [] [] KDev) ["e"; "h"] ] None;
                   Leaf "c" (Build_leafdev 2 [] [] KPV) ] None)
  = ["root.a"; "root.in.b"; "root.in.m.e"; "root.in.m.h"; "root.c"].
Proof. reflexivity. Qed.

(* ---- BaseDevice.leaf_devices / map / mapDevices / get / find regenerated from device_kit/basedevice.py on every run (Gen/BaseDevice.v,
        translator/basedevice_tx.py): the recursive generator with its label expression `fqid + s + sub_device.id`, the `try/except` that
        tells composites from leaves by iterability, the accumulation loop; `enumerate(self.leaf_devices())` with the row slice `s[i:i+1, :]`;
        the scans over `dict(self.leaf_devices()).items()` with `k.endswith(name)` / `re.match(regexp, k)` and the `[0]`.  The labelling
        code sees a tree as an `itree` (embed: a leaf is not iterable, a set iterates over its children, an adaptor over its conduit devices).
        With fuel above the depth of the tree the generated walk IS `leaves`; map / mapDevices pair entry i with row i; get / find are the
        model's dictionary scans (find: for a matcher that agrees with the literal-suffix / literal-prefix tests of the model). ---- *)
From DK.Model Require Import LabelOps.
From DK.Gen Require Import BaseDevice.
From DK.Proofs Require Import GenBaseDevice.
Theorem C13_source_leaf_devices : forall {A} `{Num A} {L} (ops : leafops A L) (d : gdev A L) fuel, (gdepth d < fuel)%nat ->
  strip (leaf_devices_gen fuel (embed ops d)) = some_leaves (leaves ops d).
Proof. intros A H L ops d fuel. apply gen_leaf_devices. Qed.
Theorem C13_source_map : forall {A} `{Num A} {L} (ops : leafops A L) (d : gdev A L) (s : list A),
  List.length (leaves ops d) = List.length (reshape (rows ops d) (dlen ops d) s) ->
  map_gen (leaves ops d) (rows ops d, dlen ops d) s = map_rows_flat ops d s
  /\ mapDevices_gen (leaves ops d) (rows ops d, dlen ops d) s = map_devices ops d (reshape (rows ops d) (dlen ops d) s).
Proof.
  intros A H L ops d s Hl. split.
  - rewrite (gen_map (leaves ops d) (rows ops d, dlen ops d) s Hl). reflexivity.
  - exact (gen_mapDevices (leaves ops d) (rows ops d, dlen ops d) s Hl).
Qed.
Theorem C13_source_get_find : forall {A} `{Num A} {L} (ops : leafops A L) (d : gdev A L) (rematch : string -> string -> bool) name regexp,
  get_gen (leaves ops d) name = get ops d name
  /\ (forall suf, (forall k, rematch regexp k = ends_with k suf) -> find_gen rematch (leaves ops d) regexp = find_suffix ops d suf)
  /\ (forall pre, (forall k, rematch regexp k = starts_with k pre) -> find_gen rematch (leaves ops d) regexp = find_prefix ops d pre).
Proof.
  intros A H L ops d rematch name regexp. split; [apply gen_get|split]; intros x Hm; [now apply gen_find_suffix|now apply gen_find_prefix].
Qed.
(* non-vacuity: the generated walk on the example tree above, with fuel 4 (depth 3: root, in, the adaptor m, its conduits) *)
Example C13_example_source_walk : map fst (leaf_devices_gen 4 (embed (A:=Q) std_ops
    (DSet "root" [ Leaf "a" (Build_leafdev 2 [] [] KDev);
                   DSet "in" [ Leaf "b" (Build_leafdev 2 [] [] KDev); MF "m" (Build_leafdev 2 [] [] KDev) ["e"; "h"] ] None;
                   Leaf "c" (Build_leafdev 2 [] [] KPV) ] None)))
  = ["root.a"; "root.in.b"; "root.in.m.e"; "root.in.m.h"; "root.c"].
Proof. reflexivity. Qed.
