(* C14 - Reported Hessian is the second derivative of cost for atomic devices.
   hess_at G H x: H has shape (n,n) and entry (j,k) of H is the derivative along coordinate k of the j-th reported marginal
   cost G. C01 proves that G is the gradient of the cost, so H is the matrix of second partial derivatives of the cost.
   Statements only; proofs in Proofs/C14Proofs.v. All theorems hold for every horizon length. *)
From Coq Require Import ZArith Reals List Lra Lia Arith.
From Coquelicot Require Import Coquelicot.
From DK Require Import Num NumR Vec.
From DK.Gen Require Import Kernels.
From DK.Model Require Import Leaf Fn Dev.
From DK.Proofs Require Import RVec KernelR Calc C01Proofs C14Proofs.
Import ListNotations.
Local Open Scope R_scope.

Theorem C14_kernel_highlow : forall x pl ph xl xh,
  is_derive (fun t => hl_deriv (A:=R) t pl ph xl xh) x (hl_hess (A:=R) x pl ph xl xh).
Proof. exact hl_deriv_derive. Qed.

Theorem C14_kernel_abc_exponent_ge_2 : forall x a k c xl xh,
  is_derive (fun t => abc_deriv (A:=R) t a (Rnat (S (S k))) c xl xh) x (abc_hess (A:=R) x a (Rnat (S (S k))) c xl xh).
Proof. exact abc_deriv_derive. Qed.

Theorem C14_device_and_pv : forall n b cb (s p : list R), length s = n ->
  hess_at (fun s' => leaf_deriv (Build_leafdev n b cb KDev) s' p) (leaf_hess (Build_leafdev n b cb KDev) s) s /\
  hess_at (fun s' => leaf_deriv (Build_leafdev n b cb KPV) s' p) (leaf_hess (Build_leafdev n b cb KPV) s) s.
Proof. exact hess_device. Qed.

Theorem C14_cdevice : forall n b cb a b0 (s p : list R), length s = n ->
  hess_at (fun s' => leaf_deriv (Build_leafdev n b cb (KC a b0)) s' p) (leaf_hess (Build_leafdev n b cb (KC a b0)) s) s.
Proof. exact hess_cdevice. Qed.

Theorem C14_cdevice2_one_range_full_matrix : forall n b c pl ph (s p : list R), length s = n -> length p = n ->
  hess_at (fun s' => leaf_deriv (Build_leafdev n b [c] (KC2 pl ph)) s' p) (leaf_hess (Build_leafdev n b [c] (KC2 pl ph)) s) s.
Proof. exact hess_cdevice2_single. Qed.

Theorem C14_idevice : forall n b cb a bp c (s p : list R), length s = n -> length p = n -> hess_exponents a bp b s ->
  hess_at (fun s' => leaf_deriv (Build_leafdev n b cb (KI a bp c)) s' p) (leaf_hess (Build_leafdev n b cb (KI a bp c)) s) s.
Proof. exact hess_idevice. Qed.

Theorem C14_idevice2 : forall n b cb pl ph (s p : list R), length s = n -> length p = n ->
  hess_at (fun s' => leaf_deriv (Build_leafdev n b cb (KI2 pl ph)) s' p) (leaf_hess (Build_leafdev n b cb (KI2 pl ph)) s) s.
Proof. exact hess_idevice2. Qed.

Theorem C14_gdevice : forall n b cb g (s p : list R), length s = n -> length p = n ->
  hess_at (fun s' => leaf_deriv (Build_leafdev n b cb (KG g)) s' p) (leaf_hess (Build_leafdev n b cb (KG g)) s) s.
Proof. exact hess_gdevice. Qed.

(* thermal device: the source documents a diagonal approximation; its diagonal entries are the true second partials *)
Theorem C14_tdevice_diagonal : forall n b cb q (s p : list R) k, length s = n -> length p = n -> length (tp_ext q) = n ->
  (k < n)%nat -> (tp_eff q = 1 \/ nth k s 0 <> 0) ->
  is_derive (fun t => nth k (leaf_deriv (Build_leafdev n b cb (KT q)) (upd s k t) p) 0) (nth k s 0)
            (entry (leaf_hess (Build_leafdev n b cb (KT q)) s) k k).
Proof. exact tdev_diag_entry. Qed.

(* storage: full statement would be  hess_at ... for every c3 away from the kinks (soc_i <> depth*capacity, flow <> 0 when lossy).
   Proved here: the case without the deep-discharge term; with c3 > 0 the analytic model Hessian is compared with the
   numerically-differentiated one of the code by the correspondence only. *)
Theorem C14_sdevice_no_deep_term_partial : forall n b cb q (s p : list R), length s = n -> length p = n -> sp_c3 q = 0 ->
  hess_at (fun s' => leaf_deriv (Build_leafdev n b cb (KS q)) s' p) (leaf_hess (Build_leafdev n b cb (KS q)) s) s.
Proof. exact hess_sdevice_no_deep. Qed.

(* symmetry and positive semidefiniteness of the two matrix shapes the convex classes produce *)
Theorem C14_diagonal_symmetric : forall d : list R, symmetric (diag d).
Proof. exact diag_symmetric. Qed.
Theorem C14_diagonal_psd : forall d v : list R, length v = length d -> (forall j, (j < length d)%nat -> 0 <= nth j d 0) ->
  0 <= quadform (diag d) v.
Proof. exact diag_psd. Qed.
Theorem C14_total_flow_psd : forall (c : R) (v : list R), 0 <= c -> 0 <= quadform (mconst (length v) (length v) c) v.
Proof. exact mconst_psd. Qed.
Theorem C14_highlow_second_derivative_nonneg : forall x pl ph xl xh, pl <= ph -> xl <= xh -> 0 <= hl_hess (A:=R) x pl ph xl xh.
Proof. exact hl_hess_nonneg. Qed.

Example C14_exponents_example : hess_exponents (PS 0) (PS (Rnat 2)) [(0, 2)] [1].
Proof. intros i Hi. left. exists 0%nat. reflexivity. Qed.

(* ==== every composition of the preference-function combinators, and several cumulative ranges ============================
   Proofs/FnProofs.v (induction on the AST of Model/Fn.v), Proofs/RangesProofs.v (contiguous slot ranges). *)
From DK.Proofs Require Import RangesProofs FnProofs.

(* hsmooth_fn: ABCCost exponents are natural >= 2, or 1 where q does not vanish (or the slot has zero width); the peak of a
   DemandFunction argument is unique. The matrix is diagonal for the slot-wise combinators, f''*11^T for a kernel of the total,
   block diagonal for RangesFunction, the sum for SumFunction, unchanged by reflection. *)
Theorem C14_function_ast_every_composition : forall (f : fn R) (x : list R),
  wf_fn f (length x) -> hsmooth_fn f x -> hess_at (fderiv f) (fhess f x) x.
Proof. exact fn_hess. Qed.

Theorem C14_adevice : forall n b cb f ucs (s p : list R), length s = n -> length p = n -> wf_fn f n -> hsmooth_fn f s ->
  hess_at (fun s' => leaf_deriv (Build_leafdev n b cb (KA f ucs)) s' p) (leaf_hess (Build_leafdev n b cb (KA f ucs)) s) s.
Proof. exact hess_adevice. Qed.

Theorem C14_reported_gradient_has_one_entry_per_slot : forall (f : fn R) (x : list R),
  wf_fn f (length x) -> length (fderiv f x) = length x.
Proof. exact fderiv_length. Qed.

(* RangesFunction: entry (j,k) is the block's entry when j and k lie in the same range, 0 across ranges *)
Theorem C14_ranges_matrix_is_block_diagonal : forall rs (x : list R),
  fhess (FRanges rs) x = matrix_of (block_sum rst ren (fun r => fhess (rfn r) (slice (rst r) (ren r) x)) rs) (length x).
Proof. exact fhess_ranges. Qed.
Theorem C14_block_sum_vanishes_before_the_ranges : forall (T : Type) (st en : T -> nat) (Hr : T -> list (list R)) rs a n j k,
  chain st en a rs n -> (j < a)%nat -> block_sum st en Hr rs j k = 0.
Proof. exact @block_sum_before. Qed.
Theorem C14_ranges_generic : forall (T : Type) (st en : T -> nat) (x : list R) (Gf : T -> list R -> list R) (Hr : T -> list (list R)) rs a,
  chain st en a rs (length x) ->
  (forall r z, In r rs -> length z = (en r - st r)%nat -> length (Gf r z) = (en r - st r)%nat) ->
  (forall r, In r rs -> hess_at (Gf r) (Hr r) (slice (st r) (en r) x)) ->
  forall j k, (a <= j < length x)%nat -> (k < length x)%nat ->
    is_derive (fun t => nth (j - a) (ranged_field st en Gf rs (upd x k t)) 0) (nth k x 0) (block_sum st en Hr rs j k).
Proof. exact @ranged_jac. Qed.

Theorem C14_peak_demand : forall (c x : list R), unique_max x ->
  hess_at (fun y => upd (zeros (length y)) (argmax y) (horner (A:=R) (pderiv c) (vmax y)))
          (diag (upd (zeros (length x)) (argmax x) (horner (A:=R) (pderiv (pderiv c)) (vmax x)))) x.
Proof. exact hess_demand. Qed.

(* CDevice2 with any number of contiguous cumulative ranges: f''(range total) inside a range, 0 across ranges *)
Theorem C14_cdevice2_contiguous_ranges : forall n b cbs pl ph (s p : list R), length s = n -> length p = n -> cb_chain cbs n ->
  hess_at (fun s' => leaf_deriv (Build_leafdev n b cbs (KC2 pl ph)) s' p) (leaf_hess (Build_leafdev n b cbs (KC2 pl ph)) s) s.
Proof. exact hess_cdevice2_multi. Qed.
Theorem C14_cdevice2_block_structure : forall pl ph (cbs : list (cbound R)) (s : list R), length cbs <> 1%nat -> cb_chain cbs (length s) ->
  cdev2_hess pl ph cbs s
  = matrix_of (block_sum (@cb_s R) (@cb_e R)
                 (fun c => let z := slice (cb_s c) (cb_e c) s in mconst (length z) (length z) (hl_hess (vsum z) pl ph (cb_lo c) (cb_hi c))) cbs)
              (length s).
Proof. exact cdev2_hess_multi. Qed.

(* ==== storage with the deep-discharge term (Proofs/StorageProofs.v) ========================================================
   the full statement announced above C14_sdevice_no_deep_term_partial: every c3, away from the kinks
   (off_damage_level: no slot's state of charge equals damage_depth*capacity; smooth_at: efficiency 1 or no zero flow) *)
From DK.Proofs Require Import StorageProofs.

Theorem C14_sdevice : forall n b cb q (s p : list R), length s = n -> length p = n ->
  smooth_at (sp_eff q) s -> off_damage_level q s ->
  hess_at (fun s' => leaf_deriv (Build_leafdev n b cb (KS q)) s' p) (leaf_hess (Build_leafdev n b cb (KS q)) s) s.
Proof. exact hess_sdevice_full. Qed.

(* the deep-discharge block alone: d/dr_k of the deep part of the j-th marginal cost *)
Theorem C14_sdevice_deep_term : forall q (r : list R) j k, (j < length r)%nat -> (k < length r)%nat ->
  (sp_eff q = 1 \/ nth k r 0 <> 0) -> off_damage_level q r ->
  is_derive (fun t => deepv q (upd r k t) j) (nth k r 0) (deeph q r j k).
Proof. exact deep_coord. Qed.

Example C14_sdevice_example : smooth_at (sp_eff ex_q) [1; -2; 1 / 2] /\ off_damage_level ex_q [1; -2; 1 / 2].
Proof. exact example_storage_hess. Qed.

(* ---- every real exponent ---- *)
From DK.Proofs Require Import RealExp.
Theorem C14_kernel_abc_any_real_exponent : forall x a b c xl xh, (xl = xh \/ 0 < abc_q (A:=R) x xl xh a) ->
  is_derive (fun t => abc_deriv (A:=R) t a b c xl xh) x (abc_hess (A:=R) x a b c xl xh).
Proof. exact abc_deriv_derive_real. Qed.

(* ---- tie T at class level: the hess methods regenerated from the NumPy source (Gen/Classes.v) are the model Hessians ---- *)
From DK.Gen Require Import Classes.
From DK.Proofs Require Import GenClassesHess.
Theorem C14_source_device_hess : forall n (s : list R), Device_hess (A:=R) n s = dev_hess n.
Proof. exact gen_device_hess. Qed.
Theorem C14_source_cdevice_hess : forall n a b (s : list R), CDevice_hess (A:=R) n a b s = dev_hess n.
Proof. exact gen_cdevice_hess. Qed.
Theorem C14_source_idevice_hess : forall n a b c bnd (s : list R), IDevice_hess (A:=R) n a b c bnd s = idev_hess a b c bnd s.
Proof. exact gen_idevice_hess. Qed.
Theorem C14_source_idevice2_hess : forall n pl ph bnd (s : list R), IDevice2_hess (A:=R) n pl ph bnd s = idev2_hess pl ph bnd s.
Proof. exact gen_idevice2_hess. Qed.
Theorem C14_source_gdevice_hess : forall n g (s : list R), GDevice_hess (A:=R) n g s = gdev_hess g s.
Proof. exact gen_gdevice_hess. Qed.

(* ---- the Hessians of the combinators regenerated from functions.py (Gen/Functions.v): hess = fhess of the AST node; in particular
        ReflectedFunction.hess evaluates the operand's Hessian AT -x, SumFunction adds the operands' matrices, InnerSumFunction returns
        f''*ones((n,n)), X2D / Poly2D / Poly2DOffset a diagonal ---- *)
From DK.Model Require Import FnOps.
From DK.Gen Require Import Functions.
From DK.Proofs Require Import GenFunctions GenFunctionsHess.
Theorem C14_source_function_combinators : forall (fs : list (fn R)) (g : fn R) pl ph xl xh qs cs offs (x : list R),
  SumFunction_hess (map fobj_of fs) x = fhess (FSum fs) x /\
  ReflectedFunction_hess (fobj_of g) x = fhess (FReflect g) x /\
  InnerSumFunction_hess (sfobj_hl (pl, ph, xl, xh)) x = fhess (FInnerHL pl ph xl xh) x /\
  X2D_hess (map sfobj_hl qs) x = fhess (FX2D qs) x /\
  Poly2D_hess cs x = fhess (FPoly2D cs) x /\
  Poly2DOffset_hess cs offs x = fhess (FPoly2DOffset cs offs) x /\
  NullFunction_hess x = fhess FNull x.
Proof.
  intros fs g pl ph xl xh qs cs offs x.
  split; [apply gen_sum_hess|]. split; [apply gen_reflect_hess|]. split; [apply gen_innersum_hess|]. split; [apply gen_x2d_hess|].
  split; [apply gen_poly2d_hess|]. split; [apply gen_poly2doffset_hess|apply gen_null_hess].
Qed.
(* ADevice.hess regenerated from adevice.py over an abstract function object: f.hess(s), whatever the price *)
Theorem C14_source_adevice_hess : forall n bnd cb (g : fn R) ucs (s p : list R),
  ADevice_hess (fobj_of g) s p = leaf_hess (Build_leafdev n bnd cb (KA g ucs)) s.
Proof. intros n bnd cb g ucs s p. exact (gen_adevice_hess n bnd cb g ucs s p). Qed.
Theorem C14_source_demand_function_hess : forall (c x : list R), DemandFunction_hess c x = fhess (FDemand c) x.
Proof. intros c x. exact (gen_demand_hess c x). Qed.



(* ---- the two instances agree on the reported Hessian (Proofs/HomHess.v): what the correspondence evaluates on exact rationals maps
   through Q2R to the Hessians the theorems above speak about; every atomic kind except the ADevice function AST; integer exponents. ---- *)
From Coq Require Import QArith Qreals.
From DK Require Import NumQ.
From DK.Proofs Require Import Hom HomLeaf HomHess.
Theorem C14_instances_agree_leaf_hess : forall (L : leafdev Q) (s : list Q), exec_kind (ld_kind L) (List.length s) ->
  List.map (List.map Q2R) (leaf_hess L s) = leaf_hess (mleaf L) (List.map Q2R s).
Proof. exact instances_agree_leaf_hess. Qed.

(* ---- the three preference functions whose Hessian the source obtains by numerical differentiation (InformationEntropy,
   TemporalVariance, CobbDouglas): the closed-form Hessians of Model/Trans.v are the Jacobians of the closed-form gradients (the
   total derivatives of the costs, C01), entry by entry, for every length, and symmetric; the implementation's numerical Hessian is
   compared with them by interval arithmetic inside Coq. Proofs/TransHess.v ---- *)
From DK.Model Require Import Trans.
From DK.Proofs Require Import Total TransProofs TransHess.
Local Open Scope R_scope.
Theorem C14_temporal_variance : forall c (x : list R), vsum x <> 0 ->
  hess_at (tvar_grad c) (tvar_hess c x) x /\ C14Proofs.symmetric (tvar_hess c x).
Proof. intros c x H. split; [now apply tvar_hessian|apply tvar_hess_symmetric]. Qed.
Theorem C14_information_entropy : forall c (x : list R), x <> [] -> (forall k, (k < length x)%nat -> nth k x 0 <> 0) ->
  hess_at (entropy_grad c) (entropy_hess c x) x /\ C14Proofs.symmetric (entropy_hess c x).
Proof. intros c x H1 H2. split; [now apply entropy_hessian|apply entropy_hess_symmetric]. Qed.
Theorem C14_cobb_douglas : forall c (a x : list R), length a = length x -> (forall k, (k < length x)%nat -> 0 < nth k x 0) ->
  hess_at (cobb_grad c a) (cobb_hess c a x) x /\ C14Proofs.symmetric (cobb_hess c a x).
Proof. intros c a x H1 H2. split; [now apply cobb_hessian|apply cobb_hess_symmetric]. Qed.
Theorem C14_jacobian_from_directional_derivatives : forall (G : list R -> list R) (H : list (list R)) (x : list R),
  length H = length x -> (forall j, (j < length x)%nat -> length (nth j H []) = length x) ->
  (forall j, (j < length x)%nat -> dir_at (fun y => nth j (G y) 0) (nth j H []) x) -> hess_at G H x.
Proof. exact hess_at_of_dirs. Qed.
