(* C20 - Scenario helpers decode run-length / care / on-off specs to the table denoted.
   Statements only; each is closed by the lemma of Proofs/C20Proofs.v it names. Model/Loader.v mirrors
   loaders/builder_loader.py (run_to_array, run_to_cbounds_array, the per-kind loaders) and utils.care2bounds /
   utils.on2bounds, and is tied to /repo by the correspondence run of ./check C20. A run dictionary is an association
   list in *dictionary order* (keys already int()-converted): the statements hold for every order, every basis, every
   number of runs. The model is pure, so the inputs are unchanged by construction (the correspondence compares deep copies). *)
From Coq Require Import ZArith Reals List Bool Arith String.
From DK Require Import Num NumR Vec.
From DK.Model Require Import Leaf Loader.
From DK.Proofs Require Import C20Proofs.
Import ListNotations.
Local Open Scope R_scope.

(* slot t takes the value of the last run starting at or before t (any value type: scalars, pairs, vectors) *)
Theorem C20_slot_takes_last_run_at_or_before : forall (V : Type) (zero : V) basis (l : runs V),
  NoDup (map fst l) -> has_zero l = true ->
  exists arr, run_to_array zero basis l = Accept arr /\ List.length arr = basis /\
    forall t st v d, (t < basis)%nat -> In (st, v) l -> (st <= t)%nat ->
      (forall st' v', In (st', v') l -> (st' <= t)%nat -> (st' <= st)%nat) -> nth t arr d = v.
Proof. exact (@run_to_array_spec). Qed.

(* ... and such a run exists for every slot when a run starts at 0 *)
Theorem C20_every_slot_is_covered : forall (V : Type) (l : runs V) t, has_zero l = true -> l <> [] ->
  exists st v, In (st, v) l /\ (st <= t)%nat /\ forall st' v', In (st', v') l -> (st' <= t)%nat -> (st' <= st)%nat.
Proof. exact (@covering_run). Qed.

(* without a run at 0 the helper raises (KeyError) *)
Theorem C20_no_run_at_zero_raises : forall (V : Type) (zero : V) basis (l : runs V),
  has_zero l = false -> run_to_array zero basis l = RaiseOther.
Proof. exact (@run_to_array_no_zero). Qed.

(* cumulative runs: one bound per run; run (st,(l,h)) becomes (l, h, st, e) with e the next start, or basis for the last run *)
Theorem C20_cumulative_bound_count : forall basis (l : runs (R * R)), List.length (run_to_cbounds basis l) = List.length l.
Proof. exact (run_to_cbounds_length (A:=R)). Qed.

Theorem C20_cumulative_run_becomes_bound_up_to_next_run : forall basis (rs : runs (R * R)),
  NoDup (map fst rs) -> forall st l h, In (st, (l, h)) rs ->
  exists e, In (l, h, st, e) (run_to_cbounds basis rs) /\
    ((e = basis /\ forall q, In q rs -> (fst q <= st)%nat) \/
     ((exists v, In (e, v) rs) /\ (st < e)%nat /\ forall q, In q rs -> (st < fst q)%nat -> (e <= fst q)%nat)).
Proof. exact (run_to_cbounds_each (A:=R)). Qed.

(* the bounds are listed in start order: the i-th is built from the i-th run of the sorted list *)
Theorem C20_cumulative_bounds_in_start_order : forall basis (l : runs (R * R)) i d dp, (i < List.length l)%nat ->
  nth i (run_to_cbounds basis l) d
  = (fst (snd (nth i (sort_runs l) dp)), snd (snd (nth i (sort_runs l) dp)), fst (nth i (sort_runs l) dp),
     next_start (skipn (S i) (sort_runs l)) basis).
Proof. exact (run_to_cbounds_nth (A:=R)). Qed.

Theorem C20_sorted_runs_are_the_runs_in_increasing_start_order : forall (V : Type) (l : runs V),
  NoDup (map fst l) -> ssorted (sort_runs l) /\ forall q, In q (sort_runs l) <-> In q l.
Proof. exact (@sort_is_sorted_permutation). Qed.

(* what each kind of exported device becomes *)
Theorem C20_loaded_device : forall basis (d : bdev R) x, load_device basis d = Accept x ->
  exists t, run_to_array (0, 0) basis (b_bounds d) = Accept t /\ l_id x = dev_id d /\
    match b_kind d with
    | BLoad => l_class x = LADevice /\ l_bounds x = t /\ l_cb x = option_map (run_to_cbounds basis) (b_cum d)
    | BFixed => l_class x = LADevice /\ l_bounds x = t /\ l_cb x = None /\
                forallb (fun '(l, h) => negb (neqb l h)) t = false
    | BSupply => l_class x = LADevice /\ l_bounds x = neg_swap t /\ l_cb x = option_map (run_to_cbounds basis) (b_cum d)
    | BStorage => l_class x = LSDevice /\ l_bounds x = t /\ l_cb x = None /\
                  l_params x = map_params (b_params d) /\ l_clip x = clip_of (b_params d)
    | BThermal => False
    end.
Proof. exact (load_device_accept (A:=R)). Qed.

(* supply: bounds negated and swapped, slot by slot *)
Theorem C20_supply_bounds_negated_and_swapped : forall basis (d : bdev R) x,
  b_kind d = BSupply -> load_device basis d = Accept x ->
  exists t, run_to_array (0, 0) basis (b_bounds d) = Accept t /\ List.length (l_bounds x) = List.length t /\
    forall i, (i < List.length t)%nat -> nth i (l_bounds x) (0, 0) = (- snd (nth i t (0, 0)), - fst (nth i t (0, 0))).
Proof. exact supply_bounds. Qed.

(* storage: exactly the mapped parameters, under the device's names, with their values *)
Theorem C20_storage_parameter_map : forall (ps : list (string * R)) k' v,
  In (k', v) (map_params ps) <-> exists k, In (k, v) ps /\ assoc k storage_map = Some k'.
Proof. exact (map_params_in (A:=R)). Qed.

(* one leaf per exported device, in order *)
Theorem C20_one_leaf_per_exported_device : forall basis (ds : list (bdev R)) xs, load_data basis ds = Accept xs ->
  List.length xs = List.length ds /\
  forall i d0 x0, (i < List.length ds)%nat -> load_device basis (nth i ds d0) = Accept (nth i xs x0).
Proof. exact (load_data_each (A:=R)). Qed.

(* care mask: limits inside (mask 1), zero outside (mask 0); 2-sequence and vector forms of 'bounds' *)
Theorem C20_care_pair : forall (care : list R) lo hi i, (i < List.length care)%nat ->
  (nth i care 0 = 1 -> nth i (care2bounds care [lo; hi]) (0, 0) = (pnth lo i, pnth hi i)) /\
  (nth i care 0 = 0 -> nth i (care2bounds care [lo; hi]) (0, 0) = (0, 0)).
Proof. exact care_inside_outside. Qed.

Theorem C20_care_vector : forall (care : list R) b i, List.length b <> 2%nat -> (i < List.length care)%nat ->
  let v := pnth (nth i b (PS 0)) 0 in
  (nth i care 0 = 1 -> nth i (care2bounds care b) (0, 0) = (v, v)) /\
  (nth i care 0 = 0 -> nth i (care2bounds care b) (0, 0) = (0, 0)).
Proof. exact care_vector_inside_outside. Qed.

Theorem C20_care_length : forall (care : list R) b, List.length (care2bounds care b) = List.length care.
Proof. exact mask_bounds_length. Qed.

(* on-intervals [a_k, b_k] (inclusive), flattened as [a_0; b_0; a_1; b_1; ...] *)
Theorem C20_on_intervals_are_the_consecutive_pairs : forall on a b, In (a, b) (on_pairs on) <->
  exists k, (2 * k + 1 < List.length on)%nat /\ nth (2 * k) on 0%nat = a /\ nth (2 * k + 1) on 0%nat = b.
Proof. exact on_pairs_in. Qed.

Theorem C20_on_pair : forall l on lo hi t, (t < l)%nat ->
  ((exists a b, In (a, b) (on_pairs on) /\ (a <= t <= b)%nat) -> nth t (on2bounds l on [lo; hi]) (0, 0) = (pnth lo t, pnth hi t)) /\
  ((forall a b, In (a, b) (on_pairs on) -> ~ (a <= t <= b)%nat) -> nth t (on2bounds l on [lo; hi]) (0, 0) = (0, 0)).
Proof. exact on_inside_outside. Qed.

Theorem C20_on_vector : forall l on b t, List.length b <> 2%nat -> (t < l)%nat ->
  let v := pnth (nth t b (PS 0)) 0 in
  ((exists a c, In (a, c) (on_pairs on) /\ (a <= t <= c)%nat) -> nth t (on2bounds l on b) (0, 0) = (v, v)) /\
  ((forall a c, In (a, c) (on_pairs on) -> ~ (a <= t <= c)%nat) -> nth t (on2bounds l on b) (0, 0) = (0, 0)).
Proof. exact on_vector_inside_outside. Qed.

(* non-vacuity: runs given out of order; two cumulative runs; a supply device *)
Example C20_example_runs : run_to_array 0%nat 5 [(0%nat, 1%nat); (3%nat, 3%nat); (1%nat, 2%nat)] = Accept [1; 2; 2; 3; 3]%nat.
Proof. exact example_runs. Qed.
Example C20_example_cumulative :
  run_to_cbounds 5 [(3%nat, (0, 2)); (0%nat, (1, 3))] = [(1, 3, 0%nat, 3%nat); (0, 2, 3%nat, 5%nat)].
Proof. exact example_cbounds. Qed.
Example C20_example_supply :
  load_device 3 {| b_kind := BSupply; b_title := None; b_bounds := [(0%nat, (1, 3))]; b_cum := None; b_params := [] |}
  = Accept {| l_id := "supply"; l_class := LADevice; l_bounds := [(Ropp 3, Ropp 1); (Ropp 3, Ropp 1); (Ropp 3, Ropp 1)];
              l_cb := None; l_params := []; l_clip := (None, None) |}.
Proof. exact example_supply. Qed.

(* ---- run_to_array / run_to_cbounds_array (loaders/builder_loader.py) and care2bounds / on2bounds (utils.py) regenerated from the source
        on every run (Gen/Loaders.v, translator/loaders_tx.py: the KeyError on a missing run at 0, sorted(keys, key=int), the enumerate loop
        with `int(points[i+1]) if i < len(points) - 1 else run['basis']` and the slice assignment / append, the range(0, len(on), 2) loop of
        slice assignments, the two-item / vector switch on `len(bounds) == 2`, the mask products and np.stack(axis=1)) ARE the model the
        statements above are about.  Run dictionaries: keys distinct after int().  on2bounds: an even number of end points (Python raises
        IndexError on an odd one).  Any value type / any carrier; no axioms. ---- *)
From DK.Model Require Import LoaderOps.
From DK.Gen Require Import Loaders.
From DK.Proofs Require Import GenLoaders.
Theorem C20_source_run_to_array : forall (V : Type) (zero : V) basis (l : runs V), NoDup (map fst l) ->
  run_to_array_gen zero basis l = run_to_array zero basis l.
Proof. intros V zero basis l. apply gen_run_to_array. Qed.
Theorem C20_source_run_to_cbounds_array : forall {A} `{Num A} basis (l : runs (A * A)), NoDup (map fst l) ->
  run_to_cbounds_array_gen basis l = run_to_cbounds basis l.
Proof. intros A H basis l. apply gen_run_to_cbounds. Qed.
Theorem C20_source_care2bounds : forall {A} `{Num A} (care : list A) (b : list (param A)), care2bounds_gen care b = care2bounds care b.
Proof. intros A H care b. apply gen_care2bounds. Qed.
Theorem C20_source_on2bounds : forall {A} `{Num A} l on (b : list (param A)), Nat.even (List.length on) = true ->
  on2bounds_gen l on b = on2bounds l on b.
Proof. intros A H l on b. apply gen_on2bounds. Qed.

(* ---- the per-kind loaders (load_load_device, load_fixed_load_device, load_supply_device, load_storage_device, load_cbounds) and
        load_data, regenerated from builder_loader.py on every run: the id (`title`, else the type name), the bounds table, `-1 * table` and the
        swapped columns for a supply device, the `(low != high).all()` refusal of a fixed load, the optional cumulative bounds, the storage
        parameter map / dictionary comprehension and the two rate-clip keys, the dispatch by type name, the left-to-right loop of load_data
        (first failure wins) ARE the model.  Cost curves are not part of the loader model (their statements are skipped, by name);
        load_thermal_load_device is not translated (open finding).  Run dictionaries with keys distinct after int().  No axioms. ---- *)
Theorem C20_source_load_device : forall {A} `{Num A} basis (d : bdev A), runs_ok d -> load_device_gen basis d = load_device basis d.
Proof. intros A H basis d. apply gen_load_device. Qed.
Theorem C20_source_load_data : forall {A} `{Num A} basis (ds : list (bdev A)), Forall runs_ok ds -> load_data_gen basis ds = load_data basis ds.
Proof. intros A H basis ds. apply gen_load_data. Qed.
