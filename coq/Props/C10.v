(* C10 - Every accepted device is usable: finite values, contract shapes, all in-bounds.
   Statements only; each is closed by the lemma of Proofs/C10Proofs.v it names.
   leaf_def / leaf_cons_def (Model/Usable.v) are assembled from the *_defined predicates GENERATED from functions.py
   (every quotient has a non-zero denominator, no 0 ** negative); X_accepts are the guards GENERATED from the setters.
   leaf_deriv / leaf_hess / leaf_cons are the executable model, tied to /repo by the correspondence run of ./check C10
   (usable-or-not and shape tags, flat and shaped input, boundary configurations, leaves and trees). *)
From Coq Require Import String ZArith QArith Reals List Bool.
From DK Require Import Num NumQ NumR Vec.
From DK.Gen Require Import Kernels Validators.
From DK.Model Require Import Leaf Fn Dev Tree PyVal Usable.
From DK.Proofs Require Import C11Proofs C10Proofs.
Import ListNotations.

(* ---------------------------------------------------------------- shapes, for every length and every numeric carrier *)
Theorem C10_marginal_cost_has_one_entry_per_slot : forall (A : Type) (H : Num A) n bnd cbs k (s p : list A),
  plain_kind k cbs = true -> length s = n -> length p = n ->
  vshape (leaf_deriv (Build_leafdev n bnd cbs k) s p) = Vec n.
Proof. exact (@leaf_deriv_shape). Qed.
Theorem C10_hessian_is_n_by_n : forall (A : Type) (H : Num A) n bnd cbs k (s : list A),
  plain_kind k cbs = true -> length s = n ->
  mshape (leaf_hess (Build_leafdev n bnd cbs k) s) = Mat n n.
Proof. exact (@leaf_hess_shape). Qed.
Theorem C10_constraint_jacobians_have_one_entry_per_slot : forall (A : Type) (H : Num A) n bnd cbs k (x : list A),
  (match k with KA _ _ => false | _ => true end) = true -> length x = n ->
  forall c, In c (leaf_cons (Build_leafdev n bnd cbs k)) -> jac_ok n x c.
Proof. exact (@leaf_cons_shape). Qed.

(* ---------------------------------------------------------------- definedness on the box (reals), from the generated guards *)
Local Open Scope R_scope.
Theorem C10_highlow_kernel_always_defined : forall x pl ph xl xh : R,
  hl_cost_defined x pl ph xl xh = true /\ hl_deriv_defined x pl ph xl xh = true /\ hl_hess_defined x pl ph xl xh = true.
Proof. exact hl_always_defined. Qed.
Theorem C10_IDevice2_defined : forall w n bnd cb pl ph (s : list R), leaf_def w (Build_leafdev n bnd cb (KI2 pl ph)) s = true.
Proof. exact idevice2_defined. Qed.
Theorem C10_CDevice2_defined : forall w n bnd cb (pl ph : R) (s : list R), leaf_def w (Build_leafdev n bnd cb (KC2 pl ph)) s = true.
Proof. exact cdevice2_defined. Qed.
Theorem C10_IDevice_cost_defined : forall n bnd cb a b c (s : list R),
  IDevice_b_accepts n b = true -> length s = n -> leaf_def 0 (Build_leafdev n bnd cb (KI a b c)) s = true.
Proof. exact idevice_cost_defined. Qed.
Theorem C10_IDevice_deriv_defined_partial : forall n bnd cb a b c (s : list R),
  IDevice_a_accepts n a = true -> IDevice_b_accepts n b = true -> length s = n -> in_box_R bnd s ->
  (forall i, (i < n)%nat -> 1 <= pnth b i \/ 0 < pnth a i \/ nth i s 0 < hi bnd i) ->
  leaf_def 1 (Build_leafdev n bnd cb (KI a b c)) s = true.
Proof. exact idevice_deriv_defined_partial. Qed.
Theorem C10_IDevice_hess_defined_partial : forall n bnd cb a b c (s : list R),
  IDevice_a_accepts n a = true -> IDevice_b_accepts n b = true -> length s = n -> in_box_R bnd s ->
  (forall i, (i < n)%nat -> pnth b i = 1 \/ 2 <= pnth b i \/ 0 < pnth a i \/ nth i s 0 < hi bnd i) ->
  leaf_def 2 (Build_leafdev n bnd cb (KI a b c)) s = true.
Proof. exact idevice_hess_defined_partial. Qed.
(* FULL STATEMENT (false; the two theorems above without their last hypothesis). Accepted IDevices on their upper bound: *)
Theorem C10_IDevice_deriv_defined_refuted : exists n (a b c : param Q) bnd (s : list Q),
  IDevice_a_accepts n a = true /\ IDevice_b_accepts n b = true /\ IDevice_c_accepts n c = true /\
  in_box 0%Q bnd s = true /\ leaf_def 0 (Build_leafdev n bnd [] (KI a b c)) s = true /\
  leaf_def 1 (Build_leafdev n bnd [] (KI a b c)) s = false.
Proof. exact idevice_deriv_refuted. Qed.
Theorem C10_IDevice_hess_defined_refuted : exists n (a b c : param Q) bnd (s : list Q),
  IDevice_a_accepts n a = true /\ IDevice_b_accepts n b = true /\ IDevice_c_accepts n c = true /\
  in_box 0%Q bnd s = true /\ leaf_def 1 (Build_leafdev n bnd [] (KI a b c)) s = true /\
  leaf_def 2 (Build_leafdev n bnd [] (KI a b c)) s = false.
Proof. exact idevice_hess_refuted. Qed.
Theorem C10_SDevice_defined : forall w n bnd cb q (s : list R),
  SDevice_efficiency_accepts (sp_eff q) = true -> SDevice_capacity_accepts (sp_capacity q) = true ->
  leaf_def w (Build_leafdev n bnd cb (KS q)) s = true /\ leaf_cons_def (Build_leafdev n bnd cb (KS q)) = true.
Proof. exact sdevice_defined. Qed.
Theorem C10_TDevice_defined : forall w n bnd cb q (s : list R),
  TDevice_init_accepts n (tp_sus q) (tp_eff q) (tp_range q) (tp_ext q) (tp_c q) = true ->
  leaf_def w (Build_leafdev n bnd cb (KT q)) s = true.
Proof. exact tdevice_defined. Qed.
Theorem C10_polynomial_classes_defined : forall w n bnd cb (s : list R) a b g,
  leaf_def w (Build_leafdev n bnd cb KDev) s = true /\ leaf_def w (Build_leafdev n bnd cb KPV) s = true /\
  leaf_def w (Build_leafdev n bnd cb (KC a b)) s = true /\ leaf_def w (Build_leafdev n bnd cb (KG g)) s = true.
Proof. exact polynomial_classes_defined. Qed.

(* ---------------------------------------------------------------- the hypotheses are satisfiable *)
Example C10_example_usable_on_the_upper_bound :
  let d := Build_leafdev 2 [(0, 2); (1, 1)]%Q [] (KI (PS (1 # 4)) (PV [1; 3]%Q) (PS 2%Q)) in
  IDevice_a_accepts 2 (PS (1 # 4)) = true /\ IDevice_b_accepts 2 (PV [1; 3]%Q) = true /\
  leaf_obs d [2; 1]%Q [0; 0]%Q = {| o_cost := Some Sc; o_deriv := Some (Vec 2); o_hess := Some (Mat 2 2); o_cons := [] |}.
Proof. exact example_usable. Qed.

(* ---------------------------------------------------------------- every device TREE (Proofs/C10Tree.v, any carrier, induction on the tree)
   Given units that honour the contract shapes (one row; marginal cost of n entries; an (n,n) Hessian; n bounds pairs - what the three
   theorems at the top of this file establish for the atomic devices), a tree of any depth and fan-out whose sets have children of one
   horizon length n (DeviceSet.__init__ rejects anything else; wf_len) returns, for a flow matrix and a price matrix of the device shape
   (rows, n): a marginal cost of the device shape, an (n,n) Hessian, and rows*n bounds pairs.  The Jacobians of the exported constraints
   have rows*n entries by C06_tree.  well_shaped R n S: R rows of n entries; square n M: n rows of n entries. *)
From DK.Model Require Import Tree.
From DK.Proofs Require Import C02Proofs C10Tree.
Theorem C10_tree_marginal_cost_has_the_device_shape : forall (A : Type) (NA : Num A) (L : Type) (ops : leafops A L) d,
  leaf_contract ops -> wf_len ops d -> forall n S P, dlen ops d = n ->
  well_shaped (rows ops d) n S -> well_shaped (rows ops d) n P -> well_shaped (rows ops d) n (gderiv ops d S P).
Proof. intros A NA L ops d HC. exact (tree_deriv_shape ops HC d). Qed.
Theorem C10_tree_hessian_is_n_by_n : forall (A : Type) (NA : Num A) (L : Type) (ops : leafops A L) d,
  leaf_contract ops -> wf_len ops d -> forall n S, dlen ops d = n -> well_shaped (rows ops d) n S -> square n (ghess ops d S).
Proof. intros A NA L ops d HC. exact (tree_hess_shape ops HC d). Qed.
Theorem C10_tree_bounds_one_pair_per_flow_variable : forall (A : Type) (NA : Num A) (L : Type) (ops : leafops A L) d,
  leaf_contract ops -> wf_len ops d -> forall n, dlen ops d = n -> length (gbounds ops d) = (rows ops d * n)%nat.
Proof. intros A NA L ops d HC. exact (tree_bounds_length ops HC d). Qed.
Theorem C10_leaf_contract_means : forall (A : Type) (NA : Num A) (L : Type) (ops : leafops A L), leaf_contract ops <->
  (forall l, l_rows L ops l = 1%nat) /\
  (forall l s p, length s = l_n L ops l -> length p = l_n L ops l -> length (l_deriv L ops l s p) = l_n L ops l) /\
  (forall l s, length s = l_n L ops l -> square (l_n L ops l) (l_hess L ops l s)) /\
  (forall l, length (l_bounds L ops l) = l_n L ops l).
Proof. intros; reflexivity. Qed.
Example C10_tree_contract_is_satisfiable : forall (A : Type) (NA : Num A),
  leaf_contract (ex_ops (A:=A)) /\ wf_len (ex_ops (A:=A)) ex_tree /\ rows (ex_ops (A:=A)) ex_tree = 4%nat /\ dlen (ex_ops (A:=A)) ex_tree = 2%nat.
Proof. intros A NA. split; [exact ex_contract|exact ex_tree_ok]. Qed.
