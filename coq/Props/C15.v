(* C15 - Cost models have the documented closed forms and end-point behaviour.
   Statements only; each is closed by the lemma of Proofs/C15Proofs.v it names. The model functions
   (Model/Leaf.v, Model/Dev.v) are tied to /repo by the correspondence run of ./check C15, the kernels
   abc_..., hl_... are regenerated from functions.py on every run. *)
From Coq Require Import ZArith Reals List.
From Coquelicot Require Import Coquelicot.
From DK Require Import Num NumR Vec.
From DK.Gen Require Import Kernels.
From DK.Model Require Import Leaf Fn Dev DocSpec.
From Coq Require Import QArith Qreals.
From DK Require Import NumQ.
From DK.Proofs Require Import RVec KernelR C15Proofs Hom.
Import ListNotations.
Local Open Scope R_scope.

Theorem C15_base_and_pv_cost_only_price : forall n b cb (s p : list R),
  leaf_cost (Build_leafdev n b cb KDev) s p = sum_prod s p /\
  leaf_cost (Build_leafdev n b cb KPV) s p = sum_prod s p.
Proof. exact base_cost. Qed.

Theorem C15_cumulative_device : forall n b cb a b0 (s p : list R),
  leaf_cost (Build_leafdev n b cb (KC a b0)) s p = a * total s + b0 + sum_prod s p.
Proof. exact cdevice_cost. Qed.

Theorem C15_generator_polynomial_of_minus_s : forall n b cb g (s p : list R),
  leaf_cost (Build_leafdev n b cb (KG g)) s p =
  vsum (map (fun '(i, x) => x * nth i p 0 + polyval (gpoly g i) (- x)) (idx s)).
Proof. exact gdevice_cost. Qed.

Theorem C15_highlow_slot_marginal : forall n b cb pl ph (s p : list R) k,
  (k < length s)%nat -> length p = length s -> lo b k <> hi b k ->
  nth k (leaf_deriv (Build_leafdev n b cb (KI2 pl ph)) s p) 0
  = hl_marginal_doc (pnth pl k) (pnth ph k) (lo b k) (hi b k) (nth k s 0) + nth k p 0.
Proof. exact idevice2_marginal. Qed.

Theorem C15_highlow_marginal_endpoints : forall pl ph xl xh, xl <> xh ->
  hl_marginal_doc pl ph xl xh xl = pl /\ hl_marginal_doc pl ph xl xh xh = ph.
Proof. exact hl_marginal_ends. Qed.

Theorem C15_highlow_cumulative_marginal : forall n b pl ph c (s p : list R) k,
  (k < length s)%nat -> length p = length s -> cb_lo c <> cb_hi c ->
  nth k (leaf_deriv (Build_leafdev n b [c] (KC2 pl ph)) s p) 0
  = hl_marginal_doc pl ph (cb_lo c) (cb_hi c) (total s) + nth k p 0.
Proof. exact cdevice2_marginal. Qed.

(* the marginal cost above really is the derivative of the generated cost kernel *)
Theorem C15_highlow_cost_has_that_marginal : forall x pl ph xl xh,
  is_derive (fun t => hl_cost (A:=R) t pl ph xl xh) x (hl_deriv (A:=R) x pl ph xl xh).
Proof. exact hl_cost_derive. Qed.

Theorem C15_instantaneous_c_q_pow_b : forall n bnd cb a (bk : nat -> nat) c (s p : list R),
  leaf_cost (Build_leafdev n bnd cb (KI a (PV (map (fun i => Rnat (bk i)) (seq 0 (length s)))) c)) s p =
  vsum (map (fun '(i, x) => if Req_EM_T (lo bnd i) (hi bnd i) then 0
                            else pnth c i * (q_doc (pnth a i) (lo bnd i) (hi bnd i) x) ^ (bk i)) (idx s))
  + sum_prod s p.
Proof. exact idevice_cost. Qed.

Theorem C15_q_falls_from_1_to_a : forall a xl xh, xl <> xh -> q_doc a xl xh xl = 1 /\ q_doc a xl xh xh = a.
Proof. exact q_doc_ends. Qed.

Theorem C15_storage_three_terms : forall n b cb q (s p : list R),
  leaf_cost (Build_leafdev n b cb (KS q)) s p =
  sp_c1 q * total (map (fun r => r * r) s) - sp_c2 q * flip_doc s
  + sp_c3 q * total (map (fun soc => shortfall_sq soc (sp_capacity q * sp_depth q)) (sdev_charge q s))
  + sum_prod s p.
Proof. exact sdevice_cost. Qed.

Theorem C15_zero_width_slots_contribute_nothing : forall x a b c pl ph xl,
  abc_cost (A:=R) x a b c xl xl = 0 /\ abc_deriv (A:=R) x a b c xl xl = 0 /\
  hl_cost (A:=R) x pl ph xl xl = 0 /\ hl_deriv (A:=R) x pl ph xl xl = 0.
Proof. exact zero_width_slot. Qed.

(* non-vacuity: a concrete IDevice2 slot satisfies the hypotheses, with the documented value *)
Example C15_example_marginal : hl_marginal_doc (-2) (-1) 0 2 1 = - (3 / 2).
Proof. unfold hl_marginal_doc. field. Qed.

(* the rational instance of the generated kernels (what the correspondence executes under vm_compute) and the real instance
   (what the theorems above are about) agree on rational arguments, for integer exponents *)
Theorem C15_instances_agree_highlow_cost : forall x pl ph xl xh : Q,
  Q2R (hl_cost (A:=Q) x pl ph xl xh) = hl_cost (A:=R) (Q2R x) (Q2R pl) (Q2R ph) (Q2R xl) (Q2R xh).
Proof. exact hom_hl_cost. Qed.
Theorem C15_instances_agree_highlow_deriv : forall x pl ph xl xh : Q,
  Q2R (hl_deriv (A:=Q) x pl ph xl xh) = hl_deriv (A:=R) (Q2R x) (Q2R pl) (Q2R ph) (Q2R xl) (Q2R xh).
Proof. exact hom_hl_deriv. Qed.
Theorem C15_instances_agree_abc_cost : forall (x a : Q) (z : Z) (c xl xh : Q),
  Q2R (abc_cost (A:=Q) x a (inject_Z z) c xl xh) = abc_cost (A:=R) (Q2R x) (Q2R a) (IZR z) (Q2R c) (Q2R xl) (Q2R xh).
Proof. exact hom_abc_cost. Qed.
Theorem C15_instances_agree_abc_deriv : forall (x a : Q) (z : Z) (c xl xh : Q),
  Q2R (abc_deriv (A:=Q) x a (inject_Z z) c xl xh) = abc_deriv (A:=R) (Q2R x) (Q2R a) (IZR z) (Q2R c) (Q2R xl) (Q2R xh).
Proof. exact hom_abc_deriv. Qed.
Theorem C15_instances_agree_abc_hess : forall (x a : Q) (z : Z) (c xl xh : Q),
  Q2R (abc_hess (A:=Q) x a (inject_Z z) c xl xh) = abc_hess (A:=R) (Q2R x) (Q2R a) (IZR z) (Q2R c) (Q2R xl) (Q2R xh).
Proof. exact hom_abc_hess. Qed.
Theorem C15_instances_agree_dot : forall a b : list Q, Q2R (dot (A:=Q) a b) = dot (A:=R) (map Q2R a) (map Q2R b).
Proof. exact hom_dot. Qed.

(* ---- tie T at class level: the cost methods regenerated from the NumPy source (Gen/Classes.v) are the model costs ---- *)
From DK.Gen Require Import Classes.
From DK.Proofs Require Import GenClasses.
Theorem C15_source_device_cost : forall n (s p : list R), Device_cost (A:=R) n s p = dev_cost s p.
Proof. exact gen_device_cost. Qed.
Theorem C15_source_cdevice_cost : forall n a b (s p : list R), CDevice_cost (A:=R) n a b s p = cdev_cost a b s p.
Proof. exact gen_cdevice_cost. Qed.
Theorem C15_source_pvdevice_cost : forall n (s p : list R), vsum (PVDevice_costv (A:=R) n s p) = dev_cost s p.
Proof. exact gen_pvdevice_costv. Qed.
Theorem C15_source_idevice_cost : forall n a b c bnd (s p : list R), List.length s = n -> List.length p = n -> (0 < n)%nat ->
  IDevice_cost (A:=R) n a b c bnd s p = idev_cost a b c bnd s p.
Proof. exact gen_idevice_cost. Qed.
Theorem C15_source_idevice2_cost : forall n pl ph bnd (s p : list R), List.length s = n -> List.length p = n -> (0 < n)%nat ->
  IDevice2_cost (A:=R) n pl ph bnd s p = idev2_cost pl ph bnd s p.
Proof. exact gen_idevice2_cost. Qed.
Theorem C15_source_sdevice_cost : forall n c1 c2 c3 cap dep st e su (s p : list R), List.length s = n -> List.length p = n -> (0 < n)%nat ->
  SDevice_cost (A:=R) n c1 c2 c3 cap dep st e su s p = sdev_cost (sq_of c1 c2 c3 cap dep st e su) s p.
Proof. exact gen_sdevice_cost. Qed.
From DK.Gen Require Import Thermal.
From DK.Proofs Require Import GenThermal.
(* TDevice.cost regenerated from tdevice.py: (costv_t(r2t(s))/n + s*p).sum() is the ABC curve (a = 0, b = 2, scalar end points
   t_optimal - t_range and t_optimal) of the temperatures, counted once, plus <s,p> *)
Theorem C15_source_tdevice_cost : forall n su ef ti to tr te c (s p : list R), List.length s = n -> List.length p = n -> (0 < n)%nat ->
  TDevice_cost (A:=R) n su ef ti to tr te c s p = tdev_cost (tq su ef ti to tr te c) s p.
Proof. exact gen_tdevice_cost. Qed.

(* ---- the two instances agree on the CLASS-LEVEL model (Proofs/HomLeaf.v, Proofs/HomFn.v): what the correspondence evaluates on
   exact rationals (vm_compute, compared with the implementation) maps through Q2R to what the theorems above, and those of
   C01/C07/C14, speak about.  EVERY atomic kind, the ADevice function AST included; the only side condition is the executable fragment
   of x ** b: integer exponents (IDevice, and every per-slot power curve inside a function AST); every horizon length.
   mleaf / mfn map every parameter, bound and coefficient through Q2R. ---- *)
From Coq Require Import QArith Qreals.
From DK Require Import NumQ.
From DK.Proofs Require Import Hom HomLeaf HomFn.
Theorem C15_instances_agree_leaf_cost : forall (L : leafdev Q) (s p : list Q), exec_kind_all (ld_kind L) (List.length s) ->
  Q2R (leaf_cost L s p) = leaf_cost (mleaf L) (rl s) (rl p).
Proof. exact instances_agree_leaf_cost_all. Qed.
Theorem C15_instances_agree_leaf_deriv : forall (L : leafdev Q) (s p : list Q), exec_kind_all (ld_kind L) (List.length s) ->
  rl (leaf_deriv L s p) = leaf_deriv (mleaf L) (rl s) (rl p).
Proof. exact instances_agree_leaf_deriv_all. Qed.
Theorem C15_instances_agree_function_ast : forall (f : fn Q) (x : list Q), exec_fn f ->
  Q2R (feval f x) = feval (mfn f) (rl x) /\ rl (fderiv f x) = fderiv (mfn f) (rl x).
Proof. exact instances_agree_fn. Qed.
Theorem C15_executable_kinds : forall (k : kind Q) n, exec_kind_all k n <->
  match k with KI _ bp _ => forall i, (i < n)%nat -> exists z, pnth bp i = inject_Z z | KA f _ => exec_fn f | _ => True end.
Proof. intros [] n; reflexivity. Qed.
Theorem C15_source_gdevice_cost : forall n g (s p : list R), List.length s = n -> List.length p = n ->
  GDevice_cost (A:=R) n g s p = gdev_cost g s p.
Proof. exact gen_gdevice_cost. Qed.

(* ---- CDevice2 (cdevice2.py) regenerated on every run (Gen/Functions.v): the preference object is an InnerSumFunction over the high/low curve
        for ONE cumulative range and a RangesFunction of such objects, one per range, otherwise; cost = object(s) + sum(s*p).  An object's
        methods are the regenerated methods of its class (functions.py).  IS the documented cost of the model, any carrier. ---- *)
From DK.Model Require Import FnOps.
From DK.Gen Require Import Functions.
From DK.Proofs Require Import GenFunctions.
Theorem C15_source_cdevice2_cost : forall {A} `{Num A} n pl ph (cbs : list (cbound A)) s p, CDevice2_cost n pl ph cbs s p = cdev2_cost pl ph cbs s p.
Proof. intros A H n pl ph cbs s p. apply gen_cdevice2_cost. Qed.
