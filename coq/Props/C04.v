(* C04 - Set-level coupling constraints encode the documented aggregate limits.
   Statements only; each is closed by the lemma of Proofs/C04Proofs.v it names. Over R, exact (tolerance 0).

   sat_all cs s (Proofs/C03Proofs.v) : every exported constraint of cs holds at the flat flow s, read as SciPy reads it
   ('eq': fun = 0, 'ineq': fun >= 0). The model lists (Model/Tree.v: sb_cons, label_cons, ratio_cons, mf_cons, gcons)
   mirror deviceset.py / subbalanceddeviceset.py / tworatiomfdeviceset.py / mfdeviceset.py and are tied to /repo by
   the correspondence run of ./check C04 (every coupling constraint's type, value and the set of (row, slot) entries it
   reads). Leaf behaviours `ops` and the leaf type are arbitrary (tie O); trees are arbitrary (structural induction).

   slot_total Rw n i s : the sum over all Rw rows of entry i (the rows of a node's block are exactly the leaf rows
   under that node: C02 / C13). *)
From Coq Require Import ZArith Reals List Bool Arith String.
From DK Require Import Num NumR Vec.
From DK.Model Require Import Leaf Fn Dev Tree.
From DK.Proofs Require Import C02Proofs C03Proofs C04Proofs.
Import ListNotations.
Local Open Scope R_scope.
#[local] Arguments l_n {A L}. #[local] Arguments l_bounds {A L}. #[local] Arguments l_cons {A L}.

(* (1) aggregate bounds: in every slot the total over the set's rows lies within that slot's bounds *)
Theorem C04_aggregate_bounds : forall Rw n (b : list (R * R)) (s : list R),
  sat_all (sb_cons Rw n (Some b)) s <-> (forall i, (i < n)%nat -> lo b i <= slot_total Rw n i s <= hi b i).
Proof. exact sb_cons_sat. Qed.

Theorem C04_no_aggregate_bounds_no_constraint : forall Rw n (s : list R), sat_all (sb_cons Rw n None) s <-> True.
Proof. exact sb_cons_none_sat. Qed.

Theorem C04_exactly_equal_when_low_is_high : forall (b : list (R * R)) Rw n s i,
  agg_ok b Rw n s -> (i < n)%nat -> lo b i = hi b i -> slot_total Rw n i s = lo b i.
Proof. exact agg_equal_when_low_is_high. Qed.

(* (2) sub-balanced sets: one balancing constraint per label set and slot, sign * (sum of the set's rows) = 0 (or >= 0) *)
Theorem C04_label_balancing : forall Rw n sets is_eq sign (s : list R),
  sat_all (label_cons Rw n sets is_eq sign) s <->
  (forall set, In set sets -> forall i, (i < n)%nat ->
     if is_eq then sign * group_total Rw n set i s = 0 else 0 <= sign * group_total Rw n set i s).
Proof. exact label_cons_sat. Qed.

(* ... and the set of a label sums exactly the rows whose qualified id ends with the label (unique ids, one per row) *)
Theorem C04_label_set_is_the_rows_whose_id_ends_with_the_label : forall Rw n (labs : list string) label i (s : list R),
  (0 < n)%nat -> List.length s = (Rw * n)%nat -> List.length labs = Rw ->
  group_total Rw n (label_rows labs label) i s
  = vsum (map (fun lr => if ends_with (fst lr) label then nth i (snd lr) 0 else 0) (combine labs (reshape Rw n s))).
Proof. exact group_total_label. Qed.

(* (3) two-ratio adaptor: the two conduit flows keep the configured ratio in every slot *)
Theorem C04_two_ratio : forall Rw n ratios is_eq (s : list R),
  sat_all (ratio_cons Rw n ratios is_eq) s <->
  (forall i, (i < n)%nat ->
     let x0 := nth i (nth 0 (reshape Rw n s) []) 0 in let x1 := nth i (nth 1 (reshape Rw n s) []) 0 in
     if is_eq then x0 * fst ratios = x1 * snd ratios else x1 * snd ratios <= x0 * fst ratios).
Proof. exact ratio_cons_sat. Qed.

(* (4) multi-flow adaptor: the slot-wise sum of the conduit flows obeys the wrapped device's bounds and constraints *)
Theorem C04_multi_flow_total_obeys_wrapped_device : forall {L} (ops : leafops R L) l k (s : list R),
  List.length s = (k * l_n ops l)%nat ->
  let t := colsum (l_n ops l) (reshape k (l_n ops l) s) in
  sat_all (mf_cons ops l k) s <->
  (forall i, (i < l_n ops l)%nat -> lo (l_bounds ops l) i <= nth i t 0 <= hi (l_bounds ops l) i) /\ sat_all (l_cons ops l) t.
Proof. intros L ops l k s Hs. exact (mf_cons_sat ops l k s Hs). Qed.

(* every kind of node: its own constraint list holds iff the documented condition holds on its own block *)
Theorem C04_node_constraints_mean_the_documented_condition : forall {L} (ops : leafops R L) (nd : gdev R L) (s : list R),
  List.length s = (rows ops nd * dlen ops nd)%nat ->
  sat_all (node_cons ops nd) s <-> node_spec ops nd s.
Proof. intros L ops. exact (node_cons_spec ops). Qed.

(* (5) all nesting depths simultaneously, together with the children's constraints: the exported list of a tree holds
   iff every node's documented condition holds on the block of rows under that node (a leaf: its own constraints). *)
Theorem C04_tree_all_depths_simultaneously : forall {L} (ops : leafops R L) (d : gdev R L) (s : list R),
  wf_len ops d -> List.length s = (rows ops d * dlen ops d)%nat ->
  sat_all (gcons ops d) s <->
  (forall ond, In ond (nodes_post ops 0 d) ->
     node_spec ops (snd ond) (block (dlen ops d) (fst ond) (rows ops (snd ond)) s)).
Proof. intros L ops. exact (tree_spec ops). Qed.

(* non-vacuity: bounds [1,2] in slot 0 and exactly 3 in slot 1 over two rows; a feasible and an infeasible flow *)
Example C04_example : agg_ok [(1, 2); (3, 3)] 2 2 [1; 1; 1/2; 2] /\ ~ agg_ok [(1, 2); (3, 3)] 2 2 [1; 1; 1/2; 1].
Proof. exact example_agg. Qed.

(* ---- the `constraints` properties of DeviceSet, SubBalancedDeviceSet, MFDeviceSet and TwoRatioMFDeviceSet regenerated from the source
        on every run (Gen/Constraints.v, translator/constraints_tx.py): children's lists re-wrapped onto their rows (functions AND optional
        Jacobians), one aggregate constraint (low = high) or two per slot with each slot's OWN limits, label balancing, the wrapped
        device's constraints on the column sum, the ratio per slot - ARE the exported list of the tree model (gcons), node by node. Any carrier,
        any leaf behaviours. ---- *)
From DK.Model Require Import ConOps.
From DK.Gen Require Import Constraints.
From DK.Proofs Require Import GenConstraints.
Theorem C04_source_set_constraints : forall {A} `{Num A} {L} (ops : leafops A L) i ks sb, let d := DSet i ks sb in
  DeviceSet_constraints (map (ckid_of ops) ks) (partition ops d) (rows ops d, dlen ops d) sb = gcons ops d.
Proof. intros A H L ops i ks sb. apply gen_set_node_constraints. Qed.
Theorem C04_source_subbalanced_constraints : forall {A} `{Num A} {L} (ops : leafops A L) i ks sb lb e sg rm, let d := SubBal i ks sb lb e sg rm in
  SubBalancedDeviceSet_constraints (DeviceSet_constraints (map (ckid_of ops) ks) (partition ops d) (rows ops d, dlen ops d) sb)
    (rows ops d, dlen ops d) (balance_sets (dedup (labels ops d)) lb rm) e sg = gcons ops d.
Proof. intros A H L ops i ks sb lb e sg rm. apply gen_subbalanced_node_constraints. Qed.
Theorem C04_source_adaptor_constraints : forall {A} `{Num A} {L} (ops : leafops A L) i l flows,
  let d := MF i l flows in let k := List.length flows in let n := l_n ops l in
  MFDeviceSet_constraints (DeviceSet_constraints (repeat null_ckid k) (map (fun j => (j, 1%nat)) (seq 0 k)) (k, n) (Some (l_bounds ops l)))
    (l_cons ops l) (k, n) = gcons ops d.
Proof. intros A H L ops i l flows. apply gen_mf_node_constraints. Qed.
Theorem C04_source_two_ratio_constraints : forall {A} `{Num A} {L} (ops : leafops A L) i l flows ratios is_eq,
  let d := TwoRatio i l flows ratios is_eq in let k := List.length flows in let n := l_n ops l in
  TwoRatioMFDeviceSet_constraints
    (MFDeviceSet_constraints (DeviceSet_constraints (repeat null_ckid k) (map (fun j => (j, 1%nat)) (seq 0 k)) (k, n) (Some (l_bounds ops l))) (l_cons ops l) (k, n))
    (k, n) ratios is_eq = gcons ops d.
Proof. intros A H L ops i l flows ratios is_eq. apply gen_tworatio_node_constraints. Qed.

(* ---- SubBalancedDeviceSet._labelled_sets regenerated from subbalanceddeviceset.py on every run (Gen/BaseDevice.v, translator/basedevice_tx.py:
        the ordered dictionary of the leaf labels, for each label the rows whose key matches '.*{label}$', collected in a dict keyed by
        label, the remaining rows as a set updated with difference_update; the two unpacking lines of __init__) IS the model's
        labelled_sets / unlabelled_set over the first-occurrence keys of the leaves.  Distinct labels; the pattern read as "ends with"
        (labels without regular-expression metacharacters). ---- *)
From DK.Model Require Import LabelOps.
From DK.Gen Require Import BaseDevice.
From DK.Proofs Require Import GenLabelSets.
Theorem C04_source_labelled_sets : forall {A} `{Num A} {L} (ops : leafops A L) (d : gdev A L) (rematch : string -> string -> bool) lbls,
  (forall label v, rematch (String.append ".*" (String.append label "$")) v = ends_with v label) -> NoDup lbls ->
  labelled_sets_gen rematch (leaves ops d) lbls
  = (map (label_rows (map fst (as_dict (leaves ops d)))) lbls,
     filter (fun k => negb (existsb (fun set => existsb (Nat.eqb k) set) (map (label_rows (map fst (as_dict (leaves ops d)))) lbls)))
            (seq 0 (List.length (as_dict (leaves ops d))))).
Proof. intros A H L ops d rematch lbls Hm Hnd. exact (gen_labelled_sets rematch Hm (leaves ops d) lbls Hnd). Qed.
