(* C08 - Cost is quasi-linear in price, and price broadcasting is consistent.
   Statements only; each is closed by the lemma of Proofs/C08Proofs.v it names.
   Models: atomic devices Model/Dev.v (leaf_cost / leaf_deriv / leaf_hess), trees and the multi-flow adaptor
   Model/Tree.v (tree_cost / tree_deriv / tree_hess, price_rows = p*np.ones(shape)), price part Model/Price.v.
   Tie O: ./check C08 compares impl.cost(s,p)-impl.cost(s,0) with price_term, impl.deriv(s,p)-impl.deriv(s,0) with the
   broadcast price and impl.hess(s,p) with impl.hess(s,0), for the three price shapes, inside Coq. *)
From Coq Require Import ZArith Reals List.
From DK Require Import Num NumR Vec.
From DK.Model Require Import Leaf Fn Dev Tree Price.
From DK.Proofs Require Import C08Proofs.
Import ListNotations.
Local Open Scope R_scope.

(* ---- every atomic class (all kinds of leafdev), every length ---- *)
Theorem C08_leaf_cost : forall (d : leafdev R) (s p : list R), length p = length s ->
  leaf_cost d s p = leaf_cost d s (zeros (length s)) + dot s p.
Proof. exact leaf_cost_quasilinear. Qed.

Theorem C08_leaf_deriv : forall (d : leafdev R) (s p : list R), ld_n d = length s -> length p = length s ->
  leaf_deriv d s p = vadd (leaf_deriv d s (zeros (length s))) p.
Proof. exact leaf_deriv_quasilinear. Qed.

Theorem C08_leaf_deriv_entry : forall (d : leafdev R) (s p : list R) (k : nat), ld_n d = length s -> length p = length s ->
  length (leaf_deriv d s (zeros (length s))) = length s -> (k < length s)%nat ->
  nth k (leaf_deriv d s p) 0 = nth k (leaf_deriv d s (zeros (length s))) 0 + nth k p 0.
Proof. exact leaf_deriv_quasilinear_nth. Qed.

(* ---- trees: any depth, any fan-out, any mix of plain / sub-balanced sets and multi-flow adaptors, for every
        leaf behaviour whose own price part is linear (O-parametric in the leaves) ---- *)
Theorem C08_tree_cost_any_leaves : forall (L : Type) (ops : leafops R L),
  (forall l s p, length p = length s -> l_cost L ops l s p = l_cost L ops l s (zeros (length s)) + dot s p) ->
  forall n d, uniform L ops n d -> forall S P, mat (rows ops d) n S -> mat (rows ops d) n P ->
  gcost ops d S P = gcost ops d S (mzero (rows ops d) n) + mdot S P.
Proof. exact tree_cost_quasilinear. Qed.

Theorem C08_tree_deriv_any_leaves : forall (L : Type) (ops : leafops R L),
  (forall l s p, l_n L ops l = length s -> length p = length s ->
     l_deriv L ops l s p = vadd (l_deriv L ops l s (zeros (length s))) p) ->
  forall n d, uniform L ops n d -> forall S P, mat (rows ops d) n S -> mat (rows ops d) n P ->
  gderiv ops d S P = madd (gderiv ops d S (mzero (rows ops d) n)) P.
Proof. exact tree_deriv_quasilinear. Qed.

(* ---- trees over the atomic-device model ---- *)
Theorem C08_tree_cost : forall n (d : dev R) S P, uniform_tree n d -> mat (tree_rows d) n S -> mat (tree_rows d) n P ->
  tree_cost d S P = quasi_cost (tree_cost d S (zero_prices (tree_rows d) n)) S P.
Proof. exact std_tree_cost. Qed.

Theorem C08_tree_deriv : forall n (d : dev R) S P, uniform_tree n d -> mat (tree_rows d) n S -> mat (tree_rows d) n P ->
  tree_deriv d S P = quasi_deriv (tree_deriv d S (zero_prices (tree_rows d) n)) P.
Proof. exact std_tree_deriv. Qed.

Theorem C08_multiflow_adaptor : forall n i (l : leafdev R) fl S P, ld_n l = n -> mat (length fl) n S -> mat (length fl) n P ->
  tree_cost (MF i l fl) S P = quasi_cost (leaf_cost l (colsum n S) (zeros n)) S P /\
  tree_deriv (MF i l fl) S P = quasi_deriv (repeat (leaf_deriv l (colsum n S) (zeros n)) (length fl)) P.
Proof. exact mf_quasilinear. Qed.

(* flat flow, price in any of the three accepted shapes: what a caller of cost(s, p) / deriv(s, p) sees *)
Theorem C08_tree_flat : forall n (d : dev R) (s : list R) (p : price R),
  uniform_tree n d -> tree_len d = n -> (0 < n)%nat -> length s = (tree_rows d * n)%nat -> price_ok (tree_rows d) n p ->
  tree_cost_flat d s p = quasi_cost (tree_cost_flat d s (PScalar 0)) (tree_shaped d s) (tree_prices d p) /\
  tree_deriv_flat d s p = quasi_deriv (tree_deriv_flat d s (PScalar 0)) (tree_prices d p).
Proof. exact tree_flat_quasilinear. Qed.

(* ---- Hessians do not depend on the price: the model Hessians take no price argument at all; hess(s,p) of the
        implementation corresponds to leaf_hess_at / tree_hess_at, which ignore p ---- *)
Theorem C08_hess_price_free : forall (l : leafdev R) (d : dev R) s S p p' P P',
  leaf_hess_at l s p = leaf_hess_at l s p' /\ tree_hess_at d S P = tree_hess_at d S P'.
Proof. exact hess_price_free. Qed.

(* ---- broadcasting: scalar = constant vector = constant matrix; vector = matrix with equal rows ---- *)
Theorem C08_broadcast_scalar : forall Rr n (c : R),
  price_rows Rr n (PScalar c) = price_rows Rr n (PVector (repeat c n)) /\
  price_rows Rr n (PScalar c) = price_rows Rr n (PMatrix (repeat (repeat c n) Rr)).
Proof. intros; split; [apply bc_scalar_vector | apply bc_scalar_matrix]. Qed.

Theorem C08_broadcast_vector : forall Rr n (l : list R),
  price_rows Rr n (PVector l) = price_rows Rr n (PMatrix (repeat l Rr)).
Proof. exact bc_vector_matrix. Qed.

Theorem C08_broadcast_tree_scalar : forall (d : dev R) (s : list R) (c : R),
  let v := PVector (repeat c (tree_len d)) in
  let m := PMatrix (repeat (repeat c (tree_len d)) (tree_rows d)) in
  tree_cost_flat d s (PScalar c) = tree_cost_flat d s v /\ tree_cost_flat d s (PScalar c) = tree_cost_flat d s m /\
  tree_deriv_flat d s (PScalar c) = tree_deriv_flat d s v /\ tree_deriv_flat d s (PScalar c) = tree_deriv_flat d s m.
Proof. exact tree_broadcast_scalar. Qed.

Theorem C08_broadcast_tree_vector : forall (d : dev R) (s l : list R),
  tree_cost_flat d s (PVector l) = tree_cost_flat d s (PMatrix (repeat l (tree_rows d))) /\
  tree_deriv_flat d s (PVector l) = tree_deriv_flat d s (PMatrix (repeat l (tree_rows d))).
Proof. exact tree_broadcast_vector. Qed.

(* non-vacuity: a two-level tree (CDevice leaf + two-conduit adaptor over an IDevice2) with mixed-sign prices *)
Example C08_example : uniform_tree 2 ex_tree /\ mat (tree_rows ex_tree) 2 ex_S /\ mat (tree_rows ex_tree) 2 ex_P /\
  tree_cost ex_tree ex_S ex_P = tree_cost ex_tree ex_S (zero_prices 3 2) + 3.
Proof. split; [exact ex_uniform|]. destruct ex_mats as [HS HP]. repeat split; auto; try apply HS; try apply HP. exact ex_instance. Qed.
