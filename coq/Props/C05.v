(* C05 - solve() returns a feasible cost-minimal flow or raises, never a silent bad one.      PARTIAL by nature.
   Statements only; each is closed by the lemma of Proofs/C05Proofs.v it names.  scipy.optimize.minimize (SLSQP) is compiled
   code: it is the parameter `minimize` of Model/Solve.v `solve_model`, and the theorems of part (a) hold for EVERY function
   `minimize`, i.e. for all fault sequences.  What is NOT proved (and cannot be exhibited by any model): that SLSQP converges,
   and that it reports failure when it should.  Part (b) is the certificate ./check C05 evaluates on every flow the real
   optimiser returns (feasibility residuals, Frank-Wolfe gap computed by an independent LP).
   Model/Solve.v is tied to solve.py by the fault-injection correspondence of ./check C05. *)
From Coq Require Import ZArith Reals List Bool.
From Coquelicot Require Import Coquelicot.
From DK Require Import Num NumR Vec.
From DK.Model Require Import Leaf Fn Dev Tree Solve.
From DK.Proofs Require Import RVec VecAlg Convex C05Proofs.
Import ListNotations.

(* ---- (a) wrapper logic: any carrier, any optimiser behaviour ---- *)
Theorem C05_outcomes : forall (A : Type) (NA : Num A) (minimize : problem A -> optresult A) dv s0 prox,
  (all_fixed (dv_bounds dv) = true /\ fixed_ok dv = true /\
     solve_model minimize dv s0 prox = SAccept (reshape (dv_rows dv) (dv_n dv) (fixed_point dv)) None) \/
  (all_fixed (dv_bounds dv) = true /\ fixed_ok dv = false /\ solve_model minimize dv s0 prox = SRaiseOptimization) \/
  (all_fixed (dv_bounds dv) = false /\ too_many_eq dv s0 prox = true /\ solve_model minimize dv s0 prox = SRaiseOptimization) \/
  (all_fixed (dv_bounds dv) = false /\ too_many_eq dv s0 prox = false /\
     let o := minimize (the_problem dv s0 prox) in
     (o_success o = false /\ solve_model minimize dv s0 prox = SRaiseOptimization) \/
     (o_success o = true /\ length (o_x o) <> (dv_rows dv * dv_n dv)%nat /\ solve_model minimize dv s0 prox = SRaiseValueError) \/
     (o_success o = true /\ length (o_x o) = (dv_rows dv * dv_n dv)%nat /\
        solve_model minimize dv s0 prox = SAccept (reshape (dv_rows dv) (dv_n dv) (o_x o)) (Some o))).
Proof. intros A NA. exact (@solve_cases A NA). Qed.

Theorem C05_raises_on_any_reported_failure : forall (A : Type) (NA : Num A) (minimize : problem A -> optresult A) dv s0 prox,
  all_fixed (dv_bounds dv) = false -> o_success (minimize (the_problem dv s0 prox)) = false ->
  solve_model minimize dv s0 prox = SRaiseOptimization.
Proof. intros A NA. exact (@solve_raises_on_failure A NA). Qed.

Theorem C05_raises_on_too_many_equalities : forall (A : Type) (NA : Num A) (minimize : problem A -> optresult A) dv s0 prox,
  all_fixed (dv_bounds dv) = false -> too_many_eq dv s0 prox = true -> solve_model minimize dv s0 prox = SRaiseOptimization.
Proof. intros A NA. exact (@solve_raises_on_too_many_eq A NA). Qed.

Theorem C05_all_fixed_never_consults_the_optimiser : forall (A : Type) (NA : Num A) (minimize : problem A -> optresult A) dv s0 prox
  (minimize' : problem A -> optresult A), all_fixed (dv_bounds dv) = true ->
  solve_model minimize dv s0 prox = solve_model minimize' dv s0 prox /\
  solve_model minimize dv s0 prox =
    (if fixed_ok dv then SAccept (reshape (dv_rows dv) (dv_n dv) (fixed_point dv)) None else SRaiseOptimization).
Proof. intros A NA. exact (@solve_all_fixed A NA). Qed.

Theorem C05_returns_only_the_reported_point : forall (A : Type) (NA : Num A) (minimize : problem A -> optresult A) dv s0 prox x o,
  solve_model minimize dv s0 prox = SAccept x o ->
  (all_fixed (dv_bounds dv) = true /\ fixed_ok dv = true /\ o = None /\ x = reshape (dv_rows dv) (dv_n dv) (fixed_point dv)) \/
  (all_fixed (dv_bounds dv) = false /\ o = Some (minimize (the_problem dv s0 prox)) /\
   o_success (minimize (the_problem dv s0 prox)) = true /\
   length (o_x (minimize (the_problem dv s0 prox))) = (dv_rows dv * dv_n dv)%nat /\
   x = reshape (dv_rows dv) (dv_n dv) (o_x (minimize (the_problem dv s0 prox)))).
Proof. intros A NA. exact (@solve_accept_inv A NA). Qed.

Theorem C05_shape : forall (A : Type) (NA : Num A) (minimize : problem A -> optresult A) dv s0 prox x o,
  (0 < dv_n dv)%nat -> length (dv_bounds dv) = (dv_rows dv * dv_n dv)%nat ->
  solve_model minimize dv s0 prox = SAccept x o ->
  length x = dv_rows dv /\ List.Forall (fun row => length row = dv_n dv) x.
Proof. intros A NA. exact (@solve_shape A NA). Qed.

Theorem C05_start_is_given_or_projected_zeros : forall (A : Type) (NA : Num A) (dv : devview A) s0 prox,
  pb_x0 (the_problem dv s0 prox) =
  match s0 with Some s => s | None => concat (dv_project dv (mconst (dv_rows dv) (dv_n dv) n0)) end.
Proof. intros A NA. exact (@solve_start A NA). Qed.
Theorem C05_bounds_and_constraints_passed_on : forall (A : Type) (NA : Num A) (dv : devview A) s0 prox,
  pb_bounds (the_problem dv s0 prox) = dv_bounds dv /\ pb_cons (the_problem dv s0 prox) = dv_cons dv.
Proof. intros A NA. exact (@solve_bounds_and_constraints A NA). Qed.

Local Open Scope R_scope.
(* the objective and its flattened gradient; with a proximal weight: cost + (1/(2 prox)) |s - s0|^2 *)
Theorem C05_objective_without_prox : forall (dv : devview R) s0 s,
  pb_fun (solve_problem dv s0 None) s = dv_cost dv s /\ pb_jac (solve_problem dv s0 None) s = concat (dv_deriv dv s).
Proof. exact solve_objective_plain. Qed.
Theorem C05_objective_with_prox : forall (dv : devview R) s0 r, r <> 0 -> forall s,
  let x0 := pb_x0 (solve_problem dv s0 (Some r)) in
  pb_fun (solve_problem dv s0 (Some r)) s = dv_cost dv s + 1 / (2 * r) * dist2 s x0 /\
  pb_jac (solve_problem dv s0 (Some r)) s = vadd (concat (dv_deriv dv s)) (vscale (1 / r) (vsub s x0)).
Proof. exact solve_objective_prox. Qed.
Theorem C05_prox_zero_means_no_prox : forall (dv : devview R) s0, solve_problem dv s0 (Some 0) = solve_problem dv s0 None.
Proof. exact solve_prox_zero_is_plain. Qed.
Theorem C05_prox_gradient_exact : forall r (x0 s : list R), r <> 0 -> length x0 = length s ->
  grad_at (fun y => 1 / (2 * r) * dist2 y x0) (vscale (1 / r) (vsub s x0)) s.
Proof. exact prox_gradient. Qed.

(* ---- (b) certificate soundness: no optimiser involved ---- *)
Theorem C05_convex_first_order : forall (B : list R -> Prop) (F : list R -> R) (x y g : list R),
  convex_on B F -> B x -> B y -> length y = length x -> has_gradient F x g -> F x + dot g (vsub y x) <= F y.
Proof. exact convex_first_order. Qed.
Theorem C05_fw_gap_certificate : forall (B : list R -> Prop) (F : list R -> R) (x g : list R) eps,
  convex_on B F -> (forall y, B y -> length y = length x) -> B x -> has_gradient F x g ->
  (forall y, B y -> dot g (vsub x y) <= eps) ->
  forall y, B y -> F x <= F y + eps.
Proof. exact fw_gap_certificate. Qed.
Theorem C05_feasible_certificate : forall delta (cs : list (con R)) x,
  forallb (fun c => con_sat delta c x) cs = true <-> List.Forall (fun c => con_ok delta c x) cs.
Proof. exact feasible_certificate. Qed.

(* ---- (c) closed form: base Device, cost <s,p>, box bounds: lower bound where p_i > 0, upper where p_i < 0 ---- *)
Theorem C05_closed_base_device : forall b p y, length p = length b -> List.Forall (fun lh => fst lh <= snd lh) b ->
  List.Forall2 (fun lh v => fst lh <= v <= snd lh) b y ->
  List.Forall2 (fun lh v => fst lh <= v <= snd lh) b (greedy b p) /\ dot (greedy b p) p <= dot y p.
Proof. exact greedy_optimal. Qed.
Theorem C05_base_device_cost_is_price_term : forall n b cb (s p : list R), leaf_cost (Build_leafdev n b cb KDev) s p = dot s p.
Proof. exact base_device_cost. Qed.

Example C05_example_gap_zero : forall y, (0 <= nth 0 y 0 <= 1 /\ length y = 1%nat) -> dot [0] [2] <= dot y [2] + 0.
Proof. exact fw_example. Qed.

(* ---- the hypothesis `has_gradient` of the certificate is what C01 provides: exact partials near x + continuity of the
   reported marginal cost at x give the derivative towards every other point (Proofs/Total.v, any length) ---- *)
From DK.Proofs Require Import Total TotalConvex.
Theorem C05_exact_gradient_gives_certificate_hypothesis : forall (F : list R -> R) (G : list R -> list R) (x : list R) (r : R),
  0 < r -> (forall y, vnear x y r -> grad_at F (G y) y) -> gcont G x -> has_gradient F x (G x).
Proof. exact exact_gradient_gives_certificate_hypothesis. Qed.

(* ---- solver options (any carrier): a call without overrides runs with the documented defaults ftol 1e-6 / maxiter 1000 / disp
   False whatever was passed to earlier calls (the model is a function of this call's arguments only; ./check C05 observes the
   options the optimiser receives in call SEQUENCES with different overrides); a key the caller passes wins ---- *)
Theorem C05_options_are_the_defaults_overridden_by_this_call : forall (A : Type) (NA : Num A) (u : sopts A),
  so_ftol (solve_options u) = match so_ftol u with Some v => Some v | None => Some (ndiv n1 (nofZ 1000000)) end /\
  so_maxiter (solve_options u) = match so_maxiter u with Some v => Some v | None => Some 1000%Z end /\
  so_disp (solve_options u) = match so_disp u with Some v => Some v | None => Some false end.
Proof. intros A NA. exact (@solve_options_spec A NA). Qed.
Theorem C05_no_overrides_means_the_defaults : forall (A : Type) (NA : Num A),
  solve_options (@Build_sopts A None None None) = default_opts.
Proof. intros A NA. exact (@solve_options_no_override A NA). Qed.

(* ---- solve() regenerated from device_kit/solve.py on every run (Gen/Solve.v, translator/solve_tx.py: the defaults dictionary and its
        update, the all-fixed shortcut with its per-constraint test and tolerances, the default start, the args dictionary with its lambdas
        and the `if prox:` update, the equality-count guard, the call, `if not o.success: raise`, the reshapes) IS solve_model, the wrapper the
        theorems of part (a) quantify over, for EVERY behaviour of the optimiser.  Any carrier. ---- *)
From DK.Model Require Import SolveOps.
From DK.Gen Require Import Solve.
From DK.Proofs Require Import GenSolve.
Theorem C05_source_solve : forall (A : Type) (NA : Num A) (minimize : problem A -> optresult A) dv s0 prox,
  length (dv_bounds dv) = (dv_rows dv * dv_n dv)%nat -> solve_gen minimize dv s0 prox = solve_model minimize dv s0 prox.
Proof. intros A NA. exact (@gen_solve A NA). Qed.
Theorem C05_source_solver_options : forall (A : Type) (NA : Num A),
  solve_defaults_gen (A:=A) = default_opts /\ forall user, solve_options_gen user = solve_options user.
Proof. intros A NA. exact (@gen_solve_defaults A NA). Qed.

(* ---- the constraint list solve() hands to the optimiser (and tests in the all-fixed shortcut) for a set node / a multi-flow adaptor,
        regenerated from DeviceSet.constraints / MFDeviceSet.constraints on every run (Gen/Constraints.v: which bound each per-slot closure
        reads, default-argument capture vs late binding), IS the model's constraint list gcons. ---- *)
From DK.Model Require Import ConOps.
From DK.Gen Require Import Constraints.
From DK.Proofs Require Import GenConstraints.
Theorem C05_source_set_constraints : forall {A} `{Num A} {L} (ops : leafops A L) i ks sb, let d := DSet i ks sb in
  DeviceSet_constraints (map (ckid_of ops) ks) (partition ops d) (rows ops d, dlen ops d) sb = gcons ops d.
Proof. intros A H L ops i ks sb. apply gen_set_node_constraints. Qed.
Theorem C05_source_adaptor_constraints : forall {A} `{Num A} {L} (ops : leafops A L) i l flows,
  let d := MF i l flows in let k := List.length flows in let n := @l_n A L ops l in
  MFDeviceSet_constraints (DeviceSet_constraints (repeat null_ckid k) (map (fun j => (j, 1%nat)) (seq 0 k)) (k, n) (Some (@l_bounds A L ops l)))
    (@l_cons A L ops l) (k, n) = gcons ops d.
Proof. intros A H L ops i l flows. apply gen_mf_node_constraints. Qed.
