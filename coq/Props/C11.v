(* C11 - Validation: ill-formed settings rejected, accepted ones reported faithfully.
   Statements only; each is closed by the lemma of Proofs/C11Proofs.v it names.
   validate_bounds / set_cbounds / ctor (Model/Validate.v) are tied to /repo by the bounded-exhaustive correspondence of
   ./check C11; every X_accepts / X_stored below is REGENERATED from the setters of /repo on each run (Gen/Validators.v).
   Theorems about the structure of the input hold for every numeric carrier and use no axioms; theorems that read a guard
   as an inequality are stated over the reals. *)
From Coq Require Import String ZArith QArith Reals List Bool.
From DK Require Import Num NumQ NumR Vec.
From DK.Model Require Import Leaf PyVal Validate.
From DK.Gen Require Import Validators.
From DK.Proofs Require Import C11Proofs.
Import ListNotations.

(* ---------------------------------------------------------------- bounds specifications, all device lengths *)
(* the documented meaning of the three forms *)
Theorem C11_meaning_is_the_documented_relation : forall (A : Type) n (b : pv A) t,
  meaning n b = Some t <-> denotes n b t.
Proof. exact (@meaning_denotes). Qed.

(* soundness, on well-typed input outside the region of the open findings (hypothesis safe) *)
Theorem C11_bounds_sound_partial : forall (A : Type) (H : Num A) n (b : pv A) raw,
  pv_numeric b = true -> depth2 b = true -> safe n b = true ->
  validate_bounds n b = Accept raw -> exists t, raw = raw_of t /\ meaning n b = Some t /\ ordered t = true.
Proof. exact (@vb_sound). Qed.

(* FULL STATEMENT, false of the code as it is (no `safe` hypothesis):
     forall n b raw, pv_numeric b = true -> depth2 b = true -> validate_bounds n b = Accept raw ->
       exists t, raw = raw_of t /\ meaning n b = Some t /\ ordered t = true.
   Witnesses: the two open findings and their length-2 relative. *)
Theorem C11_bounds_sound_refuted_flat_list : exists n (b : pv Q) raw,
  pv_numeric b = true /\ depth2 b = true /\ validate_bounds n b = Accept raw /\ meaning n b = None /\ safe n b = false.
Proof. exact sound_refuted_flat. Qed.
Theorem C11_bounds_sound_refuted_rows_on_length_two : exists n (b : pv Q) raw,
  pv_numeric b = true /\ depth2 b = true /\ validate_bounds n b = Accept raw /\ meaning n b = None /\ safe n b = false.
Proof. exact sound_refuted_rows. Qed.
Theorem C11_bounds_sound_refuted_wrong_length_on_length_two : exists n (b : pv Q) raw,
  pv_numeric b = true /\ depth2 b = true /\ validate_bounds n b = Accept raw /\ meaning n b = None /\ safe n b = false /\ table_of raw = None.
Proof. exact sound_refuted_two. Qed.

(* completeness: every well-formed specification is accepted and normalised to the table it denotes *)
Theorem C11_bounds_complete : forall (A : Type) (H : Num A) n (b : pv A) t,
  n <> 0%nat -> meaning n b = Some t -> ordered t = true -> validate_bounds n b = Accept (raw_of t).
Proof. exact (@vb_complete). Qed.

(* rejection with ValueError: not a sequence; a lower bound above its upper bound; anything without a documented meaning *)
Theorem C11_bounds_rejects_non_sequence : forall (A : Type) (H : Num A) n (a : A),
  validate_bounds n (PNum a) = RaiseValueError /\ validate_bounds n (@PNone A) = RaiseValueError.
Proof. exact (@vb_rejects_non_sequence). Qed.
Theorem C11_bounds_rejects_low_above_high : forall (A : Type) (H : Num A) n (b : pv A) t,
  meaning n b = Some t -> ordered t = false -> validate_bounds n b = RaiseValueError.
Proof. exact (@vb_rejects_low_above_high). Qed.
Theorem C11_bounds_rejects_ill_formed_partial : forall (A : Type) (H : Num A) n (l : list (pv A)),
  pv_numeric (PSeq l) = true -> depth2 (PSeq l) = true -> safe n (PSeq l) = true -> l <> [] ->
  ~ well_formed n (PSeq l) -> validate_bounds n (PSeq l) = RaiseValueError.
Proof. exact (@vb_rejects_ill_formed). Qed.
Theorem C11_bounds_rejects_wrong_length_partial : forall (A : Type) (H : Num A) n (xs : list A) (hi : pv A),
  pv_numeric hi = true -> shallow hi = true -> safe n (PSeq [PSeq (map PNum xs); hi]) = true ->
  is_table n (PSeq [PSeq (map PNum xs); hi]) = false -> length xs <> n ->
  validate_bounds n (PSeq [PSeq (map PNum xs); hi]) = RaiseValueError.
Proof. exact (@vb_rejects_wrong_length). Qed.
(* FULL STATEMENT, false: ill-formed input inside the findings' region may raise IndexError instead *)
Theorem C11_bounds_rejects_refuted_index_error : exists n (b : pv Q),
  pv_numeric b = true /\ depth2 b = true /\ meaning n b = None /\ validate_bounds n b = RaiseOther /\ safe n b = false.
Proof. exact rejects_refuted_index_error. Qed.
Theorem C11_low_le_high_is_the_order_of_the_reals : forall t : list (R * R),
  ordered t = true <-> List.Forall (fun p => (fst p <= snd p)%R) t.
Proof. exact ordered_real. Qed.

(* ---------------------------------------------------------------- cumulative bounds *)
Theorem C11_cbounds_guard_arity : forall lb hb (c : pv R),
  Device_set_cbound_accepts lb hb c = true -> pv_has_len c = true /\ pv_len c = 4%nat.
Proof. exact cbound_guard_arity. Qed.
Theorem C11_cbounds_guard_is_lo_lt_hi_and_attainable : forall lb hb lo hi s e,
  (s <= length lb)%nat -> (e <= length lb)%nat -> length hb = length lb ->
  Device_set_cbound_accepts lb hb (PSeq [PNum lo; PNum hi; PNum (IZR (Z.of_nat s)); PNum (IZR (Z.of_nat e))]) = true <->
  (lo < hi /\ vsum (slice s e lb) <= hi /\ lo <= vsum (slice s e hb))%R.
Proof. exact cbound_guard_spec_nat. Qed.
Theorem C11_cbounds_guard_general_slice : forall lb hb lo hi (si ei : pv R),
  Device_set_cbound_accepts lb hb (PSeq [PNum lo; PNum hi; si; ei]) = true <->
  (lo < hi /\
   vsum (slice (pv_slice_lo (length lb) si) (pv_slice_hi (length lb) ei) lb) <= hi /\
   lo <= vsum (slice (pv_slice_lo (length hb) si) (pv_slice_hi (length hb) ei) hb))%R.
Proof. exact cbound_guard_spec. Qed.
Theorem C11_cbounds_rejects_non_sequence : forall (A : Type) (H : Num A) n lb hb (a : A),
  set_cbounds n lb hb (PNum a) = RaiseValueError.
Proof. exact (@set_cbounds_rejects_non_sequence). Qed.
Theorem C11_cbounds_rejects_wrong_arity : forall (A : Type) (H : Num A) lb hb (c : pv A),
  pv_len c <> 4%nat -> set_cbound lb hb c = RaiseValueError.
Proof. exact (@set_cbound_rejects_arity). Qed.
Theorem C11_cbounds_rejects_failed_guard : forall (A : Type) (H : Num A) lb hb (c : pv A),
  pv_has_len c = true -> pv_len c = 4%nat -> cb_typed c = true ->
  Device_set_cbound_accepts lb hb c = false -> set_cbound lb hb c = RaiseValueError.
Proof. exact (@set_cbound_rejects_guard). Qed.
(* accepted cumulative bounds are reported as supplied (a pair is completed with the whole horizon) *)
Theorem C11_cbounds_reported : forall (A : Type) (H : Num A) n lb hb (c : pv A) r,
  set_cbounds n lb hb c = Accept r ->
  (c = PNone /\ r = None) \/
  (exists lo hi, c = PSeq [lo; hi] /\ pv_has_len lo = false /\
     r = Some [PSeq [lo; hi; PNum (nofZ 0); PNum (nofZ (Z.of_nat n))]] /\
     Device_set_cbound_accepts lb hb (PSeq [lo; hi; PNum (nofZ 0); PNum (nofZ (Z.of_nat n))]) = true) \/
  (exists l, c = PSeq l /\ r = Some l /\ forall x, In x l -> pv_len x = 4%nat /\ Device_set_cbound_accepts lb hb x = true).
Proof. exact (@set_cbounds_reports). Qed.

(* ---------------------------------------------------------------- constructors report the validated table *)
Theorem C11_constructor_reports_validated_bounds : forall (A : Type) (H : Num A) k n (b cb : pv A) raw scb,
  ctor k n b cb = Accept (raw, scb) ->
  validate_bounds n b = Accept raw /\ forallb (fun r => Nat.eqb (length r) 2) raw = true.
Proof. exact (@ctor_reports_bounds). Qed.
Theorem C11_cdevice2_ranges_tile_the_horizon : forall (A : Type) (H : Num A) n (b cb : pv A) raw l,
  ctor CC2 n b cb = Accept (raw, Some l) ->
  (exists c, l = [c]) \/ (covers n l = true /\ contiguous_from (PNum (nofZ 0)) l = true).
Proof. exact (@ctor_cdevice2_ranges). Qed.

(* ---------------------------------------------------------------- generated parameter guards = documented ranges *)
Local Open Scope R_scope.
Theorem C11_params_CDevice_a : forall a : R, CDevice_a_accepts a = true <-> a <= 0.
Proof. exact cdevice_a_range. Qed.
Theorem C11_params_CDevice2_p_h : forall n pl v,
  CDevice2_p_h_accepts n pl v = true <-> shape_ok n v /\ pall (fun x => x <= 0) v /\ ple pl v.
Proof. exact cdevice2_p_h_range. Qed.
Theorem C11_params_CDevice2_p_l : forall n ph v,
  CDevice2_p_l_accepts n ph v = true <-> shape_ok n v /\ pall (fun x => x <= 0) v /\ ple v ph.
Proof. exact cdevice2_p_l_range. Qed.
Theorem C11_params_IDevice2_p_h : forall n pl v,
  IDevice2_p_h_accepts n pl v = true <-> shape_ok n v /\ pall (fun x => x <= 0) v /\ ple pl v.
Proof. exact idevice2_p_h_range. Qed.
Theorem C11_params_IDevice2_p_l : forall n ph v,
  IDevice2_p_l_accepts n ph v = true <-> shape_ok n v /\ pall (fun x => x <= 0) v /\ ple v ph.
Proof. exact idevice2_p_l_range. Qed.
Theorem C11_params_IDevice_a : forall n a, IDevice_a_accepts n a = true <-> shape_ok n a /\ pall (fun x => 0 <= x) a.
Proof. exact idevice_a_range. Qed.
Theorem C11_params_IDevice_b : forall n b, IDevice_b_accepts n b = true <-> shape_ok n b /\ pall (fun x => 0 < x) b.
Proof. exact idevice_b_range. Qed.
Theorem C11_params_IDevice_c : forall n c, IDevice_c_accepts n c = true <-> shape_ok n c /\ pall (fun x => 0 <= x) c.
Proof. exact idevice_c_range. Qed.
Theorem C11_params_generators_cannot_consume : forall hb,
  (GDevice_bounds_accepts hb = true <-> List.Forall (fun h => h <= 0) hb) /\
  (PVDevice_bounds_accepts hb = true <-> List.Forall (fun h => h <= 0) hb).
Proof. intros hb. split; [exact (generator_bounds_range hb)|exact (pv_bounds_range hb)]. Qed.
Theorem C11_params_SDevice_c1 : forall c2 c1, SDevice_c1_accepts c2 c1 = true <-> 0 <= c1 /\ ~ (c1 <= c2 /\ 0 < c2).
Proof. exact sdevice_c1_range. Qed.
Theorem C11_params_SDevice_c2 : forall c1 c2, SDevice_c2_accepts c1 c2 = true <-> 0 <= c2 /\ ~ (c1 < c2 /\ 0 < c1).
Proof. exact sdevice_c2_range. Qed.
Theorem C11_params_SDevice_c3 : forall c3, SDevice_c3_accepts c3 = true <-> 0 <= c3.
Proof. exact sdevice_c3_range. Qed.
Theorem C11_params_SDevice_capacity : forall c, SDevice_capacity_accepts c = true <-> 0 < c.
Proof. exact sdevice_capacity_range. Qed.
Theorem C11_params_SDevice_unit_intervals : forall v,
  (SDevice_start_accepts v = true <-> 0 <= v <= 1) /\ (SDevice_reserve_accepts v = true <-> 0 <= v <= 1) /\
  (SDevice_damage_depth_accepts v = true <-> 0 <= v <= 1) /\
  (SDevice_efficiency_accepts v = true <-> 0 < v <= 1) /\ (SDevice_sustainment_accepts v = true <-> 0 < v <= 1).
Proof. exact sdevice_unit_ranges. Qed.
Theorem C11_params_SDevice_rate_clip : forall r,
  SDevice_rate_clip_accepts r = true <-> none_or_ge1 (fst (rc_norm r)) /\ none_or_ge1 (snd (rc_norm r)).
Proof. exact sdevice_rate_clip_range. Qed.
Theorem C11_params_TDevice : forall n sus eff tr (text : list R) c,
  TDevice_init_accepts n sus eff tr text c = true <->
  0 <= sus <= 1 /\ eff <> 0 /\ 0 <= tr /\ length text = n /\ shape_ok n c /\ pall (fun x => 0 <= x) c.
Proof. exact tdevice_init_range. Qed.
Theorem C11_params_DeviceSet_equal_horizons : forall (id_ok : bool) (lens : list nat),
  DeviceSet_init_accepts id_ok lens = true <-> id_ok = true /\ forall l, In l lens -> l = hd 0%nat lens.
Proof. exact deviceset_init_range. Qed.
Theorem C11_params_MFDeviceSet_one_directional : forall lb hb (flows : list string),
  MFDeviceSet_init_accepts lb hb flows = true <->
  flows <> [] /\ ~ (List.Exists (fun l => l < 0) lb /\ List.Exists (fun h => 0 < h) hb).
Proof. exact mfdeviceset_init_range. Qed.
Theorem C11_params_TwoRatioMFDeviceSet : forall (flows : list string) (ratios : option (list R)) ct,
  TwoRatioMFDeviceSet_init_accepts flows ratios ct = true <->
  length flows = 2%nat /\ (match ratios with None => True | Some r => length r = length flows end) /\ (ct = "eq"%string \/ ct = "ineq"%string).
Proof. exact tworatio_init_range. Qed.

(* ---------------------------------------------------------------- accepted parameter values are stored unchanged *)
Theorem C11_reported_scalars : forall (A : Type) (v w : A),
  CDevice_a_stored v = v /\ SDevice_c1_stored w v = v /\ SDevice_c2_stored w v = v /\ SDevice_c3_stored v = v /\
  SDevice_capacity_stored v = v /\ SDevice_start_stored v = v /\ SDevice_reserve_stored v = v /\
  SDevice_damage_depth_stored v = v /\ SDevice_efficiency_stored v = v /\ SDevice_sustainment_stored v = v.
Proof. exact (@stored_scalars). Qed.
Theorem C11_reported_params : forall (A : Type) n (q v : param A),
  CDevice2_p_h_stored n q v = v /\ CDevice2_p_l_stored n q v = v /\ IDevice2_p_h_stored n q v = v /\ IDevice2_p_l_stored n q v = v /\
  IDevice_a_stored n v = v /\ IDevice_b_stored n v = v /\ IDevice_c_stored n v = v.
Proof. exact (@stored_params). Qed.
Theorem C11_reported_rate_clip : forall (A : Type) (r : rcv A), SDevice_rate_clip_stored r = rc_norm r.
Proof. exact (@stored_rate_clip). Qed.

(* ---------------------------------------------------------------- the hypotheses are satisfiable *)
Example C11_example_scalar_low_vector_high : let b := PSeq [qn 0; PSeq [qn 1; qn 2; qn 2]] in
  pv_numeric b = true /\ depth2 b = true /\ safe 3%nat b = true /\
  meaning 3%nat b = Some [(0, 1); (0, 2); (0, 2)]%Q /\ validate_bounds 3%nat b = Accept (raw_of [(0, 1); (0, 2); (0, 2)]%Q).
Proof. exact example_pair. Qed.
Example C11_example_cbounds_pair : set_cbounds 3%nat [0; 0; 0]%Q [1; 1; 1]%Q (PSeq [qn 1; qn 2]) = Accept (Some [PSeq [qn 1; qn 2; qn 0; qn 3]]).
Proof. exact example_cbounds. Qed.
