(* C03 - Leaf bounds + constraints describe exactly the documented feasible flows.
   Statements only; each is closed by the lemma of Proofs/C03Proofs.v it names. `leaf_cons`, `in_box`, `con_sat`
   (Model/Dev.v) mirror Device.constraints / SDevice.constraints / ADevice.constraints and the way scipy reads a
   constraint dict; they are tied to /repo by the correspondence run of ./check C03. The specification
   `leaf_feasible_spec` (Model/FeasSpec.v) is written from the docstrings; its state of charge is the documented
   recurrence of C09 (Model/StateSpec.v). Exact: tolerance 0, real arithmetic, every horizon length. *)
From Coq Require Import ZArith Reals List Bool Arith.
From DK Require Import Num NumR Vec.
From DK.Model Require Import Leaf Fn Dev DocSpec StateSpec FeasSpec.
From DK.Proofs Require Import C03Proofs.
Import ListNotations.
Local Open Scope R_scope.

(* bounds + every exported constraint hold  <->  the documented hard constraints hold *)
Theorem C03_feasible_set_is_the_documented_one : forall (d : leafdev R) (x : list R),
  length x = ld_n d -> (0 < ld_n d)%nat -> leaf_accepted d ->
  (in_box 0 (ld_bounds d) x = true /\ forallb (fun c => con_sat 0 c x) (leaf_cons d) = true
   <-> leaf_feasible_spec d x).
Proof. exact leaf_feasible_iff. Qed.

(* the k-th cumulative bound is exported as constraints 2k, 2k+1: its own range, its own limits, both inequalities *)
Theorem C03_each_cumulative_bound_is_its_own_pair : forall n (cbs : list (cbound R)) k (x : list R),
  (k < length cbs)%nat -> length x = n ->
  let c := nth k cbs (0, 0, 0%nat, 0%nat) in
  let dflt := Build_con false (fun _ => 0) None in
  c_fun (nth (2 * k) (cb_cons n cbs) dflt) x = range_total (cb_s c) (cb_e c) x - cb_lo c /\
  c_fun (nth (2 * k + 1) (cb_cons n cbs) dflt) x = cb_hi c - range_total (cb_s c) (cb_e c) x /\
  c_eq (nth (2 * k) (cb_cons n cbs) dflt) = false /\ c_eq (nth (2 * k + 1) (cb_cons n cbs) dflt) = false.
Proof. exact cb_cons_each. Qed.

(* the spec's range total is the sum of x_i over start <= i < end *)
Theorem C03_range_total_is_the_sum_over_the_range : forall st (x : list R) en, (en <= length x)%nat ->
  range_total st en x = vsum (map (fun i => nth i x 0) (seq st (en - st))).
Proof. exact range_total_sum. Qed.

(* the storage block alone *)
Theorem C03_storage_constraints : forall (q : sparams R) bnd (x : list R), (0 < length x)%nat -> 0 < sp_capacity q ->
  (forallb (fun c => con_sat 0 c x) (sdev_cons q (length x) bnd) = true <-> storage_ok q bnd x).
Proof. exact sdev_cons_sat. Qed.

(* number of exported constraints (the only thing the test-suite asserts) *)
Theorem C03_constraint_count : forall d : leafdev R, length (leaf_cons d) = leaf_cons_count d.
Proof. exact leaf_cons_length. Qed.

(* everything a non-ADevice exports is an inequality *)
Theorem C03_constraint_types : forall (d : leafdev R) c, In c (leaf_cons d) ->
  match ld_kind d with KA _ _ => True | _ => c_eq c = false end.
Proof. exact leaf_cons_types. Qed.

(* non-vacuity: two ranges with different limits; (1,1,2,2) is feasible, (0,0,2,2) violates the first range only *)
Example C03_example_two_ranges :
  leaf_feasible_spec ex_dev [1;1;2;2] /\ ~ leaf_feasible_spec ex_dev [0;0;2;2].
Proof. exact example_two_ranges. Qed.
Example C03_example_two_ranges_exported :
  model_feasible ex_dev [1;1;2;2] /\ ~ model_feasible ex_dev [0;0;2;2].
Proof. exact example_two_ranges_model. Qed.

(* ---- the two instances agree on the exported constraint lists (Proofs/HomCons.v): same number and types, and every constraint
   function / Jacobian evaluated on exact rationals (what ./check C03 and C06 compare with the implementation) maps through Q2R to the
   real one the theorems above speak about. Every atomic kind, every length. ---- *)
From Coq Require Import QArith Qreals.
From DK Require Import NumQ.
From DK.Proofs Require Import Hom HomLeaf HomCons.
Theorem C03_instances_agree_on_the_exported_constraints : forall (L : leafdev Q),
  List.Forall2 (fun (cq : con Q) (cr : con R) =>
      c_eq cq = c_eq cr /\ (forall x, Q2R (c_fun cq x) = c_fun cr (List.map Q2R x)) /\
      match c_jac cq, c_jac cr with
      | Some jq, Some jr => forall x, List.map Q2R (jq x) = jr (List.map Q2R x)
      | None, None => True
      | _, _ => False
      end) (leaf_cons L) (leaf_cons (mleaf L)).
Proof. exact instances_agree_leaf_cons. Qed.

(* ---- Device.constraints and SDevice.constraints regenerated from device.py / sdevice.py on every run (Gen/Constraints.v,
        translator/constraints_tx.py: the loops, what every lambda captures through default arguments and what it leaves free (bound LATE,
        i.e. to the last iteration), order, types, signs, limits) ARE the exported constraint list the theorems above are about ---- *)
From DK.Model Require Import Tree ConOps.
From DK.Gen Require Import Constraints.
From DK.Proofs Require Import GenLeafConstraints.
Theorem C03_source_device_constraints : forall (A : Type) (NA : Num A) n (cbs : list (cbound A)), Device_constraints n cbs = cb_cons n cbs.
Proof. intros A NA. exact (@gen_device_constraints A NA). Qed.
Theorem C03_source_sdevice_constraints : forall (q : sparams R) n bnd cbs,
  SDevice_constraints (Device_constraints n cbs) q n bnd = cb_cons n cbs ++ sdev_cons q n bnd.
Proof. intros q n bnd cbs. rewrite gen_sdevice_constraints, gen_device_constraints. reflexivity. Qed.
