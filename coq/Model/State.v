(* C12: the mutable cells a "read-only" call of the library can reach, and what each call does to them.
   Hand-written from a sweep of every in-place write of the package (corpus/C12/write_sites.json, re-scanned by the
   harness on every run).  Cells:
     - the heap of constraint dict objects a caller handed to ADevices, the ADevices' own `_constraints` lists and the
       caller's lists (all three share the dict objects; closures are an AST so that re-wrapping in place is representable),
     - the lazy derivative caches `_deriv` / `_hess` of every Poly2D / Poly2DOffset object (functions.py),
     - the functools.lru_cache tables of utils.sustainment_matrix / utils.power_matrix (write-once, shared by all devices),
     - the numeric arrays / lists the caller supplied (bounds, cbounds, parameters, flows and prices passed to calls).
   `step` is what the code of /repo does NOW to these cells for each API call (after fix dc6ad74 reading
   MFDeviceSet.constraints copies the wrapped device's dicts instead of rewriting them); `step_old` keeps the pre-fix
   behaviour only to show that the statement of C12 is falsifiable in this model.
   Polymorphic in the carrier, executable, no Reals. *)
From Coq Require Import ZArith List Bool Arith.
From DK Require Import Num Vec.
From DK.Model Require Import Leaf.
Import ListNotations.

Section State.
  Context {A : Type} `{Num A}.
  Local Open Scope num_scope.

  (* ---- values held by cells ------------------------------------------------------------------------------ *)
  (* a constraint closure: one of the caller's original functions, or a wrapper the library built around one *)
  Inductive cexpr := CBase (k : nat) | CSumWrap (rows n : nat) (c : cexpr).
  Record cdict := { cd_eq : bool; cd_fun : cexpr; cd_jac : option cexpr }.

  (* a Poly2D (po_offs = None) or Poly2DOffset object: coefficient rows (highest power first) and its two lazy caches *)
  Record polyobj := { po_coeffs : list (list A); po_offs : option (list A);
                      po_d : option (list (list A)); po_h : option (list (list A)) }.
  (* np.polyadd(np.zeros(len(c)), np.poly1d(c).deriv(m).coeffs): the derivative, left-padded to the length of c *)
  Definition padl (n : nat) (c : list A) : list A := repeat n0 (n - length c) ++ c.
  Definition dcoeffs (c : list A) : list A := padl (length c) (pderiv c).
  Definition hcoeffs (c : list A) : list A := padl (length c) (pderiv (pderiv c)).
  Definition fresh_d (o : polyobj) : list (list A) := map dcoeffs (po_coeffs o).
  Definition fresh_h (o : polyobj) : list (list A) := map hcoeffs (po_coeffs o).

  (* utils.power_matrix(l): entry (i,j) = i-j below the diagonal, 0 elsewhere *)
  Definition pow_matrix (l : nat) : list (list A) :=
    map (fun i => map (fun j => if (j <? i)%nat then nofnat (i - j) else n0) (seq 0 l)) (seq 0 l).

  Record st := {
    s_dicts : list cdict;                       (* heap of constraint dict objects *)
    s_adcons : list (list nat);                 (* ADevice k: its _constraints list (ids into the heap) *)
    s_caller : list (list nat);                 (* caller's list k (ids into the heap) *)
    s_polys : list polyobj;
    s_sus : list (nat * list (list A));         (* lru table of sustainment_matrix: key id -> cached matrix *)
    s_pow : list (nat * list (list A));         (* lru table of power_matrix: l -> cached matrix *)
    s_arrays : list (list A)                    (* caller-supplied numeric data, flattened *)
  }.
  Definition with_polys (s : st) (p : list polyobj) : st :=
    {| s_dicts := s_dicts s; s_adcons := s_adcons s; s_caller := s_caller s; s_polys := p;
       s_sus := s_sus s; s_pow := s_pow s; s_arrays := s_arrays s |}.
  Definition with_lru (s : st) (su pw : list (nat * list (list A))) : st :=
    {| s_dicts := s_dicts s; s_adcons := s_adcons s; s_caller := s_caller s; s_polys := s_polys s;
       s_sus := su; s_pow := pw; s_arrays := s_arrays s |}.
  Definition with_dicts (s : st) (d : list cdict) : st :=
    {| s_dicts := d; s_adcons := s_adcons s; s_caller := s_caller s; s_polys := s_polys s;
       s_sus := s_sus s; s_pow := s_pow s; s_arrays := s_arrays s |}.

  (* ---- the static part of a scenario: what each addressable node (root, inner node, leaf, wrapped device) reaches -- *)
  Record nodeinfo := {
    ni_polys : list nat;          (* Poly2D/Poly2DOffset objects under this node (through ADevice.f compositions) *)
    ni_lru : list nat;            (* key ids (sustainment, length) of the storage / thermal devices under this node *)
    ni_fixed : bool;              (* every slot of every row fixed: solve() returns early *)
    ni_wrap : option (nat * nat * nat)   (* multi-flow adaptor: (ADevice index of the wrapped device, conduits, length) *)
  }.
  Definition empty_node : nodeinfo := {| ni_polys := []; ni_lru := []; ni_fixed := true; ni_wrap := None |}.
  Record scenario := { sc_nodes : list nodeinfo; sc_keys : list (A * nat) }.
  Definition key_of (sc : scenario) (k : nat) : A * nat := nth k (sc_keys sc) (n0, 0%nat).
  Definition sus_value (sc : scenario) (k : nat) : list (list A) := let '(s, l) := key_of sc k in sust_matrix s l.

  (* ---- API calls ---------------------------------------------------------------------------------------------- *)
  Inductive opk := KCost | KDeriv | KHess | KBounds | KReadCons | KCallFun (i : nat) | KCallJac (i : nat)
                 | KProject | KMap | KToDict | KSolve
                 | KEvict.    (* environment: the lru caches drop their entries (cache_clear / eviction) *)
  Record op := { o_node : nat; o_k : opk }.
  (* what a call writes *)
  Inductive event := EFillD (p : nat) | EFillH (p : nat) | EFillSus (k : nat) | EFillPow (l : nat) | EEvict
                   | EDict (k : nat).   (* a constraint dict object rewritten in place (never, in the present code) *)

  Definition assoc (k : nat) (t : list (nat * list (list A))) : option (list (list A)) :=
    match find (fun e => Nat.eqb (fst e) k) t with Some e => Some (snd e) | None => None end.

  Definition fill_d (s : st) (p : nat) : st * list event :=
    match nth_error (s_polys s) p with
    | Some o => match po_d o with
                | Some _ => (s, [])
                | None => (with_polys s (upd (s_polys s) p
                             {| po_coeffs := po_coeffs o; po_offs := po_offs o; po_d := Some (fresh_d o); po_h := po_h o |}),
                           [EFillD p])
                end
    | None => (s, [])
    end.
  Definition fill_h (s : st) (p : nat) : st * list event :=
    match nth_error (s_polys s) p with
    | Some o => match po_h o with
                | Some _ => (s, [])
                | None => (with_polys s (upd (s_polys s) p
                             {| po_coeffs := po_coeffs o; po_offs := po_offs o; po_d := po_d o; po_h := Some (fresh_h o) |}),
                           [EFillH p])
                end
    | None => (s, [])
    end.
  (* power_matrix(l) *)
  Definition touch_pow (s : st) (l : nat) : st * list event :=
    match assoc l (s_pow s) with
    | Some _ => (s, [])
    | None => (with_lru s (s_sus s) ((l, pow_matrix l) :: s_pow s), [EFillPow l])
    end.
  (* sustainment_matrix(s, l): `if s == 1: tril(ones)` else `tril(s ** power_matrix(l))` *)
  Definition touch_sus (sc : scenario) (s : st) (k : nat) : st * list event :=
    match assoc k (s_sus s) with
    | Some _ => (s, [])
    | None =>
        let '(a, l) := key_of sc k in
        let '(s1, e1) := if a =? n1 then (s, []) else touch_pow s l in
        (with_lru s1 ((k, sus_value sc k) :: s_sus s1) (s_pow s1), e1 ++ [EFillSus k])
    end.

  Fixpoint thread {X} (f : st -> X -> st * list event) (xs : list X) (s : st) : st * list event :=
    match xs with
    | [] => (s, [])
    | x :: xs' => let '(s1, e1) := f s x in let '(s2, e2) := thread f xs' s1 in (s2, e1 ++ e2)
    end.

  Definition do_cost (sc : scenario) (ni : nodeinfo) (s : st) := thread (touch_sus sc) (ni_lru ni) s.
  Definition do_deriv (sc : scenario) (ni : nodeinfo) (s : st) :=
    let '(s1, e1) := thread fill_d (ni_polys ni) s in
    let '(s2, e2) := thread (touch_sus sc) (ni_lru ni) s1 in (s2, e1 ++ e2).
  Definition do_hess (sc : scenario) (ni : nodeinfo) (s : st) :=
    let '(s1, e1) := thread fill_h (ni_polys ni) s in
    let '(s2, e2) := thread (touch_sus sc) (ni_lru ni) s1 in (s2, e1 ++ e2).

  Definition step (sc : scenario) (s : st) (o : op) : st * list event :=
    let ni := nth (o_node o) (sc_nodes sc) empty_node in
    match o_k o with
    | KCost => do_cost sc ni s
    | KDeriv => do_deriv sc ni s
    | KHess => do_hess sc ni s
    | KSolve => if ni_fixed ni then (s, [])
                else let '(s1, e1) := do_cost sc ni s in let '(s2, e2) := do_deriv sc ni s1 in (s2, e1 ++ e2)
    | KEvict => (with_lru s [] [], [EEvict])
    | KBounds | KReadCons | KCallFun _ | KCallJac _ | KProject | KMap | KToDict => (s, [])
    end.

  Definition run (sc : scenario) (ops : list op) (s : st) : st := fold_left (fun s o => fst (step sc s o)) ops s.
  (* with the per-call write events, for the correspondence *)
  Fixpoint trace (sc : scenario) (ops : list op) (s : st) : st * list (list event) :=
    match ops with
    | [] => (s, [])
    | o :: ops' => let '(s1, e) := step sc s o in let '(s2, es) := trace sc ops' s1 in (s2, e :: es)
    end.

  (* ---- what later calls can observe --------------------------------------------------------------------------- *)
  (* a cache that is empty behaves as the value a fresh object would compute *)
  Definition eff_d (o : polyobj) : list (list A) := match po_d o with Some c => c | None => fresh_d o end.
  Definition eff_h (o : polyobj) : list (list A) := match po_h o with Some c => c | None => fresh_h o end.
  Definition poly_view (o : polyobj) := (po_coeffs o, po_offs o, eff_d o, eff_h o).
  Definition lookup_sus (sc : scenario) (s : st) (k : nat) : list (list A) :=
    match assoc k (s_sus s) with Some m => m | None => sus_value sc k end.
  Definition lookup_pow (s : st) (l : nat) : list (list A) :=
    match assoc l (s_pow s) with Some m => m | None => pow_matrix l end.

  Definition caller_data (s : st) := (s_dicts s, s_caller s, s_arrays s).
  Definition fingerprint (sc : scenario) (s : st) :=
    (s_dicts s, s_adcons s, s_caller s, s_arrays s, map poly_view (s_polys s),
     map (lookup_sus sc s) (seq 0 (length (sc_keys sc))), map (fun kl => lookup_pow s (snd kl)) (sc_keys sc)).

  (* ---- the defect repaired by dc6ad74, kept to show that the model can tell the difference ------------------------ *)
  Definition rewrap (rows n : nat) (d : cdict) : cdict :=
    {| cd_eq := cd_eq d; cd_fun := CSumWrap rows n (cd_fun d);
       cd_jac := match cd_jac d with Some j => Some (CSumWrap rows n j) | None => None end |}.
  Definition rewrap_in_place (rows n : nat) (s : st) (k : nat) : st * list event :=
    match nth_error (s_dicts s) k with
    | Some d => (with_dicts s (upd (s_dicts s) k (rewrap rows n d)), [EDict k])
    | None => (s, [])
    end.
  Definition step_old (sc : scenario) (s : st) (o : op) : st * list event :=
    let ni := nth (o_node o) (sc_nodes sc) empty_node in
    match o_k o, ni_wrap ni with
    | KReadCons, Some (ad, rows, n) => thread (rewrap_in_place rows n) (nth ad (s_adcons s) []) s
    | _, _ => step sc s o
    end.
End State.
Arguments cdict : clear implicits.
Arguments polyobj : clear implicits.
Arguments st : clear implicits.
Arguments scenario : clear implicits.
