(* Executable model of the atomic devices' cost / deriv / hess (device.py, cdevice.py, cdevice2.py,
   idevice.py, idevice2.py, gdevice.py, pvdevice.py, sdevice.py, tdevice.py, utils.py).
   Hand-written (tie H); the scalar kernels come from Gen/Kernels.v (tie T).  Polymorphic in the carrier. *)
From Coq Require Import ZArith List Bool Arith.
From DK Require Import Num Vec.
From DK.Gen Require Import Kernels.
Import ListNotations.

Section Leaf.
  Context {A : Type} `{Num A}.
  Local Open Scope num_scope.

  (* scalar-or-per-slot parameter (NumPy broadcasting through np.vectorize) *)
  Inductive param := PS (a : A) | PV (l : list A).
  Definition pnth (p : param) (i : nat) : A := match p with PS a => a | PV l => nth i l n0 end.

  Definition lo (b : list (A * A)) (i : nat) : A := fst (nth i b (n0, n0)).
  Definition hi (b : list (A * A)) (i : nat) : A := snd (nth i b (n0, n0)).
  Definition idx (s : list A) : list (nat * A) := combine (seq 0 (length s)) s.

  (* ---- Device / PVDevice ------------------------------------------------------------ *)
  Definition dev_cost (s p : list A) : A := dot s p.
  Definition dev_deriv (n : nat) (p : list A) : list A := vmul p (ones n).
  Definition dev_hess (n : nat) : list (list A) := mconst n n n0.

  (* ---- CDevice ------------------------------------------------------------------------ *)
  Definition cdev_cost (a b : A) (s p : list A) : A := (a * vsum s + b) + dot s p.
  Definition cdev_deriv (n : nat) (a : A) (p : list A) : list A := vadd (vscale a (ones n)) p.

  (* ---- IDevice (ABCCost per slot) ----------------------------------------------------- *)
  Definition idev_pref (a b c : param) (bnd : list (A * A)) (s : list A) : A :=
    vsum (map (fun '(i, x) => abc_cost x (pnth a i) (pnth b i) (pnth c i) (lo bnd i) (hi bnd i)) (idx s)).
  Definition idev_cost a b c bnd (s p : list A) : A := idev_pref a b c bnd s + dot s p.
  Definition idev_deriv a b c bnd (s p : list A) : list A :=
    vadd (map (fun '(i, x) => abc_deriv x (pnth a i) (pnth b i) (pnth c i) (lo bnd i) (hi bnd i)) (idx s)) p.
  Definition idev_hess a b c bnd (s : list A) : list (list A) :=
    diag (map (fun '(i, x) => abc_hess x (pnth a i) (pnth b i) (pnth c i) (lo bnd i) (hi bnd i)) (idx s)).

  (* ---- IDevice2 (HLQuadraticCost per slot) -------------------------------------------- *)
  Definition idev2_pref (pl ph : param) (bnd : list (A * A)) (s : list A) : A :=
    vsum (map (fun '(i, x) => hl_cost x (pnth pl i) (pnth ph i) (lo bnd i) (hi bnd i)) (idx s)).
  Definition idev2_cost pl ph bnd (s p : list A) : A := idev2_pref pl ph bnd s + dot s p.
  Definition idev2_deriv pl ph bnd (s p : list A) : list A :=
    vadd (map (fun '(i, x) => hl_deriv x (pnth pl i) (pnth ph i) (lo bnd i) (hi bnd i)) (idx s)) p.
  Definition idev2_hess pl ph bnd (s : list A) : list (list A) :=
    diag (map (fun '(i, x) => hl_hess x (pnth pl i) (pnth ph i) (lo bnd i) (hi bnd i)) (idx s)).

  (* ---- CDevice2 (HLQuadraticCost of the total over each cumulative range) -------------- *)
  (* cbounds as stored by the device: (low, high, start, end) *)
  Definition cbound := (A * A * nat * nat)%type.
  Definition cb_lo (c : cbound) := fst (fst (fst c)).
  Definition cb_hi (c : cbound) := snd (fst (fst c)).
  Definition cb_s (c : cbound) := snd (fst c).
  Definition cb_e (c : cbound) := snd c.
  (* one range [st,en) of x, the kernel applied to its sum; InnerSumFunction(HLQuadraticCost) *)
  Definition cdev2_pref (pl ph : A) (cbs : list cbound) (s : list A) : A :=
    match cbs with
    | [c] => hl_cost (vsum s) pl ph (cb_lo c) (cb_hi c)
    | _ => vsum (map (fun c => hl_cost (vsum (slice (cb_s c) (cb_e c) s)) pl ph (cb_lo c) (cb_hi c)) cbs)
    end.
  Definition cdev2_cost pl ph cbs (s p : list A) : A := cdev2_pref pl ph cbs s + dot s p.
  Definition cdev2_dpref (pl ph : A) (cbs : list cbound) (s : list A) : list A :=
    match cbs with
    | [c] => vscale (hl_deriv (vsum s) pl ph (cb_lo c) (cb_hi c)) (ones (length s))
    | _ => flat_map (fun c => let x := slice (cb_s c) (cb_e c) s in
                              vscale (hl_deriv (vsum x) pl ph (cb_lo c) (cb_hi c)) (ones (length x))) cbs
    end.
  Definition cdev2_deriv pl ph cbs (s p : list A) : list A := vadd (cdev2_dpref pl ph cbs s) p.
  (* block (j,k) entry: f'' of the range containing both j and k, else 0 *)
  Definition cdev2_hess (pl ph : A) (cbs : list cbound) (s : list A) : list (list A) :=
    let n := length s in
    match cbs with
    | [c] => mconst n n (hl_hess (vsum s) pl ph (cb_lo c) (cb_hi c))
    | _ => map (fun j => map (fun k =>
             vsum (map (fun c => if (cb_s c <=? j)%nat && (j <? cb_e c)%nat && (cb_s c <=? k)%nat && (k <? cb_e c)%nat
                                 then hl_hess (vsum (slice (cb_s c) (cb_e c) s)) pl ph (cb_lo c) (cb_hi c) else n0) cbs))
             (seq 0 n)) (seq 0 n)
    end.

  (* ---- GDevice (polynomial of -s per slot) --------------------------------------------- *)
  Inductive gcoeffs := G1 (c : list A) | G2 (cs : list (list A)).
  Definition gpoly (g : gcoeffs) (i : nat) : list A := match g with G1 c => c | G2 cs => nth i cs [] end.
  (* np.poly1d(c).deriv(): coefficients highest power first *)
  Fixpoint pderiv (c : list A) : list A :=
    match c with
    | [] => []
    | [_] => []
    | a :: c' => (nofnat (length c') * a) :: pderiv c'
    end.
  Definition gdev_cost (g : gcoeffs) (s p : list A) : A :=
    vsum (map (fun '(i, x) => x * nth i p n0 + horner (gpoly g i) (- x)) (idx s)).
  Definition gdev_deriv (g : gcoeffs) (s p : list A) : list A :=
    map (fun '(i, x) => nth i p n0 - horner (pderiv (gpoly g i)) (- x)) (idx s).
  Definition gdev_hess (g : gcoeffs) (s : list A) : list (list A) :=
    diag (map (fun '(i, x) => horner (pderiv (pderiv (gpoly g i))) (- x)) (idx s)).

  (* ---- storage / thermal state (utils.soc, base_soc, sustainment_matrix) ----------------- *)
  (* row i of the sustainment matrix: s^(i-j) for j <= i, 0 above the diagonal *)
  Definition sust_row (s : A) (n i : nat) : list A :=
    map (fun j => if (j <=? i)%nat then npown s (i - j) else n0) (seq 0 n).
  Definition sust_matrix (s : A) (n : nat) : list (list A) := map (sust_row s n) (seq 0 n).
  (* e ** np.sign(r) *)
  Definition effof (e r : A) : A := if r =? n0 then n1 else if n0 <=? r then e else n1 / e.
  Definition effv (e : A) (r : list A) : list A := map (fun x => x * effof e x) r.
  Definition soc (r : list A) (s e : A) : list A :=
    let n := length r in map (fun i => dot (sust_row s n i) (effv e r)) (seq 0 n).
  Definition base_soc (b s : A) (n : nat) : list A := map (fun i => b * npown s (S i)) (seq 0 n).

  (* ---- SDevice --------------------------------------------------------------------------- *)
  Record sparams := { sp_c1 : A; sp_c2 : A; sp_c3 : A; sp_capacity : A; sp_depth : A; sp_start : A;
                      sp_reserve : A; sp_eff : A; sp_sus : A; sp_clip_d : option A; sp_clip_c : option A }.
  Definition sdev_base (q : sparams) : A := sp_start q * sp_capacity q.
  Definition sdev_charge (q : sparams) (r : list A) : list A :=
    vadd (base_soc (sdev_base q) (sp_sus q) (length r)) (soc r (sp_sus q) (sp_eff q)).
  Definition sdev_short (q : sparams) (r : list A) : list A :=   (* min(charge - cap*depth, 0) *)
    map (fun c => nmin (c - sp_capacity q * sp_depth q) n0) (sdev_charge q r).
  Fixpoint flip (r : list A) : A :=
    match r with
    | x :: ((y :: _) as r') => x * y + flip r'
    | _ => n0
    end.
  Definition sdev_pref (q : sparams) (r : list A) : A :=
    sp_c1 q * vsum (map nsq r) - sp_c2 q * flip r + sp_c3 q * vsum (map nsq (sdev_short q r)).
  Definition sdev_cost q (r p : list A) : A := sdev_pref q r + dot r p.
  Definition nbr (r : list A) (k : nat) : A :=
    (match k with O => n0 | S k' => nth k' r n0 end) + nth (S k) r n0.
  Definition sdev_deriv (q : sparams) (r p : list A) : list A :=
    let n := length r in
    let sh := sdev_short q r in
    map (fun '(k, x) =>
      n2 * sp_c1 q * x - sp_c2 q * nbr r k
      + vsum (map (fun '(i, m) => n2 * sp_c3 q * m * nth k (sust_row (sp_sus q) n i) n0 * effof (sp_eff q) x) (idx sh))
      + nth k p n0) (idx r).
  (* analytic Hessian (the code differentiates numerically); valid away from the kinks *)
  Definition sdev_hess (q : sparams) (r : list A) : list (list A) :=
    let n := length r in
    let ch := sdev_charge q r in
    map (fun j => map (fun k =>
      (if Nat.eqb j k then n2 * sp_c1 q else n0)
      - (if Nat.eqb (S j) k || Nat.eqb j (S k) then sp_c2 q else n0)
      + vsum (map (fun '(i, c) => if c <? sp_capacity q * sp_depth q
                 then n2 * sp_c3 q * (nth j (sust_row (sp_sus q) n i) n0 * effof (sp_eff q) (nth j r n0))
                                   * (nth k (sust_row (sp_sus q) n i) n0 * effof (sp_eff q) (nth k r n0))
                 else n0) (idx ch))) (seq 0 n)) (seq 0 n).

  (* ---- TDevice --------------------------------------------------------------------------- *)
  Record tparams := { tp_sus : A; tp_eff : A; tp_init : A; tp_opt : A; tp_range : A; tp_ext : list A; tp_c : param }.
  Definition tdev_tbase (q : tparams) (n : nat) : list A :=
    vadd (base_soc (tp_init q) (tp_sus q) n) (soc (map (fun t => t * (n1 - tp_sus q)) (tp_ext q)) (tp_sus q) n1).
  Definition tdev_r2t (q : tparams) (r : list A) : list A :=
    vadd (tdev_tbase q (length r)) (soc r (tp_sus q) (tp_eff q)).
  Definition tdev_tmin (q : tparams) : A := tp_opt q - tp_range q.
  Definition tdev_pref (q : tparams) (r : list A) : A :=
    vsum (map (fun '(i, t) => abc_cost t n0 n2 (pnth (tp_c q) i) (tdev_tmin q) (tp_opt q)) (idx (tdev_r2t q r))).
  Definition tdev_cost q (r p : list A) : A := tdev_pref q r + dot r p.
  Definition tdev_dt (q : tparams) (r : list A) : list A :=
    map (fun '(i, t) => abc_deriv t n0 n2 (pnth (tp_c q) i) (tdev_tmin q) (tp_opt q)) (idx (tdev_r2t q r)).
  Definition tdev_deriv (q : tparams) (r p : list A) : list A :=
    let n := length r in
    let dt := tdev_dt q r in
    map (fun k => vsum (map (fun '(i, d) => nth k (sust_row (tp_sus q) n i) n0 * d) (idx dt))
                  * (if nth k r n0 <? n0 then n1 / tp_eff q else tp_eff q) + nth k p n0) (seq 0 n).
  (* the documented diagonal approximation: diagonal entries of the true Hessian *)
  Definition tdev_hess (q : tparams) (r : list A) : list (list A) :=
    let n := length r in
    let t := tdev_r2t q r in
    diag (map (fun k => vsum (map (fun '(i, ti) =>
            abc_hess ti n0 n2 (pnth (tp_c q) i) (tdev_tmin q) (tp_opt q)
            * nsq (nth k (sust_row (tp_sus q) n i) n0 * effof (tp_eff q) (nth k r n0))) (idx t))) (seq 0 n)).
End Leaf.
Arguments param : clear implicits.
Arguments gcoeffs : clear implicits.
Arguments sparams : clear implicits.
Arguments tparams : clear implicits.
Arguments cbound : clear implicits.
