(* Python / NumPy dynamically-typed values as far as the validation code looks at them, the three-valued
   outcome of a constructor or setter, and the small vocabulary the generated validators (Gen/Validators.v)
   are written in.  Executable, polymorphic in the carrier, no Reals. *)
From Coq Require Import String ZArith List Bool Arith.
From DK Require Import Num Vec.
From DK.Model Require Import Leaf.
Import ListNotations.

(* what a call does: returns a value, raises ValueError, raises anything else *)
Inductive outcome (T : Type) := Accept (t : T) | RaiseValueError | RaiseOther.
Arguments Accept {T} t.
Arguments RaiseValueError {T}.
Arguments RaiseOther {T}.

Definition obind {T U} (o : outcome T) (f : T -> outcome U) : outcome U :=
  match o with Accept t => f t | RaiseValueError => RaiseValueError | RaiseOther => RaiseOther end.
Definition is_accept {T} (o : outcome T) : bool := match o with Accept _ => true | _ => false end.
(* a guard: `if not ok: raise ValueError` *)
Definition guard {T} (ok : bool) (k : outcome T) : outcome T := if ok then k else RaiseValueError.

Section PyVal.
  Context {A : Type} `{Num A}.
  Local Open Scope num_scope.

  (* a number, None, or a (possibly nested) sequence *)
  Inductive pv := PNum (a : A) | PNone | PSeq (l : list pv).

  Definition pv_has_len (v : pv) : bool := match v with PSeq _ => true | _ => false end.   (* hasattr(v, '__len__') *)
  Definition pv_len (v : pv) : nat := match v with PSeq l => length l | _ => 0 end.          (* len(v) *)
  Definition pv_nth (i : nat) (v : pv) : pv := match v with PSeq l => nth i l PNone | _ => PNone end.   (* v[i] *)
  Definition pv_num (v : pv) : A := match v with PNum a => a | _ => n0 end.                   (* v where a number is expected *)
  Definition pv_is_num (v : pv) : bool := match v with PNum _ => true | _ => false end.
  Definition pv_is_none (v : pv) : bool := match v with PNone => true | _ => false end.

  (* Python's normalisation of a slice bound against a sequence of length n, for integer-valued numbers and None:
     k in [0,n] -> k; -k in [-n,-1] -> n-k; larger -> n; smaller -> 0.  None -> 0 as a lower, n as an upper bound. *)
  Definition int_index (n : nat) (a : A) : nat :=
    match find (fun k => nofZ (Z.of_nat k) =? a) (seq 0 (S n)) with
    | Some k => k
    | None => match find (fun k => nofZ (- Z.of_nat k) =? a) (seq 1 n) with
              | Some k => n - k
              | None => if n0 <=? a then n else 0
              end
    end.
  Definition pv_slice_lo (n : nat) (v : pv) : nat := match v with PNum a => int_index n a | _ => 0 end.
  Definition pv_slice_hi (n : nat) (v : pv) : nat := match v with PNum a => int_index n a | _ => n end.

  (* scalar-or-vector parameters (np.array(p) with ndim 0 or 1) *)
  Definition param_is_scalar (p : param A) : bool := match p with PS _ => true | PV _ => false end.   (* v.ndim == 0 *)
  Definition param_len (p : param A) : nat := match p with PS _ => 0 | PV l => length l end.         (* len(v), ndim 1 *)
  Definition param_all (f : A -> bool) (p : param A) : bool := match p with PS a => f a | PV l => forallb f l end.
  Definition param_any (f : A -> bool) (p : param A) : bool := match p with PS a => f a | PV l => existsb f l end.
  (* (p op q).all() with NumPy broadcasting of a scalar against a vector; two vectors must have one length
     (NumPy raises ValueError otherwise, which is also what a failed guard raises) *)
  Definition param_all2 (f : A -> A -> bool) (p q : param A) : bool :=
    match p, q with
    | PS a, PS b => f a b
    | PS a, PV l => forallb (fun b => f a b) l
    | PV l, PS b => forallb (fun a => f a b) l
    | PV l, PV m => Nat.eqb (length l) (length m) && forallb (fun '(a, b) => f a b) (combine l m)
    end.

  (* SDevice.rate_clip: one value (number or None) or a pair of them *)
  Inductive rcv := RCOne (o : option A) | RCTwo (o1 o2 : option A).
  (* try: rate_clip[0], rate_clip[1]  except TypeError: rate_clip = (rate_clip, rate_clip) *)
  Definition rc_norm (r : rcv) : option A * option A :=
    match r with RCOne o => (o, o) | RCTwo o1 o2 => (o1, o2) end.
End PyVal.
Arguments pv : clear implicits.
Arguments rcv : clear implicits.
