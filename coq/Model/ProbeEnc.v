(* Canonical encodings of model values as lists of rationals, used by harness/genprobe.py to compare, by evaluation inside Coq, a
   regenerated Gen/*.v with the snapshot the proofs were developed against (same definitions, two texts). *)
From Coq Require Import ZArith QArith List Bool.
From DK Require Import Num NumQ Vec.
From DK.Model Require Import Projection.
Import ListNotations.
Local Open Scope Q_scope.

Definition enc_n (k : nat) : list Q := [inject_Z (Z.of_nat k)].
Definition enc_s (q : Q) : list Q := [q].
Definition enc_b (b : bool) : list Q := [if b then 1 else 0].
Definition enc_v (l : list Q) : list Q := inject_Z (Z.of_nat (length l)) :: l.
Definition enc_m (m : list (list Q)) : list Q := inject_Z (Z.of_nat (length m)) :: concat (map enc_v m).
Definition enc_np (p : nat * nat) : list Q := enc_n (fst p) ++ enc_n (snd p).
Definition enc_nps (l : list (nat * nat)) : list Q := inject_Z (Z.of_nat (length l)) :: concat (map enc_np l).
Definition enc_cube (l : list (Q * Q)) : list Q := inject_Z (Z.of_nat (length l)) :: concat (map (fun p => [fst p; snd p]) l).
Definition enc_pres {T} (f : T -> list Q) (r : pres T) : list Q :=
  match r with POk v => 0 :: f v | PValueError => [1] | PMaxIter => [2] | POutOfFuel => [3] end.
Definition enc_half (t : list Q * Q * Q) : list Q := enc_v (fst (fst t)) ++ [snd (fst t); snd t].

Fixpoint qlist_eqb (a b : list Q) : bool :=
  match a, b with
  | [], [] => true
  | x :: a', y :: b' => Qeq_bool x y && qlist_eqb a' b'
  | _, _ => false
  end.
(* indices at which the two result tables differ (a missing entry differs) *)
Fixpoint differ_from (i : nat) (a b : list (list Q)) {struct a} : list nat :=
  match a with
  | [] => map (fun k => (i + k)%nat) (seq 0 (length b))
  | x :: a' =>
    match b with
    | [] => i :: differ_from (S i) a' []
    | y :: b' => (if qlist_eqb x y then [] else [i]) ++ differ_from (S i) a' b'
    end
  end.
Definition differ := differ_from 0.
