(* Executable model of the scenario helpers: loaders/builder_loader.py (run_to_array, run_to_cbounds_array, the per-kind
   loaders' handling of bounds / cumulative bounds / storage parameters) and utils.care2bounds / utils.on2bounds. Tie H.
   A run dictionary {'0': v0, '3': v1, ...} is an association list in dictionary order, keys already converted by int().
   Every run dictionary of a device carries the scenario's basis (the model has one basis). Not modelled: cost curves,
   the constructors' validation of cumulative bounds / storage parameters (C11), keys that are not integers. *)
From Coq Require Import ZArith List Bool Arith String.
From DK Require Import Num Vec.
From DK.Model Require Import Leaf.
Import ListNotations.

Inductive outcome (T : Type) := Accept (t : T) | RaiseValueError | RaiseOther.
Arguments Accept {T} t.
Arguments RaiseValueError {T}.
Arguments RaiseOther {T}.
Definition obind {T U} (o : outcome T) (f : T -> outcome U) : outcome U :=
  match o with Accept t => f t | RaiseValueError => RaiseValueError | RaiseOther => RaiseOther end.

Section Runs.
  Context {V : Type}.
  Definition runs := list (nat * V).

  (* sorted(run['runs'].keys(), key=int): stable insertion sort on the start slot *)
  Fixpoint insert_run (p : nat * V) (l : runs) : runs :=
    match l with
    | [] => [p]
    | q :: l' => if (fst p <=? fst q)%nat then p :: q :: l' else q :: insert_run p l'
    end.
  Definition sort_runs (l : runs) : runs := fold_right insert_run [] l.

  (* _array[st:en] = v   (NumPy slice assignment: clipped to the array, empty when st >= en) *)
  Definition assign (arr : list V) (st en : nat) (v : V) : list V :=
    map (fun '(i, a) => if (st <=? i)%nat && (i <? en)%nat then v else a) (combine (seq 0 (List.length arr)) arr).

  Definition next_start (rest : runs) (basis : nat) : nat :=
    match rest with (st', _) :: _ => st' | [] => basis end.

  Fixpoint fill (arr : list V) (pts : runs) (basis : nat) : list V :=
    match pts with
    | [] => arr
    | (st, v) :: rest => fill (assign arr st (next_start rest basis) v) rest basis
    end.

  Definition has_zero (l : runs) : bool := existsb (fun p => Nat.eqb (fst p) 0) l.

  (* run_to_array: run['runs']['0'] must exist (KeyError otherwise); zeros, then every run in start order *)
  Definition run_to_array (zero : V) (basis : nat) (l : runs) : outcome (list V) :=
    if has_zero l then Accept (fill (repeat zero basis) (sort_runs l) basis) else RaiseOther.
End Runs.
Arguments runs : clear implicits.

Section Loader.
  Context {A : Type} `{Num A}.
  Local Open Scope num_scope.

  (* run_to_cbounds_array: [l, h, start, next start or basis] per run, in start order *)
  Fixpoint cb_fill (pts : runs (A * A)) (basis : nat) : list (cbound A) :=
    match pts with
    | [] => []
    | (st, (l, h)) :: rest => (l, h, st, next_start rest basis) :: cb_fill rest basis
    end.
  Definition run_to_cbounds (basis : nat) (l : runs (A * A)) : list (cbound A) := cb_fill (sort_runs l) basis.

  Inductive bkind := BLoad | BFixed | BSupply | BStorage | BThermal.
  Record bdev := { b_kind : bkind; b_title : option string; b_bounds : runs (A * A);
                   b_cum : option (runs (A * A)); b_params : list (string * A) }.
  Inductive lclass := LADevice | LSDevice.
  Record loaded := { l_id : string; l_class : lclass; l_bounds : list (A * A); l_cb : option (list (cbound A));
                     l_params : list (string * A); l_clip : option A * option A }.

  Definition type_name (k : bkind) : string :=
    match k with BLoad => "load" | BFixed => "fixed_load" | BSupply => "supply" | BStorage => "storage" | BThermal => "thermal_load" end.
  Definition dev_id (d : bdev) : string := match b_title d with Some t => t | None => type_name (b_kind d) end.

  (* -1 * table, then the table with columns (second, first) *)
  Definition neg_swap (t : list (A * A)) : list (A * A) := map (fun '(l, h) => (- h, - l)) t.

  Definition storage_map : list (string * string) :=
    [("capacity", "capacity"); ("efficiencyFactor", "efficiency"); ("reserveRatio", "reserve"); ("startingRatio", "start");
     ("fastChargeCostFactor", "c1"); ("flipFlopCostFactor", "c2"); ("deepDischargeCostFactor", "c3"); ("deepDepthRatio", "damage_depth")]%string.
  Fixpoint assoc {B} (k : string) (l : list (string * B)) : option B :=
    match l with [] => None | (k', v) :: l' => if String.eqb k k' then Some v else assoc k l' end.
  Definition map_params (ps : list (string * A)) : list (string * A) :=
    flat_map (fun '(k, v) => match assoc k storage_map with Some k' => [(k', v)] | None => [] end) ps.
  Definition clip_of (ps : list (string * A)) : option A * option A :=
    (assoc "disChargeRateClippingFactor"%string ps, assoc "chargeRateClippingFactor"%string ps).

  (* the device constructor's low <= high test (validate_bounds); everything else it validates is outside this model *)
  Definition valid_bounds (t : list (A * A)) : bool := forallb (fun '(l, h) => l <=? h) t.
  Definition construct (d : bdev) (c : lclass) (t : list (A * A)) (cb : option (list (cbound A)))
             (ps : list (string * A)) (clip : option A * option A) : outcome loaded :=
    if valid_bounds t then Accept {| l_id := dev_id d; l_class := c; l_bounds := t; l_cb := cb; l_params := ps; l_clip := clip |}
    else RaiseValueError.

  Definition load_device (basis : nat) (d : bdev) : outcome loaded :=
    obind (run_to_array (n0, n0) basis (b_bounds d)) (fun t =>
      let cb := option_map (run_to_cbounds basis) (b_cum d) in
      match b_kind d with
      | BLoad => construct d LADevice t cb [] (None, None)
      | BFixed => if forallb (fun '(l, h) => negb (l =? h)) t then RaiseOther
                  else construct d LADevice t None [] (None, None)
      | BSupply => construct d LADevice (neg_swap t) cb [] (None, None)
      | BStorage => construct d LSDevice t None (map_params (b_params d)) (clip_of (b_params d))
      | BThermal => RaiseValueError   (* basis >= 2: vector t_range in a scalar test (open finding; not enforced) *)
      end).

  Fixpoint load_data (basis : nat) (ds : list bdev) : outcome (list loaded) :=
    match ds with
    | [] => Accept []
    | d :: ds' => obind (load_device basis d) (fun x => obind (load_data basis ds') (fun xs => Accept (x :: xs)))
    end.

  (* ---- utils.care2bounds / on2bounds -------------------------------------------------------------------------- *)
  (* the 'bounds' entry as Python sees it: a sequence of items, each a number or a vector *)
  Definition mask_bounds (mask : list A) (b : list (param A)) : list (A * A) :=
    match b with
    | [lo; hi] => map (fun '(i, c) => (c * pnth lo i, c * pnth hi i)) (idx mask)
    | _ => map (fun '(i, c) => let v := pnth (nth i b (PS n0)) 0 in (c * v, c * v)) (idx mask)
    end.
  Definition care2bounds (care : list A) (b : list (param A)) : list (A * A) := mask_bounds care b.

  Fixpoint on_pairs (on : list nat) : list (nat * nat) :=
    match on with a :: b :: rest => (a, b) :: on_pairs rest | _ => [] end.
  Definition is_on (on : list nat) (t : nat) : bool := existsb (fun '(a, b) => (a <=? t)%nat && (t <=? b)%nat) (on_pairs on).
  Definition on_vector (l : nat) (on : list nat) : list A := map (fun t => if is_on on t then n1 else n0) (seq 0 l).
  Definition on2bounds (l : nat) (on : list nat) (b : list (param A)) : list (A * A) := mask_bounds (on_vector l on) b.
End Loader.
Arguments bdev : clear implicits.
Arguments loaded : clear implicits.
