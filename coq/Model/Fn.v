(* Executable model of the preference-function combinators of functions.py as an AST, so that statements
   quantify over every composition. Hand-written (tie H); kernels from Gen/Kernels.v. *)
From Coq Require Import ZArith List Bool Arith.
From DK Require Import Num Vec.
From DK.Gen Require Import Kernels.
From DK.Model Require Import Leaf.
Import ListNotations.

Section Fn.
  Context {A : Type} `{Num A}.
  Local Open Scope num_scope.

  Inductive fn :=
  | FNull
  | FSum (fs : list fn)
  | FReflect (f : fn)
  | FPoly2D (cs : list (list A))                       (* one poly1d (highest power first) per slot *)
  | FPoly2DOffset (cs : list (list A)) (offs : list A) (* poly_k(x_k + off_k) *)
  | FX2D (fs : list (A * A * A * A))                   (* scalar HLQuadraticCost(p_l,p_h,x_l,x_h) per slot *)
  | FRanges (rs : list (nat * nat * fn))               (* ((start,end), f) *)
  | FInnerHL (pl ph xl xh : A)                         (* InnerSumFunction(HLQuadraticCost(...)) *)
  | FABC (a b c xl xh : param A)
  | FHL (pl ph xl xh : param A)
  | FDemand (c : list A).                              (* DemandFunction(np.poly1d(c)) *)

  (* first index of the maximum (np.argmax) *)
  Fixpoint argmax_from (k best : nat) (bv : A) (l : list A) : nat :=
    match l with
    | [] => best
    | x :: l' => if bv <? x then argmax_from (S k) k x l' else argmax_from (S k) best bv l'
    end.
  Definition argmax (l : list A) : nat := match l with [] => O | x :: l' => argmax_from 1 0 x l' end.
  Definition vmax (l : list A) : A := nth (argmax l) l n0.

  Definition blockdiag_entry (rs : list (nat * nat * list (list A))) (j k : nat) : A :=
    vsum (map (fun '(s, e, m) =>
      if (s <=? j)%nat && (j <? e)%nat && (s <=? k)%nat && (k <? e)%nat then nth (k - s) (nth (j - s) m []) n0 else n0) rs).

  Fixpoint feval (f : fn) (x : list A) : A :=
    match f with
    | FNull => n0
    | FSum fs => vsum (map (fun g => feval g x) fs)
    | FReflect g => feval g (vopp x)
    | FPoly2D cs => vsum (map (fun '(i, v) => horner (nth i cs []) v) (idx x))
    | FPoly2DOffset cs offs => vsum (map (fun '(i, v) => horner (nth i cs []) (v + nth i offs n0)) (idx x))
    | FX2D fs => vsum (map (fun '(i, v) => let '(pl, ph, xl, xh) := nth i fs (n0, n0, n0, n0) in hl_cost v pl ph xl xh) (idx x))
    | FRanges rs => vsum (map (fun r => let '(s, e, g) := r in feval g (slice s e x)) rs)
    | FInnerHL pl ph xl xh => hl_cost (vsum x) pl ph xl xh
    | FABC a b c xl xh => vsum (map (fun '(i, v) => abc_cost v (pnth a i) (pnth b i) (pnth c i) (pnth xl i) (pnth xh i)) (idx x))
    | FHL pl ph xl xh => vsum (map (fun '(i, v) => hl_cost v (pnth pl i) (pnth ph i) (pnth xl i) (pnth xh i)) (idx x))
    | FDemand c => horner c (vmax x)
    end.

  Fixpoint fderiv (f : fn) (x : list A) : list A :=
    match f with
    | FNull => zeros (length x)
    | FSum fs => fold_right vadd (zeros (length x)) (map (fun g => fderiv g x) fs)
    | FReflect g => vopp (fderiv g (vopp x))
    | FPoly2D cs => map (fun '(i, v) => horner (pderiv (nth i cs [])) v) (idx x)
    | FPoly2DOffset cs offs => map (fun '(i, v) => horner (pderiv (nth i cs [])) (v + nth i offs n0)) (idx x)
    | FX2D fs => map (fun '(i, v) => let '(pl, ph, xl, xh) := nth i fs (n0, n0, n0, n0) in hl_deriv v pl ph xl xh) (idx x)
    | FRanges rs => flat_map (fun r => let '(s, e, g) := r in fderiv g (slice s e x)) rs
    | FInnerHL pl ph xl xh => vscale (hl_deriv (vsum x) pl ph xl xh) (ones (length x))
    | FABC a b c xl xh => map (fun '(i, v) => abc_deriv v (pnth a i) (pnth b i) (pnth c i) (pnth xl i) (pnth xh i)) (idx x)
    | FHL pl ph xl xh => map (fun '(i, v) => hl_deriv v (pnth pl i) (pnth ph i) (pnth xl i) (pnth xh i)) (idx x)
    | FDemand c => upd (zeros (length x)) (argmax x) (horner (pderiv c) (vmax x))
    end.

  Fixpoint fhess (f : fn) (x : list A) : list (list A) :=
    let n := length x in
    match f with
    | FNull => mconst n n n0
    | FSum fs => fold_right madd (mconst n n n0) (map (fun g => fhess g x) fs)
    | FReflect g => fhess g (vopp x)
    | FPoly2D cs => diag (map (fun '(i, v) => horner (pderiv (pderiv (nth i cs []))) v) (idx x))
    | FPoly2DOffset cs offs => diag (map (fun '(i, v) => horner (pderiv (pderiv (nth i cs []))) (v + nth i offs n0)) (idx x))
    | FX2D fs => diag (map (fun '(i, v) => let '(pl, ph, xl, xh) := nth i fs (n0, n0, n0, n0) in hl_hess v pl ph xl xh) (idx x))
    | FRanges rs =>
        let blocks := map (fun r => let '(s, e, g) := r in (s, e, fhess g (slice s e x))) rs in
        map (fun j => map (fun k => blockdiag_entry blocks j k) (seq 0 n)) (seq 0 n)
    | FInnerHL pl ph xl xh => mconst n n (hl_hess (vsum x) pl ph xl xh)
    | FABC a b c xl xh => diag (map (fun '(i, v) => abc_hess v (pnth a i) (pnth b i) (pnth c i) (pnth xl i) (pnth xh i)) (idx x))
    | FHL pl ph xl xh => diag (map (fun '(i, v) => hl_hess v (pnth pl i) (pnth ph i) (pnth xl i) (pnth xh i)) (idx x))
    | FDemand c => diag (upd (zeros n) (argmax x) (horner (pderiv (pderiv c)) (vmax x)))
    end.
End Fn.
Arguments fn : clear implicits.
