(* Specification side of C03: the hard constraints an atomic device documents (Device.cbounds setter docstring,
   SDevice class/constraints docstrings, ADevice), as plain real formulas. Written from the documentation, not
   from the closures that Device.constraints / SDevice.constraints build. *)
From Coq Require Import Reals List.
From DK Require Import Num NumR Vec.
From DK.Model Require Import Leaf Fn Dev DocSpec StateSpec.
Import ListNotations.
Local Open Scope R_scope.

(* per-slot bounds: low_i <= x_i <= high_i *)
Definition within (b : list (R * R)) (x : list R) : Prop :=
  forall i, (i < length x)%nat -> fst (nth i b (0, 0)) <= nth i x 0 <= snd (nth i b (0, 0)).

(* x[start:end].sum(): the total flow over the slot range [start, end) *)
Definition range_total (st en : nat) (x : list R) : R := total (firstn (en - st) (skipn st x)).

(* every cumulative bound (low, high, start, end) applies to its own range with its own limits *)
Definition cum_ok (cbs : list (cbound R)) (x : list R) : Prop :=
  forall c, In c cbs -> cb_lo c <= range_total (cb_s c) (cb_e c) x <= cb_hi c.

(* storage: the state of charge (the documented recurrence, C09) stays in [0, capacity] after every slot, is at least
   reserve*capacity after the last one; with rate clipping the discharge rate is limited in proportion to SoC/capacity
   and the charge rate in proportion to (capacity - SoC)/capacity *)
Definition storage_ok (q : sparams R) (b : list (R * R)) (x : list R) : Prop :=
  let st := state_rec (sp_sus q) (sp_start q * sp_capacity q) (map (stored (sp_eff q)) x) in
  (forall i, (i < length x)%nat -> 0 <= nth i st 0 <= sp_capacity q) /\
  sp_reserve q * sp_capacity q <= nth (length x - 1) st 0 /\
  (forall k, sp_clip_d q = Some k -> forall i, (i < length x)%nat ->
     k * fst (nth i b (0, 0)) * (nth i st 0 / sp_capacity q) <= nth i x 0) /\
  (forall k, sp_clip_c q = Some k -> forall i, (i < length x)%nat ->
     nth i x 0 <= k * snd (nth i b (0, 0)) * ((sp_capacity q - nth i st 0) / sp_capacity q)).

(* user constraints of an ADevice (affine ones: <w,x> + k = 0 or >= 0) *)
Definition user_ok (ucs : list (ucon R)) (x : list R) : Prop :=
  forall u, In u ucs -> if u_eq u then sum_prod (u_w u) x + u_k u = 0 else 0 <= sum_prod (u_w u) x + u_k u.

Definition leaf_feasible_spec (d : leafdev R) (x : list R) : Prop :=
  within (ld_bounds d) x /\ cum_ok (ld_cb d) x /\
  match ld_kind d with
  | KS q => storage_ok q (ld_bounds d) x
  | KA _ ucs => user_ok ucs x
  | _ => True
  end.

(* the documented number of exported constraints: two per cumulative bound; storage adds two per slot, one per slot
   for each configured clipping factor, and the reserve constraint; ADevice adds the user list *)
Definition leaf_cons_count (d : leafdev R) : nat :=
  2 * length (ld_cb d) +
  match ld_kind d with
  | KS q => 2 * ld_n d + (match sp_clip_d q with Some _ => ld_n d | None => 0 end)
            + (match sp_clip_c q with Some _ => ld_n d | None => 0 end) + 1
  | KA _ ucs => length ucs
  | _ => 0
  end.

(* the validators' guarantee the equivalence needs: a storage has positive capacity (SDevice.capacity setter) *)
Definition leaf_accepted (d : leafdev R) : Prop :=
  match ld_kind d with KS q => 0 < sp_capacity q | _ => True end.
