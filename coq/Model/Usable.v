(* What a caller observes of a device at one flow: which observables are usable (defined: every quotient and power
   the code evaluates exists) and the shape of each, as tagged values.  The definedness predicates are assembled from the
   GENERATED *_defined predicates of Gen/Kernels.v; the shapes are read off the executable model (Model/Dev.v, Model/Tree.v).
   Executable, polymorphic in the carrier, no Reals. *)
From Coq Require Import String ZArith List Bool Arith.
From DK Require Import Num Vec.
From DK.Gen Require Import Kernels.
From DK.Model Require Import Leaf Fn Dev Tree.
Import ListNotations.

Inductive shape := Sc | Vec (n : nat) | Mat (r c : nat) | Ragged.
Definition shape_eqb (a b : shape) : bool :=
  match a, b with
  | Sc, Sc => true | Vec n, Vec m => Nat.eqb n m | Mat r c, Mat r' c' => Nat.eqb r r' && Nat.eqb c c' | Ragged, Ragged => true
  | _, _ => false
  end.

Section Usable.
  Context {A : Type} `{Num A}.
  Local Open Scope num_scope.

  Definition vshape (l : list A) : shape := Vec (length l).
  Definition mshape (m : list (list A)) : shape :=
    match m with
    | [] => Mat 0 0
    | r :: _ => if forallb (fun x => Nat.eqb (length x) (length r)) m then Mat (length m) (length r) else Ragged
    end.

  Definition slots_def (f : nat -> A -> bool) (s : list A) : bool := forallb (fun ix => f (fst ix) (snd ix)) (idx s).
  (* CDevice2: the kernel on the total of each cumulative range *)
  Definition ranges_def (f : A -> cbound A -> bool) (cbs : list (cbound A)) (s : list A) : bool :=
    match cbs with
    | [c] => f (vsum s) c
    | _ => forallb (fun c => f (vsum (slice (cb_s c) (cb_e c) s)) c) cbs
    end.

  (* which observable: 0 = value, 1 = derivative, 2 = second derivative *)
  Definition abc_def (w : nat) (x a b c xl xh : A) : bool :=
    match w with O => abc_cost_defined x a b c xl xh | S O => abc_deriv_defined x a b c xl xh | _ => abc_hess_defined x a b c xl xh end.
  Definition hl_def (w : nat) (x pl ph xl xh : A) : bool :=
    match w with O => hl_cost_defined x pl ph xl xh | S O => hl_deriv_defined x pl ph xl xh | _ => hl_hess_defined x pl ph xl xh end.

  Fixpoint fn_def (w : nat) (f : fn A) (x : list A) : bool :=
    match f with
    | FSum fs => forallb (fun g => fn_def w g x) fs
    | FReflect g => fn_def w g (vopp x)
    | FRanges rs => forallb (fun r => let '(s, e, g) := r in fn_def w g (slice s e x)) rs
    | FX2D fs => slots_def (fun i v => let '(pl, ph, xl, xh) := nth i fs (n0, n0, n0, n0) in hl_def w v pl ph xl xh) x
    | FInnerHL pl ph xl xh => hl_def w (vsum x) pl ph xl xh
    | FABC a b c xl xh => slots_def (fun i v => abc_def w v (pnth a i) (pnth b i) (pnth c i) (pnth xl i) (pnth xh i)) x
    | FHL pl ph xl xh => slots_def (fun i v => hl_def w v (pnth pl i) (pnth ph i) (pnth xl i) (pnth xh i)) x
    | _ => true
    end.

  Definition leaf_def (w : nat) (d : leafdev A) (s : list A) : bool :=
    let bnd := ld_bounds d in
    match ld_kind d with
    | KDev | KPV | KC _ _ | KG _ => true
    | KC2 pl ph => ranges_def (fun t c => hl_def w t pl ph (cb_lo c) (cb_hi c)) (ld_cb d) s
    | KI a b c => slots_def (fun i x => abc_def w x (pnth a i) (pnth b i) (pnth c i) (lo bnd i) (hi bnd i)) s
    | KI2 pl ph => slots_def (fun i x => hl_def w x (pnth pl i) (pnth ph i) (lo bnd i) (hi bnd i)) s
    | KS q => negb (sp_eff q =? n0)                         (* efficiency ** sign(r) *)
    | KT q => negb (tp_eff q =? n0) &&                      (* 1 / efficiency *)
              (* the Hessian is a numerical second difference of the cost *)
              slots_def (fun i t => abc_def (match w with 1 => 1 | _ => 0 end) t n0 n2 (pnth (tp_c q) i) (tdev_tmin q) (tp_opt q)) (tdev_r2t q s)
    | KA f _ => fn_def w f s
    end.
  (* constraint functions: storage divides by the capacity in its rate-clipping constraints *)
  Definition leaf_cons_def (d : leafdev A) : bool :=
    match ld_kind d with
    | KS q => negb (sp_eff q =? n0) &&
              match sp_clip_d q, sp_clip_c q with None, None => true | _, _ => negb (sp_capacity q =? n0) end
    | _ => true
    end.

  (* what is observed: None = unusable (raises or is not finite), Some shape otherwise *)
  Record obs := { o_cost : option shape; o_deriv : option shape; o_hess : option shape; o_cons : list (option shape * option (option shape)) }.

  Definition gate (b : bool) (s : shape) : option shape := if b then Some s else None.
  Definition con_obs (ok : bool) (x : list A) (c : con A) : option shape * option (option shape) :=
    (gate ok Sc, match c_jac c with Some j => Some (gate ok (vshape (j x))) | None => None end).

  Definition leaf_obs (d : leafdev A) (s p : list A) : obs :=
    {| o_cost := gate (leaf_def 0 d s) Sc;
       o_deriv := gate (leaf_def 1 d s) (vshape (leaf_deriv d s p));
       o_hess := gate (leaf_def 2 d s) (mshape (leaf_hess d s));
       o_cons := map (con_obs (leaf_cons_def d) s) (leaf_cons d) |}.

  (* a tree at a flow matrix; every leaf is assumed usable there (the harness keeps the leaves away from the
     regions where leaf_def fails), so this is about shapes: deriv one entry per flow variable, hess n x n,
     constraint Jacobians one entry per flow variable *)
  Definition tree_obs (d : dev A) (S P : list (list A)) : obs :=
    {| o_cost := Some Sc;
       o_deriv := Some (Vec (length (List.concat (tree_deriv d S P))));
       o_hess := Some (mshape (tree_hess d S));
       o_cons := map (con_obs true (List.concat S)) (tree_cons d) |}.

  Definition oshape_eqb (a b : option shape) : bool :=
    match a, b with Some x, Some y => shape_eqb x y | None, None => true | _, _ => false end.
  Definition con_eqb (a b : option shape * option (option shape)) : bool :=
    oshape_eqb (fst a) (fst b) &&
    match snd a, snd b with Some x, Some y => oshape_eqb x y | None, None => true | _, _ => false end.
  Fixpoint cons_eqb (l m : list (option shape * option (option shape))) : bool :=
    match l, m with [], [] => true | a :: l', b :: m' => con_eqb a b && cons_eqb l' m' | _, _ => false end.
  Definition obs_eqb (a b : obs) : bool :=
    oshape_eqb (o_cost a) (o_cost b) && oshape_eqb (o_deriv a) (o_deriv b) && oshape_eqb (o_hess a) (o_hess b) &&
    cons_eqb (o_cons a) (o_cons b).
  (* what the correspondence of C10 demands of the implementation's observation b against the model's a: the same usable shapes; for the
     OPTIONAL constraint Jacobians only that a supplied one is usable - an extra Jacobian (the model has none) must have one finite entry
     per flow variable, a Jacobian no longer supplied is SciPy's business (numerical differences) *)
  Definition con_agrees (nvar : nat) (a b : option shape * option (option shape)) : bool :=
    oshape_eqb (fst a) (fst b) &&
    match snd a, snd b with
    | Some x, Some y => oshape_eqb x y
    | None, Some y => oshape_eqb y (Some (Vec nvar))
    | _, None => true
    end.
  Fixpoint cons_agree (nvar : nat) (l m : list (option shape * option (option shape))) : bool :=
    match l, m with [], [] => true | a :: l', b :: m' => con_agrees nvar a b && cons_agree nvar l' m' | _, _ => false end.
  Definition obs_agrees (a b : obs) : bool :=
    oshape_eqb (o_cost a) (o_cost b) && oshape_eqb (o_deriv a) (o_deriv b) && oshape_eqb (o_hess a) (o_hess b) &&
    cons_agree (match o_deriv a with Some (Vec k) => k | _ => 0%nat end) (o_cons a) (o_cons b).
End Usable.
