(* What one preference-function combinator of functions.py sees of its operands (abstract `fobj` / scalar `sfobj`), and the
   hand-written semantics of the np.poly1d idiom the functions translator (translator/functions_tx.py) emits:
   np.polyadd(np.zeros(len(c)), np.poly1d(c).deriv(k).coeffs), the derivative coefficients padded on the left to the length of c
   (the same polynomial).  Polymorphic in the carrier. *)
From Coq Require Import ZArith List Bool Arith.
From DK Require Import Num Vec.
From DK.Gen Require Import Kernels.
From DK.Model Require Import Leaf.
Import ListNotations.

Section FnOps.
  Context {A : Type} `{Num A}.
  Local Open Scope num_scope.

  Record fobj := { f_call : list A -> A; f_deriv : list A -> list A; f_hess : list A -> list (list A) }.
  Record sfobj := { sf_call : A -> A; sf_deriv : A -> A; sf_hess : A -> A }.
  (* the scalar high/low curve X2D and InnerSumFunction are used with (HLQuadraticCost) *)
  Definition sfobj_hl (q : A * A * A * A) : sfobj :=
    let '(pl, ph, xl, xh) := q in
    {| sf_call := fun v => hl_cost v pl ph xl xh; sf_deriv := fun v => hl_deriv v pl ph xl xh; sf_hess := fun v => hl_hess v pl ph xl xh |}.
  Definition null_sfobj : sfobj := sfobj_hl (n0, n0, n0, n0).

  (* functions[k] for k beyond the list: IndexError in Python; the theorems only use indices inside the list *)
  Definition null_fobj : fobj := {| f_call := fun _ => n0; f_deriv := fun x => zeros (length x); f_hess := fun x => mconst (length x) (length x) n0 |}.
  (* enumerate(ranges) *)
  Definition enum_ranges (ranges : list (nat * nat)) : list (nat * (nat * nat)) := combine (seq 0 (length ranges)) ranges.

  Definition poly_pad (len : nat) (c : list A) : list A := repeat n0 (len - length c) ++ c.
  Definition poly_deriv_padded (c : list A) : list A := poly_pad (length c) (pderiv c).
  Definition poly_deriv2_padded (c : list A) : list A := poly_pad (length c) (pderiv (pderiv c)).
End FnOps.
Arguments fobj A : clear implicits.
Arguments sfobj A : clear implicits.
