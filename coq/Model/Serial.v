(* Serialisation round trip, as far as it is decided by the constructor signature and the dump keys (Gen/Signatures.v).
   An object is modelled by the keyword arguments it was constructed with; an attribute read returns the normal form
   of the supplied value (or of the default).  No numbers here. *)
From Coq Require Import String List Bool.
From DK.Gen Require Import Signatures.
Import ListNotations.
Local Open Scope string_scope.

Definition mem (l : list string) (k : string) : bool := existsb (String.eqb k) l.

(* keys a class always dumps, whatever was passed *)
Definition static_keys (s : classsig) : list string :=
  (if cs_dump_keys s then cs_keys_base s ++ (if cs_keys_meta s then cs_forced s else []) else []) ++ cs_dump_added s.
Definition always_dumped (s : classsig) : list string :=
  filter (fun k => negb (mem (cs_dump_removed s) k)) (static_keys s).

(* the static conditions under which cls.from_dict(d.to_dict()) rebuilds every field *)
Definition sig_ok (s : classsig) : bool :=
  forallb (mem (always_dumped s)) (cs_params s)                         (* no constructor argument is missing from the dump *)
  && (cs_varkw s || forallb (mem (cs_params s)) (always_dumped s))     (* no dumped key is refused by the constructor *)
  && (negb (cs_varkw s) || (cs_dump_keys s && cs_keys_meta s && cs_forwards s &&
                            match cs_dump_removed s with [] => true | _ => false end))   (* extra keywords are dumped too *)
  && forallb (mem (cs_params s)) (cs_required s).

Section Serial.
  Variable V : Type.
  Variable default : string -> V.            (* value of a parameter that was not passed *)
  Variable norm : string -> V -> V.          (* what the object reports for an attribute, given the supplied value *)

  Definition kwargs := list (string * V).
  Definition keys (a : kwargs) : list string := map fst a.
  Fixpoint assoc (k : string) (a : kwargs) : option V :=
    match a with [] => None | (k', v) :: r => if String.eqb k k' then Some v else assoc k r end.

  (* the constructor call with keyword arguments a succeeds *)
  Definition accepted (s : classsig) (a : kwargs) : Prop :=
    NoDup (keys a) /\ (forall k, In k (cs_required s) -> In k (keys a)) /\
    (forall k, In k (keys a) -> In k (cs_params s) \/ cs_varkw s = true).

  Definition field (a : kwargs) (k : string) : V :=
    norm k (match assoc k a with Some v => v | None => default k end).

  (* the keys of obj.to_dict() for an object built from the keywords K *)
  Definition extra_keys (s : classsig) (K : list string) : list string :=
    if cs_dump_keys s && cs_keys_meta s && cs_forwards s then filter (fun k => negb (mem (cs_params s) k)) K else [].
  Definition dumped (s : classsig) (K : list string) : list string :=
    nodup string_dec (filter (fun k => negb (mem (cs_dump_removed s) k)) (static_keys s ++ extra_keys s K)).
  Definition to_dict (s : classsig) (a : kwargs) : kwargs := map (fun k => (k, field a k)) (dumped s (keys a)).
End Serial.
