(* Bridge between the device trees of Model/Tree.v and what the projection model (Model/Projection.v) looks at:
   an atomic device's bounds table, a set's children, a multi-flow adaptor's wrapped bounds and conduit count.
   SubBalancedDeviceSet inherits DeviceSet.project, TwoRatioMFDeviceSet inherits MFDeviceSet.project. *)
From Coq Require Import ZArith List Bool Arith String.
From DK Require Import Num Vec.
From DK.Model Require Import Leaf Fn Dev Tree Projection.
Import ListNotations.

Section ProjectionTree.
  Context {A : Type} `{Num A}.

  Fixpoint ptree_of (d : dev A) : ptree A :=
    match d with
    | Leaf _ l => PLeaf (ld_bounds l)
    | DSet _ ks _ | SubBal _ ks _ _ _ _ _ => PSet (map ptree_of ks)
    | MF _ l fl | TwoRatio _ l fl _ _ => PMF (ld_bounds l) (List.length fl)
    end.

  (* device.project(s) for s of any shape *)
  Definition dev_project_flat (d : dev A) (s : list A) : pres (list (list A)) :=
    tproject_flat (tree_len d) (ptree_of d) s.
End ProjectionTree.
