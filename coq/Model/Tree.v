(* Executable model of device trees: deviceset.py, subbalanceddeviceset.py, mfdeviceset.py,
   tworatiomfdeviceset.py, the composite part of basedevice.py (leaf_devices / map / get / find) and utils.zmm.
   Hand-written (tie H). Polymorphic in the carrier A and in the type L of leaves: every function takes a
   record `leafops` of leaf behaviours (tie O: theorems hold for every such record; the correspondence of C02
   instantiates it with values observed on the implementation). `std_ops` plugs in the leaf model of Model/Dev.v
   and `dev A`, `tree_cost`, `tree_cons`, ... are the standard instances other files use.

   Conventions: a flow matrix is a list of rows (row-major, as numpy reshape); constraints are over the
   flattened flow (length rows*n), which is what SciPy sees. *)
From Coq Require Import ZArith List Bool Arith String Ascii.
From DK Require Import Num Vec.
From DK.Model Require Import Leaf Fn Dev.
Import ListNotations.

(* ---- strings (qualified ids) -------------------------------------------------------------------- *)
Definition dotjoin (a b : string) : string := String.append a (String.append "." b).
(* k.endswith(suf)  /  re.match('.*{suf}$', k) for a metacharacter-free suf *)
Definition ends_with (s suf : string) : bool :=
  let ls := String.length s in let lf := String.length suf in
  (lf <=? ls)%nat && String.eqb (String.substring (ls - lf) lf s) suf.
(* re.match(literal, k): literal prefix *)
Definition starts_with (s pre : string) : bool := String.prefix pre s.
(* dict / OrderedDict key order: first occurrence kept *)
Fixpoint dedup (l : list string) : list string :=
  match l with
  | [] => []
  | x :: l' => x :: filter (fun y => negb (String.eqb x y)) (dedup l')
  end.
(* dict(items): position of the first occurrence of a key, value of the last *)
Fixpoint last_val {V} (k : string) (l : list (string * V)) (acc : option V) : option V :=
  match l with
  | [] => acc
  | (k', v) :: l' => last_val k l' (if String.eqb k k' then Some v else acc)
  end.
Definition as_dict {V} (l : list (string * V)) : list (string * V) :=
  flat_map (fun k => match last_val k l None with Some v => [(k, v)] | None => [] end) (dedup (map fst l)).

(* BaseDevice.get / find over the (label, value) items: dict(items) then a scan in key order *)
Definition get_in {V} (items : list (string * V)) (name : string) : option V :=
  match filter (fun kv => ends_with (fst kv) name) (as_dict items) with [] => None | kv :: _ => Some (snd kv) end.
Definition find_suffix_in {V} (items : list (string * V)) (suf : string) : list V :=
  map snd (filter (fun kv => ends_with (fst kv) suf) (as_dict items)).
Definition find_prefix_in {V} (items : list (string * V)) (pre : string) : list V :=
  map snd (filter (fun kv => starts_with (fst kv) pre) (as_dict items)).

Section Tree.
  Context {A : Type} `{Num A}.
  Local Open Scope num_scope.

  (* p * np.ones(shape): scalar, per-slot vector or full matrix price *)
  Inductive price := PScalar (a : A) | PVector (l : list A) | PMatrix (m : list (list A)).
  Definition price_rows (R n : nat) (p : price) : list (list A) :=
    match p with
    | PScalar a => repeat (repeat a n) R
    | PVector l => repeat l R
    | PMatrix m => m
    end.

  Definition rslice {B} (o r : nat) (S : list B) : list B := firstn r (skipn o S).   (* S[o:o+r] *)
  Definition col (i : nat) (S : list (list A)) : list A := map (fun row => nth i row n0) S.  (* S[:, i] *)
  Definition clamp (b : list (A * A)) (x : list A) : list A :=      (* HyperCube.project *)
    map (fun '(i, v) => nmax (lo b i) (nmin (hi b i) v)) (idx x).
  Definition msum (n : nat) (ms : list (list (list A))) : list (list A) := fold_right madd (mconst n n n0) ms.

  Section Generic.
  Variable L : Type.

  Inductive gdev :=
  | Leaf (id : string) (l : L)
  | DSet (id : string) (kids : list gdev) (sb : option (list (A * A)))
  | SubBal (id : string) (kids : list gdev) (sb : option (list (A * A)))
           (labels : list string) (is_eq : bool) (sign : A) (remaining : bool)
  | MF (id : string) (l : L) (flows : list string)
  | TwoRatio (id : string) (l : L) (flows : list string) (ratios : A * A) (is_eq : bool).

  Record leafops := {
    l_rows : L -> nat;                       (* 1 for every atomic device; a record of observed values may stand for a
                                                multi-row unit (tie O: an adaptor compared with the standalone adaptor) *)
    l_n : L -> nat;
    l_bounds : L -> list (A * A);
    l_cost : L -> list A -> list A -> A;
    l_deriv : L -> list A -> list A -> list A;
    l_hess : L -> list A -> list (list A);
    l_cons : L -> list (con A);
    l_conduit : nat -> list (A * A) -> L     (* Device(flow, n, bounds): a conduit of a multi-flow adaptor *)
  }.
  Variable ops : leafops.

  Definition dev_id (d : gdev) : string :=
    match d with Leaf i _ | DSet i _ _ | SubBal i _ _ _ _ _ _ | MF i _ _ | TwoRatio i _ _ _ _ => i end.

  (* shape = (rows, dlen) *)
  Fixpoint rows (d : gdev) : nat :=
    match d with
    | Leaf _ l => l_rows ops l
    | DSet _ ks _ | SubBal _ ks _ _ _ _ _ =>
        (fix go (ks : list gdev) : nat := match ks with [] => 0 | k :: ks' => (rows k + go ks')%nat end) ks
    | MF _ _ fl | TwoRatio _ _ fl _ _ => List.length fl
    end.
  Fixpoint kids_rows (ks : list gdev) : nat := match ks with [] => 0 | k :: ks' => (rows k + kids_rows ks')%nat end.

  Fixpoint dlen (d : gdev) : nat :=
    match d with
    | Leaf _ l | MF _ l _ | TwoRatio _ l _ _ _ => l_n ops l
    | DSet _ ks _ | SubBal _ ks _ _ _ _ _ => match ks with [] => 0 | k :: _ => dlen k end
    end.

  (* partition: (offset, row count) per child, offsets being cumulative row counts *)
  Fixpoint partition_from (o : nat) (ks : list gdev) : list (nat * nat) :=
    match ks with [] => [] | k :: ks' => (o, rows k) :: partition_from (o + rows k)%nat ks' end.
  Definition partition (d : gdev) : list (nat * nat) :=
    match d with
    | Leaf _ l => [(0, l_rows ops l)]
    | DSet _ ks _ | SubBal _ ks _ _ _ _ _ => partition_from 0 ks
    | MF _ _ fl | TwoRatio _ _ fl _ _ => map (fun i => (i, 1)) (seq 0 (List.length fl))
    end.
  Definition offsets (d : gdev) : list nat := map fst (partition d).

  (* conduit bounds of MFDeviceSet.__init__: (low,0) if any low < 0 else (0,high) *)
  Definition conduit_bounds (b : list (A * A)) : list (A * A) :=
    if existsb (fun lh => fst lh <? n0) b then map (fun lh => (fst lh, n0)) b else map (fun lh => (n0, snd lh)) b.
  Definition conduit (l : L) : L := l_conduit ops (l_n ops l) (conduit_bounds (l_bounds ops l)).

  (* ---- cost / deriv / hess / bounds / project: S and P are (rows d) x (dlen d) matrices ------------ *)
  Definition mf_cost (l : L) (S P : list (list A)) : A :=
    l_cost ops l (colsum (l_n ops l) S) (zeros (l_n ops l)) + vsum (map2 dot S P).
  Definition mf_deriv (l : L) (k : nat) (S P : list (list A)) : list (list A) :=
    map2 vadd (repeat (l_deriv ops l (colsum (l_n ops l) S) (zeros (l_n ops l))) k) P.

  Fixpoint gcost (d : gdev) (S P : list (list A)) : A :=
    match d with
    | Leaf _ l => l_cost ops l (List.concat S) (List.concat P)
    | DSet _ ks _ | SubBal _ ks _ _ _ _ _ =>
        (fix go (ks : list gdev) (o : nat) : A :=
           match ks with [] => n0
           | k :: ks' => gcost k (rslice o (rows k) S) (rslice o (rows k) P) + go ks' (o + rows k)%nat end) ks 0%nat
    | MF _ l _ | TwoRatio _ l _ _ _ => mf_cost l S P
    end.
  Fixpoint kids_cost (ks : list gdev) (o : nat) (S P : list (list A)) : A :=
    match ks with [] => n0
    | k :: ks' => gcost k (rslice o (rows k) S) (rslice o (rows k) P) + kids_cost ks' (o + rows k)%nat S P end.

  Fixpoint gderiv (d : gdev) (S P : list (list A)) : list (list A) :=
    match d with
    | Leaf _ l => [l_deriv ops l (List.concat S) (List.concat P)]
    | DSet _ ks _ | SubBal _ ks _ _ _ _ _ =>
        (fix go (ks : list gdev) (o : nat) : list (list A) :=
           match ks with [] => []
           | k :: ks' => gderiv k (rslice o (rows k) S) (rslice o (rows k) P) ++ go ks' (o + rows k)%nat end) ks 0%nat
    | MF _ l fl | TwoRatio _ l fl _ _ => mf_deriv l (List.length fl) S P
    end.
  Fixpoint kids_deriv (ks : list gdev) (o : nat) (S P : list (list A)) : list (list A) :=
    match ks with [] => []
    | k :: ks' => gderiv k (rslice o (rows k) S) (rslice o (rows k) P) ++ kids_deriv ks' (o + rows k)%nat S P end.

  (* DeviceSet.hess: the SUM of the children's n x n Hessians (not block diagonal) *)
  Fixpoint ghess (d : gdev) (S : list (list A)) : list (list A) :=
    match d with
    | Leaf _ l => l_hess ops l (List.concat S)
    | DSet _ ks _ | SubBal _ ks _ _ _ _ _ =>
        msum (dlen d)
        ((fix go (ks : list gdev) (o : nat) : list (list (list A)) :=
           match ks with [] => []
           | k :: ks' => ghess k (rslice o (rows k) S) :: go ks' (o + rows k)%nat end) ks 0%nat)
    | MF _ l _ | TwoRatio _ l _ _ _ => l_hess ops l (colsum (l_n ops l) S)
    end.
  Fixpoint kids_hess (ks : list gdev) (o : nat) (S : list (list A)) : list (list (list A)) :=
    match ks with [] => []
    | k :: ks' => ghess k (rslice o (rows k) S) :: kids_hess ks' (o + rows k)%nat S end.

  Fixpoint gbounds (d : gdev) : list (A * A) :=
    match d with
    | Leaf _ l => l_bounds ops l
    | DSet _ ks _ | SubBal _ ks _ _ _ _ _ =>
        (fix go (ks : list gdev) : list (A * A) := match ks with [] => [] | k :: ks' => gbounds k ++ go ks' end) ks
    | MF _ l fl | TwoRatio _ l fl _ _ => List.concat (repeat (conduit_bounds (l_bounds ops l)) (List.length fl))
    end.
  Fixpoint kids_bounds (ks : list gdev) : list (A * A) :=
    match ks with [] => [] | k :: ks' => gbounds k ++ kids_bounds ks' end.

  Definition mf_project (l : L) (k : nat) (S : list (list A)) : list (list A) :=
    let t := clamp (l_bounds ops l) (colsum (l_n ops l) S) in
    repeat (map (fun v => v / nofnat k) t) k.
  Fixpoint gproject (d : gdev) (S : list (list A)) : list (list A) :=
    match d with
    | Leaf _ l => [clamp (l_bounds ops l) (List.concat S)]
    | DSet _ ks _ | SubBal _ ks _ _ _ _ _ =>
        (fix go (ks : list gdev) (o : nat) : list (list A) :=
           match ks with [] => []
           | k :: ks' => gproject k (rslice o (rows k) S) ++ go ks' (o + rows k)%nat end) ks 0%nat
    | MF _ l fl | TwoRatio _ l fl _ _ => mf_project l (List.length fl) S
    end.
  Fixpoint kids_project (ks : list gdev) (o : nat) (S : list (list A)) : list (list A) :=
    match ks with [] => []
    | k :: ks' => gproject k (rslice o (rows k) S) ++ kids_project ks' (o + rows k)%nat S end.

  (* ---- leaves, labels -------------------------------------------------------------------------------- *)
  (* BaseDevice.leaf_devices: depth first, dot-joined ids; a multi-flow adaptor yields its conduit Devices *)
  Fixpoint leaves_from (path : string) (d : gdev) : list (string * L) :=
    match d with
    | Leaf _ l => [(path, l)]
    | DSet _ ks _ | SubBal _ ks _ _ _ _ _ =>
        (fix go (ks : list gdev) : list (string * L) :=
           match ks with [] => [] | k :: ks' => leaves_from (dotjoin path (dev_id k)) k ++ go ks' end) ks
    | MF _ l fl | TwoRatio _ l fl _ _ => map (fun f => (dotjoin path f, conduit l)) fl
    end.
  Fixpoint kids_leaves (path : string) (ks : list gdev) : list (string * L) :=
    match ks with [] => [] | k :: ks' => leaves_from (dotjoin path (dev_id k)) k ++ kids_leaves path ks' end.
  Definition leaves (d : gdev) : list (string * L) := leaves_from (dev_id d) d.
  Definition labels (d : gdev) : list string := map fst (leaves d).

  (* map(s): i-th label with row i *)
  Definition map_rows (d : gdev) (S : list (list A)) : list (string * list A) := combine (labels d) S.
  Definition map_devices (d : gdev) (S : list (list A)) : list (string * L * list A) := combine (leaves d) S.
  Definition map_rows_flat (d : gdev) (s : list A) := map_rows d (reshape (rows d) (dlen d) s).
  (* get(name): first (in dict order) leaf whose label ends with name; find: literal prefix / '.*suffix$' *)
  Definition get (d : gdev) (name : string) : option L := get_in (leaves d) name.
  Definition find_suffix (d : gdev) (suf : string) : list L := find_suffix_in (leaves d) suf.
  Definition find_prefix (d : gdev) (pre : string) : list L := find_prefix_in (leaves d) pre.

  (* ---- constraints over the flattened flow ----------------------------------------------------------- *)
  (* s.reshape(shape)[o:o+r, :], handed to the child (which flattens / reshapes it itself) *)
  Definition sub_flat (R n o r : nat) (s : list A) : list A := List.concat (rslice o r (reshape R n s)).
  (* zmm(s.reshape(shape), range(o,o+r), fn=f).reshape(flat): zero rows around the child's Jacobian *)
  Definition zpad (R n o r : nat) (j : list A) : list A := zeros (o * n)%nat ++ j ++ zeros ((R - o - r) * n)%nat.
  Definition rewrap (R n o r : nat) (c : con A) : con A :=
    {| c_eq := c_eq c;
       c_fun := fun s => c_fun c (sub_flat R n o r s);
       c_jac := match c_jac c with
                | Some j => Some (fun s => zpad R n o r (j (sub_flat R n o r s)))
                | None => None end |}.

  (* s.reshape(shape)[:, i].dot(ones) *)
  Definition slot_total (R n i : nat) (s : list A) : A := vsum (col i (reshape R n s)).
  (* zmm(.., i, axis=1, fn = v).reshape(flat): column i holds v, zeros elsewhere *)
  Definition col_jac (R n i : nat) (v : list A) : list A :=
    List.concat (map (fun r => map (fun j => if Nat.eqb j i then nth r v n0 else n0) (seq 0 n)) (seq 0 R)).
  Definition sb_slot_cons (R n : nat) (sb : list (A * A)) (i : nat) : list (con A) :=
    if lo sb i =? hi sb i then
      [ {| c_eq := true; c_fun := fun s => slot_total R n i s - lo sb i; c_jac := Some (fun _ => col_jac R n i (ones R)) |} ]
    else
      [ {| c_eq := false; c_fun := fun s => slot_total R n i s - lo sb i; c_jac := Some (fun _ => col_jac R n i (ones R)) |};
        {| c_eq := false; c_fun := fun s => hi sb i - slot_total R n i s;
           c_jac := Some (fun _ => col_jac R n i (vscale (- n1) (ones R))) |} ].
  Definition sb_cons (R n : nat) (sb : option (list (A * A))) : list (con A) :=
    match sb with None => [] | Some b => flat_map (sb_slot_cons R n b) (seq 0 n) end.

  (* SubBalancedDeviceSet._labelled_sets: indices into OrderedDict(leaf_devices()).keys() *)
  Definition label_rows (keys : list string) (label : string) : list nat :=
    map fst (filter (fun kv => ends_with (snd kv) label) (combine (seq 0 (List.length keys)) keys)).
  Definition labelled_sets (keys labels : list string) : list (list nat) := map (label_rows keys) (dedup labels).
  Definition unlabelled_set (keys labels : list string) : list nat :=
    filter (fun k => negb (existsb (fun set => existsb (Nat.eqb k) set) (labelled_sets keys labels))) (seq 0 (List.length keys)).
  Definition indicator (R : nat) (set : list nat) : list A :=
    map (fun r => if existsb (Nat.eqb r) set then n1 else n0) (seq 0 R).
  Definition balance_sets (keys labels : list string) (remaining : bool) : list (list nat) :=
    labelled_sets keys labels ++ (if remaining then [unlabelled_set keys labels] else []).
  (* one balancing constraint per set and slot, over that set's rows (col_jac bound per closure since the fix) *)
  Definition label_cons (R n : nat) (sets : list (list nat)) (is_eq : bool) (sign : A) : list (con A) :=
    flat_map (fun set => map (fun i =>
      {| c_eq := is_eq; c_fun := fun s => sign * vsum (vmul (col i (reshape R n s)) (indicator R set)); c_jac := None |})
      (seq 0 n)) sets.

  (* MFDeviceSet: wrapped constraints on the column sum, Jacobian tiled once per conduit *)
  Definition mf_wrap (k n : nat) (c : con A) : con A :=
    {| c_eq := c_eq c;
       c_fun := fun s => c_fun c (colsum n (reshape k n s));
       c_jac := match c_jac c with
                | Some j => Some (fun s => List.concat (repeat (j (colsum n (reshape k n s))) k))
                | None => None end |}.
  Definition mf_cons (l : L) (k : nat) : list (con A) :=
    let n := l_n ops l in
    sb_cons k n (Some (l_bounds ops l)) ++ map (mf_wrap k n) (l_cons ops l).
  Definition ratio_cons (R n : nat) (ratios : A * A) (is_eq : bool) : list (con A) :=
    map (fun i =>
      {| c_eq := is_eq;
         c_fun := fun s => let S := reshape R n s in
                           nth i (nth 0 S []) n0 * fst ratios - nth i (nth 1 S []) n0 * snd ratios;
         c_jac := Some (fun _ => col_jac R n i [fst ratios; - snd ratios]) |}) (seq 0 n).

  Fixpoint gcons (d : gdev) : list (con A) :=
    match d with
    | Leaf _ l => l_cons ops l
    | DSet _ ks sb =>
        (fix go (ks : list gdev) (o : nat) : list (con A) :=
           match ks with [] => []
           | k :: ks' => map (rewrap (rows d) (dlen d) o (rows k)) (gcons k) ++ go ks' (o + rows k)%nat end) ks 0%nat
        ++ sb_cons (rows d) (dlen d) sb
    | SubBal i ks sb lbls is_eq sign rem =>
        (fix go (ks : list gdev) (o : nat) : list (con A) :=
           match ks with [] => []
           | k :: ks' => map (rewrap (rows d) (dlen d) o (rows k)) (gcons k) ++ go ks' (o + rows k)%nat end) ks 0%nat
        ++ sb_cons (rows d) (dlen d) sb
        ++ label_cons (rows d) (dlen d) (balance_sets (dedup (labels d)) lbls rem) is_eq sign
    | MF _ l fl => mf_cons l (List.length fl)
    | TwoRatio _ l fl ratios is_eq => mf_cons l (List.length fl) ++ ratio_cons (List.length fl) (l_n ops l) ratios is_eq
    end.
  Fixpoint kids_cons (R n : nat) (ks : list gdev) (o : nat) : list (con A) :=
    match ks with [] => []
    | k :: ks' => map (rewrap R n o (rows k)) (gcons k) ++ kids_cons R n ks' (o + rows k)%nat end.
  (* the node's own coupling constraints (everything after the children's) *)
  Definition own_cons (d : gdev) : list (con A) :=
    match d with
    | Leaf _ _ => []
    | DSet _ _ sb => sb_cons (rows d) (dlen d) sb
    | SubBal _ _ sb lbls is_eq sign rem =>
        sb_cons (rows d) (dlen d) sb ++ label_cons (rows d) (dlen d) (balance_sets (dedup (labels d)) lbls rem) is_eq sign
    | MF _ l fl => mf_cons l (List.length fl)
    | TwoRatio _ l fl ratios is_eq => mf_cons l (List.length fl) ++ ratio_cons (List.length fl) (l_n ops l) ratios is_eq
    end.

  (* flat-input entry points: every method starts with s.reshape(self.shape) *)
  Definition shaped (d : gdev) (s : list A) : list (list A) := reshape (rows d) (dlen d) s.
  Definition prices (d : gdev) (p : price) : list (list A) := price_rows (rows d) (dlen d) p.

  (* unfolding equations of the nested fixpoints *)
  Lemma rows_kids i ks sb : rows (DSet i ks sb) = kids_rows ks.
  Proof. cbn [rows]. induction ks as [|k ks IH]; cbn [kids_rows]; congruence. Qed.
  Lemma rows_kids_sub i ks sb lb e sg rm : rows (SubBal i ks sb lb e sg rm) = kids_rows ks.
  Proof. cbn [rows]. induction ks as [|k ks IH]; cbn [kids_rows]; congruence. Qed.
  Lemma gcost_kids i ks sb S P : gcost (DSet i ks sb) S P = kids_cost ks 0 S P.
  Proof. cbn [gcost]. generalize 0%nat. induction ks as [|k ks IH]; intros o; cbn [kids_cost]; [reflexivity|]. now rewrite IH. Qed.
  Lemma gcost_kids_sub i ks sb lb e sg rm S P : gcost (SubBal i ks sb lb e sg rm) S P = kids_cost ks 0 S P.
  Proof. cbn [gcost]. generalize 0%nat. induction ks as [|k ks IH]; intros o; cbn [kids_cost]; [reflexivity|]. now rewrite IH. Qed.
  Lemma gderiv_kids i ks sb S P : gderiv (DSet i ks sb) S P = kids_deriv ks 0 S P.
  Proof. cbn [gderiv]. generalize 0%nat. induction ks as [|k ks IH]; intros o; cbn [kids_deriv]; [reflexivity|]. now rewrite IH. Qed.
  Lemma gderiv_kids_sub i ks sb lb e sg rm S P : gderiv (SubBal i ks sb lb e sg rm) S P = kids_deriv ks 0 S P.
  Proof. cbn [gderiv]. generalize 0%nat. induction ks as [|k ks IH]; intros o; cbn [kids_deriv]; [reflexivity|]. now rewrite IH. Qed.
  Lemma ghess_kids i ks sb S : ghess (DSet i ks sb) S = msum (dlen (DSet i ks sb)) (kids_hess ks 0 S).
  Proof. cbn [ghess]. f_equal. generalize 0%nat. induction ks as [|k ks IH]; intros o; cbn [kids_hess]; [reflexivity|]. now rewrite IH. Qed.
  Lemma ghess_kids_sub i ks sb lb e sg rm S :
    ghess (SubBal i ks sb lb e sg rm) S = msum (dlen (SubBal i ks sb lb e sg rm)) (kids_hess ks 0 S).
  Proof. cbn [ghess]. f_equal. generalize 0%nat. induction ks as [|k ks IH]; intros o; cbn [kids_hess]; [reflexivity|]. now rewrite IH. Qed.
  Lemma gbounds_kids i ks sb : gbounds (DSet i ks sb) = kids_bounds ks.
  Proof. cbn [gbounds]. induction ks as [|k ks IH]; cbn [kids_bounds]; [reflexivity|]. now rewrite IH. Qed.
  Lemma gbounds_kids_sub i ks sb lb e sg rm : gbounds (SubBal i ks sb lb e sg rm) = kids_bounds ks.
  Proof. cbn [gbounds]. induction ks as [|k ks IH]; cbn [kids_bounds]; [reflexivity|]. now rewrite IH. Qed.
  Lemma gproject_kids i ks sb S : gproject (DSet i ks sb) S = kids_project ks 0 S.
  Proof. cbn [gproject]. generalize 0%nat. induction ks as [|k ks IH]; intros o; cbn [kids_project]; [reflexivity|]. now rewrite IH. Qed.
  Lemma gproject_kids_sub i ks sb lb e sg rm S : gproject (SubBal i ks sb lb e sg rm) S = kids_project ks 0 S.
  Proof. cbn [gproject]. generalize 0%nat. induction ks as [|k ks IH]; intros o; cbn [kids_project]; [reflexivity|]. now rewrite IH. Qed.
  Lemma leaves_kids p i ks sb : leaves_from p (DSet i ks sb) = kids_leaves p ks.
  Proof. cbn [leaves_from]. induction ks as [|k ks IH]; cbn [kids_leaves]; [reflexivity|]. now rewrite IH. Qed.
  Lemma leaves_kids_sub p i ks sb lb e sg rm : leaves_from p (SubBal i ks sb lb e sg rm) = kids_leaves p ks.
  Proof. cbn [leaves_from]. induction ks as [|k ks IH]; cbn [kids_leaves]; [reflexivity|]. now rewrite IH. Qed.
  Lemma gcons_kids i ks sb :
    gcons (DSet i ks sb) = kids_cons (rows (DSet i ks sb)) (dlen (DSet i ks sb)) ks 0 ++ own_cons (DSet i ks sb).
  Proof.
    cbn [gcons own_cons]. f_equal. generalize 0%nat.
    generalize (rows (DSet i ks sb)) (dlen (DSet i ks sb)). intros R n.
    induction ks as [|k ks IH]; intros o; cbn [kids_cons]; [reflexivity|]. now rewrite IH.
  Qed.
  Lemma gcons_kids_sub i ks sb lb e sg rm : let d := SubBal i ks sb lb e sg rm in
    gcons d = kids_cons (rows d) (dlen d) ks 0 ++ own_cons d.
  Proof.
    cbn zeta. cbn [gcons own_cons]. f_equal. generalize 0%nat.
    generalize (rows (SubBal i ks sb lb e sg rm)) (dlen (SubBal i ks sb lb e sg rm)). intros R n.
    induction ks as [|k ks IH]; intros o; cbn [kids_cons]; [reflexivity|]. now rewrite IH.
  Qed.

  (* structural induction over trees of any depth and fan-out *)
  Lemma gdev_induction (Pr : gdev -> Prop) :
    (forall i l, Pr (Leaf i l)) ->
    (forall i ks sb, List.Forall Pr ks -> Pr (DSet i ks sb)) ->
    (forall i ks sb lb e sg rm, List.Forall Pr ks -> Pr (SubBal i ks sb lb e sg rm)) ->
    (forall i l fl, Pr (MF i l fl)) ->
    (forall i l fl r e, Pr (TwoRatio i l fl r e)) ->
    forall d, Pr d.
  Proof.
    intros HL HD HS HM HT. fix IH 1. intros [i l|i ks sb|i ks sb lb e sg rm|i l fl|i l fl r e].
    - apply HL.
    - apply HD. induction ks as [|k ks IHks]; constructor; [apply IH|exact IHks].
    - apply HS. induction ks as [|k ks IHks]; constructor; [apply IH|exact IHks].
    - apply HM.
    - apply HT.
  Qed.
  End Generic.

  (* ---- the standard instance: leaves are the atomic devices of Model/Dev.v --------------------------- *)
  Definition std_ops : leafops (leafdev A) :=
    {| l_rows := fun _ => 1%nat; l_n := @ld_n A; l_bounds := @ld_bounds A;
       l_cost := leaf_cost; l_deriv := leaf_deriv; l_hess := leaf_hess; l_cons := leaf_cons;
       l_conduit := fun n b => Build_leafdev n b [] KDev |}.
  Definition dev := gdev (leafdev A).
  Definition tree_rows (d : dev) : nat := rows _ std_ops d.
  Definition tree_len (d : dev) : nat := dlen _ std_ops d.
  Definition tree_cost (d : dev) S P : A := gcost _ std_ops d S P.
  Definition tree_deriv (d : dev) S P : list (list A) := gderiv _ std_ops d S P.
  Definition tree_hess (d : dev) S : list (list A) := ghess _ std_ops d S.
  Definition tree_bounds (d : dev) : list (A * A) := gbounds _ std_ops d.
  Definition tree_cons (d : dev) : list (con A) := gcons _ std_ops d.
  Definition tree_own_cons (d : dev) : list (con A) := own_cons _ std_ops d.
  Definition tree_project (d : dev) S : list (list A) := gproject _ std_ops d S.
  Definition tree_leaves (d : dev) : list (string * leafdev A) := leaves _ std_ops d.
  Definition tree_labels (d : dev) : list string := labels _ std_ops d.
  Definition tree_map (d : dev) S := map_rows _ std_ops d S.
  Definition tree_shaped (d : dev) (s : list A) := shaped _ std_ops d s.
  Definition tree_prices (d : dev) (p : price) := prices _ std_ops d p.
  (* flat / any-price entry points, as the methods are called from outside *)
  Definition tree_cost_flat (d : dev) (s : list A) (p : price) : A := tree_cost d (tree_shaped d s) (tree_prices d p).
  Definition tree_deriv_flat (d : dev) (s : list A) (p : price) := tree_deriv d (tree_shaped d s) (tree_prices d p).
End Tree.

Arguments gdev : clear implicits.
Arguments leafops : clear implicits.
Arguments dev : clear implicits.
Arguments price : clear implicits.
Arguments Leaf {A L}.
Arguments DSet {A L}.
Arguments SubBal {A L}.
Arguments MF {A L}.
Arguments TwoRatio {A L}.
Arguments rows {A L}.
Arguments kids_rows {A L}.
Arguments dev_id {A L}.
Arguments partition {A L}.
Arguments offsets {A L}.
Arguments partition_from {A L}.
Arguments dlen {A L}.
Arguments gcost {A _ L}.
Arguments kids_cost {A _ L}.
Arguments gderiv {A _ L}.
Arguments kids_deriv {A _ L}.
Arguments ghess {A _ L}.
Arguments kids_hess {A _ L}.
Arguments gbounds {A _ L}.
Arguments kids_bounds {A _ L}.
Arguments gproject {A _ L}.
Arguments kids_project {A _ L}.
Arguments gcons {A _ L}.
Arguments kids_cons {A _ L}.
Arguments own_cons {A _ L}.
Arguments leaves_from {A _ L}.
Arguments kids_leaves {A _ L}.
Arguments leaves {A _ L}.
Arguments labels {A _ L}.
Arguments map_rows {A _ L}.
Arguments map_devices {A _ L}.
Arguments map_rows_flat {A _ L}.
Arguments get {A _ L}.
Arguments find_suffix {A _ L}.
Arguments find_prefix {A _ L}.
Arguments conduit {A _ L}.
Arguments mf_cost {A _ L}.
Arguments mf_deriv {A _ L}.
Arguments mf_project {A _ L}.
Arguments mf_cons {A _ L}.
Arguments shaped {A L}.
Arguments prices {A L}.
Arguments gdev_induction {A L}.
