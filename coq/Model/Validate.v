(* Executable model of the validation path of the atomic devices (tie H), written against the generated
   guards of Gen/Validators.v (tie T):

     validate_bounds   basedevice.py:validate_bounds, branch by branch, on dynamically typed input
     device_bounds     Device.bounds setter = validate_bounds + HyperCube's shape test
     set_cbounds       Device.cbounds setter around the generated Device_set_cbound_accepts
     ctor              the common constructor cls(id, length, bounds, cbounds) of every atomic class
     meaning / denotes the documented meaning of the three bounds forms (the specification side)

   The model is faithful for inputs of nesting depth <= 2 (a sequence of numbers / None / flat sequences); deeper
   input reaches NumPy code paths (3-D arrays) that are not modelled and is mapped to RaiseOther.
   Polymorphic in the carrier; no Reals. *)
From Coq Require Import String ZArith List Bool Arith.
From DK Require Import Num Vec.
From DK.Model Require Import Leaf PyVal.
From DK.Gen Require Import Validators.
Import ListNotations.

Section Validate.
  Context {A : Type} `{Num A}.
  Local Open Scope num_scope.

  (* a table cell as NumPy holds it: a number or None *)
  Definition cell := option A.
  Definition rawtable := list (list cell).

  Definition cell_of (v : pv A) : option cell :=
    match v with PNum a => Some (Some a) | PNone => Some None | PSeq _ => None end.
  Fixpoint cells_of (l : list (pv A)) : option (list cell) :=
    match l with
    | [] => Some []
    | x :: r => match cell_of x, cells_of r with Some c, Some cs => Some (c :: cs) | _, _ => None end
    end.
  (* a 1-D sequence of scalars *)
  Definition flat (v : pv A) : option (list cell) := match v with PSeq l => cells_of l | _ => None end.
  Definition is_scalar (v : pv A) : bool := match v with PSeq _ => false | _ => true end.

  (* np.array(b).shape == (n, 2) *)
  Definition row2 (r : pv A) : bool := match flat r with Some cs => Nat.eqb (length cs) 2 | None => false end.
  Definition is_table (n : nat) (b : pv A) : bool :=
    match b with
    | PSeq l => Nat.eqb (length l) n && negb (Nat.eqb n 0) && forallb row2 l
    | _ => false
    end.

  Definition cell_none (c : cell) : bool := match c with None => true | Some _ => false end.
  Definition row_lo (r : list cell) : cell := nth 0 r None.
  Definition row_hi (r : list cell) : cell := nth 1 r None.
  (* hbounds - lbounds >= 0 on one row *)
  Definition row_ordered (r : list cell) : bool :=
    match row_lo r, row_hi r with Some l, Some h => n0 <=? h - l | _, _ => false end.
  Definition row_numeric (r : list cell) : bool := negb (cell_none (row_lo r)) && negb (cell_none (row_hi r)).

  (* the tail of validate_bounds on a rectangular array of rows: column extraction, the all-None escape, low <= high *)
  Definition check_rows (rows : rawtable) : outcome rawtable :=
    match rows with
    | [] => RaiseValueError                                           (* np.vectorize on a size-0 array *)
    | r0 :: _ =>
      if Nat.ltb (length r0) 2 then RaiseOther                        (* bounds[:, 1]: IndexError *)
      else if forallb (forallb cell_none) rows then Accept rows       (* every entry None: no test *)
      else if negb (forallb row_numeric rows) then RaiseOther         (* None - number: TypeError *)
      else if forallb row_ordered rows then Accept rows else RaiseValueError
    end.

  (* np.repeat(x, n) for a number *)
  Definition bcast (n : nat) (v : pv A) : pv A := match v with PNum a => PSeq (repeat (PNum a) n) | _ => v end.

  Fixpoint all_flat (l : list (pv A)) : option rawtable :=
    match l with
    | [] => Some []
    | x :: r => match flat x, all_flat r with Some c, Some cs => Some (c :: cs) | _, _ => None end
    end.
  Definition same_len (rows : rawtable) : bool :=
    match rows with [] => true | r0 :: rs => forallb (fun r => Nat.eqb (length r) (length r0)) rs end.
  Definition shallow (v : pv A) : bool := match v with PSeq l => forallb is_scalar l | _ => true end.

  (* np.array(rows) for a list whose first element is a sequence *)
  Definition array_rows (rows : list (pv A)) : outcome rawtable :=
    match all_flat rows with
    | Some cs => if same_len cs then Accept cs else RaiseValueError    (* inhomogeneous shape *)
    | None => if forallb shallow rows then RaiseValueError             (* scalars mixed with sequences *)
              else RaiseOther                                           (* depth > 2: not modelled *)
    end.

  Definition validate_bounds (n : nat) (b : pv A) : outcome rawtable :=
    match b with
    | PNum _ | PNone => RaiseValueError                                (* no __len__ *)
    | PSeq l =>
      if is_table n b then
        match all_flat l with Some rows => check_rows rows | None => RaiseOther end
      else
        let l2 := match l with [x] => [x; x] | _ => l end in
        match l2 with
        | x0 :: x1 :: rest =>
          match bcast n x0, bcast n x1 with
          | PSeq e0, PSeq e1 =>
            if Nat.eqb (length e0) n && Nat.eqb (length e1) n then
              match cells_of e0, cells_of e1 with                      (* np.stack((b0, b1), axis=1) *)
              | Some c0, Some c1 => check_rows (map2 (fun x y => [x; y]) c0 c1)
              | _, _ => RaiseOther                                     (* depth > 2: not modelled *)
              end
            else
              let rows := PSeq e0 :: PSeq e1 :: rest in
              if negb (Nat.eqb (length rows) n) then RaiseValueError   (* bounds has wrong length *)
              else obind (array_rows rows) check_rows
          | _, _ => RaiseOther                                         (* len(None): TypeError *)
          end
        | _ => RaiseOther                                              (* bounds[0] / bounds[1]: IndexError *)
        end
    end.

  (* Device.bounds setter: validate_bounds, then HyperCube(bounds) wants exactly two columns *)
  Definition device_bounds (n : nat) (b : pv A) : outcome rawtable :=
    obind (validate_bounds n b) (fun raw =>
      if forallb (fun r => Nat.eqb (length r) 2) raw then Accept raw else RaiseValueError).

  (* numeric view of an accepted table *)
  Fixpoint table_of (raw : rawtable) : option (list (A * A)) :=
    match raw with
    | [] => Some []
    | [Some l; Some h] :: rs => match table_of rs with Some t => Some ((l, h) :: t) | None => None end
    | _ => None
    end.
  Definition raw_of (t : list (A * A)) : rawtable := map (fun p => [Some (fst p); Some (snd p)]) t.

  (* ---------------------------------------------------------------- cumulative bounds *)
  (* what the guard of set_cbound can be evaluated on without a TypeError: numbers at 0 and 1, numbers or None at 2 and 3 *)
  Definition cb_typed (c : pv A) : bool :=
    pv_is_num (pv_nth 0 c) && pv_is_num (pv_nth 1 c) &&
    (pv_is_num (pv_nth 2 c) || pv_is_none (pv_nth 2 c)) && (pv_is_num (pv_nth 3 c) || pv_is_none (pv_nth 3 c)).
  Definition set_cbound (lb hb : list A) (c : pv A) : outcome (pv A) :=
    if negb (pv_has_len c && Nat.eqb (pv_len c) 4) then RaiseValueError
    else if negb (cb_typed c) then RaiseOther
    else if Device_set_cbound_accepts lb hb c then Accept c else RaiseValueError.
  Fixpoint set_cbound_all (lb hb : list A) (l : list (pv A)) : outcome (list (pv A)) :=
    match l with
    | [] => Accept []
    | c :: r => obind (set_cbound lb hb c) (fun c' => obind (set_cbound_all lb hb r) (fun r' => Accept (c' :: r')))
    end.
  (* Device.cbounds setter; None stays None, everything else is stored as the list of 4-tuples *)
  Definition set_cbounds (n : nat) (lb hb : list A) (c : pv A) : outcome (option (list (pv A))) :=
    match c with
    | PNone => Accept None
    | PNum _ => RaiseValueError
    | PSeq l =>
      if Nat.eqb (length l) 2 && negb (pv_has_len (nth 0 l PNone)) then
        obind (set_cbound lb hb (PSeq (l ++ [PNum (nofZ 0); PNum (nofZ (Z.of_nat n))]))) (fun c' => Accept (Some [c']))
      else obind (set_cbound_all lb hb l) (fun r => Accept (Some r))
    end.

  (* ---------------------------------------------------------------- the common constructor *)
  Inductive cclass := CDev | CPV | CG | CC | CC2 | CI | CI2 | CS | CA | CT | CW.

  Definition lows (t : list (A * A)) : list A := map fst t.
  Definition highs (t : list (A * A)) : list A := map snd t.

  (* RangesFunction._validate_ranges on the stored cbounds of a CDevice2 with several ranges *)
  Fixpoint contiguous_from (prev : pv A) (l : list (pv A)) : bool :=
    match l with
    | [] => true
    | c :: r => match pv_nth 2 c, prev with
                | PNum s, PNum e => (s =? e) && contiguous_from (pv_nth 3 c) r
                | _, _ => false
                end
    end.

  (* CDevice2.__init__: cbounds[-1][3] != len(self) -> ValueError *)
  Definition covers (n : nat) (l : list (pv A)) : bool :=
    match pv_nth 3 (last l PNone) with PNum e => e =? nofZ (Z.of_nat n) | _ => false end.

  Definition ctor (k : cclass) (n : nat) (b cb : pv A) : outcome (rawtable * option (list (pv A))) :=
    obind (device_bounds n b) (fun raw =>
      match table_of raw with
      | None =>      (* a table of None: only the plain classes without cumulative bounds get through *)
        match cb, k with
        | PNone, (CDev | CC | CI | CI2 | CS | CA | CT | CW) => Accept (raw, None)
        | _, _ => RaiseOther
        end
      | Some t =>
        let go (_ : unit) :=
          obind (set_cbounds n (lows t) (highs t) cb) (fun scb =>
            match k with
            | CC2 =>
              let nonempty := match scb with Some (_ :: _) => true | _ => false end in
              obind (if nonempty then Accept scb
                     else set_cbounds n (lows t) (highs t) (PSeq [PNum (vsum (lows t)); PNum (vsum (highs t))])) (fun scb2 =>
                match scb2 with
                | Some [_] => Accept (raw, scb2)
                | Some l => if covers n l && contiguous_from (PNum (nofZ 0)) l then Accept (raw, scb2) else RaiseValueError
                | None => RaiseOther
                end)
            | _ => Accept (raw, scb)
            end) in
        match k with
        | CPV => if PVDevice_bounds_accepts (highs t) then go tt else RaiseValueError
        | CG => if GDevice_bounds_accepts (highs t) then go tt else RaiseValueError
        | _ => go tt
        end
      end).

  (* ---------------------------------------------------------------- specification: what a bounds form denotes *)
  Definition num_of (v : pv A) : option A := match v with PNum a => Some a | _ => None end.
  Fixpoint nums_of (l : list (pv A)) : option (list A) :=
    match l with
    | [] => Some []
    | x :: r => match num_of x, nums_of r with Some a, Some xs => Some (a :: xs) | _, _ => None end
    end.
  (* a scalar (repeated) or a vector of exactly n numbers *)
  Definition numvec (n : nat) (v : pv A) : option (list A) :=
    match v with
    | PNum a => Some (repeat a n)
    | PSeq l => match nums_of l with Some xs => if Nat.eqb (length xs) n then Some xs else None | None => None end
    | PNone => None
    end.
  Fixpoint table_rows (l : list (pv A)) : option (list (A * A)) :=
    match l with
    | [] => Some []
    | PSeq [PNum lo; PNum hi] :: r => match table_rows r with Some t => Some ((lo, hi) :: t) | None => None end
    | _ => None
    end.
  (* the (len,2) table takes precedence (docstring of validate_bounds); then the 2-sequence, then the 1-sequence *)
  Definition meaning (n : nat) (b : pv A) : option (list (A * A)) :=
    match b with
    | PSeq l =>
      if is_table n b then table_rows l
      else match l with
           | [lo; hi] => match numvec n lo, numvec n hi with Some x, Some y => Some (combine x y) | _, _ => None end
           | [v] => match numvec n v with Some x => Some (combine x x) | None => None end
           | _ => None
           end
    | _ => None
    end.
  Definition ordered (t : list (A * A)) : bool := forallb (fun p => n0 <=? snd p - fst p) t.

  (* no None anywhere / nesting depth at most 2 *)
  Fixpoint pv_numeric (v : pv A) : bool :=
    match v with PNum _ => true | PNone => false | PSeq l => forallb pv_numeric l end.
  Definition depth2 (b : pv A) : bool := match b with PSeq l => forallb shallow l | _ => true end.

  (* the region of the two open findings (and their length-2 relatives) *)
  Definition common_len (l : list (pv A)) : option nat :=
    match l with
    | PSeq e :: r => if forallb (fun x => match x with PSeq e' => Nat.eqb (length e') (length e) | _ => false end) r
                     then Some (length e) else None
    | _ => None
    end.
  (* on a length-2 device a 1-/2-sequence of vectors of one common length m <> 2 is read as two rows *)
  Definition quirk_two (n : nat) (b : pv A) : bool :=
    match b with
    | PSeq l => Nat.eqb n 2 && Nat.leb (length l) 2 &&
                match common_len l with Some m => negb (Nat.eqb m 2) | None => false end
    | _ => false
    end.
  (* a sequence of three or more items that is not a (len,2) table: only its first two items are looked at *)
  Definition quirk_long (n : nat) (b : pv A) : bool := Nat.leb 3 (pv_len b) && negb (is_table n b).
  Definition safe (n : nat) (b : pv A) : bool := negb (quirk_long n b) && negb (quirk_two n b).
End Validate.
