(* Hand-written list semantics of the NumPy array operations utils.py is written in (translator/utils_tx.py emits these):
   np.triu(np.ones((l,l)), 1), transpose of an integer matrix, np.tril, row-wise cumsum of a float matrix, diagonal. *)
From Coq Require Import ZArith List Bool Arith.
From DK Require Import Num Vec.
From DK.Model Require Import Leaf.
Import ListNotations.

(* np.triu(np.ones((l, l)), 1) as integers: 1 strictly above the diagonal *)
Definition np_triu1_ones (l : nat) : list (list nat) :=
  map (fun i => map (fun k => if (i <? k)%nat then 1%nat else 0%nat) (seq 0 l)) (seq 0 l).
(* m.transpose() of an (l, l) integer matrix *)
Definition np_transpose_nat (l : nat) (m : list (list nat)) : list (list nat) :=
  map (fun a => map (fun row => nth a row 0%nat) m) (seq 0 l).

Section NpOps.
  Context {A : Type} `{Num A}.
  Local Open Scope num_scope.
  (* np.tril(m): zero strictly above the diagonal *)
  Definition np_tril (m : list (list A)) : list (list A) :=
    map (fun ir => map (fun jx => if (fst jx <=? fst ir)%nat then snd jx else n0) (combine (seq 0 (length (snd ir))) (snd ir)))
        (combine (seq 0 (length m)) m).
  (* x.cumsum() of a float vector *)
  Fixpoint cumsumA_from (acc : A) (l : list A) : list A :=
    match l with [] => [] | x :: l' => (acc + x) :: cumsumA_from (acc + x) l' end.
  Definition cumsumA (l : list A) : list A := cumsumA_from n0 l.
  (* m.diagonal() *)
  Definition np_diagonal (m : list (list A)) : list A := map (fun ir => nth (fst ir) (snd ir) n0) (combine (seq 0 (length m)) m).
  (* ---- utils.zmm: zero mask out the rows / the column not kept, applying fn to what is kept ---- *)
  Definition ncols (m : list (list A)) : nat := match m with [] => 0%nat | r :: _ => length r end.
  (* x[a:a+r, :]  (keep = range(a, a+r)) *)
  Definition get_rows (a r : nat) (m : list (list A)) : list (list A) := firstn r (skipn a m).
  (* m[a:a+len(blk), :] = blk *)
  Definition set_rows (a : nat) (blk m : list (list A)) : list (list A) := firstn a m ++ blk ++ skipn (a + length blk) m.
  (* x[:, k] and m[:, k] = v *)
  Definition get_col (k : nat) (m : list (list A)) : list A := map (fun r => nth k r n0) m.
  Definition set_col (k : nat) (v : list A) (m : list (list A)) : list (list A) :=
    map (fun ir => upd (snd ir) k (nth (fst ir) v n0)) (combine (seq 0 (length m)) m).
End NpOps.
