(* Hand-written list semantics of the NumPy array operations utils.py is written in (translator/utils_tx.py emits these):
   np.triu(np.ones((l,l)), 1), transpose of an integer matrix, np.tril, row-wise cumsum of a float matrix, diagonal. *)
From Coq Require Import ZArith List Bool Arith.
From DK Require Import Num Vec.
From DK.Model Require Import Leaf.
Import ListNotations.

(* np.triu(np.ones((l, l)), 1) as integers: 1 strictly above the diagonal *)
Definition np_triu1_ones (l : nat) : list (list nat) :=
  map (fun i => map (fun k => if (i <? k)%nat then 1%nat else 0%nat) (seq 0 l)) (seq 0 l).
(* m.transpose() of an (l, l) integer matrix *)
Definition np_transpose_nat (l : nat) (m : list (list nat)) : list (list nat) :=
  map (fun a => map (fun row => nth a row 0%nat) m) (seq 0 l).

Section NpOps.
  Context {A : Type} `{Num A}.
  Local Open Scope num_scope.
  (* np.tril(m): zero strictly above the diagonal *)
  Definition np_tril (m : list (list A)) : list (list A) :=
    map (fun ir => map (fun jx => if (fst jx <=? fst ir)%nat then snd jx else n0) (combine (seq 0 (length (snd ir))) (snd ir)))
        (combine (seq 0 (length m)) m).
  (* x.cumsum() of a float vector *)
  Fixpoint cumsumA_from (acc : A) (l : list A) : list A :=
    match l with [] => [] | x :: l' => (acc + x) :: cumsumA_from (acc + x) l' end.
  Definition cumsumA (l : list A) : list A := cumsumA_from n0 l.
  (* m.diagonal() *)
  Definition np_diagonal (m : list (list A)) : list A := map (fun ir => nth (fst ir) (snd ir) n0) (combine (seq 0 (length m)) m).
End NpOps.
