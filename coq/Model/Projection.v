(* Executable model of device_kit/projection/projection.py (ConvexRegion.is_in, HyperCube, HalfSpace, Slice,
   Intersection incl. dykstra_project, List) and of the device-level projections Device.project,
   DeviceSet.project, MFDeviceSet.project.  Hand-written (tie H), polymorphic in the carrier, no Reals.

   Differences from the source that are deliberate and proved harmless in Proofs/C18Proofs.v:
   - HalfSpace stores normal/|normal| and offset/|normal| (np.linalg.norm); the model keeps the raw normal and
     offset and uses the square-root-free form  p + n*(off - <n,p>)/<n,n>  (C18_halfspace_form: equal over R).
   - the class attribute tol (1e-10) and Intersection._maxiter (1e3) are parameters of the model. *)
From Coq Require Import ZArith List Bool Arith.
From DK Require Import Num Vec.
Import ListNotations.

(* outcome of a call: a value, ValueError, the bare Exception raised by dykstra_project at maxiter;
   POutOfFuel is the model running out of fuel (shown unreachable: dykstra_fuel_enough) *)
Inductive pres (T : Type) := POk (t : T) | PValueError | PMaxIter | POutOfFuel.
Arguments POk {T} t.
Arguments PValueError {T}.
Arguments PMaxIter {T}.
Arguments POutOfFuel {T}.

Definition pbind {T U} (r : pres T) (f : T -> pres U) : pres U :=
  match r with POk t => f t | PValueError => PValueError | PMaxIter => PMaxIter | POutOfFuel => POutOfFuel end.

(* map a fallible function over a list, left to right, first failure wins *)
Fixpoint pmap {T U} (f : T -> pres U) (l : list T) : pres (list U) :=
  match l with
  | [] => POk []
  | x :: l' => pbind (f x) (fun y => pbind (pmap f l') (fun ys => POk (y :: ys)))
  end.
Fixpoint pmap2 {S T U} (f : S -> T -> pres U) (l : list S) (m : list T) : pres (list U) :=
  match l, m with
  | x :: l', y :: m' => pbind (f x y) (fun z => pbind (pmap2 f l' m') (fun zs => POk (z :: zs)))
  | _, _ => POk []
  end.

Section Projection.
  Context {A : Type} `{Num A}.
  Local Open Scope num_scope.

  (* (np.abs(q - p) <= tol).all() *)
  Definition linf_le (tol : A) (q p : list A) : bool := forallb (fun d => nabs d <=? tol) (vsub q p).

  (* ConvexRegion.is_in, given the region's project *)
  Definition is_in_of (tol : A) (proj : list A -> pres (list A)) (p : list A) : pres bool :=
    pbind (proj p) (fun q => POk (linf_le tol q p)).

  (* ---- HyperCube ---------------------------------------------------------------------------- *)
  (* max(cube[i][0], min(cube[i][1], p)) *)
  Definition clamp (l h x : A) : A := nmax l (nmin h x).
  Definition box_clamp (b : list (A * A)) (p : list A) : list A :=
    map2 (fun lh x => clamp (fst lh) (snd lh) x) b p.
  Definition box_project (b : list (A * A)) (p : list A) : pres (list A) :=
    if Nat.eqb (length p) (length b) then POk (box_clamp b p) else PValueError.

  (* ---- HalfSpace ---------------------------------------------------------------------------- *)
  (* sign > 0 :  <n,x> >= off ;  sign < 0 :  <n,x> <= off  *)
  Definition half_viol (n : list A) (off sg : A) (p : list A) : bool :=
    ((n0 <? sg) && (dot p n <? off)) || ((sg <? n0) && (off <? dot p n)).
  Definition half_shift (n : list A) (off : A) (p : list A) : list A :=
    vadd p (vscale ((off - dot n p) / dot n n) n).
  Definition half_clamp (n : list A) (off sg : A) (p : list A) : list A :=
    if half_viol n off sg p then half_shift n off p else p.
  Definition half_project (n : list A) (off sg : A) (p : list A) : pres (list A) :=
    if Nat.eqb (length p) (length n) then POk (half_clamp n off sg p) else PValueError.

  (* ---- Slice: HalfSpace(normal, low, 1) and HalfSpace(normal, high, -1) ----------------------- *)
  Definition slab_project (tol : A) (n : list A) (lw hg : A) (p : list A) : pres (list A) :=
    pbind (is_in_of tol (half_project n lw n1) p) (fun inlow =>
      if inlow then half_project n hg (- n1) p else half_project n lw n1 p).
  Definition slab_is_in (tol : A) (n : list A) (lw hg : A) (p : list A) : pres bool :=
    pbind (is_in_of tol (half_project n lw n1) p) (fun a =>
      if a then is_in_of tol (half_project n hg (- n1)) p else POk false).

  (* ---- Intersection.dykstra_project ----------------------------------------------------------- *)
  Section Dykstra.
    Variables (pa pb : list A -> pres (list A)) (ia ib : list A -> pres bool) (maxiter : nat).
    (* one pass of the loop body followed by the loop test; c counts completed passes *)
    Fixpoint dyk (fuel c : nat) (x p q : list A) : pres (list A * list A) :=
      match fuel with
      | O => POutOfFuel
      | S f =>
        pbind (pa (vadd x p)) (fun y =>
        let p' := vsub (vadd x p) y in
        pbind (pb (vadd y q)) (fun x' =>
        let q' := vsub (vadd y q) x' in
        let c' := S c in
        if (c' <? maxiter)%nat then
          pbind (ia y) (fun a => pbind (if a then ib y else POk false) (fun both =>
            if both then POk (x', y) else dyk f c' x' p' q'))
        else if Nat.eqb c' maxiter then PMaxIter else POk (x', y)))
      end.
    (* returns (x, y): the code returns x; y is the last iterate the loop test looked at *)
    Definition dykstra_xy (point : list A) : pres (list A * list A) :=
      let z := zeros (length point) in dyk (S maxiter) 0 point z z.
    Definition dykstra (point : list A) : pres (list A) := pbind (dykstra_xy point) (fun xy => POk (fst xy)).
  End Dykstra.

  (* Intersection.project: two short cuts, then Dykstra *)
  Definition inter_project (pa pb : list A -> pres (list A)) (ia ib : list A -> pres bool) (maxiter : nat)
      (p : list A) : pres (list A) :=
    pbind (pa p) (fun ra => pbind (ib ra) (fun okb =>
      if okb then POk ra else
      pbind (pb p) (fun rb => pbind (ia rb) (fun oka =>
        if oka then POk rb else dykstra pa pb ia ib maxiter p)))).
  Definition inter_is_in (ia ib : list A -> pres bool) (p : list A) : pres bool :=
    pbind (ia p) (fun a => if a then ib p else POk false).

  (* ---- regions over vectors ------------------------------------------------------------------- *)
  Inductive region :=
  | RBox (b : list (A * A))
  | RHalf (n : list A) (off sg : A)
  | RSlice (n : list A) (lw hg : A)
  | RInter (a b : region).

  Fixpoint rlen (r : region) : nat :=
    match r with RBox b => length b | RHalf n _ _ => length n | RSlice n _ _ => length n | RInter a _ => rlen a end.

  (* the constructors' own ValueError guards *)
  Fixpoint rctor_ok (r : region) : bool :=
    match r with
    | RBox b => negb (Nat.eqb (length b) 0)
    | RHalf n off sg => negb (sg =? n0)
    | RSlice n lw hg => lw <=? hg
    | RInter a b => rctor_ok a && rctor_ok b && Nat.eqb (rlen a) (rlen b)
    end.

  (* (project, is_in) of a region *)
  Fixpoint rsem (tol : A) (maxiter : nat) (r : region) : (list A -> pres (list A)) * (list A -> pres bool) :=
    match r with
    | RBox b => (box_project b, is_in_of tol (box_project b))
    | RHalf n off sg => (half_project n off sg, is_in_of tol (half_project n off sg))
    | RSlice n lw hg => (slab_project tol n lw hg, slab_is_in tol n lw hg)
    | RInter a b =>
      let sa := rsem tol maxiter a in let sb := rsem tol maxiter b in
      (inter_project (fst sa) (fst sb) (snd sa) (snd sb) maxiter, inter_is_in (snd sa) (snd sb))
    end.
  Definition rproject tol maxiter r := fst (rsem tol maxiter r).
  Definition ris_in tol maxiter r := snd (rsem tol maxiter r).
  Definition rdykstra tol maxiter (a b : region) : list A -> pres (list A) :=
    dykstra (rproject tol maxiter a) (rproject tol maxiter b) (ris_in tol maxiter a) (ris_in tol maxiter b) maxiter.

  (* ---- List: one region per row (axis 0) or per column (axis 1) of a matrix --------------------- *)
  Definition mshape_ok {B} (rows cols : nat) (m : list (list B)) : bool :=
    Nat.eqb (length m) rows && forallb (fun r => Nat.eqb (length r) cols) m.
  (* column j of m, for j < cols *)
  Definition transpose (cols : nat) (m : list (list A)) : list (list A) :=
    map (fun j => map (fun r => nth j r n0) m) (seq 0 cols).
  Definition rows_project (proj : region -> list A -> pres (list A)) (rs : list region) (m : list (list A)) :=
    pmap2 proj rs m.
  Definition list_project (proj : region -> list A -> pres (list A)) (rs : list region) (axis1 : bool)
      (m : list (list A)) : pres (list (list A)) :=
    let r := length rs in let l := match rs with r0 :: _ => rlen r0 | [] => O end in
    if axis1 then
      if mshape_ok l r m then pbind (rows_project proj rs (transpose r m)) (fun t => POk (transpose l t)) else PValueError
    else
      if mshape_ok r l m then rows_project proj rs m else PValueError.
  Definition linf_le_mat (tol : A) (q p : list (list A)) : bool :=
    forallb (fun '(a, b) => linf_le tol a b) (combine q p).
  Definition list_is_in tol proj rs axis1 (m : list (list A)) : pres bool :=
    pbind (list_project proj rs axis1 m) (fun q => POk (linf_le_mat tol q m)).


  (* ---- the regions as the classes store them -------------------------------------------------- *)
  (* HalfSpace keeps normal/|normal| and offset/|normal| and projects with those; Slice holds two such half spaces; List holds
     the projections of its regions, the axis and the shape.  Proofs/GenProjection.v: the definitions regenerated from
     projection.py (Gen/Projection.v) equal these, and these equal the square-root-free model above over the reals. *)
  Definition half_stored_project (n : list A) (off sg : A) (p : list A) : pres (list A) :=
    if Nat.eqb (length p) (length n) then
      POk (if half_viol n off sg p then vadd p (map (fun x => x * (off - dot n p)) n) else p)
    else PValueError.
  Definition half_stored_init (nrm : list A -> A) (n : list A) (off sg : A) : pres (list A * A * A) :=
    if sg =? n0 then PValueError else POk (map (fun x => x / nrm n) n, off / nrm n, sg).
  Definition slab_stored_project (tol : A) (ln : list A) (lo ls : A) (hn : list A) (ho hs : A) (p : list A) : pres (list A) :=
    pbind (is_in_of tol (half_stored_project ln lo ls) p) (fun inlow =>
      if inlow then half_stored_project hn ho hs p else half_stored_project ln lo ls p).
  Definition slab_stored_is_in (tol : A) (ln : list A) (lo ls : A) (hn : list A) (ho hs : A) (p : list A) : pres bool :=
    pbind (is_in_of tol (half_stored_project ln lo ls) p) (fun a =>
      if a then is_in_of tol (half_stored_project hn ho hs) p else POk false).
  Definition slab_stored_init (nrm : list A -> A) (n : list A) (lw hg : A) :=
    if hg <? lw then PValueError else
    pbind (half_stored_init nrm n lw n1) (fun lo => pbind (half_stored_init nrm n hg (- n1)) (fun hi => POk (lo, hi))).
  (* the generated loop runs on explicit fuel; the model's own fuel is S maxiter *)
  Definition dykstra_fuel (pa pb : list A -> pres (list A)) (ia ib : list A -> pres bool) (maxiter fuel : nat) (point : list A) :=
    dykstra pa pb ia ib maxiter point.
  Definition inter_project_fuel (pa pb : list A -> pres (list A)) (ia ib : list A -> pres bool) (maxiter fuel : nat) (p : list A) :=
    inter_project pa pb ia ib maxiter p.
  Definition list_stored_project (projs : list (list A -> pres (list A))) (axis : nat) (shape : nat * nat)
      (m : list (list A)) : pres (list (list A)) :=
    if mshape_ok (fst shape) (snd shape) m then
      if Nat.eqb axis 0 then pmap2 (fun f r => f r) projs m
      else pbind (pmap2 (fun f r => f r) projs (transpose (snd shape) m)) (fun t => POk (transpose (fst shape) t))
    else PValueError.

  (* ---- device level ----------------------------------------------------------------------------- *)
  (* what projection looks at in a device tree: an atomic device's bounds table; a set's children; a multi-flow
     adaptor's wrapped bounds table and number of conduits *)
  Inductive ptree := PLeaf (b : list (A * A)) | PSet (kids : list ptree) | PMF (b : list (A * A)) (flows : nat).

  Fixpoint prows (t : ptree) : nat :=
    match t with
    | PLeaf _ => 1
    | PSet kids => fold_right (fun k acc => prows k + acc)%nat O kids
    | PMF _ k => k
    end.

  (* Device.project: region.project(s.reshape(len)).reshape((1,len)) *)
  Definition leaf_project (b : list (A * A)) (m : list (list A)) : pres (list (list A)) :=
    pbind (box_project b (concat m)) (fun r => POk [r]).

  (* MFDeviceSet.project: wrapped.project(column sums), shared equally between the conduits *)
  Definition mf_project (b : list (A * A)) (k : nat) (m : list (list A)) : pres (list (list A)) :=
    let n := length b in
    if mshape_ok k n m then
      pbind (box_project b (colsum n m)) (fun t => POk (repeat (map (fun v => v / nofnat k) t) k))
    else PValueError.

  (* DeviceSet.project: vstack of the children's projections of their row blocks *)
  Fixpoint tproject (n : nat) (t : ptree) (m : list (list A)) : pres (list (list A)) :=
    match t with
    | PLeaf b => if Nat.eqb (length (concat m)) n then leaf_project b m else PValueError
    | PMF b k => if Nat.eqb (length b) n then mf_project b k m else PValueError
    | PSet kids =>
      if mshape_ok (prows t) n m then
        (fix go (ks : list ptree) (m : list (list A)) : pres (list (list A)) :=
           match ks with
           | [] => POk []
           | k :: ks' =>
             pbind (tproject n k (firstn (prows k) m)) (fun r =>
             pbind (go ks' (skipn (prows k) m)) (fun rs => POk (r ++ rs)))
           end) kids m
      else PValueError
    end.
  (* entry point: any array with rows*n elements (flat or shaped) is reshaped to the device shape first *)
  Definition tproject_flat (n : nat) (t : ptree) (s : list A) : pres (list (list A)) :=
    if Nat.eqb (length s) (prows t * n) then tproject n t (reshape (prows t) n s) else PValueError.
End Projection.
Arguments region : clear implicits.
Arguments ptree : clear implicits.
