(* Small helpers for the constraint lists regenerated from the `constraints` properties (translator/constraints_tx.py):
   what a set sees of a child (its exported constraint list), defaults for `last`, Python truthiness of the rate-clip factors,
   and the source-shaped hand version of one DeviceSet level (fallback alias).  Polymorphic in the carrier. *)
From Coq Require Import ZArith List Bool Arith.
From DK Require Import Num Vec.
From DK.Model Require Import Leaf Fn Dev Tree.
Import ListNotations.

Section ConOps.
  Context {A : Type} `{Num A}.
  Record ckid := { ck_cons : list (con A) }.
  Definition null_con : con A := Build_con false (fun _ => n0) None.
  Definition null_ckid : ckid := {| ck_cons := [] |}.
  Definition sb_table (sb : option (list (A * A))) : list (A * A) := match sb with Some b => b | None => [] end.
  (* `if self.rate_clip[k]:` - None and 0 are falsy; the setter admits None or a factor >= 1 *)
  Definition clip_set (c : option A) : bool := match c with Some _ => true | None => false end.
  Definition clip_val (c : option A) : A := match c with Some k => k | None => n0 end.
  Definition set_cons (kids : list ckid) (part : list (nat * nat)) (shape : nat * nat) (sbounds : option (list (A * A))) : list (con A) :=
    flat_map (fun di => map (rewrap (fst shape) (snd shape) (fst (snd di)) (snd (snd di))) (ck_cons (fst di))) (combine kids part)
    ++ sb_cons (fst shape) (snd shape) sbounds.
End ConOps.
Arguments ckid A : clear implicits.
