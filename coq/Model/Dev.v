(* One type for every atomic device: dispatch of cost / deriv / hess, the bounds table and the exported
   constraint list (device.py:constraints, sdevice.py:constraints, adevice.py:constraints). Tie H. *)
From Coq Require Import ZArith List Bool Arith.
From DK Require Import Num Vec.
From DK.Gen Require Import Kernels.
From DK.Model Require Import Leaf Fn.
Import ListNotations.

Section Dev.
  Context {A : Type} `{Num A}.
  Local Open Scope num_scope.

  (* scipy-style constraint over a flat vector *)
  Record con := { c_eq : bool; c_fun : list A -> A; c_jac : option (list A -> list A) }.

  (* user constraint on an ADevice: the model covers affine ones, <w,x> + k, with or without a jac *)
  Record ucon := { u_eq : bool; u_w : list A; u_k : A; u_hasjac : bool }.

  Inductive kind :=
  | KDev | KPV
  | KC (a b : A)
  | KC2 (pl ph : A)
  | KI (a b c : param A)
  | KI2 (pl ph : param A)
  | KG (g : gcoeffs A)
  | KS (q : sparams A)
  | KT (q : tparams A)
  | KA (f : fn A) (ucs : list ucon).

  Record leafdev := { ld_n : nat; ld_bounds : list (A * A); ld_cb : list (cbound A); ld_kind : kind }.

  Definition leaf_cost (d : leafdev) (s p : list A) : A :=
    match ld_kind d with
    | KDev | KPV => dev_cost s p
    | KC a b => cdev_cost a b s p
    | KC2 pl ph => cdev2_cost pl ph (ld_cb d) s p
    | KI a b c => idev_cost a b c (ld_bounds d) s p
    | KI2 pl ph => idev2_cost pl ph (ld_bounds d) s p
    | KG g => gdev_cost g s p
    | KS q => sdev_cost q s p
    | KT q => tdev_cost q s p
    | KA f _ => feval f s + dot s p
    end.

  Definition leaf_deriv (d : leafdev) (s p : list A) : list A :=
    match ld_kind d with
    | KDev | KPV => dev_deriv (ld_n d) p
    | KC a b => cdev_deriv (ld_n d) a p
    | KC2 pl ph => cdev2_deriv pl ph (ld_cb d) s p
    | KI a b c => idev_deriv a b c (ld_bounds d) s p
    | KI2 pl ph => idev2_deriv pl ph (ld_bounds d) s p
    | KG g => gdev_deriv g s p
    | KS q => sdev_deriv q s p
    | KT q => tdev_deriv q s p
    | KA f _ => vadd (fderiv f s) p
    end.

  Definition leaf_hess (d : leafdev) (s : list A) : list (list A) :=
    match ld_kind d with
    | KDev | KPV | KC _ _ => dev_hess (ld_n d)
    | KC2 pl ph => cdev2_hess pl ph (ld_cb d) s
    | KI a b c => idev_hess a b c (ld_bounds d) s
    | KI2 pl ph => idev2_hess pl ph (ld_bounds d) s
    | KG g => gdev_hess g s
    | KS q => sdev_hess q s
    | KT q => tdev_hess q s
    | KA f _ => fhess f s
    end.

  (* ---- constraints ---------------------------------------------------------------------- *)
  Definition range_mask (n st en : nat) : list A :=
    map (fun j => if (st <=? j)%nat && (j <? en)%nat then n1 else n0) (seq 0 n).

  Definition cb_cons (n : nat) (cbs : list (cbound A)) : list con :=
    flat_map (fun c =>
      let m := range_mask n (cb_s c) (cb_e c) in
      [ {| c_eq := false; c_fun := fun x => dot x m - cb_lo c; c_jac := Some (fun _ => m) |};
        {| c_eq := false; c_fun := fun x => cb_hi c - dot x m; c_jac := Some (fun _ => vopp m) |} ]) cbs.

  (* the inner soc(r, i) of SDevice.constraints *)
  Definition s_soc (q : sparams A) (n : nat) (r : list A) (i : nat) : A :=
    sdev_base q * npown (sp_sus q) (S i) + dot (effv (sp_eff q) r) (sust_row (sp_sus q) n i).
  Definition s_socjac (q : sparams A) (n : nat) (r : list A) (i : nat) : list A :=
    vmul (map (effof (sp_eff q)) r) (sust_row (sp_sus q) n i).

  Definition sdev_cons (q : sparams A) (n : nat) (bnd : list (A * A)) : list con :=
    flat_map (fun i =>
      [ {| c_eq := false; c_fun := fun r => s_soc q n r i; c_jac := Some (fun r => s_socjac q n r i) |};
        {| c_eq := false; c_fun := fun r => sp_capacity q - s_soc q n r i; c_jac := Some (fun r => vopp (s_socjac q n r i)) |} ])
      (seq 0 n)
    ++ match sp_clip_d q with
       | Some k => map (fun i => {| c_eq := false;
                     c_fun := fun r => nth i r n0 - k * lo bnd i * (s_soc q n r i / sp_capacity q); c_jac := None |}) (seq 0 n)
       | None => [] end
    ++ match sp_clip_c q with
       | Some k => map (fun i => {| c_eq := false;
                     c_fun := fun r => k * hi bnd i * (n1 - s_soc q n r i / sp_capacity q) - nth i r n0; c_jac := None |}) (seq 0 n)
       | None => [] end
    ++ [ {| c_eq := false; c_fun := fun r => s_soc q n r (n - 1) - sp_capacity q * sp_reserve q;
            c_jac := Some (fun r => s_socjac q n r (n - 1)) |} ].

  Definition ucon_con (u : ucon) : con :=
    {| c_eq := u_eq u; c_fun := fun x => dot (u_w u) x + u_k u; c_jac := if u_hasjac u then Some (fun _ => u_w u) else None |}.

  Definition leaf_cons (d : leafdev) : list con :=
    cb_cons (ld_n d) (ld_cb d) ++
    match ld_kind d with
    | KS q => sdev_cons q (ld_n d) (ld_bounds d)
    | KA _ ucs => map ucon_con ucs
    | _ => []
    end.

  (* feasibility as scipy reads it: eq -> = 0, ineq -> >= 0, with a tolerance argument for evaluation *)
  Definition con_sat (tol : A) (c : con) (x : list A) : bool :=
    if c_eq c then nabs (c_fun c x) <=? tol else (- tol) <=? c_fun c x.
  Definition in_box (tol : A) (b : list (A * A)) (x : list A) : bool :=
    forallb (fun '(i, v) => (lo b i - tol <=? v) && (v <=? hi b i + tol)) (idx x).
End Dev.
Arguments con : clear implicits.
Arguments ucon : clear implicits.
Arguments kind : clear implicits.
Arguments leafdev : clear implicits.
