(* C12 correspondence checker (carrier Q): replays a history on the state machine of Model/State.v and compares, call by call,
   the cells the model says are written with the cells the harness saw change on the implementation, then the final cells. *)
From Coq Require Import ZArith QArith List Bool Arith.
From DK Require Import Num NumQ Vec.
From DK.Model Require Import Leaf State.
Import ListNotations.

Fixpoint cexpr_eqb (a b : cexpr) : bool :=
  match a, b with
  | CBase i, CBase j => Nat.eqb i j
  | CSumWrap r n c, CSumWrap r' n' c' => Nat.eqb r r' && Nat.eqb n n' && cexpr_eqb c c'
  | _, _ => false
  end.
Definition ocexpr_eqb (a b : option cexpr) : bool :=
  match a, b with Some x, Some y => cexpr_eqb x y | None, None => true | _, _ => false end.
Definition cdict_eqb (a b : cdict) : bool :=
  Bool.eqb (cd_eq a) (cd_eq b) && cexpr_eqb (cd_fun a) (cd_fun b) && ocexpr_eqb (cd_jac a) (cd_jac b).
Fixpoint list_eqb {B C} (e : B -> C -> bool) (l : list B) (m : list C) : bool :=
  match l, m with
  | [], [] => true
  | x :: l', y :: m' => e x y && list_eqb e l' m'
  | _, _ => false
  end.
Definition event_eqb (a b : event) : bool :=
  match a, b with
  | EFillD p, EFillD q | EFillH p, EFillH q | EFillSus p, EFillSus q | EFillPow p, EFillPow q | EDict p, EDict q => Nat.eqb p q
  | EEvict, EEvict => true
  | _, _ => false
  end.
Definition is_sus (e : event) := match e with EFillSus _ => true | _ => false end.
Definition is_pow (e : event) := match e with EFillPow _ => true | _ => false end.
Definition is_cell (e : event) := negb (is_sus e || is_pow e).
Definition subset (l m : list event) : bool := forallb (fun e => existsb (event_eqb e) m) l.

(* what the harness saw one call do: cells (poly caches, dict objects, eviction) that changed; number of new entries (misses)
   of the sustainment_matrix and of the power_matrix lru tables *)
Definition obs_step := (list event * nat * nat)%type.
Definition step_agrees (model : list event) (o : obs_step) : bool :=
  let '(cells, nsus, npow) := o in
  let mc := filter is_cell model in
  subset mc cells && subset cells mc && Nat.eqb (length mc) (length cells).
(* the two lru tables memoise pure functions: WHEN an entry is first computed is immaterial to the property (an implementation that skips a
   computation fills its table later or never), so their miss counters are compared cumulatively - at every point of the history the
   implementation has made at most as many new entries as the model allows *)
Fixpoint prefix_le (am ai : nat) (ms is_ : list nat) : bool :=
  match ms, is_ with
  | [], [] => true
  | m :: ms', i :: is' => Nat.leb (ai + i) (am + m) && prefix_le (am + m) (ai + i) ms' is'
  | _, _ => false
  end.
Definition lru_agree (evs : list (list event)) (obs : list obs_step) : bool :=
  prefix_le 0 0 (map (fun model => length (filter is_sus model)) evs) (map (fun o => snd (fst o)) obs)
  && prefix_le 0 0 (map (fun model => length (filter is_pow model)) evs) (map (fun o => snd o) obs).

Definition mat := list (list Q).
Definition omat_close (m i : option mat) : bool :=
  match m, i with Some a, Some b => Qclose_mat Qtol a b | None, None => true | _, _ => false end.
Definition poly_agrees (o : polyobj Q) (i : option mat * option mat) : bool :=
  omat_close (po_d o) (fst i) && omat_close (po_h o) (snd i).

(* final cells as observed: poly caches; dict heap; ADevice lists; caller lists; caller arrays;
   matrices found for lru key ids (the cache entry and every device attribute holding it); power matrices by length *)
Definition obs_final := (list (option mat * option mat) * list cdict * list (list nat) * list (list nat) * list (list Q)
                         * list (nat * mat) * list (nat * mat))%type.
Definition c12_case := (scenario Q * st Q * list (op * obs_step) * obs_final * bool)%type.

Definition final_agrees (sc : scenario Q) (init fin : st Q) (o : obs_final) : bool :=
  let '(polys, dicts, adcons, caller, arrays, sus, pow) := o in
  list_eqb poly_agrees (s_polys fin) polys
  && list_eqb cdict_eqb (s_dicts fin) dicts
  && list_eqb (list_eqb Nat.eqb) (s_adcons fin) adcons
  && list_eqb (list_eqb Nat.eqb) (s_caller fin) caller
  && list_eqb (list_eqb Qeq_bool) (s_arrays fin) arrays
  && list_eqb (list_eqb Qeq_bool) (s_arrays init) arrays
  && forallb (fun km => Qclose_mat Qtol (lookup_sus sc fin (fst km)) (snd km)) sus
  && forallb (fun lm => Qclose_mat Qtol (lookup_pow fin (fst lm)) (snd lm)) pow.

(* flags = the harness's own verdict on this history: every call's result equals a fresh twin's, the final behavioural
   fingerprint equals a fresh twin's, the caller's objects are bit-identical to the deep copies and keep their identity *)
Definition c12_chk (c : c12_case) : bool :=
  let '(sc, init, steps, fin_obs, flags) := c in
  let '(fin, evs) := trace sc (map fst steps) init in
  flags
  && list_eqb step_agrees evs (map snd steps)
  && lru_agree evs (map snd steps)
  && final_agrees sc init fin fin_obs.
