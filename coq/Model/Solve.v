(* Executable model of device_kit/solve.py: solve() and step(), line by line, with the optimiser as a parameter
   (scipy.optimize.minimize is compiled code: an oracle; tie O).  Polymorphic in the carrier, no Reals.
   The device is seen through the record `devview` of the attributes solve/step read; `tree_view` plugs in the
   standard tree model of Model/Tree.v. *)
From Coq Require Import ZArith List Bool Arith.
From DK Require Import Num Vec.
From DK.Model Require Import Leaf Fn Dev Tree.
Import ListNotations.

Section Solve.
  Context {A : Type} `{Num A}.
  Local Open Scope num_scope.

  (* what solve() hands to scipy.optimize.minimize(method='SLSQP') *)
  Record problem := {
    pb_x0 : list A;                       (* flattened start *)
    pb_fun : list A -> A;
    pb_jac : list A -> list A;            (* flattened gradient *)
    pb_bounds : list (A * A);
    pb_cons : list (con A) }.
  (* the fields of OptimizeResult solve() reads *)
  Record optresult := { o_success : bool; o_status : Z; o_x : list A }.

  (* what solve/step read from a device *)
  Record devview := {
    dv_rows : nat; dv_n : nat;                         (* device.shape *)
    dv_bounds : list (A * A);                          (* device.bounds, one row per flow variable *)
    dv_cost : list A -> A;                             (* device.cost(s, p) for a flat or shaped s *)
    dv_deriv : list A -> list (list A);                (* device.deriv(s, p), in the shape the device returns *)
    dv_project : list (list A) -> list (list A);       (* device.project *)
    dv_cons : list (con A) }.                          (* device.constraints *)

  (* solver_options: the keys the caller may override; solve() starts from its own defaults on EVERY call *)
  Record sopts := { so_ftol : option A; so_maxiter : option Z; so_disp : option bool }.
  Definition default_opts : sopts := {| so_ftol := Some (n1 / nofZ 1000000); so_maxiter := Some 1000%Z; so_disp := Some false |}.
  Definition over {T} (u d : option T) : option T := match u with Some v => Some v | None => d end.
  (* {'ftol': 1e-6, 'maxiter': 1000, 'disp': False}.update(solver_options) *)
  Definition solve_options (user : sopts) : sopts :=
    {| so_ftol := over (so_ftol user) (so_ftol default_opts); so_maxiter := over (so_maxiter user) (so_maxiter default_opts);
       so_disp := over (so_disp user) (so_disp default_opts) |}.

  Inductive sres :=
  | SAccept (x : list (list A)) (o : option optresult)   (* (flow, OptimizeResult or None) *)
  | SRaiseOptimization                                   (* OptimizationException *)
  | SRaiseValueError.                                    (* reshape of a result of the wrong size *)

  Definition all_fixed (b : list (A * A)) : bool := forallb (fun lh => fst lh =? snd lh) b.
  Definition fixed_tol : A := n1 / nofZ 1000000.    (* the 1e-6 of the all-fixed shortcut *)
  Definition count_eq (cs : list (con A)) : nat := length (filter (fun c => c_eq c) cs).
  Definition sqdist (s s0 : list A) : A := vsum (map nsq (vsub s s0)).
  (* `if prox:` is false for None and for 0 *)
  Definition prox_on (prox : option A) : option A :=
    match prox with Some r => if r =? n0 then None else Some r | None => None end.

  Definition solve_problem (dv : devview) (s0 : option (list A)) (prox : option A) : problem :=
    let x0 := match s0 with
              | Some s => s
              | None => concat (dv_project dv (mconst (dv_rows dv) (dv_n dv) n0))
              end in
    match prox_on prox with
    | None => {| pb_x0 := x0; pb_fun := dv_cost dv; pb_jac := fun s => concat (dv_deriv dv s);
                 pb_bounds := dv_bounds dv; pb_cons := dv_cons dv |}
    | Some r => {| pb_x0 := x0;
                   pb_fun := fun s => dv_cost dv s + (n1 / (n2 * r)) * sqdist s x0;
                   pb_jac := fun s => vadd (concat (dv_deriv dv s)) (vscale (n1 / r) (vsub s x0));
                   pb_bounds := dv_bounds dv; pb_cons := dv_cons dv |}
    end.

  Definition solve_model (minimize : problem -> optresult) (dv : devview) (s0 : option (list A)) (prox : option A) : sres :=
    if all_fixed (dv_bounds dv) then
      (* the only flow within bounds: returned without consulting the optimiser, unless it violates an exported constraint *)
      let s := map fst (dv_bounds dv) in
      if forallb (fun c => con_sat fixed_tol c s) (dv_cons dv) then SAccept (reshape (dv_rows dv) (dv_n dv) s) None
      else SRaiseOptimization
    else
      let pb := solve_problem dv s0 prox in
      if (length (pb_x0 pb) <? count_eq (pb_cons pb))%nat then SRaiseOptimization
      else
        let o := minimize pb in
        if o_success o then
          if Nat.eqb (length (o_x o)) (dv_rows dv * dv_n dv) then SAccept (reshape (dv_rows dv) (dv_n dv) (o_x o)) (Some o)
          else SRaiseValueError
        else SRaiseOptimization.

  (* ---- step() ------------------------------------------------------------------------------------------- *)
  (* utils.project(p, x0, bounds, constraints): the SLSQP least-squares helper, an oracle returning (x, o) *)
  Record projcall := { pc_p : list A; pc_x0 : list A; pc_bounds : list (A * A); pc_cons : list (con A) }.
  Inductive stres :=
  | StAccept (x : list (list A)) (ol : optresult)
  | StRaiseOptimization
  | StRaiseValueError.
  (* success, or the tolerated status 8 ("positive directional derivative for linesearch") *)
  Definition tolerated (o : optresult) : bool := o_success o || Z.eqb (o_status o) 8.

  (* s is the flat start. the line search is minimize(phi, 0, bounds=[(0,1)]) with phi x = cost(s + x*(s_next - s));
     its o_x is the one-element vector [x] *)
  Definition step_point (s z : list A) (x : A) : list A := vadd s (vscale x (vsub z s)).
  Definition step_model (uproject : projcall -> optresult) (linesearch : (A -> A) -> optresult)
      (dv : devview) (s : list A) (t : A) : stres :=
    let g := concat (dv_deriv dv s) in
    let target := vsub s (vscale t g) in
    let o := uproject {| pc_p := target; pc_x0 := s; pc_bounds := dv_bounds dv; pc_cons := dv_cons dv |} in
    (* utils.project itself reshapes o.x to the shape of s before step() looks at the report *)
    if negb (Nat.eqb (length (o_x o)) (length s)) then StRaiseValueError
    else if negb (tolerated o) then StRaiseOptimization
    else
      let z := o_x o in
      let ol := linesearch (fun x => dv_cost dv (step_point s z x)) in
      if negb (tolerated ol) then StRaiseOptimization
      else match o_x ol with
           | [x] => if Nat.eqb (length s) (dv_rows dv * dv_n dv)
                    then StAccept (reshape (dv_rows dv) (dv_n dv) (step_point s z x)) ol else StRaiseValueError
           | _ => StRaiseValueError
           end.

  (* n repeated steps, each started at the previous result; stops at the first raise *)
  Fixpoint steps_model (uproject : projcall -> optresult) (linesearch : (A -> A) -> optresult)
      (dv : devview) (s : list A) (t : A) (k : nat) : option (list A) :=
    match k with
    | O => Some s
    | S k' => match step_model uproject linesearch dv s t with
              | StAccept x _ => steps_model uproject linesearch dv (concat x) t k'
              | _ => None
              end
    end.

  (* ---- the standard instance: a device tree of Model/Tree.v at a price ---------------------------------- *)
  Definition tree_view (d : dev A) (p : price A) : devview :=
    {| dv_rows := tree_rows d; dv_n := tree_len d;
       dv_bounds := tree_bounds d;
       dv_cost := fun s => tree_cost_flat d s p;
       dv_deriv := fun s => tree_deriv_flat d s p;
       dv_project := tree_project d;
       dv_cons := tree_cons d |}.
End Solve.
Arguments problem : clear implicits.
Arguments optresult : clear implicits.
Arguments devview : clear implicits.
Arguments sres : clear implicits.
Arguments sopts : clear implicits.
Arguments stres : clear implicits.
Arguments projcall : clear implicits.
