(* C08: how a price enters cost / deriv / hess, as seen from outside a device or tree (tie O).
   The price-free part of a cost is left abstract: `quasi_cost D S P = D + sum(S*P)` for any D. The checker
   compares the implementation's differences f(s,p) - f(s,0) with the price part computed here, with the shapes
   (rows, horizon) and the broadcasting `p*np.ones(shape)` taken from Model/Tree.v.  No Reals. *)
From Coq Require Import ZArith QArith List Bool Arith String.
From DK Require Import Num NumQ Vec.
From DK.Model Require Import Leaf Fn Dev Tree.
Import ListNotations.

Section Price.
  Context {A : Type} `{Num A}.
  Local Open Scope num_scope.

  (* (S*P).sum() for two matrices of the same shape *)
  Definition price_term (S P : list (list A)) : A := vsum (map2 dot S P).
  (* the zero price in matrix form *)
  Definition zero_prices (R n : nat) : list (list A) := mconst R n n0.

  (* any cost whose price part is linear: D is the price-free part (arbitrary) *)
  Definition quasi_cost (D : A) (S P : list (list A)) : A := D + price_term S P.
  Definition quasi_deriv (D : list (list A)) (P : list (list A)) : list (list A) := madd D P.

  (* hess(s, p) of the implementation takes the price and the model ignores it: the model Hessians
     leaf_hess / tree_hess have no price argument at all. *)
  Definition leaf_hess_at (d : leafdev A) (s : list A) (p : list A) : list (list A) := leaf_hess d s.
  Definition tree_hess_at (d : dev A) (S : list (list A)) (P : list (list A)) : list (list A) := tree_hess d S.

  (* a price is usable on an R x n device when numpy can broadcast it against np.ones((R, n)) *)
  Definition price_fits (R n : nat) (p : price A) : bool :=
    match p with
    | PScalar _ => true
    | PVector l => Nat.eqb (List.length l) n
    | PMatrix m => Nat.eqb (List.length m) R && forallb (fun r => Nat.eqb (List.length r) n) m
    end.
End Price.

(* ---- checker used by harness/props/c08.py (carrier Q) ------------------------------------------------ *)
(* one observation: a price in one of its shapes, cost(s,p)-cost(s,0), deriv(s,p)-deriv(s,0) (rows), hess(s,p) *)
Definition c08_obs := (price Q * Q * list (list Q) * list (list Q))%type.
Definition c08_case := (dev Q * list Q * list c08_obs * list (list Q))%type.

Definition c08_obs_ok (d : dev Q) (s : list Q) (h0 : list (list Q)) (o : c08_obs) : bool :=
  let '(p, dc, dd, hp) := o in
  let S := tree_shaped d s in
  let P := tree_prices d p in
  price_fits (tree_rows d) (tree_len d) p
  && Qclose Qtol (price_term S P) dc
  && Qclose_mat Qtol P dd
  && Qclose_mat Qtol h0 hp.

Definition c08_chk (c : c08_case) : bool :=
  let '(d, s, obs, h0) := c in
  Nat.eqb (List.length s) (tree_rows d * tree_len d) && forallb (c08_obs_ok d s h0) obs.
