(* NumPy's `x.reshape(device.shape)` as solve() / step() use it: ValueError when the size is wrong, else the row-major matrix. *)
From Coq Require Import ZArith List Bool Arith.
From DK Require Import Num Vec.
From DK.Model Require Import Leaf Fn Dev Tree Solve.
Import ListNotations.
Section SolveOps.
  Context {A : Type} `{Num A}.
  Definition reshape_or_raise (dv : devview A) (x : list A) (k : list (list A) -> sres A) : sres A :=
    if Nat.eqb (length x) (dv_rows dv * dv_n dv) then k (reshape (dv_rows dv) (dv_n dv) x) else SRaiseValueError.
  Definition step_reshape_or_raise (dv : devview A) (x : list A) (k : list (list A) -> stres A) : stres A :=
    if Nat.eqb (length x) (dv_rows dv * dv_n dv) then k (reshape (dv_rows dv) (dv_n dv) x) else StRaiseValueError.
  (* ---- utils.project(p, x0, bounds, constraints, solver_options): what it asks of the optimiser ---- *)
  Local Open Scope num_scope.
  Definition uproject_defaults : sopts A := {| so_ftol := Some (n1 / nofZ 1000000000); so_maxiter := Some 200%Z; so_disp := Some false |}.
  Definition uproject_options (user : sopts A) : sopts A :=
    {| so_ftol := over (so_ftol user) (so_ftol uproject_defaults); so_maxiter := over (so_maxiter user) (so_maxiter uproject_defaults);
       so_disp := over (so_disp user) (so_disp uproject_defaults) |}.
  (* minimise |s - p|^2 from x0 inside the bounds and constraints, gradient 2 (s - p) *)
  Definition uproject_problem (pc : projcall A) : problem A :=
    {| pb_x0 := pc_x0 pc; pb_fun := fun s => vsum (map nsq (vsub s (pc_p pc))); pb_jac := fun s => vscale (nofZ 2) (vsub s (pc_p pc));
       pb_bounds := pc_bounds pc; pb_cons := pc_cons pc |}.
  (* (o.x.reshape(x0.shape), o): the report is returned whatever it says *)
  Definition uproject_model (minimize : problem A -> optresult A) (pc : projcall A) : optresult A := minimize (uproject_problem pc).
End SolveOps.
