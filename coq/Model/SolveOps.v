(* NumPy's `x.reshape(device.shape)` as solve() / step() use it: ValueError when the size is wrong, else the row-major matrix. *)
From Coq Require Import ZArith List Bool Arith.
From DK Require Import Num Vec.
From DK.Model Require Import Leaf Fn Dev Tree Solve.
Import ListNotations.
Section SolveOps.
  Context {A : Type} `{Num A}.
  Definition reshape_or_raise (dv : devview A) (x : list A) (k : list (list A) -> sres A) : sres A :=
    if Nat.eqb (length x) (dv_rows dv * dv_n dv) then k (reshape (dv_rows dv) (dv_n dv) x) else SRaiseValueError.
  Definition step_reshape_or_raise (dv : devview A) (x : list A) (k : list (list A) -> stres A) : stres A :=
    if Nat.eqb (length x) (dv_rows dv * dv_n dv) then k (reshape (dv_rows dv) (dv_n dv) x) else StRaiseValueError.
End SolveOps.
