(* The three preference functions of functions.py that have no closed-form derivative in the source (InformationEntropy,
   TemporalVariance, CobbDouglas differentiate their own cost numerically with numdifftools): hand-written model of the COST as the
   code computes it, and the closed-form gradient / Hessian the numerical derivative has to agree with (proved to be the total
   derivative in Proofs/TransProofs.v).  Reals only: logarithms and real powers have no exact rational instance; the correspondence
   evaluates these definitions inside Coq with interval arithmetic (Proofs/TransEval.v). *)
From Coq Require Import ZArith Reals List.
From DK Require Import Num NumR Vec.
From DK.Model Require Import Leaf.
Import ListNotations.
Local Open Scope R_scope.

Definition tix (i : nat) : R := IZR (Z.of_nat i).                       (* np.arange(len(r))[i] *)
Definition wsum (w : nat -> R) (r : list R) : R := vsum (map (fun '(i, v) => w i * v) (idx r)).   (* (w * r).sum() *)

(* ---- TemporalVariance: c * (((t - com(r))**2) * r).sum(),  com(r) = np.average(t, weights=r) = (t*r).sum() / r.sum() ---- *)
Definition com (r : list R) : R := wsum tix r / vsum r.
Definition inertia (r : list R) : R := wsum (fun i => (tix i - com r) * (tix i - com r)) r.
Definition tvar (c : R) (r : list R) : R := c * inertia r.
Definition tvar_grad (c : R) (r : list R) : list R := map (fun '(i, _) => c * ((tix i - com r) * (tix i - com r))) (idx r).
Definition tvar_hess (c : R) (r : list R) : list (list R) :=
  map (fun '(k, _) => map (fun '(j, _) => c * (- 2 * (tix k - com r) * (tix j - com r) / vsum r)) (idx r)) (idx r).

(* ---- InformationEntropy: r = [|v| for v in r if v]; r = r / r.sum(); c * (r * log(r)).sum() ---- *)
Fixpoint nzabs (r : list R) : list R :=
  match r with [] => [] | v :: t => if Req_EM_T v 0 then nzabs t else Rabs v :: nzabs t end.
Definition plogp (a : list R) : R := vsum (map (fun v => v / vsum a * ln (v / vsum a)) a).
Definition entropy (c : R) (r : list R) : R := c * plogp (nzabs r).
(* at flows without zero entries; v / |v| is the sign *)
Definition entropy_grad (c : R) (r : list R) : list R :=
  map (fun v => c * (v / Rabs v * ((ln (Rabs v / vsum (nzabs r)) - plogp (nzabs r)) / vsum (nzabs r)))) r.

(* second partials of the entropy at flows without zero entries: with a = |r|, S = sum a, T = sum a ln a,
   c * sgn_j sgn_k * ( [j = k] / (a_j S) - (ln a_j + ln a_k + 1) / S^2 + 2 T / S^3 ) *)
Definition entropy_hess (c : R) (r : list R) : list (list R) :=
  let S := vsum (nzabs r) in let T := vsum (map (fun v => v * ln v) (nzabs r)) in
  map (fun '(j, vj) => map (fun '(k, vk) =>
        c * (vj / Rabs vj * (vk / Rabs vk) *
             ((if Nat.eqb j k then 1 / (Rabs vj * S) else 0) - (ln (Rabs vj) + ln (Rabs vk) + 1) / (S * S) + 2 * T / (S * S * S))))
      (idx r)) (idx r).

(* ---- CobbDouglas: c * (r ** (a / a.sum())).prod() ---- *)
Definition rprod (l : list R) : R := fold_right Rmult 1 l.
Definition cobb (c : R) (a r : list R) : R := c * rprod (map2 (fun v e => Rpw v (e / vsum a)) r a).
Definition cobb_grad (c : R) (a r : list R) : list R := map2 (fun v e => e / vsum a * cobb c a r / v) r a.
(* with e = a / a.sum(), f = the cost:  e_j e_k f / (r_j r_k) - [j = k] e_j f / r_j^2 *)
Definition cobb_hess (c : R) (a r : list R) : list (list R) :=
  map (fun '(j, vj) => map (fun '(k, vk) =>
        nth j a 0 / vsum a * (nth k a 0 / vsum a) * cobb c a r / (vj * vk)
        - (if Nat.eqb j k then nth j a 0 / vsum a * cobb c a r / (vj * vj) else 0))
      (idx r)) (idx r).

(* ---- as the preference function f of an ADevice: cost f(s) + (s*p).sum(), marginal cost f.deriv(s) + p ---- *)
Definition adev_cost (F : list R -> R) (s p : list R) : R := F s + dot s p.
Definition adev_deriv (g p : list R) : list R := vadd g p.
