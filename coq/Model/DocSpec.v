(* The documented economics of each model (README, class docstrings, docs/*.md), transcribed as plain real
   formulas without looking at the implementation's expression structure. Used as the spec side of C15. *)
From Coq Require Import Reals List.
Import ListNotations.
Local Open Scope R_scope.

Fixpoint sum_prod (s p : list R) : R :=
  match s, p with x :: s', y :: p' => x * y + sum_prod s' p' | _, _ => 0 end.
Fixpoint total (s : list R) : R := match s with [] => 0 | x :: s' => x + total s' end.
(* c_0 u^m + c_1 u^(m-1) + ... + c_m  (coefficients highest power first, as the GDevice docstring says) *)
Fixpoint polyval (c : list R) (u : R) : R :=
  match c with [] => 0 | a :: c' => a * u ^ (length c') + polyval c' u end.
(* q falls linearly from 1 at the lower bound to a at the upper bound *)
Definition q_doc (a xl xh x : R) : R := 1 + (a - 1) * ((x - xl) / (xh - xl)).
(* marginal cost p_l at the lower bound, p_h at the upper, linear in between *)
Definition hl_marginal_doc (pl ph xl xh x : R) : R := pl + (ph - pl) * ((x - xl) / (xh - xl)).
Fixpoint flip_doc (r : list R) : R :=
  match r with x :: ((y :: _) as r') => x * y + flip_doc r' | _ => 0 end.
Definition shortfall_sq (soc depth_level : R) : R := (Rmin (soc - depth_level) 0) ^ 2.
