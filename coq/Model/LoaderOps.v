(* The Python / NumPy idioms that loaders/builder_loader.py (run_to_array, run_to_cbounds_array) and utils.care2bounds / on2bounds are
   written in, as list functions: the targets of translator/loaders_tx.py.  Hand-written semantics (trusted, tied by the correspondence
   of C20): dictionary lookup by key, sorted(keys, key=int) as a stable insertion sort, slice assignment (Model/Loader.v assign),
   range(0, n, 2), `mask * item` for an item that is a number or a vector, `mask * sequence of numbers`, np.stack(.., axis=1). *)
From Coq Require Import ZArith List Bool Arith.
From DK Require Import Num Vec.
From DK.Model Require Import Leaf Loader.
Import ListNotations.

Section RunOps.
  Context {V : Type}.
  (* run['runs'][k] *)
  Fixpoint rlookup (k : nat) (l : runs V) : option V :=
    match l with [] => None | (k', v) :: l' => if Nat.eqb k k' then Some v else rlookup k l' end.
  Definition rget (dflt : V) (k : nat) (l : runs V) : V := match rlookup k l with Some v => v | None => dflt end.
  (* sorted(run['runs'].keys(), key=int) *)
  Fixpoint insert_nat (k : nat) (l : list nat) : list nat :=
    match l with [] => [k] | q :: l' => if (k <=? q)%nat then k :: q :: l' else q :: insert_nat k l' end.
  Definition sorted_keys (l : runs V) : list nat := fold_right insert_nat [] (map fst l).
  (* enumerate(xs) *)
  Definition enumerate {T} (xs : list T) : list (nat * T) := combine (seq 0 (List.length xs)) xs.
End RunOps.

(* range(0, n, 2) *)
Definition range_step2 (n : nat) : list nat := map (fun k => (2 * k)%nat) (seq 0 ((n + 1) / 2)).

Section MaskOps.
  Context {A : Type} `{Num A}.
  Local Open Scope num_scope.
  (* mask * item, item a number or a vector of the mask's length *)
  Definition mask_mul_item (mask : list A) (item : param A) : list A := map (fun '(i, c) => c * pnth item i) (idx mask).
  (* mask * bounds, bounds a sequence of numbers *)
  Definition mask_mul_seq (mask : list A) (b : list (param A)) : list A := map (fun '(i, c) => c * pnth (nth i b (PS n0)) 0) (idx mask).
  (* np.stack((a, b), axis=1) *)
  Definition stack_cols (a b : list A) : list (A * A) := combine a b.
End MaskOps.

(* ---- the per-kind loaders: the exported device dictionary is the record bdev; dictionary reads become field reads ---- *)
Section LoadOps.
  Context {A : Type} `{Num A}.
  Local Open Scope num_scope.
  (* -1 * table *)
  Definition table_neg (t : list (A * A)) : list (A * A) := map (fun ab => (- fst ab, - snd ab)) t.
  (* (bounds[:,0] != bounds[:,1]).all() *)
  Definition cols_all_differ (t : list (A * A)) : bool := forallb (fun ab => negb (fst ab =? snd ab)) (combine (map fst t) (map snd t)).
  (* device_kit.<Class>(device_id, basis, bounds, cbounds, **params): the constructor's low <= high test, then the loaded record *)
  Definition construct_id (id : String.string) (c : lclass) (t : list (A * A)) (cb : option (list (cbound A)))
             (ps : list (String.string * A)) (clip : option A * option A) : outcome (loaded A) :=
    if valid_bounds t then Accept {| l_id := id; l_class := c; l_bounds := t; l_cb := cb; l_params := ps; l_clip := clip |}
    else RaiseValueError.
  (* d['parameters'][k] when present *)
  Definition pget (k : String.string) (ps : list (String.string * A)) : option A := assoc k ps.
  (* { m[k]: v for k, v in items if k in m } *)
  Definition remap (m : list (String.string * String.string)) (ps : list (String.string * A)) : list (String.string * A) :=
    flat_map (fun kv => match assoc (fst kv) m with Some k' => [(k', snd kv)] | None => [] end) ps.
End LoadOps.
