(* Hand-written semantics of the few Python / NumPy constructs the statement-level translators (translator/stmt_tx.py) emit:
   values that start as the integer 0 and become arrays, `for` loops with a fallible body over enumerate(...), row / column
   access and in-place row / column assignment on matrices. Polymorphic in the carrier, no Reals. *)
From Coq Require Import ZArith List Bool Arith.
From DK Require Import Num Vec.
From DK.Model Require Import Projection.
Import ListNotations.

Section PyOps.
  Context {A : Type} `{Num A}.
  Local Open Scope num_scope.

  (* x + p  where p is either the Python int 0 (None) or an array *)
  Definition ovadd (x : list A) (p : option (list A)) : list A :=
    match p with None => x | Some p => vadd x p end.

  (* for i, x in enumerate(l): st = f i x st   (first failure wins) *)
  Fixpoint pfoldi_from {X St} (f : nat -> X -> St -> pres St) (i : nat) (l : list X) (st : St) : pres St :=
    match l with
    | [] => POk st
    | x :: l' => pbind (f i x st) (fun st' => pfoldi_from f (S i) l' st')
    end.
  Definition pfoldi {X St} (f : nat -> X -> St -> pres St) (l : list X) (st : St) : pres St := pfoldi_from f 0 l st.

  (* m[i, :]   and   m[:, j] *)
  Definition getrow (i : nat) (m : list (list A)) : list A := nth i m [].
  Definition getcol (j : nat) (m : list (list A)) : list A := map (fun r => nth j r n0) m.
  (* m[i, :] = v   and   m[:, j] = v  (lengths agree in every use the translators emit) *)
  Definition setrow (i : nat) (v : list A) (m : list (list A)) : list (list A) := upd m i v.
  Definition setcol (j : nat) (v : list A) (m : list (list A)) : list (list A) :=
    map2 (fun r x => upd r j x) m v.
End PyOps.
