(* What BaseDevice.leaf_devices / map / mapDevices / get / find (device_kit/basedevice.py) are written in: the targets of
   translator/basedevice_tx.py.  A device as the labelling code sees it is an id plus, when it supports iteration (DeviceSet and its
   subclasses, MFDeviceSet over its conduits), the list of its sub-devices: `itree`.  Iterating anything else raises, which the bare
   `except:` of _leaf_devices turns into "this is a leaf".  Hand-written semantics (trusted, tied by the correspondence of C13). *)
From Coq Require Import String.
From Coq Require Import List Arith Bool.
From DK Require Import Num Vec.
From DK.Model Require Import Leaf Fn Dev Tree.
Import ListNotations.

Inductive itree (T : Type) : Type := INode (id : string) (payload : T) (kids : option (list (itree T))).
Arguments INode {T}.
Definition it_id {T} (t : itree T) : string := match t with INode i _ _ => i end.
Definition it_payload {T} (t : itree T) : T := match t with INode _ p _ => p end.
Definition it_kids {T} (t : itree T) : option (list (itree T)) := match t with INode _ _ k => k end.

(* enumerate(xs) *)
Definition enum {T} (xs : list T) : list (nat * T) := combine (seq 0 (List.length xs)) xs.
(* s[a:b, :].reshape(n) of a matrix given as its list of rows *)
Definition rows_flat {B} (a b : nat) (S : list (list B)) : list B := List.concat (firstn (b - a) (skipn a S)).

(* ---- SubBalancedDeviceSet._labelled_sets: a dict keyed by label, a set of row indices ---- *)
(* d[k] = v: an existing key keeps its position *)
Fixpoint dict_set {V} (k : string) (v : V) (d : list (string * V)) : list (string * V) :=
  match d with
  | [] => [(k, v)]
  | (k', v') :: d' => if String.eqb k k' then (k, v) :: d' else (k', v') :: dict_set k v d'
  end.
(* d[k] *)
Definition dict_get {V} (dflt : V) (k : string) (d : list (string * V)) : V :=
  match find (fun kv => String.eqb k (fst kv)) d with Some kv => snd kv | None => dflt end.
(* s.difference_update(rm) on a set of small integers (kept in increasing order) *)
Definition set_minus (s rm : list nat) : list nat := filter (fun k => negb (existsb (Nat.eqb k) rm)) s.
