(* What one DeviceSet level sees of its children (an abstract `kid`), and the hand-written semantics of the NumPy idioms the
   DeviceSet translator (translator/deviceset_tx.py) emits: integer cumsum / roll by one / item assignment, used by
   DeviceSet.partition to build exclusive prefix sums.  Polymorphic in the carrier. *)
From Coq Require Import ZArith List Bool Arith.
From DK Require Import Num Vec.
From DK.Model Require Import Leaf Fn Dev Tree.
Import ListNotations.

Section SetOps.
  Context {A : Type} `{Num A}.
  Local Open Scope num_scope.

  Record kid := {
    k_rows : nat;                                                         (* d.shape[0] *)
    k_len : nat;                                                          (* d.shape[1] = len(d) *)
    k_cost : list (list A) -> list (list A) -> A;                         (* d.cost(S, P) on the child's row block *)
    k_deriv : list (list A) -> list (list A) -> list (list A);
    k_hess : list (list A) -> list (list A) -> list (list A);
    k_bounds : list (A * A);
    k_project : list (list A) -> list (list A) }.

  Definition nsum (l : list nat) : nat := fold_right Nat.add 0%nat l.
  (* x.cumsum() *)
  Fixpoint cumsum_from (acc : nat) (l : list nat) : list nat :=
    match l with [] => [] | x :: l' => (acc + x)%nat :: cumsum_from (acc + x)%nat l' end.
  Definition np_cumsum (l : list nat) : list nat := cumsum_from 0 l.
  (* np.roll(x, 1): the last entry moves to the front *)
  Definition np_roll1 (l : list nat) : list nat := match l with [] => [] | _ => last l 0%nat :: removelast l end.
  (* x[0] = 0 (on a non-empty array; numpy raises IndexError on an empty one, a DeviceSet has at least one child) *)
  Definition np_set0 (l : list nat) : list nat := match l with [] => [] | _ :: l' => 0%nat :: l' end.
  (* (offset, rows) pairs with offsets the exclusive prefix sums of the row counts *)
  Fixpoint pairs_from (o : nat) (rs : list nat) : list (nat * nat) :=
    match rs with [] => [] | r :: rs' => (o, r) :: pairs_from (o + r)%nat rs' end.

  (* source-shaped hand versions (aliases for methods the translator cannot read) *)
  Definition set_costv (kids : list kid) (part : list (nat * nat)) (sh : nat * nat) (s : list A) (p : price A) : list A :=
    let S := reshape (fst sh) (snd sh) s in let P := price_rows (fst sh) (snd sh) p in
    map (fun di => k_cost (fst di) (rslice (fst (snd di)) (snd (snd di)) S) (rslice (fst (snd di)) (snd (snd di)) P)) (combine kids part).
  Definition set_deriv (kids : list kid) (part : list (nat * nat)) (sh : nat * nat) (s : list A) (p : price A) : list (list A) :=
    let S := reshape (fst sh) (snd sh) s in let P := price_rows (fst sh) (snd sh) p in
    concat (map (fun di => k_deriv (fst di) (rslice (fst (snd di)) (snd (snd di)) S) (rslice (fst (snd di)) (snd (snd di)) P)) (combine kids part)).
  Definition set_hess (kids : list kid) (part : list (nat * nat)) (sh : nat * nat) (s : list A) (p : price A) : list (list A) :=
    let S := reshape (fst sh) (snd sh) s in let P := price_rows (fst sh) (snd sh) p in
    msum (snd sh) (map (fun di => k_hess (fst di) (rslice (fst (snd di)) (snd (snd di)) S) (rslice (fst (snd di)) (snd (snd di)) P)) (combine kids part)).
  Definition set_project (kids : list kid) (part : list (nat * nat)) (sh : nat * nat) (s : list A) : list (list A) :=
    let S := reshape (fst sh) (snd sh) s in
    concat (map (fun di => k_project (fst di) (rslice (fst (snd di)) (snd (snd di)) S)) (combine kids part)).

  (* ---- multi-flow adaptor: what it sees of the wrapped device ------------------------------------------------------------------ *)
  Record wdev := {
    w_cost : list A -> list A -> A; w_deriv : list A -> list A -> list A; w_hess : list A -> list A -> list (list A);
    w_project : list A -> list A }.
  Definition mmul (S P : list (list A)) : list (list A) := map2 vmul S P.          (* s * p on matrices *)
  Definition msumall (M : list (list A)) : A := vsum (map vsum M).                 (* M.sum() *)
  (* MFDeviceSet.__init__: rejected, and the bounds of every conduit, from the wrapped device's lbounds / hbounds *)
  Definition mf_ctor_rejects (k : nat) (lb hb : list A) : bool :=
    Nat.eqb k 0 || (existsb (fun x => x <? n0) lb && existsb (fun x => n0 <? x) hb).
  Definition mf_conduit_bounds (lb hb : list A) : list (A * A) :=
    if existsb (fun x => x <? n0) lb then combine lb (zeros (length lb)) else combine (zeros (length lb)) hb.
End SetOps.
Arguments kid A : clear implicits.
Arguments wdev A : clear implicits.
