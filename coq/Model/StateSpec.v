(* Specification side of C09: the documented first-order recurrences, written as plain real formulas
   (SDevice / TDevice docstrings, docs) without looking at how utils.soc computes them. *)
From Coq Require Import Reals List.
Import ListNotations.
Local Open Scope R_scope.

(* what one slot's flow r adds to the state: r*e when charging (r > 0), r/e when discharging (r < 0), nothing at r = 0 *)
Definition stored (e r : R) : R :=
  if Rlt_dec 0 r then r * e else if Rlt_dec r 0 then r / e else 0.

(* state_i = s * state_(i-1) + u_i, started from `prev` *)
Fixpoint state_rec (s prev : R) (u : list R) : list R :=
  match u with
  | [] => []
  | x :: u' => let st := s * prev + x in st :: state_rec s st u'
  end.

(* thermal inflow of slot i: (1 - s) * external temperature + effect of the consumption *)
Fixpoint thermal_in (s e : R) (ext r : list R) : list R :=
  match ext, r with
  | t :: ext', x :: r' => ((1 - s) * t + stored e x) :: thermal_in s e ext' r'
  | _, _ => []
  end.
