(* C10, for every device TREE (any depth, fan-out, adaptors as children), any carrier: given leaves that honour the contract shapes
   (which Proofs/C10Proofs.v proves for the atomic devices), the marginal cost of a tree has the device shape (rows, n), its Hessian
   is (n, n), its bounds list has rows*n entries and its projection has the device shape - by structural induction. *)
From Coq Require Import ZArith List Bool Arith Lia String.
From DK Require Import Num Vec.
From DK.Model Require Import Leaf Fn Dev Tree.
From DK.Proofs Require Import VecFacts TreeFacts C02Proofs.
Import ListNotations.
#[local] Arguments l_rows {A L}. #[local] Arguments l_n {A L}. #[local] Arguments l_bounds {A L}.
#[local] Arguments l_cost {A L}. #[local] Arguments l_deriv {A L}. #[local] Arguments l_hess {A L}.
#[local] Arguments l_cons {A L}. #[local] Arguments l_conduit {A L}.

Section TreeShape.
  Context {A : Type} `{Num A} {L : Type}.
  Variable ops : leafops A L.
  Notation gdev := (gdev A L).
  Notation well_shaped := (@well_shaped A).

  Definition rows_ok (n : nat) (M : list (list A)) : Prop := List.Forall (fun r => List.length r = n) M.
  Definition square (n : nat) (M : list (list A)) : Prop := List.length M = n /\ rows_ok n M.

  (* the contract of the units under the tree *)
  Definition leaf_contract : Prop :=
    (forall l, l_rows ops l = 1) /\
    (forall l s p, List.length s = l_n ops l -> List.length p = l_n ops l -> List.length (l_deriv ops l s p) = l_n ops l) /\
    (forall l s, List.length s = l_n ops l -> square (l_n ops l) (l_hess ops l s)) /\
    (forall l, List.length (l_bounds ops l) = l_n ops l).

  (* sets are non-empty (DeviceSet needs a child to know its horizon) *)
  Fixpoint nonempty (d : gdev) : Prop :=
    match d with
    | DSet _ ks _ | SubBal _ ks _ _ _ _ _ =>
        ks <> [] /\ (fix go (ks : list gdev) : Prop := match ks with [] => True | k :: ks' => nonempty k /\ go ks' end) ks
    | _ => True
    end.

  Lemma well_shaped_rslice R n o r S : well_shaped R n S -> o + r <= R -> well_shaped r n (rslice o r S).
  Proof.
    intros [HR HF] Hle. split; [apply rslice_length; lia|].
    unfold rslice. apply Forall_forall. intros x Hx. apply (proj1 (Forall_forall _ _) HF).
    assert (Hs : In x (skipn o S)).
    { revert Hx. generalize (skipn o S). clear. intros l. revert r. induction l as [|a l IH]; intros [|r] Hx; simpl in *; try contradiction.
      destruct Hx as [->|Hx]; [now left|right; eapply IH; eauto]. }
    revert Hs. clear. revert o. induction S as [|a S IH]; intros [|o] Hx; simpl in *; auto; try contradiction. right. eapply IH; eauto.
  Qed.

  Lemma concat_one_row n S : well_shaped 1 n S -> List.length (List.concat S) = n.
  Proof.
    intros [HR HF]. destruct S as [|r [|]]; simpl in HR; try discriminate. inversion HF; subst. simpl. now rewrite app_nil_r.
  Qed.

  Lemma colsum_length n (S : list (list A)) : rows_ok n S -> List.length (colsum n S) = n.
  Proof.
    unfold colsum. induction 1 as [|r S Hr _ IH]; cbn [fold_right]; [apply zeros_length|].
    unfold vadd in *. rewrite map2_length. lia.
  Qed.

  Lemma rows_ok_app n M1 M2 : rows_ok n M1 -> rows_ok n M2 -> rows_ok n (M1 ++ M2).
  Proof. intros. apply Forall_app; auto. Qed.

  Lemma map2_vadd_shape n k (g : list A) (P : list (list A)) : List.length g = n -> well_shaped k n P ->
    well_shaped k n (map2 vadd (repeat g k) P).
  Proof.
    intros Hg [HP HF]. split.
    - rewrite map2_length, repeat_length. lia.
    - clear HP. revert k. induction HF as [|r P Hr _ IH]; intros [|k]; cbn [repeat map2]; try constructor.
      + unfold vadd. rewrite map2_length. lia.
      + apply IH.
  Qed.

  Section WithContract.
  Hypothesis HC : leaf_contract.
  Let Hrows := proj1 HC.
  Let Hderiv := proj1 (proj2 HC).
  Let Hhess := proj1 (proj2 (proj2 HC)).
  Let Hbnd := proj2 (proj2 (proj2 HC)).

  (* ---- marginal cost: device shape ---- *)
  Theorem tree_deriv_shape d : wf_len ops d -> forall n S P, dlen ops d = n ->
    well_shaped (rows ops d) n S -> well_shaped (rows ops d) n P -> well_shaped (rows ops d) n (gderiv ops d S P).
  Proof.
    induction d as [i l|i ks sb IH|i ks sb lb e sg rm IH|i l fl|i l fl r e] using gdev_induction; intros Hw n S P Hn HS HP.
    - cbn [gderiv rows dlen] in *. rewrite Hrows in *. split; [reflexivity|]. constructor; [|constructor].
      rewrite Hderiv; [exact Hn| |]; rewrite Hn; now apply concat_one_row.
    - rewrite gderiv_kids. rewrite rows_kids in *. pose proof (wf_len_kids ops i ks sb Hw) as Hk. rewrite Hn in Hk.
      assert (G : forall o R, o + kids_rows ops ks <= R -> well_shaped R n S -> well_shaped R n P ->
                well_shaped (kids_rows ops ks) n (kids_deriv ops ks o S P)).
      { clear HS HP Hw Hn sb i. induction IH as [|k ks Hk1 _ IHks]; intros o R HR HS HP; cbn [kids_deriv kids_rows] in *.
        - split; [reflexivity|constructor].
        - destruct (Forall_inv Hk) as [Hkn Hkw]; pose proof (Forall_inv_tail Hk) as Hk'.
          destruct (Hk1 Hkw n (rslice o (rows ops k) S) (rslice o (rows ops k) P) Hkn) as [L1 F1];
            try (eapply well_shaped_rslice; eauto; lia).
          destruct (IHks Hk' (o + rows ops k) R ltac:(lia) HS HP) as [L2 F2].
          split; [rewrite app_length; lia|now apply rows_ok_app]. }
      apply (G 0 (kids_rows ops ks)); auto.
    - rewrite gderiv_kids_sub. rewrite rows_kids_sub in *. pose proof (wf_len_kids_sub ops i ks sb lb e sg rm Hw) as Hk. cbn zeta in Hk. rewrite Hn in Hk.
      assert (G : forall o R, o + kids_rows ops ks <= R -> well_shaped R n S -> well_shaped R n P ->
                well_shaped (kids_rows ops ks) n (kids_deriv ops ks o S P)).
      { clear HS HP Hw Hn sb i lb e sg rm. induction IH as [|k ks Hk1 _ IHks]; intros o R HR HS HP; cbn [kids_deriv kids_rows] in *.
        - split; [reflexivity|constructor].
        - destruct (Forall_inv Hk) as [Hkn Hkw]; pose proof (Forall_inv_tail Hk) as Hk'.
          destruct (Hk1 Hkw n (rslice o (rows ops k) S) (rslice o (rows ops k) P) Hkn) as [L1 F1];
            try (eapply well_shaped_rslice; eauto; lia).
          destruct (IHks Hk' (o + rows ops k) R ltac:(lia) HS HP) as [L2 F2].
          split; [rewrite app_length; lia|now apply rows_ok_app]. }
      apply (G 0 (kids_rows ops ks)); auto.
    - cbn [gderiv rows dlen] in *. unfold mf_deriv. apply map2_vadd_shape; auto.
      rewrite Hderiv; [exact Hn| |apply zeros_length]. rewrite Hn. apply colsum_length. apply HS.
    - cbn [gderiv rows dlen] in *. unfold mf_deriv. apply map2_vadd_shape; auto.
      rewrite Hderiv; [exact Hn| |apply zeros_length]. rewrite Hn. apply colsum_length. apply HS.
  Qed.

  (* ---- Hessian: (n, n) ---- *)
  Lemma madd_square n (M1 M2 : list (list A)) : square n M1 -> square n M2 -> square n (madd M1 M2).
  Proof.
    intros [L1 F1] [L2 F2]. split; [unfold madd; rewrite map2_length; lia|].
    clear L1 L2. revert M2 F2. induction F1 as [|r M1 Hr _ IH]; intros [|r2 M2] F2; cbn [madd map2]; try constructor.
    - inversion F2; subst. unfold vadd. rewrite map2_length. lia.
    - inversion F2; subst. now apply IH.
  Qed.
  Lemma mconst_square n (v : A) : square n (mconst n n v).
  Proof. split; [apply repeat_length|]. apply Forall_forall. intros r Hr. apply repeat_spec in Hr. subst. apply repeat_length. Qed.
  Lemma msum_square n (Ms : list (list (list A))) : List.Forall (square n) Ms -> square n (msum n Ms).
  Proof. unfold msum. induction 1 as [|M Ms HM _ IH]; cbn [fold_right]; [apply mconst_square|now apply madd_square]. Qed.

  Theorem tree_hess_shape d : wf_len ops d -> forall n S, dlen ops d = n -> well_shaped (rows ops d) n S ->
    square n (ghess ops d S).
  Proof.
    induction d as [i l|i ks sb IH|i ks sb lb e sg rm IH|i l fl|i l fl r e] using gdev_induction; intros Hw n S Hn HS.
    - cbn [ghess rows dlen] in *. rewrite Hrows in HS. rewrite <- Hn. apply Hhess. rewrite Hn. now apply concat_one_row.
    - rewrite ghess_kids, Hn. apply msum_square. rewrite rows_kids in HS. pose proof (wf_len_kids ops i ks sb Hw) as Hk. rewrite Hn in Hk.
      assert (G : forall o R, o + kids_rows ops ks <= R -> well_shaped R n S -> List.Forall (square n) (kids_hess ops ks o S)).
      { clear HS Hw Hn sb i. induction IH as [|k ks Hk1 _ IHks]; intros o R HR HS; cbn [kids_hess kids_rows] in *; constructor.
        - destruct (Forall_inv Hk) as [Hkn Hkw]; pose proof (Forall_inv_tail Hk) as Hk'. apply Hk1; auto. eapply well_shaped_rslice; eauto. lia.
        - destruct (Forall_inv Hk) as [Hkn Hkw]; pose proof (Forall_inv_tail Hk) as Hk'. apply (IHks Hk' (o + rows ops k) R); auto. lia. }
      apply (G 0 (kids_rows ops ks)); auto.
    - rewrite ghess_kids_sub, Hn. apply msum_square. rewrite rows_kids_sub in HS.
      pose proof (wf_len_kids_sub ops i ks sb lb e sg rm Hw) as Hk. cbn zeta in Hk. rewrite Hn in Hk.
      assert (G : forall o R, o + kids_rows ops ks <= R -> well_shaped R n S -> List.Forall (square n) (kids_hess ops ks o S)).
      { clear HS Hw Hn sb i lb e sg rm. induction IH as [|k ks Hk1 _ IHks]; intros o R HR HS; cbn [kids_hess kids_rows] in *; constructor.
        - destruct (Forall_inv Hk) as [Hkn Hkw]; pose proof (Forall_inv_tail Hk) as Hk'. apply Hk1; auto. eapply well_shaped_rslice; eauto. lia.
        - destruct (Forall_inv Hk) as [Hkn Hkw]; pose proof (Forall_inv_tail Hk) as Hk'. apply (IHks Hk' (o + rows ops k) R); auto. lia. }
      apply (G 0 (kids_rows ops ks)); auto.
    - cbn [ghess rows dlen] in *. rewrite <- Hn. apply Hhess. rewrite Hn. apply colsum_length. apply HS.
    - cbn [ghess rows dlen] in *. rewrite <- Hn. apply Hhess. rewrite Hn. apply colsum_length. apply HS.
  Qed.

  (* ---- bounds: one pair per flow variable ---- *)
  Lemma conduit_bounds_length (b : list (A * A)) : List.length (conduit_bounds b) = List.length b.
  Proof. unfold conduit_bounds. destruct (existsb _ b); apply map_length. Qed.
  Lemma concat_repeat_length {B} (l : list B) k : List.length (List.concat (repeat l k)) = k * List.length l.
  Proof. induction k as [|k IH]; cbn [repeat List.concat]; [reflexivity|]. rewrite app_length, IH. lia. Qed.

  Theorem tree_bounds_length d : wf_len ops d -> forall n, dlen ops d = n -> List.length (gbounds ops d) = rows ops d * n.
  Proof.
    induction d as [i l|i ks sb IH|i ks sb lb e sg rm IH|i l fl|i l fl r e] using gdev_induction; intros Hw n Hn.
    - cbn [gbounds rows dlen] in *. rewrite Hrows, Hbnd. lia.
    - rewrite gbounds_kids, rows_kids. pose proof (wf_len_kids ops i ks sb Hw) as Hk. rewrite Hn in Hk. clear Hw Hn.
      induction IH as [|k ks Hk1 _ IHks]; cbn [kids_bounds kids_rows]; [reflexivity|].
      destruct (Forall_inv Hk) as [Hkn Hkw]; pose proof (Forall_inv_tail Hk) as Hk'. rewrite app_length, (Hk1 Hkw _ eq_refl), IHks by auto. lia.
    - rewrite gbounds_kids_sub, rows_kids_sub. pose proof (wf_len_kids_sub ops i ks sb lb e sg rm Hw) as Hk. cbn zeta in Hk. rewrite Hn in Hk. clear Hw Hn.
      induction IH as [|k ks Hk1 _ IHks]; cbn [kids_bounds kids_rows]; [reflexivity|].
      destruct (Forall_inv Hk) as [Hkn Hkw]; pose proof (Forall_inv_tail Hk) as Hk'. rewrite app_length, (Hk1 Hkw _ eq_refl), IHks by auto. lia.
    - cbn [gbounds rows dlen] in *. now rewrite concat_repeat_length, conduit_bounds_length, Hbnd, Hn.
    - cbn [gbounds rows dlen] in *. now rewrite concat_repeat_length, conduit_bounds_length, Hbnd, Hn.
  Qed.
  End WithContract.
End TreeShape.

(* non-vacuity: units of horizon 2 with zero marginal cost satisfy the contract, and a two-level tree over them is well formed *)
Section Example.
  Context {A : Type} `{Num A}.
  Definition ex_ops : leafops A unit :=
    {| l_rows := fun _ => 1%nat; l_n := fun _ => 2%nat; l_bounds := fun _ => [(n0, n1); (n0, n1)];
       l_cost := fun _ _ _ => n0; l_deriv := fun _ _ _ => [n0; n0]; l_hess := fun _ _ => [[n0; n0]; [n0; n0]];
       l_cons := fun _ => []; l_conduit := fun _ _ => tt |}.
  Definition ex_tree : gdev A unit :=
    DSet "root" [Leaf "a" tt; DSet "in" [Leaf "b" tt; MF "m" tt ["e"; "h"]%string] None] None.
  Lemma ex_contract : leaf_contract ex_ops.
  Proof. repeat split; try reflexivity; repeat constructor. Qed.
  Lemma ex_tree_ok : wf_len ex_ops ex_tree /\ rows ex_ops ex_tree = 4%nat /\ dlen ex_ops ex_tree = 2%nat.
  Proof. cbn. repeat split. Qed.
End Example.
