(* The total derivative / line integral form of C01 for the storage device, at every flow off the charge/discharge kink
   (efficiency 1, or no slot flow exactly 0): continuity of SDevice's reported marginal cost there (Proofs/Cont.v), the coordinate
   theorem grad_sdevice, and Proofs/Total.v.  The deep-discharge term min(.,0)^2 needs no exclusion.  Every horizon length. *)
From Coq Require Import ZArith Reals List Lra Lia Arith Psatz.
From Coquelicot Require Import Coquelicot.
From DK Require Import Num NumR Vec.
From DK.Gen Require Import Kernels.
From DK.Model Require Import Leaf Fn Dev.
From DK.Proofs Require Import VecFacts RVec VecAlg Calc KernelR C01Proofs StorageProofs Total Cont.
Import ListNotations.
Local Open Scope R_scope.

(* ---- scalar continuity facts ---- *)
Lemma psi_continuous e v : (e = 1 \/ v <> 0) -> continuity_pt (psi e) v.
Proof. intros H. eapply is_derive_continuity_pt. now apply psi_derive. Qed.

Lemma effof_continuous e v : (e = 1 \/ v <> 0) -> continuity_pt (effof (A:=R) e) v.
Proof.
  intros H eps Heps. destruct H as [->|Hv].
  - exists 1. split; [lra|]. intros t _. rewrite !effof_one. unfold dist; simpl. unfold R_dist. rewrite Rminus_diag_eq by reflexivity. now rewrite Rabs_R0.
  - exists (Rabs v). split; [now apply Rabs_pos_lt|]. intros t [_ Ht]. unfold dist in *; simpl in *. unfold R_dist in *.
    rewrite (effof_locally_const e v t) by (right; split; auto). rewrite Rminus_diag_eq by reflexivity. now rewrite Rabs_R0.
Qed.

Lemma Rmin0_continuous D u : continuity_pt (fun c => nmin (A:=R) (c - D) 0) u.
Proof.
  apply (continuity_pt_ext (fun c => Rmin (c - D) 0)); [intros; now rewrite nmin_Rmin|].
  intros eps Heps. exists eps. split; auto. intros t [_ Ht]. unfold dist in *; simpl in *. unfold R_dist in *.
  unfold Rmin. destruct (Rle_dec (t - D) 0), (Rle_dec (u - D) 0); unfold Rabs in *;
    repeat match goal with |- context [Rcase_abs ?z] => destruct (Rcase_abs z) end;
    repeat match goal with H : context [Rcase_abs ?z] |- _ => destruct (Rcase_abs z) end; lra.
Qed.

(* ---- entries of the state of charge and of the marginal cost are continuous off the kink ---- *)
Definition off_kink (e : R) (x : list R) : Prop := e = 1 \/ forall k, (k < length x)%nat -> nth k x 0 <> 0.
Lemma off_kink_smooth e x : off_kink e x <-> smooth_at e x.
Proof. reflexivity. Qed.

Lemma cont_psi_nth e x j : off_kink e x -> (j < length x)%nat -> cont_at (fun y => psi e (nth j y 0)) x.
Proof.
  intros Hk Hj. apply (cont_comp (psi e) (fun y => nth j y 0)); [|apply cont_nth].
  apply psi_continuous. destruct Hk as [->|Hk]; [now left|right; now apply Hk].
Qed.

Lemma cont_charge q x i : off_kink (sp_eff q) x -> (i < length x)%nat -> cont_at (fun y => nth i (sdev_charge q y) 0) x.
Proof.
  intros Hk Hi.
  apply (cont_ext (fun y => sdev_base q * npown (sp_sus q) (S i)
                            + vsum (map (fun j => nth j (sust_row (sp_sus q) (length x) i) 0 * psi (sp_eff q) (nth j y 0)) (seq 0 (length x))))).
  - intros y Ly. unfold sdev_charge. rewrite nth_vadd by (rewrite ?base_soc_length, ?soc_length; lia).
    rewrite nth_soc by lia. unfold base_soc. rewrite nth_map_seq by lia. f_equal.
    rewrite (dot_as_seq (sust_row (sp_sus q) (length y) i) (effv (sp_eff q) y)).
    2:{ unfold sust_row. now rewrite map_length, seq_length, effv_length. }
    assert (SL : length (sust_row (sp_sus q) (length y) i) = length y) by (unfold sust_row; now rewrite map_length, seq_length).
    rewrite SL, Ly. apply vsum_map_ext. intros j _. now rewrite nth_effv.
  - apply cont_plus; [apply cont_const|]. apply cont_vsum_map. intros j Hj. apply in_seq in Hj.
    apply cont_scal. apply cont_psi_nth; auto. lia.
Qed.

Lemma cont_short q x i : off_kink (sp_eff q) x -> (i < length x)%nat -> cont_at (fun y => nth i (sdev_short q y) 0) x.
Proof.
  intros Hk Hi.
  apply (cont_ext (fun y => (fun c => nmin (A:=R) (c - sp_capacity q * sp_depth q) 0) (nth i (sdev_charge q y) 0))).
  - intros y Ly. now rewrite nth_sdev_short by lia.
  - apply (cont_comp (fun c => nmin (A:=R) (c - sp_capacity q * sp_depth q) 0)); [apply Rmin0_continuous|now apply cont_charge].
Qed.

Lemma nth_nbr_cont x k : cont_at (fun y => nbr (A:=R) y k) x.
Proof. unfold nbr. apply cont_plus; [destruct k; [apply cont_const|apply cont_nth]|apply cont_nth]. Qed.

Lemma sdev_deriv_entry q (y p : list R) k : (k < length y)%nat ->
  nth k (sdev_deriv q y p) 0 =
    2 * sp_c1 q * nth k y 0 - sp_c2 q * nbr y k
    + vsum (map (fun i => 2 * sp_c3 q * nth i (sdev_short q y) 0 * nth k (sust_row (sp_sus q) (length y) i) 0 * effof (sp_eff q) (nth k y 0)) (seq 0 (length y)))
    + nth k p 0.
Proof.
  intros Hk. unfold sdev_deriv.
  rewrite (nth_map_idx (fun k x => (n2 * sp_c1 q * x - sp_c2 q * nbr y k
       + vsum (map (fun '(i, m) => n2 * sp_c3 q * m * nth k (sust_row (sp_sus q) (length y) i) n0 * effof (sp_eff q) x) (idx (sdev_short q y)))
       + nth k p n0)%num)) by exact Hk.
  numR. f_equal. f_equal.
  rewrite (vsum_map_idx_seq (fun i m => 2 * sp_c3 q * m * nth k (sust_row (sp_sus q) (length y) i) 0 * effof (sp_eff q) (nth k y 0))).
  now rewrite sdev_short_length.
Qed.

Theorem sdev_deriv_continuous q (x p : list R) : off_kink (sp_eff q) x -> gcont (fun y => sdev_deriv q y p) x.
Proof.
  intros Hk. apply gcont_of_entries. intros k Hkx.
  apply (cont_ext (fun y => 2 * sp_c1 q * nth k y 0 - sp_c2 q * nbr y k
    + vsum (map (fun i => 2 * sp_c3 q * nth i (sdev_short q y) 0 * nth k (sust_row (sp_sus q) (length x) i) 0 * effof (sp_eff q) (nth k y 0)) (seq 0 (length x)))
    + nth k p 0)).
  - intros y Ly. rewrite sdev_deriv_entry by lia. now rewrite Ly.
  - apply cont_plus; [|apply cont_const]. apply cont_plus.
    + apply cont_minus; [apply cont_scal, cont_nth|apply cont_scal, nth_nbr_cont].
    + apply cont_vsum_map. intros i Hi. apply in_seq in Hi.
      apply cont_mult.
      * apply (cont_ext (fun y => (2 * sp_c3 q * nth k (sust_row (sp_sus q) (length x) i) 0) * nth i (sdev_short q y) 0)); [intros; ring|].
        apply cont_scal. apply cont_short; auto. lia.
      * apply (cont_comp (effof (A:=R) (sp_eff q)) (fun y => nth k y 0)); [|apply cont_nth].
        apply effof_continuous. destruct Hk as [->|Hk]; [now left|right; now apply Hk].
Qed.

(* ---- a sup-norm neighbourhood of an off-kink flow is off the kink ---- *)
Definition minabs (x : list R) : R := fold_right Rmin 1 (map Rabs x).
Lemma minabs_le x k : (k < length x)%nat -> minabs x <= Rabs (nth k x 0).
Proof.
  unfold minabs. revert k; induction x as [|a x IH]; intros k Hk; simpl in Hk; [lia|]. cbn [map fold_right].
  destruct k as [|k]; cbn [nth]; [apply Rmin_l|]. eapply Rle_trans; [apply Rmin_r|]. apply IH. lia.
Qed.
Lemma minabs_pos x : (forall k, (k < length x)%nat -> nth k x 0 <> 0) -> 0 < minabs x.
Proof.
  unfold minabs. induction x as [|a x IH]; intros H; cbn [map fold_right]; [lra|]. apply Rmin_pos.
  - apply Rabs_pos_lt. apply (H 0%nat). simpl. lia.
  - apply IH. intros k Hk. apply (H (S k)). simpl. lia.
Qed.

Lemma off_kink_near e x : off_kink e x -> exists r, 0 < r /\ forall y, vnear x y r -> off_kink e y.
Proof.
  intros [->|Hk]; [exists 1; split; [lra|]; intros; now left|].
  exists (minabs x). split; [now apply minabs_pos|]. intros y [Ly Hy]. right. intros k Hky. rewrite Ly in Hky.
  specialize (Hy k Hky). pose proof (minabs_le x k Hky) as Hm. intros E. rewrite E in Hy.
  rewrite Rminus_0_l, Rabs_Ropp in Hy. lra.
Qed.

(* ---- the statements ---- *)
Theorem sdevice_total_derivative n b cb q (x p : list R) : length x = n -> length p = n -> off_kink (sp_eff q) x ->
  dir_at (fun s => leaf_cost (Build_leafdev n b cb (KS q)) s p) (leaf_deriv (Build_leafdev n b cb (KS q)) x p) x.
Proof.
  intros Lx Lp Hk. destruct (off_kink_near _ x Hk) as [r [Hr Hn]].
  apply (total_from_partials (fun s => leaf_cost (Build_leafdev n b cb (KS q)) s p) (fun s => leaf_deriv (Build_leafdev n b cb (KS q)) s p) x r Hr).
  - intros y Hy. apply grad_sdevice; [rewrite (proj1 Hy); exact Lx|exact Lp|]. apply Hn. exact Hy.
  - unfold leaf_deriv; cbn [ld_kind]. now apply sdev_deriv_continuous.
Qed.

(* the segment from x to y stays off the kink when both end points are and no slot changes sign (or efficiency = 1) *)
Definition same_side (x y : list R) : Prop := forall k, (k < length x)%nat -> 0 < nth k x 0 * nth k y 0.

Lemma seg_nth (x y : list R) t k : length y = length x -> (k < length x)%nat ->
  nth k (seg x y t) 0 = (1 - t) * nth k x 0 + t * nth k y 0.
Proof.
  intros Ly Hk. unfold seg. rewrite nth_vadd by (rewrite ?vscale_length, ?vsub_length; lia).
  rewrite nth_vscale_R, nth_vsub by lia. ring.
Qed.
Lemma seg_length (x y : list R) t : length y = length x -> length (seg x y t) = length x.
Proof. intros Ly. unfold seg. apply line_point_length. rewrite vsub_length. lia. Qed.

Lemma seg_entry_bound (a b t : R) : 0 < a * b -> 0 <= t <= 1 -> Rmin (Rabs a) (Rabs b) <= Rabs ((1 - t) * a + t * b).
Proof.
  intros Hab Ht. destruct (Rlt_dec 0 a) as [Ha|Ha].
  - assert (0 < b) by nra. rewrite !Rabs_pos_eq by nra. unfold Rmin. destruct (Rle_dec a b); nra.
  - assert (a <> 0) by (intros ->; rewrite Rmult_0_l in Hab; lra). assert (a < 0) by lra. assert (b < 0) by nra. rewrite !Rabs_left by nra. unfold Rmin. destruct (Rle_dec (- a) (- b)); nra.
Qed.

Theorem sdevice_line_integral n b cb q (x y p : list R) : length x = n -> length y = n -> length p = n ->
  (sp_eff q = 1 \/ same_side x y) ->
  is_RInt (fun t => dot (leaf_deriv (Build_leafdev n b cb (KS q)) (seg x y t) p) (vsub y x)) 0 1
          (leaf_cost (Build_leafdev n b cb (KS q)) y p - leaf_cost (Build_leafdev n b cb (KS q)) x p).
Proof.
  intros Lx Ly Lp Hs.
  assert (Lyx : length y = length x) by lia.
  set (r := if Req_EM_T (sp_eff q) 1 then 1 else Rmin (minabs x) (minabs y)).
  assert (Hoff : forall t, 0 <= t <= 1 -> forall z, vnear (seg x y t) z r -> off_kink (sp_eff q) z).
  { intros t Ht z [Lz Hz]. unfold r in *. destruct (Req_EM_T (sp_eff q) 1) as [E|NE]; [now left|].
    destruct Hs as [E|Hss]; [contradiction|]. right. intros k Hk.
    rewrite Lz, seg_length in Hk by exact Lyx. rewrite seg_length in Hz by exact Lyx. specialize (Hz k Hk).
    rewrite seg_nth in Hz by auto.
    pose proof (seg_entry_bound (nth k x 0) (nth k y 0) t (Hss k Hk) Ht) as Hb.
    pose proof (minabs_le x k Hk). pose proof (minabs_le y k ltac:(lia)).
    assert (Rmin (minabs x) (minabs y) <= Rmin (Rabs (nth k x 0)) (Rabs (nth k y 0))).
    { apply Rmin_glb; [eapply Rle_trans; [apply Rmin_l|auto]|eapply Rle_trans; [apply Rmin_r|auto]]. }
    intros E. rewrite E, Rminus_0_l, Rabs_Ropp in Hz. lra. }
  assert (Hr : 0 < r).
  { unfold r. destruct (Req_EM_T (sp_eff q) 1) as [E|NE]; [lra|]. destruct Hs as [E|Hss]; [contradiction|]. apply Rmin_pos; apply minabs_pos; intros k Hk E.
    - specialize (Hss k Hk). rewrite E in Hss. lra.
    - specialize (Hss k ltac:(lia)). rewrite E in Hss. lra. }
  apply (line_integral (fun s => leaf_cost (Build_leafdev n b cb (KS q)) s p) (fun s => leaf_deriv (Build_leafdev n b cb (KS q)) s p) x y r Lyx Hr).
  - intros t Ht z Hz. apply grad_sdevice; [rewrite (proj1 Hz), seg_length; lia|exact Lp|]. now apply (Hoff t Ht z).
  - intros t Ht. unfold leaf_deriv; cbn [ld_kind]. apply sdev_deriv_continuous. apply (Hoff t Ht).
    split; [reflexivity|]. intros i _. rewrite Rminus_diag_eq by reflexivity. now rewrite Rabs_R0.
  - intros t. unfold leaf_deriv; cbn [ld_kind]. unfold sdev_deriv. rewrite map_idx_length. now apply seg_length.
Qed.
