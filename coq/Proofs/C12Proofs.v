(* C12: no history of read-only calls changes what later calls observe, nor the caller's data.
   Invariant: the configuration cells never change, every cache is empty or holds what a fresh object would compute;
   proved for every call, lifted through fold_left.  Carrier-independent (no Reals, no axioms). *)
From Coq Require Import ZArith List Bool Arith Lia.
From DK Require Import Num Vec.
From DK.Model Require Import Leaf State.
Import ListNotations.

Section C12.
  Context {A : Type} `{Num A}.

  (* ---- list facts ---- *)
  Lemma map_upd_same {B C} (f : B -> C) (l : list B) p o o' :
    nth_error l p = Some o -> f o' = f o -> map f (upd l p o') = map f l.
  Proof.
    revert p; induction l as [|x l IH]; intros [|p] Hn Hf; cbn [nth_error upd map] in *; try discriminate.
    - inversion Hn; subst. now rewrite Hf.
    - f_equal. now apply IH.
  Qed.
  Lemma Forall_upd {B} (P : B -> Prop) (l : list B) p o' : List.Forall P l -> P o' -> List.Forall P (upd l p o').
  Proof.
    intros Hl Ho. revert p; induction Hl as [|x l Hx Hl IH]; intros [|p]; cbn [upd]; constructor; auto.
  Qed.
  Lemma nth_error_Forall {B} (P : B -> Prop) (l : list B) p o : List.Forall P l -> nth_error l p = Some o -> P o.
  Proof. intros Hl Hn. rewrite Forall_forall in Hl. apply Hl. eapply nth_error_In; eauto. Qed.

  (* ---- the invariant ---- *)
  Definition poly_ok (o : polyobj A) : Prop :=
    (po_d o = None \/ po_d o = Some (fresh_d o)) /\ (po_h o = None \/ po_h o = Some (fresh_h o)).
  Definition sus_ok (sc : scenario A) (t : list (nat * list (list A))) : Prop :=
    List.Forall (fun e => snd e = sus_value sc (fst e)) t.
  Definition pow_ok (t : list (nat * list (list A))) : Prop := List.Forall (fun e => snd e = pow_matrix (fst e)) t.
  Definition wf (sc : scenario A) (s : st A) : Prop :=
    List.Forall poly_ok (s_polys s) /\ sus_ok sc (s_sus s) /\ pow_ok (s_pow s).

  (* configuration: everything that is not a cache *)
  Definition poly_cfg (o : polyobj A) := (po_coeffs o, po_offs o).
  Definition cfg (s : st A) := (s_dicts s, s_adcons s, s_caller s, s_arrays s, map poly_cfg (s_polys s)).
  Definition Inv (sc : scenario A) (s0 s : st A) : Prop := wf sc s /\ cfg s = cfg s0.

  Lemma Inv_refl sc s : wf sc s -> Inv sc s s.
  Proof. intros; split; auto. Qed.

  (* ---- under the invariant, observations are a function of the configuration ---- *)
  Lemma eff_d_ok o : poly_ok o -> eff_d o = fresh_d o.
  Proof. intros [[Hd|Hd] _]; unfold eff_d; now rewrite Hd. Qed.
  Lemma eff_h_ok o : poly_ok o -> eff_h o = fresh_h o.
  Proof. intros [_ [Hh|Hh]]; unfold eff_h; now rewrite Hh. Qed.
  Definition cfg_view (c : list (list A) * option (list A)) := (fst c, snd c, map dcoeffs (fst c), map hcoeffs (fst c)).
  Lemma poly_view_ok o : poly_ok o -> poly_view o = cfg_view (poly_cfg o).
  Proof. intros Ho. unfold poly_view, cfg_view, poly_cfg. cbn [fst snd]. now rewrite eff_d_ok, eff_h_ok. Qed.
  Lemma poly_views_ok l : List.Forall poly_ok l -> map poly_view l = map cfg_view (map poly_cfg l).
  Proof. induction 1 as [|o l Ho Hl IH]; cbn [map]; [reflexivity|]. now rewrite poly_view_ok, IH. Qed.

  Lemma assoc_ok (P : nat -> list (list A)) t k m :
    List.Forall (fun e => snd e = P (fst e)) t -> assoc k t = Some m -> m = P k.
  Proof.
    intros Ht. unfold assoc. destruct (find (fun e => Nat.eqb (fst e) k) t) as [e|] eqn:E; [|discriminate].
    intros Hm; inversion Hm; subst. apply find_some in E. destruct E as [Hin Hk].
    apply Nat.eqb_eq in Hk. rewrite Forall_forall in Ht. rewrite (Ht e Hin). now rewrite Hk.
  Qed.
  Lemma lookup_sus_ok sc s k : sus_ok sc (s_sus s) -> lookup_sus sc s k = sus_value sc k.
  Proof.
    intros Hs. unfold lookup_sus. destruct (assoc k (s_sus s)) as [m|] eqn:E; [|reflexivity].
    apply (assoc_ok (sus_value sc) _ _ _ Hs E).
  Qed.
  Lemma lookup_pow_ok (s : st A) l : pow_ok (s_pow s) -> lookup_pow s l = pow_matrix l.
  Proof.
    intros Hs. unfold lookup_pow. destruct (assoc l (s_pow s)) as [m|] eqn:E; [|reflexivity].
    apply (assoc_ok pow_matrix _ _ _ Hs E).
  Qed.

  Definition cfg_fingerprint (sc : scenario A) (c : list cdict * list (list nat) * list (list nat) * list (list A) *
                                                   list (list (list A) * option (list A))) :=
    let '(d, a, cl, ar, ps) := c in
    (d, a, cl, ar, map cfg_view ps, map (sus_value sc) (seq 0 (length (sc_keys sc))),
     map (fun kl : A * nat => pow_matrix (A:=A) (snd kl)) (sc_keys sc)).

  Lemma fingerprint_cfg sc s : wf sc s -> fingerprint sc s = cfg_fingerprint sc (cfg s).
  Proof.
    intros (Hp & Hs & Hw). unfold fingerprint, cfg_fingerprint, cfg.
    rewrite (poly_views_ok _ Hp).
    rewrite (map_ext (lookup_sus sc s) (sus_value sc)) by (intros; now apply lookup_sus_ok).
    rewrite (map_ext (fun kl => lookup_pow s (snd kl)) (fun kl => pow_matrix (snd kl))) by (intros; now apply lookup_pow_ok).
    reflexivity.
  Qed.

  (* ---- every primitive write keeps the invariant ---- *)
  Definition keeps (sc : scenario A) {X} (f : st A -> X -> st A * list event) : Prop :=
    forall s x, wf sc s -> wf sc (fst (f s x)) /\ cfg (fst (f s x)) = cfg s.

  Lemma fill_d_keeps sc : keeps sc fill_d.
  Proof.
    intros s p (Hp & Hs & Hw). unfold fill_d.
    destruct (nth_error (s_polys s) p) as [o|] eqn:E; [|repeat split; auto].
    destruct (po_d o) as [c|] eqn:Ed; [repeat split; auto|]. cbn [fst].
    pose proof (nth_error_Forall _ _ _ _ Hp E) as [_ Hh].
    split.
    - repeat split; auto. cbn [with_polys s_polys]. apply Forall_upd; auto.
      split; cbn [po_d po_h po_coeffs]; [right; reflexivity|exact Hh].
    - unfold cfg. cbn [with_polys s_dicts s_adcons s_caller s_arrays s_polys].
      now rewrite (map_upd_same poly_cfg _ _ _ _ E).
  Qed.
  Lemma fill_h_keeps sc : keeps sc fill_h.
  Proof.
    intros s p (Hp & Hs & Hw). unfold fill_h.
    destruct (nth_error (s_polys s) p) as [o|] eqn:E; [|repeat split; auto].
    destruct (po_h o) as [c|] eqn:Ed; [repeat split; auto|]. cbn [fst].
    pose proof (nth_error_Forall _ _ _ _ Hp E) as [Hd _].
    split.
    - repeat split; auto. cbn [with_polys s_polys]. apply Forall_upd; auto.
      split; cbn [po_d po_h po_coeffs]; [exact Hd|right; reflexivity].
    - unfold cfg. cbn [with_polys s_dicts s_adcons s_caller s_arrays s_polys].
      now rewrite (map_upd_same poly_cfg _ _ _ _ E).
  Qed.
  Lemma touch_pow_keeps sc : keeps sc touch_pow.
  Proof.
    intros s l (Hp & Hs & Hw). unfold touch_pow. destruct (assoc l (s_pow s)); [repeat split; auto|].
    cbn [fst]. split; [|reflexivity]. repeat split; auto. cbn [with_lru s_pow]. constructor; auto.
  Qed.
  Lemma touch_sus_keeps sc : keeps sc (touch_sus sc).
  Proof.
    intros s k Hwf. unfold touch_sus. destruct (assoc k (s_sus s)); [destruct Hwf as (?&?&?); repeat split; auto|].
    destruct (key_of sc k) as [a l].
    assert (G : forall s1 : st A * list event, wf sc (fst s1) /\ cfg (fst s1) = cfg s ->
                wf sc (fst (let '(s1', e1) := s1 in (with_lru s1' ((k, sus_value sc k) :: s_sus s1') (s_pow s1'), e1 ++ [EFillSus k])))
                /\ cfg (fst (let '(s1', e1) := s1 in (with_lru s1' ((k, sus_value sc k) :: s_sus s1') (s_pow s1'), e1 ++ [EFillSus k]))) = cfg s).
    { intros [s1 e1] [(Hp & Hs & Hw) Hc]. cbn [fst] in *. split; [|exact Hc].
      repeat split; auto. cbn [with_lru s_sus]. constructor; auto. }
    destruct (neqb a n1).
    - apply (G (s, [])). split; auto.
    - apply G. apply (touch_pow_keeps sc s l Hwf).
  Qed.

  Lemma thread_keeps sc {X} (f : st A -> X -> st A * list event) : keeps sc f ->
    forall xs s, wf sc s -> wf sc (fst (thread f xs s)) /\ cfg (fst (thread f xs s)) = cfg s.
  Proof.
    intros Hf xs. induction xs as [|x xs IH]; intros s Hwf; cbn [thread]; [split; auto|].
    destruct (f s x) as [s1 e1] eqn:E1. destruct (Hf s x Hwf) as [W1 C1]. rewrite E1 in W1, C1. cbn [fst] in *.
    destruct (thread f xs s1) as [s2 e2] eqn:E2. destruct (IH s1 W1) as [W2 C2]. rewrite E2 in W2, C2. cbn [fst] in *.
    split; [exact W2|congruence].
  Qed.

  Lemma seq2_keeps sc (f g : st A -> st A * list event) s :
    (forall s, wf sc s -> wf sc (fst (f s)) /\ cfg (fst (f s)) = cfg s) ->
    (forall s, wf sc s -> wf sc (fst (g s)) /\ cfg (fst (g s)) = cfg s) ->
    wf sc s ->
    wf sc (fst (let '(s1, e1) := f s in let '(s2, e2) := g s1 in (s2, e1 ++ e2))) /\
    cfg (fst (let '(s1, e1) := f s in let '(s2, e2) := g s1 in (s2, e1 ++ e2))) = cfg s.
  Proof.
    intros Hf Hg Hwf. destruct (f s) as [s1 e1] eqn:E1. destruct (Hf s Hwf) as [W1 C1]. rewrite E1 in W1, C1. cbn [fst] in *.
    destruct (g s1) as [s2 e2] eqn:E2. destruct (Hg s1 W1) as [W2 C2]. rewrite E2 in W2, C2. cbn [fst] in *.
    split; [exact W2|congruence].
  Qed.

  Lemma do_cost_keeps sc ni s : wf sc s -> wf sc (fst (do_cost sc ni s)) /\ cfg (fst (do_cost sc ni s)) = cfg s.
  Proof. intros. unfold do_cost. now apply (thread_keeps sc (touch_sus sc) (touch_sus_keeps sc)). Qed.
  Lemma do_deriv_keeps sc ni s : wf sc s -> wf sc (fst (do_deriv sc ni s)) /\ cfg (fst (do_deriv sc ni s)) = cfg s.
  Proof.
    intros Hwf. unfold do_deriv.
    apply (seq2_keeps sc (thread fill_d (ni_polys ni)) (thread (touch_sus sc) (ni_lru ni))); auto; intros s' Hs'.
    - now apply (thread_keeps sc fill_d (fill_d_keeps sc)).
    - now apply (thread_keeps sc (touch_sus sc) (touch_sus_keeps sc)).
  Qed.
  Lemma do_hess_keeps sc ni s : wf sc s -> wf sc (fst (do_hess sc ni s)) /\ cfg (fst (do_hess sc ni s)) = cfg s.
  Proof.
    intros Hwf. unfold do_hess.
    apply (seq2_keeps sc (thread fill_h (ni_polys ni)) (thread (touch_sus sc) (ni_lru ni))); auto; intros s' Hs'.
    - now apply (thread_keeps sc fill_h (fill_h_keeps sc)).
    - now apply (thread_keeps sc (touch_sus sc) (touch_sus_keeps sc)).
  Qed.

  (* every call *)
  Lemma step_keeps sc s o : wf sc s -> wf sc (fst (step sc s o)) /\ cfg (fst (step sc s o)) = cfg s.
  Proof.
    intros Hwf. unfold step. set (ni := nth (o_node o) (sc_nodes sc) empty_node).
    destruct (o_k o) as [| | | | |i|i| | | | |]; try (split; [exact Hwf|reflexivity]).
    - apply do_cost_keeps; auto.
    - apply do_deriv_keeps; auto.
    - apply do_hess_keeps; auto.
    - destruct (ni_fixed ni); [split; [exact Hwf|reflexivity]|].
      apply (seq2_keeps sc (do_cost sc ni) (do_deriv sc ni)); auto; intros; [apply do_cost_keeps|apply do_deriv_keeps]; auto.
    - cbn [fst]. destruct Hwf as (Hp & Hs & Hw). split; [|reflexivity]. repeat split; auto; constructor.
  Qed.

  Lemma step_Inv sc s0 s o : Inv sc s0 s -> Inv sc s0 (fst (step sc s o)).
  Proof. intros [Hwf Hc]. destruct (step_keeps sc s o Hwf) as [W C]. split; [exact W|congruence]. Qed.

  Lemma run_Inv sc s0 ops : forall s, Inv sc s0 s -> Inv sc s0 (run sc ops s).
  Proof.
    unfold run. induction ops as [|o ops IH]; intros s HI; cbn [fold_left]; [exact HI|].
    apply IH. now apply step_Inv.
  Qed.

  (* ---- main theorems ---- *)
  Theorem history_fingerprint sc init ops : wf sc init ->
    fingerprint sc (run sc ops init) = fingerprint sc init.
  Proof.
    intros Hwf. destruct (run_Inv sc init ops init (Inv_refl sc init Hwf)) as [W C].
    rewrite (fingerprint_cfg sc _ W), (fingerprint_cfg sc _ Hwf). now rewrite C.
  Qed.

  Theorem history_caller_data sc init ops : wf sc init -> caller_data (run sc ops init) = caller_data init.
  Proof.
    intros Hwf. destruct (run_Inv sc init ops init (Inv_refl sc init Hwf)) as [W C].
    unfold cfg in C. unfold caller_data. inversion C. reflexivity.
  Qed.

  Theorem history_wf sc init ops : wf sc init -> wf sc (run sc ops init).
  Proof. intros Hwf. apply (run_Inv sc init ops init (Inv_refl sc init Hwf)). Qed.

  (* the lru tables answer every key (not only the scenario's) as a fresh computation would *)
  Theorem history_lru_any_key sc init ops k l : wf sc init ->
    lookup_sus sc (run sc ops init) k = sus_value sc k /\ lookup_pow (run sc ops init) l = pow_matrix l.
  Proof.
    intros Hwf. destruct (history_wf sc init ops Hwf) as (_ & Hs & Hw). split; [now apply lookup_sus_ok|now apply lookup_pow_ok].
  Qed.

  (* a freshly constructed scenario (all caches empty, or filled by construction with fresh values) is well formed *)
  Lemma fresh_wf sc d a c ps ar :
    List.Forall (fun o => po_d o = None /\ po_h o = None) ps ->
    wf sc {| s_dicts := d; s_adcons := a; s_caller := c; s_polys := ps; s_sus := []; s_pow := []; s_arrays := ar |}.
  Proof.
    intros Hps. repeat split; cbn [s_polys s_sus s_pow]; try constructor.
    induction Hps as [|o ps [Hd Hh] _ IH]; constructor; auto. split; left; auto.
  Qed.

  (* trace and run agree on the final state *)
  Lemma trace_run sc ops : forall s, fst (trace sc ops s) = run sc ops s.
  Proof.
    unfold run. induction ops as [|o ops IH]; intros s; cbn [trace fold_left]; [reflexivity|].
    destruct (step sc s o) as [s1 e] eqn:E1. destruct (trace sc ops s1) as [s2 es] eqn:E2. cbn [fst].
    rewrite <- IH, E2. reflexivity.
  Qed.
End C12.

(* ---- concrete instances (carrier Q) ------------------------------------------------------------------------------- *)
From Coq Require Import QArith.
From DK Require Import NumQ.

(* a two-conduit adaptor (node 0) around an ADevice (node 1) whose f = Poly2D over 2 slots and which carries one user
   constraint dict (with a Jacobian); next to it a storage device (node 2) using the lru key (1/2, 2) *)
Definition ex_sc : scenario Q :=
  {| sc_nodes := [ {| ni_polys := [0%nat]; ni_lru := []; ni_fixed := false; ni_wrap := Some (0%nat, 2%nat, 2%nat) |};
                   {| ni_polys := [0%nat]; ni_lru := []; ni_fixed := false; ni_wrap := None |};
                   {| ni_polys := []; ni_lru := [0%nat]; ni_fixed := false; ni_wrap := None |} ];
     sc_keys := [(1 # 2, 2%nat)] |}.
Definition ex_init : st Q :=
  {| s_dicts := [ {| cd_eq := false; cd_fun := CBase 0; cd_jac := Some (CBase 1) |} ];
     s_adcons := [[0%nat]]; s_caller := [[0%nat]];
     s_polys := [ {| po_coeffs := [[1; 2; 3]; [0; 1; 1]]; po_offs := None; po_d := None; po_h := None |} ];
     s_sus := []; s_pow := []; s_arrays := [[0; 2; 0; 3]; [1 # 2; 1]] |}.
Definition ex_ops : list op :=
  [ {| o_node := 0; o_k := KReadCons |}; {| o_node := 1; o_k := KCallFun 0 |}; {| o_node := 0; o_k := KDeriv |};
    {| o_node := 2; o_k := KCost |}; {| o_node := 1; o_k := KHess |}; {| o_node := 0; o_k := KEvict |};
    {| o_node := 2; o_k := KSolve |}; {| o_node := 0; o_k := KReadCons |} ].

Lemma ex_wf : wf ex_sc ex_init.
Proof. apply fresh_wf. repeat constructor. Qed.
(* the history really fills caches (the theorem is not about a machine that never writes) *)
Lemma ex_writes : map (@length event) (snd (trace ex_sc ex_ops ex_init)) = [0; 0; 1; 2; 1; 1; 2; 0]%nat.
Proof. vm_compute. reflexivity. Qed.
Lemma ex_stateless : fingerprint ex_sc (run ex_sc ex_ops ex_init) = fingerprint ex_sc ex_init
                     /\ caller_data (run ex_sc ex_ops ex_init) = caller_data ex_init.
Proof. split; [apply history_fingerprint|apply history_caller_data]; exact ex_wf. Qed.

(* the pre-fix behaviour (reading the adaptor's constraints re-wraps the wrapped device's dicts in place) is representable and
   violates the statement: the model distinguishes the two *)
Definition run_old {A} `{Num A} (sc : scenario A) (ops : list op) (s : st A) : st A :=
  fold_left (fun s o => fst (step_old sc s o)) ops s.
Lemma old_readcons_breaks :
  exists ops, fingerprint ex_sc (run_old ex_sc ops ex_init) <> fingerprint ex_sc ex_init
              /\ caller_data (run_old ex_sc ops ex_init) <> caller_data ex_init.
Proof.
  exists [ {| o_node := 0; o_k := KReadCons |} ]. split; vm_compute; intro E; inversion E.
Qed.
