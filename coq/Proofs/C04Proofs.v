(* C04: set-level coupling constraints encode the documented aggregate limits. Over R, exact (tolerance 0), for
   every number of rows / slots / labels, every nesting depth (uses C02's composition of the constraint list). *)
From Coq Require Import ZArith Reals List Bool Arith Lia Lra String.
From DK Require Import Num NumR Vec.
From DK.Model Require Import Leaf Fn Dev Tree.
From DK.Proofs Require Import VecFacts RVec TreeFacts C02Proofs C03Proofs C06Tree.
Import ListNotations.
Local Open Scope R_scope.
#[local] Arguments l_rows {A L}. #[local] Arguments l_n {A L}. #[local] Arguments l_bounds {A L}.
#[local] Arguments l_cons {A L}.

(* ---- reading any exported constraint at tolerance 0 ---------------------------------------------------------- *)
Definition holds (c : con R) (x : list R) : Prop := if c_eq c then c_fun c x = 0 else 0 <= c_fun c x.
Lemma con_sat_holds c x : con_sat 0 c x = true <-> holds c x.
Proof. destruct c as [[|] f j]; unfold holds; cbn [c_eq c_fun]; [apply con_sat_eq|apply con_sat_ineq]. Qed.
Lemma sat_all_forall cs x : sat_all cs x <-> forall c, In c cs -> holds c x.
Proof. unfold sat_all. rewrite forallb_forall. split; intros Hall c Hc; apply con_sat_holds; auto. Qed.
Lemma sat_all_flat_map {B} (F : B -> list (con R)) l x : sat_all (flat_map F l) x <-> forall b, In b l -> sat_all (F b) x.
Proof.
  rewrite sat_all_forall. split.
  - intros Hall b Hb. apply sat_all_forall. intros c Hc. apply Hall. apply in_flat_map. eauto.
  - intros Hall c Hc. apply in_flat_map in Hc. destruct Hc as (b & Hb & Hc). specialize (Hall b Hb). rewrite sat_all_forall in Hall. auto.
Qed.
Lemma sat_all_map {B} (F : B -> con R) l x : sat_all (map F l) x <-> forall b, In b l -> holds (F b) x.
Proof.
  rewrite sat_all_forall. split.
  - intros Hall b Hb. apply Hall. now apply in_map.
  - intros Hall c Hc. apply in_map_iff in Hc. destruct Hc as (b & <- & Hb). auto.
Qed.
Lemma in_seq0 i n : In i (seq 0 n) <-> (i < n)%nat.
Proof. rewrite in_seq. lia. Qed.

(* ---- (1) aggregate bounds of a set ----------------------------------------------------------------------------- *)
(* in every slot the sum over all rows under the set lies within that slot's aggregate bounds *)
Definition agg_ok (b : list (R * R)) (Rw n : nat) (s : list R) : Prop :=
  forall i, (i < n)%nat -> lo b i <= slot_total Rw n i s <= hi b i.

Lemma sb_slot_sat Rw n b i s : sat_all (sb_slot_cons Rw n b i) s <-> lo b i <= slot_total Rw n i s <= hi b i.
Proof.
  unfold sb_slot_cons. numR. destruct (Reqb (lo b i) (hi b i)) eqn:E; [apply Reqb_true in E|apply Reqb_false in E];
    rewrite sat_all_forall; split.
  - intros Hall. specialize (Hall _ (or_introl eq_refl)). unfold holds in Hall. cbn [c_eq c_fun] in Hall. numR. lra.
  - intros Hb c [<-|[]]. unfold holds. cbn [c_eq c_fun]. numR. lra.
  - intros Hall. pose proof (Hall _ (or_introl eq_refl)) as H1. pose proof (Hall _ (or_intror (or_introl eq_refl))) as H2.
    unfold holds in H1, H2. cbn [c_eq c_fun] in H1, H2. numR. lra.
  - intros Hb c [<-|[<-|[]]]; unfold holds; cbn [c_eq c_fun]; numR; lra.
Qed.

Lemma sb_cons_sat Rw n b s : sat_all (sb_cons Rw n (Some b)) s <-> agg_ok b Rw n s.
Proof.
  unfold sb_cons, agg_ok. rewrite sat_all_flat_map. split; intros Hall i Hi.
  - apply sb_slot_sat. apply Hall. now apply in_seq0.
  - apply sb_slot_sat. apply Hall. now apply in_seq0.
Qed.
Lemma sb_cons_none_sat Rw n s : sat_all (sb_cons Rw n None) s <-> True.
Proof. unfold sb_cons. apply sat_all_nil. Qed.
Lemma agg_equal_when_low_is_high b Rw n s i : agg_ok b Rw n s -> (i < n)%nat -> lo b i = hi b i -> slot_total Rw n i s = lo b i.
Proof. intros Ha Hi E. specialize (Ha i Hi). lra. Qed.

(* ---- (2) sub-balanced sets --------------------------------------------------------------------------------------- *)
Definition group_total (Rw n : nat) (set : list nat) (i : nat) (s : list R) : R :=
  vsum (vmul (col i (reshape Rw n s)) (indicator Rw set)).
Definition balanced (is_eq : bool) (sign : R) (Rw n : nat) (set : list nat) (s : list R) : Prop :=
  forall i, (i < n)%nat -> if is_eq then sign * group_total Rw n set i s = 0 else 0 <= sign * group_total Rw n set i s.

Lemma label_cons_sat Rw n sets is_eq sign s :
  sat_all (label_cons Rw n sets is_eq sign) s <-> forall set, In set sets -> balanced is_eq sign Rw n set s.
Proof.
  unfold label_cons. rewrite sat_all_flat_map. split; intros Hall set Hset; specialize (Hall set Hset).
  - rewrite sat_all_map in Hall. intros i Hi. specialize (Hall i (proj2 (in_seq0 i n) Hi)). unfold holds in Hall. cbn [c_eq c_fun] in Hall.
    destruct is_eq; exact Hall.
  - rewrite sat_all_map. intros i Hi. apply in_seq0 in Hi. specialize (Hall i Hi). unfold holds. cbn [c_eq c_fun]. destruct is_eq; exact Hall.
Qed.

(* which rows a label set holds: exactly the rows whose qualified id ends with the label *)
Lemma label_rows_from_mem label labs : forall a k,
  existsb (Nat.eqb k) (map fst (filter (fun kv : nat * string => ends_with (snd kv) label) (combine (seq a (List.length labs)) labs)))
  = if (a <=? k)%nat && (k <? a + List.length labs)%nat then ends_with (nth (k - a) labs ""%string) label else false.
Proof.
  induction labs as [|lab labs IH]; intros a k; cbn [List.length seq combine filter map existsb snd].
  - destruct (a <=? k)%nat eqn:E1; cbn [andb]; [|reflexivity]. replace (a + 0)%nat with a by lia.
    apply Nat.leb_le in E1. destruct (k <? a)%nat eqn:E2; [apply Nat.ltb_lt in E2; lia|reflexivity].
  - destruct (Nat.eq_dec k a) as [->|Hne].
    + rewrite Nat.leb_refl. replace (a <? a + S (List.length labs))%nat with true by (symmetry; apply Nat.ltb_lt; lia).
      rewrite Nat.sub_diag. cbn [andb nth]. destruct (ends_with lab label) eqn:E; cbn [map existsb fst].
      * now rewrite Nat.eqb_refl.
      * rewrite IH. replace (S a <=? a)%nat with false by (symmetry; apply Nat.leb_gt; lia). reflexivity.
    + assert (E : existsb (Nat.eqb k) (map fst (if ends_with lab label then (a, lab) :: filter (fun kv : nat * string => ends_with (snd kv) label) (combine (seq (S a) (List.length labs)) labs)
                                                else filter (fun kv : nat * string => ends_with (snd kv) label) (combine (seq (S a) (List.length labs)) labs)))
                  = existsb (Nat.eqb k) (map fst (filter (fun kv : nat * string => ends_with (snd kv) label) (combine (seq (S a) (List.length labs)) labs)))).
      { destruct (ends_with lab label); [|reflexivity]. cbn [map existsb fst]. replace (k =? a)%nat with false by (symmetry; apply Nat.eqb_neq; lia). reflexivity. }
      rewrite E, IH. destruct (Nat.le_gt_cases a k) as [Hle|Hgt].
      * assert (Hlt : (S a <= k)%nat) by lia. replace (S a <=? k)%nat with true by (symmetry; apply Nat.leb_le; lia).
        replace (a <=? k)%nat with true by (symmetry; apply Nat.leb_le; lia).
        replace (a + S (List.length labs))%nat with (S a + List.length labs)%nat by lia.
        destruct (k <? S a + List.length labs)%nat; cbn [andb]; [|reflexivity].
        replace (k - a)%nat with (S (k - S a)) by lia. reflexivity.
      * replace (S a <=? k)%nat with false by (symmetry; apply Nat.leb_gt; lia).
        replace (a <=? k)%nat with false by (symmetry; apply Nat.leb_gt; lia). reflexivity.
Qed.

Lemma label_rows_mem labs label k : (k < List.length labs)%nat ->
  existsb (Nat.eqb k) (label_rows labs label) = ends_with (nth k labs ""%string) label.
Proof.
  intros Hk. unfold label_rows. rewrite label_rows_from_mem. cbn [Nat.leb andb].
  replace (k <? 0 + List.length labs)%nat with true by (symmetry; apply Nat.ltb_lt; lia). now rewrite Nat.sub_0_r.
Qed.

(* the weighted column sum is the sum of the selected rows' entries *)
Lemma selected_sum (M : list (list R)) i (sel : nat -> bool) : forall a,
  vsum (vmul (col i M) (map (fun r => if sel r then 1 else 0) (seq a (List.length M))))
  = vsum (map (fun kr => if sel (fst kr) then nth i (snd kr) 0 else 0) (combine (seq a (List.length M)) M)).
Proof.
  induction M as [|row M IH]; intros a; [reflexivity|].
  cbn [List.length seq map col combine fst snd]. unfold vmul in *. cbn [map2]. rewrite !vsum_cons. fold (col i M). rewrite IH.
  f_equal. numR. destruct (sel a); lra.
Qed.

Lemma group_total_rows Rw n set i s : (0 < n)%nat -> List.length s = (Rw * n)%nat ->
  group_total Rw n set i s
  = vsum (map (fun kr => if existsb (Nat.eqb (fst kr)) set then nth i (snd kr) 0 else 0) (combine (seq 0 Rw) (reshape Rw n s))).
Proof.
  intros Hn Hs. unfold group_total, indicator. numR.
  assert (HL : List.length (reshape Rw n s) = Rw) by (unfold reshape; now apply chunk_length).
  set (M := reshape Rw n s) in *. rewrite <- HL. apply (selected_sum M i (fun r => existsb (Nat.eqb r) set) 0).
Qed.

(* with unique qualified ids, one per row: the set of a label sums exactly the rows whose id ends with the label *)
Lemma group_total_label Rw n labs label i s : (0 < n)%nat -> List.length s = (Rw * n)%nat -> List.length labs = Rw ->
  group_total Rw n (label_rows labs label) i s
  = vsum (map (fun lr => if ends_with (fst lr) label then nth i (snd lr) 0 else 0) (combine labs (reshape Rw n s))).
Proof.
  intros Hn Hs HL. rewrite group_total_rows by auto.
  assert (HM : List.length (reshape Rw n s) = Rw) by (unfold reshape; now apply chunk_length).
  revert HM. generalize (reshape Rw n s). intros M HM. subst Rw.
  assert (G : forall a (ls : list string) (M : list (list R)), List.length M = List.length ls ->
            (forall k, (k < List.length ls)%nat -> existsb (Nat.eqb (a + k)) (label_rows labs label) = ends_with (nth k ls ""%string) label) ->
            vsum (map (fun kr => if existsb (Nat.eqb (fst kr)) (label_rows labs label) then nth i (snd kr) 0 else 0) (combine (seq a (List.length ls)) M))
            = vsum (map (fun lr => if ends_with (fst lr) label then nth i (snd lr) 0 else 0) (combine ls M))).
  { intros a ls. revert a. induction ls as [|l ls IH]; intros a M0 HM0 Hmem; [reflexivity|].
    destruct M0 as [|row M0]; [discriminate|]. cbn [List.length seq combine map fst snd]. rewrite !vsum_cons.
    rewrite (IH (S a) M0).
    - f_equal. specialize (Hmem 0%nat (Nat.lt_0_succ _)). rewrite Nat.add_0_r in Hmem. rewrite Hmem. reflexivity.
    - simpl in HM0. lia.
    - intros k Hk. replace (S a + k)%nat with (a + S k)%nat by lia. rewrite Hmem by (simpl; lia). reflexivity. }
  apply (G 0%nat labs M HM). intros k Hk. apply label_rows_mem. exact Hk.
Qed.

(* ---- (3) two-ratio adaptor --------------------------------------------------------------------------------------- *)
Definition ratio_ok (is_eq : bool) (ratios : R * R) (Rw n : nat) (s : list R) : Prop :=
  forall i, (i < n)%nat ->
    let x0 := nth i (nth 0 (reshape Rw n s) []) 0 in let x1 := nth i (nth 1 (reshape Rw n s) []) 0 in
    if is_eq then x0 * fst ratios = x1 * snd ratios else x1 * snd ratios <= x0 * fst ratios.
Lemma ratio_cons_sat Rw n ratios is_eq s : sat_all (ratio_cons Rw n ratios is_eq) s <-> ratio_ok is_eq ratios Rw n s.
Proof.
  unfold ratio_cons, ratio_ok. rewrite sat_all_map. split; intros Hall i Hi.
  - specialize (Hall i (proj2 (in_seq0 i n) Hi)). unfold holds in Hall. cbn [c_eq c_fun] in Hall. cbn zeta in *. numR. destruct is_eq; lra.
  - apply in_seq0 in Hi. specialize (Hall i Hi). unfold holds. cbn [c_eq c_fun]. cbn zeta in *. numR. destruct is_eq; lra.
Qed.

(* ---- (4) multi-flow adaptor: the slot-wise total obeys the wrapped device's bounds and constraints ---------------- *)
Section MF.
  Context {L : Type}.
  Variable ops : leafops R L.

  Definition total_ok (l : L) (t : list R) : Prop :=
    (forall i, (i < l_n ops l)%nat -> lo (l_bounds ops l) i <= nth i t 0 <= hi (l_bounds ops l) i) /\ sat_all (l_cons ops l) t.

  Lemma mf_cons_sat l k s : List.length s = (k * l_n ops l)%nat ->
    sat_all (mf_cons ops l k) s <-> total_ok l (colsum (l_n ops l) (reshape k (l_n ops l) s)).
  Proof.
    intros Hs. unfold mf_cons, total_ok. cbn zeta. rewrite sat_all_app, sb_cons_sat. unfold agg_ok.
    fold (tot k (l_n ops l) s).
    assert (E1 : (forall i, (i < l_n ops l)%nat -> lo (l_bounds ops l) i <= slot_total k (l_n ops l) i s <= hi (l_bounds ops l) i)
                 <-> (forall i, (i < l_n ops l)%nat -> lo (l_bounds ops l) i <= nth i (tot k (l_n ops l) s) 0 <= hi (l_bounds ops l) i)).
    { split; intros Hall i Hi; specialize (Hall i Hi); [rewrite nth_tot by auto|rewrite nth_tot in Hall by auto]; exact Hall. }
    assert (E2 : sat_all (map (mf_wrap k (l_n ops l)) (l_cons ops l)) s <-> sat_all (l_cons ops l) (tot k (l_n ops l) s)).
    { rewrite sat_all_map, sat_all_forall. split; intros Hall c Hc; specialize (Hall c Hc); unfold holds in *; cbn [mf_wrap c_eq c_fun] in *; exact Hall. }
    tauto.
  Qed.

  (* ---- what each node's own constraint list means, on the node's own block of the flow --------------------------- *)
  Definition opt_agg_ok (sb : option (list (R * R))) Rw n s : Prop :=
    match sb with None => True | Some b => agg_ok b Rw n s end.
  Definition node_spec (nd : gdev R L) (s : list R) : Prop :=
    let Rw := rows ops nd in let n := dlen ops nd in
    match nd with
    | Leaf _ l => sat_all (l_cons ops l) s
    | DSet _ _ sb => opt_agg_ok sb Rw n s
    | SubBal _ _ sb lbls is_eq sign rem =>
        opt_agg_ok sb Rw n s /\
        forall set, In set (balance_sets (dedup (labels ops nd)) lbls rem) -> balanced is_eq sign Rw n set s
    | MF _ l fl => total_ok l (colsum n (reshape Rw n s))
    | TwoRatio _ l fl ratios is_eq => total_ok l (colsum n (reshape Rw n s)) /\ ratio_ok is_eq ratios Rw n s
    end.

  Lemma opt_sb_sat Rw n sb s : sat_all (sb_cons Rw n sb) s <-> opt_agg_ok sb Rw n s.
  Proof. destruct sb; [apply sb_cons_sat|apply sb_cons_none_sat]. Qed.

  Lemma node_cons_spec nd s : List.length s = (rows ops nd * dlen ops nd)%nat ->
    sat_all (node_cons ops nd) s <-> node_spec nd s.
  Proof.
    intros Hs. destruct nd as [i l|i ks sb|i ks sb lb e sg rm|i l fl|i l fl r e]; unfold node_spec; cbn zeta.
    - reflexivity.
    - cbn [node_cons own_cons]. apply opt_sb_sat.
    - cbn [node_cons own_cons]. rewrite sat_all_app, opt_sb_sat, label_cons_sat. reflexivity.
    - cbn [node_cons own_cons]. apply mf_cons_sat. exact Hs.
    - cbn [node_cons own_cons]. rewrite sat_all_app, ratio_cons_sat. cbn [rows dlen] in *. rewrite mf_cons_sat by exact Hs. reflexivity.
  Qed.

  (* ---- (5) the whole tree: every nesting depth simultaneously ------------------------------------------------------ *)
  Lemma equiv_sat N cs cs' s : List.Forall2 (con_equiv_on N) cs cs' -> List.length s = N -> (sat_all cs s <-> sat_all cs' s).
  Proof.
    intros HF Hs. induction HF as [|c c' cs cs' (E & F & _) _ IH]; [reflexivity|].
    change (c :: cs) with ([c] ++ cs). change (c' :: cs') with ([c'] ++ cs'). rewrite !sat_all_app, IH.
    assert (G : sat_all [c] s <-> sat_all [c'] s).
    { rewrite !sat_all_forall. split; intros Hall x [<-|[]]; [specialize (Hall c (or_introl eq_refl))|specialize (Hall c' (or_introl eq_refl))];
        unfold holds in *; rewrite ?E, ?F in * by exact Hs; exact Hall. }
    tauto.
  Qed.

  Definition block (n o r : nat) (s : list R) : list R := firstn (r * n) (skipn (o * n) s).

  Lemma placed_sat Rw n nds s :
    sat_all (placed ops Rw n nds) s <-> forall ond, In ond nds -> sat_all (node_cons ops (snd ond)) (block n (fst ond) (rows ops (snd ond)) s).
  Proof.
    unfold placed. rewrite <- flat_map_concat_map, sat_all_flat_map. split; intros Hall ond Hin; specialize (Hall ond Hin).
    - rewrite sat_all_map in Hall. apply sat_all_forall. intros c Hc. specialize (Hall c Hc). unfold holds in *. cbn [on_rows c_eq c_fun] in Hall. exact Hall.
    - rewrite sat_all_map. intros c Hc. rewrite sat_all_forall in Hall. specialize (Hall c Hc). unfold holds in *. cbn [on_rows c_eq c_fun]. exact Hall.
  Qed.

  Lemma tree_sat d s : wf_len ops d -> List.length s = (rows ops d * dlen ops d)%nat ->
    sat_all (gcons ops d) s <->
    forall ond, In ond (nodes_post ops 0 d) -> sat_all (node_cons ops (snd ond)) (block (dlen ops d) (fst ond) (rows ops (snd ond)) s).
  Proof.
    intros Hw Hs. rewrite (equiv_sat _ _ _ s (cons_compose_root ops d Hw) Hs). apply placed_sat.
  Qed.

  (* every node of a well-formed tree has the root's horizon and lies inside the root's rows *)
  Lemma nodes_inside d : wf_len ops d -> forall o ond, In ond (nodes_post ops o d) ->
    dlen ops (snd ond) = dlen ops d /\ (o <= fst ond)%nat /\ (fst ond + rows ops (snd ond) <= o + rows ops d)%nat.
  Proof.
    induction d as [i l|i ks sb IH|i ks sb lb e sg rm IH|i l fl|i l fl r e] using gdev_induction; intros Hw o ond Hin;
      try (cbn [nodes_post] in Hin; destruct Hin as [<-|[]]; cbn [fst snd]; repeat split; lia).
    - rewrite nodes_kids in Hin. apply in_app_or in Hin. destruct Hin as [Hin|[<-|[]]]; [|cbn [fst snd]; repeat split; lia].
      pose proof (wf_len_kids ops _ _ _ Hw) as Hk. rewrite rows_kids. set (n := dlen ops (DSet i ks sb)) in *. clearbody n. clear Hw.
      revert o Hin. induction IH as [|k ks Hkk _ IHks]; intros o Hin; cbn [kids_nodes kids_rows] in *; [destruct Hin|].
      inversion Hk as [|? ? [Hn Hwk] Hk']; subst. apply in_app_or in Hin. destruct Hin as [Hin|Hin].
      + destruct (Hkk Hwk o ond Hin) as (E1 & E2 & E3). repeat split; [congruence|lia|lia].
      + destruct (IHks Hk' (o + rows ops k)%nat Hin) as (E1 & E2 & E3). repeat split; [congruence|lia|lia].
    - rewrite nodes_kids_sub in Hin. apply in_app_or in Hin. destruct Hin as [Hin|[<-|[]]]; [|cbn [fst snd]; repeat split; lia].
      pose proof (wf_len_kids_sub ops _ _ _ _ _ _ _ Hw) as Hk. cbn zeta in Hk. rewrite rows_kids_sub. set (n := dlen ops (SubBal i ks sb lb e sg rm)) in *. clearbody n. clear Hw.
      revert o Hin. induction IH as [|k ks Hkk _ IHks]; intros o Hin; cbn [kids_nodes kids_rows] in *; [destruct Hin|].
      inversion Hk as [|? ? [Hn Hwk] Hk']; subst. apply in_app_or in Hin. destruct Hin as [Hin|Hin].
      + destruct (Hkk Hwk o ond Hin) as (E1 & E2 & E3). repeat split; [congruence|lia|lia].
      + destruct (IHks Hk' (o + rows ops k)%nat Hin) as (E1 & E2 & E3). repeat split; [congruence|lia|lia].
  Qed.

  Lemma block_length n o r (s : list R) Rw : List.length s = (Rw * n)%nat -> (o + r <= Rw)%nat -> List.length (block n o r s) = (r * n)%nat.
  Proof. intros Hs Hle. unfold block. rewrite firstn_length, skipn_length. nia. Qed.

  Theorem tree_spec d s : wf_len ops d -> List.length s = (rows ops d * dlen ops d)%nat ->
    sat_all (gcons ops d) s <->
    forall ond, In ond (nodes_post ops 0 d) -> node_spec (snd ond) (block (dlen ops d) (fst ond) (rows ops (snd ond)) s).
  Proof.
    intros Hw Hs. rewrite tree_sat by auto. split; intros Hall ond Hin; specialize (Hall ond Hin);
      destruct (nodes_inside d Hw 0%nat ond Hin) as (E1 & E2 & E3).
    - apply node_cons_spec; [|exact Hall]. rewrite E1. apply block_length with (Rw := rows ops d); auto.
    - apply node_cons_spec in Hall; [exact Hall|]. rewrite E1. apply block_length with (Rw := rows ops d); auto.
  Qed.
End MF.

(* non-vacuity: a set with aggregate bounds [1,2] in slot 0 and exactly 3 in slot 1 over two rows *)
Lemma example_agg : agg_ok [(1, 2); (3, 3)] 2 2 [1; 1; 1/2; 2] /\ ~ agg_ok [(1, 2); (3, 3)] 2 2 [1; 1; 1/2; 1].
Proof.
  assert (T0 : forall a b c d, slot_total 2 2 0 [a; b; c; d] = a + (c + 0)) by reflexivity.
  assert (T1 : forall a b c d, slot_total 2 2 1 [a; b; c; d] = b + (d + 0)) by reflexivity.
  split.
  - intros [|[|i]] Hi; [rewrite T0|rewrite T1|lia]; unfold lo, hi; cbn [nth fst snd]; lra.
  - intros Ha. specialize (Ha 1%nat (Nat.lt_succ_diag_r 1)). rewrite T1 in Ha. unfold lo, hi in Ha. cbn [nth fst snd] in Ha. lra.
Qed.
